module gtverif/inventory

go 1.23
