// inventory — scans /repo's pipeline sources (go/ast) and emits the stage descriptors of the
// massive-mode pipeline as a Coq file (Conc/Instance.v) and as JSON.  This is the one place
// where the model is GENERATED from the source: which sends are guarded by the context, how
// error sends are written, worker counts, error-channel capacities, who returns after an
// error, where the mutex is.
package main

import (
	"encoding/json"
	"fmt"
	"go/ast"
	"go/parser"
	"go/token"
	"os"
	"path/filepath"
	"sort"
	"strconv"
	"strings"
)

type fn struct {
	Name          string `json:"name"`
	File          string `json:"file"`
	ErrSendsRaw   int    `json:"err_sends_raw"`     // `errc <- x` outside a select on ctx.Done()
	ErrSendsGuard int    `json:"err_sends_guarded"` // sendErr(ctx, errc, x) or select { case errc <- x: case <-ctx.Done(): }
	ExitsOnErr    bool   `json:"exits_on_err"`      // every error send is followed by return
	OutSends      int    `json:"out_sends"`
	OutGuarded    bool   `json:"out_guarded"`
	InRecvs       int    `json:"in_recvs"`
	InGuarded     bool   `json:"in_guarded"`
	Locks         int    `json:"locks"`
	Workers       string `json:"workers"` // name of the worker-count constant, if the function starts a pool
	// closing discipline of a goroutine literal: every close(ch) sits in a deferred function (so it runs when the
	// goroutine returns, i.e. for a pool after wg.Wait()), no close anywhere else; for a pool starter: wg.Wait()
	// is the last statement and every `go worker` is preceded by wg.Add
	ClosesDeferred int  `json:"closes_deferred"`
	ClosesInline   int  `json:"closes_inline"`
	WaitsLast      bool `json:"waits_last"`
}

// closeFacts inspects a goroutine literal's body.
func closeFacts(body *ast.BlockStmt) (deferred, inline int, waitsLast bool) {
	isClose := func(e ast.Expr) bool {
		c, ok := e.(*ast.CallExpr)
		if !ok {
			return false
		}
		id, ok := c.Fun.(*ast.Ident)
		return ok && id.Name == "close"
	}
	var inDefer func(n ast.Node) int
	inDefer = func(n ast.Node) int {
		k := 0
		ast.Inspect(n, func(x ast.Node) bool {
			if es, ok := x.(*ast.ExprStmt); ok && isClose(es.X) {
				k++
			}
			return true
		})
		return k
	}
	total := inDefer(body) // close(...) expression statements anywhere in the body, deferred function literals included
	inLits := 0
	for _, st := range body.List {
		if d, ok := st.(*ast.DeferStmt); ok {
			if fl, ok := d.Call.Fun.(*ast.FuncLit); ok {
				inLits += inDefer(fl.Body)
			} else if isClose(d.Call) {
				deferred++ // defer close(ch)
			}
		}
	}
	deferred += inLits
	inline = total - inLits
	if n := len(body.List); n > 0 {
		if es, ok := body.List[n-1].(*ast.ExprStmt); ok {
			if c, ok := es.X.(*ast.CallExpr); ok {
				if sel, ok := c.Fun.(*ast.SelectorExpr); ok && sel.Sel.Name == "Wait" {
					waitsLast = true
				}
			}
		}
	}
	return
}

// mainFacts inspects handlePipelineErr: after eg.Wait() the pipeline's context is cancelled and every
// error channel is drained until it is closed (D24), before the function returns.
type mainFactsT struct {
	WaitsReaders bool `json:"waits_readers"`
	CancelsAfter bool `json:"cancels_after_wait"`
	DrainsAfter  bool `json:"drains_after_cancel"`
}

func mainFacts(body *ast.BlockStmt) mainFactsT {
	var mf mainFactsT
	stage := 0 // 0: before eg.Wait, 1: after Wait, 2: after cancel()
	for _, st := range body.List {
		ast.Inspect(st, func(x ast.Node) bool {
			if c, ok := x.(*ast.CallExpr); ok {
				if sel, ok := c.Fun.(*ast.SelectorExpr); ok && sel.Sel.Name == "Wait" && stage == 0 {
					mf.WaitsReaders = true
					stage = 1
				}
				if id, ok := c.Fun.(*ast.Ident); ok && id.Name == "cancel" && stage == 1 {
					mf.CancelsAfter = true
					stage = 2
				}
			}
			return true
		})
		if rs, ok := st.(*ast.RangeStmt); ok && stage == 2 {
			// for _, ech := range echs { for range ech {} }
			if id, ok := rs.X.(*ast.Ident); ok && id.Name == "echs" {
				for _, in := range rs.Body.List {
					if inner, ok := in.(*ast.RangeStmt); ok && len(inner.Body.List) == 0 {
						mf.DrainsAfter = true
					}
				}
			}
		}
		if _, ok := st.(*ast.ReturnStmt); ok && stage < 2 {
			// an early return before the drain
			mf.DrainsAfter = false
		}
	}
	return mf
}

func isCtxDone(e ast.Expr) bool {
	// <-ctx.Done() / <-ectx.Done()
	u, ok := e.(*ast.UnaryExpr)
	if !ok || u.Op != token.ARROW {
		return false
	}
	c, ok := u.X.(*ast.CallExpr)
	if !ok {
		return false
	}
	s, ok := c.Fun.(*ast.SelectorExpr)
	return ok && s.Sel.Name == "Done"
}

func selectHasCtx(sel *ast.SelectStmt) bool {
	for _, c := range sel.Body.List {
		cc := c.(*ast.CommClause)
		switch st := cc.Comm.(type) {
		case *ast.ExprStmt:
			if isCtxDone(st.X) {
				return true
			}
		case *ast.AssignStmt:
			if len(st.Rhs) == 1 && isCtxDone(st.Rhs[0]) {
				return true
			}
		}
	}
	return false
}

func chanName(e ast.Expr) string {
	if id, ok := e.(*ast.Ident); ok {
		return id.Name
	}
	return "?"
}

func isErrChan(n string) bool { return strings.HasPrefix(n, "errc") }

// scanBody collects the facts of one goroutine body.
func scanBody(name, file string, body *ast.BlockStmt, consts map[string]int) fn {
	f := fn{Name: name, File: file, ExitsOnErr: true, OutGuarded: true, InGuarded: true}
	var walkBlock func(stmts []ast.Stmt, inCtxSelect bool)
	var walkStmt func(s ast.Stmt, inCtxSelect bool, next ast.Stmt)
	followedByReturn := func(next ast.Stmt) bool {
		_, ok := next.(*ast.ReturnStmt)
		return ok
	}
	walkStmt = func(s ast.Stmt, inCtxSelect bool, next ast.Stmt) {
		switch st := s.(type) {
		case *ast.SendStmt:
			n := chanName(st.Chan)
			if isErrChan(n) {
				if inCtxSelect {
					f.ErrSendsGuard++
				} else {
					f.ErrSendsRaw++
				}
				if !followedByReturn(next) {
					f.ExitsOnErr = false
				}
			} else {
				f.OutSends++
				if !inCtxSelect {
					f.OutGuarded = false
				}
			}
		case *ast.ExprStmt:
			if c, ok := st.X.(*ast.CallExpr); ok {
				if id, ok := c.Fun.(*ast.Ident); ok && id.Name == "sendErr" {
					f.ErrSendsGuard++
					if !followedByReturn(next) {
						f.ExitsOnErr = false
					}
				}
				if sel, ok := c.Fun.(*ast.SelectorExpr); ok && sel.Sel.Name == "Lock" {
					f.Locks++
				}
			}
		case *ast.SelectStmt:
			has := selectHasCtx(st)
			for _, c := range st.Body.List {
				cc := c.(*ast.CommClause)
				switch cm := cc.Comm.(type) {
				case *ast.SendStmt:
					var nx ast.Stmt
					if len(cc.Body) > 0 {
						nx = cc.Body[0]
					}
					walkStmt(cm, has, nx)
				case *ast.AssignStmt:
					if len(cm.Rhs) == 1 {
						if u, ok := cm.Rhs[0].(*ast.UnaryExpr); ok && u.Op == token.ARROW && !isCtxDone(cm.Rhs[0]) {
							n := chanName(u.X)
							if !isErrChan(n) && !strings.HasPrefix(n, "echs") {
								f.InRecvs++
								if !has {
									f.InGuarded = false
								}
							}
						}
					}
				}
				walkBlock(cc.Body, false)
			}
		case *ast.BlockStmt:
			walkBlock(st.List, false)
		case *ast.IfStmt:
			walkBlock(st.Body.List, false)
			if st.Else != nil {
				walkStmt(st.Else, false, nil)
			}
		case *ast.ForStmt:
			walkBlock(st.Body.List, false)
		case *ast.RangeStmt:
			if id, ok := st.X.(*ast.Ident); ok {
				if _, isConst := consts[id.Name]; isConst {
					f.Workers = id.Name
				}
			}
			walkBlock(st.Body.List, false)
		case *ast.LabeledStmt:
			walkStmt(st.Stmt, false, nil)
		case *ast.GoStmt:
			// nested goroutine bodies are scanned separately
		case *ast.DeferStmt:
		}
	}
	walkBlock = func(stmts []ast.Stmt, inCtxSelect bool) {
		for i, s := range stmts {
			var next ast.Stmt
			if i+1 < len(stmts) {
				next = stmts[i+1]
			}
			walkStmt(s, inCtxSelect, next)
		}
	}
	walkBlock(body.List, false)
	if f.ErrSendsRaw+f.ErrSendsGuard == 0 {
		f.ExitsOnErr = true
	}
	return f
}

func main() {
	repo := "/repo"
	if len(os.Args) > 1 {
		repo = os.Args[1]
	}
	files := []string{"input_spliter.go", "root_generator.go", "pipeline_tree.go", "pipeline_tree_grower.go",
		"pipeline_tree_spreader.go", "pipeline_tree_mkdirer.go", "pipeline_tree_verifier.go", "pipeline_tree_walker.go"}
	fset := token.NewFileSet()
	consts := map[string]int{}
	errCaps := map[string]string{} // function -> capacity expression of its error channel
	var fns []fn
	var mainF mainFactsT
	// per declared function: goroutine literals it contains, named goroutine bodies it starts
	// (`go recv.m(...)`, `go f(...)`) and the helpers it calls directly
	type startInfo struct{ lits, named, calls []string }
	starts := map[string]*startInfo{}
	for _, name := range files {
		af, err := parser.ParseFile(fset, filepath.Join(repo, name), nil, 0)
		if err != nil {
			fmt.Fprintln(os.Stderr, err)
			os.Exit(2)
		}
		for _, d := range af.Decls {
			if g, ok := d.(*ast.GenDecl); ok && g.Tok == token.CONST {
				for _, sp := range g.Specs {
					vs := sp.(*ast.ValueSpec)
					for i, n := range vs.Names {
						if i < len(vs.Values) {
							if bl, ok := vs.Values[i].(*ast.BasicLit); ok {
								v, _ := strconv.Atoi(bl.Value)
								consts[n.Name] = v
							}
						}
					}
				}
			}
		}
		for _, d := range af.Decls {
			fd, ok := d.(*ast.FuncDecl)
			if !ok || fd.Body == nil {
				continue
			}
			fname := fd.Name.Name
			if fd.Recv != nil && len(fd.Recv.List) > 0 {
				t := fd.Recv.List[0].Type
				if st, ok := t.(*ast.StarExpr); ok {
					t = st.X
				}
				if ix, ok := t.(*ast.IndexExpr); ok {
					t = ix.X
				}
				if id, ok := t.(*ast.Ident); ok {
					fname = id.Name + "." + fname
				}
			}
			if fd.Name.Name == "handlePipelineErr" {
				mainF = mainFacts(fd.Body)
			}
			// the function body itself (workers are ordinary methods)
			fns = append(fns, scanBody(fname, name, fd.Body, consts))
			recvName, recvType := "", ""
			if fd.Recv != nil && len(fd.Recv.List) > 0 && strings.Contains(fname, ".") {
				recvType = strings.SplitN(fname, ".", 2)[0]
				if len(fd.Recv.List[0].Names) > 0 {
					recvName = fd.Recv.List[0].Names[0].Name
				}
			}
			calleeName := func(e ast.Expr) string {
				switch c := e.(type) {
				case *ast.Ident:
					return c.Name
				case *ast.SelectorExpr:
					if id, ok := c.X.(*ast.Ident); ok && recvName != "" && id.Name == recvName {
						return recvType + "." + c.Sel.Name
					}
				}
				return ""
			}
			si := &startInfo{}
			starts[fname] = si
			goCalls := map[*ast.CallExpr]bool{}
			// goroutine literals started inside it
			k := 0
			ast.Inspect(fd.Body, func(n ast.Node) bool {
				switch x := n.(type) {
				case *ast.GoStmt:
					goCalls[x.Call] = true
					if fl, ok := x.Call.Fun.(*ast.FuncLit); ok {
						k++
						lf := scanBody(fmt.Sprintf("%s.go%d", fname, k), name, fl.Body, consts)
						lf.ClosesDeferred, lf.ClosesInline, lf.WaitsLast = closeFacts(fl.Body)
						fns = append(fns, lf)
						si.lits = append(si.lits, fmt.Sprintf("%s.go%d", fname, k))
					} else if n := calleeName(x.Call.Fun); n != "" {
						si.named = append(si.named, n)
					}
				case *ast.CallExpr:
					if !goCalls[x] {
						if n := calleeName(x.Fun); n != "" {
							si.calls = append(si.calls, n)
						}
					}
				case *ast.AssignStmt:
					// errc := make(chan error[, n])
					if len(x.Lhs) == 1 && len(x.Rhs) == 1 {
						if id, ok := x.Lhs[0].(*ast.Ident); ok && isErrChan(id.Name) {
							if c, ok := x.Rhs[0].(*ast.CallExpr); ok {
								if f, ok := c.Fun.(*ast.Ident); ok && f.Name == "make" {
									cp := "0"
									if len(c.Args) > 1 {
										if bl, ok := c.Args[1].(*ast.BasicLit); ok {
											cp = bl.Value
										}
									}
									errCaps[fname] = cp
								}
							}
						}
					}
				}
				return true
			})
		}
	}
	sort.Slice(fns, func(i, j int) bool { return fns[i].Name < fns[j].Name })
	// keep the functions that take part in the pipeline protocol
	var keep []fn
	for _, f := range fns {
		if f.ErrSendsRaw+f.ErrSendsGuard+f.OutSends+f.InRecvs+f.Locks > 0 || f.Workers != "" {
			keep = append(keep, f)
		}
	}
	out := map[string]any{"functions": keep, "constants": consts, "err_channel_capacity": errCaps, "main": mainF}
	js, _ := json.MarshalIndent(out, "", " ")
	if len(os.Args) > 2 {
		os.WriteFile(os.Args[2], js, 0o644)
	}
	// ---- Coq ----
	var b strings.Builder
	b.WriteString("(* Conc/Instance.v — GENERATED by harness/inventory from /repo's source. Do not edit. *)\n")
	b.WriteString("From Coq Require Import List String Bool.\nFrom GT Require Import Conc.Pipeline.\nImport ListNotations.\nOpen Scope string_scope.\n\n")
	b.WriteString("(* (goroutine body, raw error sends, guarded error sends, returns after every error send,\n    hand-over sends, all of them guarded, input receives, all of them guarded, mutex regions, worker-count constant) *)\n")
	b.WriteString("Definition inventory : list (string * nat * nat * bool * nat * bool * nat * bool * nat * string) := [\n")
	for i, f := range keep {
		sep := ";"
		if i == len(keep)-1 {
			sep = ""
		}
		b.WriteString(fmt.Sprintf("  (%q, %d, %d, %t, %d, %t, %d, %t, %d, %q)%s\n", f.Name, f.ErrSendsRaw, f.ErrSendsGuard, f.ExitsOnErr, f.OutSends, f.OutGuarded, f.InRecvs, f.InGuarded, f.Locks, f.Workers, sep))
	}
	b.WriteString("].\n\n")
	var cn []string
	for k := range consts {
		cn = append(cn, k)
	}
	sort.Strings(cn)
	b.WriteString("Definition constants : list (string * nat) := [\n")
	for i, k := range cn {
		sep := ";"
		if i == len(cn)-1 {
			sep = ""
		}
		b.WriteString(fmt.Sprintf("  (%q, %d)%s\n", k, consts[k], sep))
	}
	b.WriteString("].\n\n")
	var en []string
	for k := range errCaps {
		en = append(en, k)
	}
	sort.Strings(en)
	// goroutines an entry/stage function starts, directly or through the helpers it calls
	var closure func(f string, seen map[string]bool) (lits, named []string)
	closure = func(f string, seen map[string]bool) (lits, named []string) {
		si := starts[f]
		if si == nil || seen[f] {
			return nil, nil
		}
		seen[f] = true
		lits = append(lits, si.lits...)
		for _, n := range si.named {
			if starts[n] != nil {
				named = append(named, n)
			}
		}
		for _, c := range si.calls {
			l, n := closure(c, seen)
			lits = append(lits, l...)
			named = append(named, n...)
		}
		return
	}
	uniq := func(l []string) []string {
		sort.Strings(l)
		var o []string
		for i, x := range l {
			if i == 0 || x != l[i-1] {
				o = append(o, x)
			}
		}
		return o
	}
	qlist := func(l []string) string {
		q := make([]string, len(l))
		for i, x := range l {
			q[i] = strconv.Quote(x)
		}
		return "[" + strings.Join(q, "; ") + "]"
	}
	var sn []string
	for k := range starts {
		sn = append(sn, k)
	}
	sort.Strings(sn)
	b.WriteString("(* (function, goroutine literals it starts itself or through the helpers it calls, named goroutine bodies it starts) *)\n")
	b.WriteString("Definition starts : list (string * list string * list string) := [\n")
	first := true
	for _, k := range sn {
		l, n := closure(k, map[string]bool{})
		l, n = uniq(l), uniq(n)
		if len(l)+len(n) == 0 {
			continue
		}
		if !first {
			b.WriteString(";\n")
		}
		first = false
		b.WriteString(fmt.Sprintf("  (%q, %s, %s)", k, qlist(l), qlist(n)))
	}
	b.WriteString("\n].\n\n")
	b.WriteString("(* closing discipline of the goroutine literals: (literal, close calls inside deferred functions, close calls elsewhere,\n   the body ends with a Wait() call) *)\n")
	b.WriteString("Definition closing : list (string * nat * nat * bool) := [\n")
	firstc := true
	for _, f := range keep {
		if !strings.Contains(f.Name, ".go") {
			continue
		}
		if !firstc {
			b.WriteString(";\n")
		}
		firstc = false
		b.WriteString(fmt.Sprintf("  (%q, %d, %d, %t)", f.Name, f.ClosesDeferred, f.ClosesInline, f.WaitsLast))
	}
	b.WriteString("\n].\n\n")
	b.WriteString("(* handlePipelineErr: waits for the error readers, then cancels the pipeline's context, then drains every error\n   channel until it is closed, and only then returns *)\n")
	b.WriteString(fmt.Sprintf("Definition main_facts : bool * bool * bool := (%t, %t, %t).\n\n", mainF.WaitsReaders, mainF.CancelsAfter, mainF.DrainsAfter))
	b.WriteString("Definition err_channel_capacity : list (string * nat) := [\n")
	for i, k := range en {
		sep := ";"
		if i == len(en)-1 {
			sep = ""
		}
		b.WriteString(fmt.Sprintf("  (%q, %s)%s\n", k, errCaps[k], sep))
	}
	b.WriteString("].\n")
	fmt.Print(b.String())
}
