# C10 — massive mode is observationally the simple mode up to the order of roots.
from lib import *
from hist import *
from fsgen import *
from c05 import merged_items
from c09 import perm_match
from collections import Counter

RULE = ("documents (well-formed in every uniform heading-free spelling incl. blank lines and CRLF, and malformed with block-local "
        "malformations) x {text, JSON, YAML, dry-run, walk, mkdir, verify} x schedules perturbed by GOMAXPROCS in {1,2,4,16}, "
        "slow/yielding readers, writers and callbacks and seeded delays at the verifPoint hooks; the massive result is compared "
        "with the SIMPLE-mode result of the implementation: output = permutation of the per-root blocks (each contiguous and "
        "intact), same callback multiset with per-root order, same file system, same verdict, error iff error. Inputs of the "
        "known findings K1-K3 are run as well and reported as such. non-trivial = >= 2 roots")
ASSUMPTIONS = ["documents with # heading roots (K1), with blocks of differing indentation character or unit (K2) and mkdir into a "
               "target where only some roots exist or root names repeat (K3) are known findings: massive mode differs there"]

ENTRIES = ["out-d", "out-d", "out-j", "out-y", "out-dry", "walk", "mkdir", "verify"]


def split_roots(items):
    blocks, cur = [], []
    for d, n in items:
        if d == 1 and cur:
            blocks.append(cur)
            cur = []
        cur.append((d, n))
    if cur:
        blocks.append(cur)
    return blocks


def simple_case(entry, doc, exts, pre, strict):
    if entry == "out-d":
        return "out d 0 0 %s %s %s" % (bf_args(BF_DEFAULT), hxlist(exts), hx(doc))
    if entry == "out-j":
        return "out j 0 0 %s - %s" % (bf_args(BF_DEFAULT), hx(doc))
    if entry == "out-y":
        return "out y 0 0 %s - %s" % (bf_args(BF_DEFAULT), hx(doc))
    if entry == "out-dry":
        return "out d 1 0 %s %s %s" % (bf_args(BF_DEFAULT), hxlist(exts), hx(doc))
    if entry == "walk":
        return "walk %s - %s" % (bf_args(BF_DEFAULT), hx(doc))
    if entry == "mkdir":
        return "hist F,%s;m,0,%s,%s,-,-,-,-,%s" % (snap_arg(pre), exts_plus(exts), hx(b"tgt"), hx(doc))
    if entry == "verify":
        return "hist F,%s;v,%s,%s,%s" % (snap_arg(pre), strict, hx(b"tgt"), hx(doc))


HOOK_POINTS = ["feed.send", "gen.err", "gen.line", "gen.recv", "grow.err", "grow.recv", "herr.reader", "herr.start", "mkdir.err",
               "mkdir.recv", "split.err", "split.send", "spread.err", "spread.locked", "spread.recv", "verify.err", "verify.recv",
               "walk.err", "walk.recv"]


def directed_delay(rng, nlines=0):
    """a directed schedule: every visit of one hand-over point is delayed (the total added delay stays far below the
    call deadline: a point may be visited once per input line)"""
    us = rng.choice([200, 1000, 3000])
    if nlines > 100:
        us = max(1, min(us, 1000000 // nlines))
    return "d%s:%d" % (rng.choice(HOOK_POINTS), us)


def stage_docs(rng, tier):
    """documents for the splitter / generate-worker correspondence (model Conc/Splitter.v)"""
    docs = []
    n = 400 if tier == "quick" else 12000
    for _ in range(n):
        k = rng.random()
        if k < 0.45:
            items = gen_forest(rng, max_roots=6, max_nodes=14, max_depth=4)
            docs.append(spell(items, gen_spelling(rng, items)))
        elif k < 0.8:
            # line soup: every kind of row the splitter and the parser distinguish
            rows = []
            for _ in range(rng.randint(0, 12)):
                ind = rng.choice([b"", b"", b" ", b"  ", b"    ", b"\t", b"\t\t", b"   "])
                sym = rng.choice([b"- ", b"* ", b"+ ", b"# ", b"## ", b"-", b"#", b"", b"-  ", b"-\t", b"x ", b"--", b"- - "])
                txt = rng.choice([b"a", b"b c", b"", b" ", b"r/s", b"a\r", b"\xc3\xa9", b"- x", b"# y"])
                rows.append(ind + sym + txt)
            eol = rng.choice([b"\n", b"\n", b"\r\n", b"\r\r\n"])
            docs.append(eol.join(rows) + (eol if rng.random() < 0.7 else b""))
        else:
            items = gen_forest(rng, max_roots=4, max_nodes=10, max_depth=3)
            from c02 import inject
            sp = gen_spelling(rng, items)
            lines = [r for r, _, _ in spell_lines(items, sp)]
            if lines:
                new = inject(rng, lines, rng.randrange(len(lines)), rng.choice(["no_bullet", "empty_text", "jump", "non_multiple"]), sp["unit"])
                lines = new or lines
            docs.append(join_lines([(l, False, None) for l in lines], True))
    docs += [b"", b"\n", b"\n\n- a\n", b"- a", b"x\n- a\n", b"- a\r\r\n  - b\n", b"- a\n" + b"- " + b"x" * 65534 + b"\n- c\n",
             b"- a\n  - b\n" + b"- " + b"x" * 65535 + b"\n- c\n"]
    return docs


def stage_correspondence(ck, rng, exe):
    docs = stage_docs(rng, ck.tier)
    bf = bf_args(BF_DEFAULT)
    scases = ["msplit %s" % hx(d) for d in docs]
    si, _ = run_impl(exe, scases)
    sm = run_model(scases)
    broken = None
    blocks = []
    for i, d in enumerate(docs):
        ck.count("stage:split")
        if si[i] != sm[i]:
            broken = broken or (scases[i][:2000], si[i][:600], sm[i][:600])
            continue
        f = si[i].split(" ")
        if f[1] != "-":
            blocks += [b"" if h == "_" else unhx(h) for h in f[1].split(",")]
    blocks = list(dict.fromkeys(blocks))
    gcases = ["mgen %s %s" % (bf, hx(b)) for b in blocks]
    gi, _ = run_impl(exe, gcases)
    gm = run_model(gcases)
    for i in range(len(gcases)):
        ck.count("stage:generate")
        if gi[i] != gm[i]:
            broken = broken or (gcases[i][:2000], gi[i][:600], gm[i][:600])
    return broken


def run(ck, rng):
    iok, iinfo = instance_obligation()
    ck.extra["instance"] = iinfo
    if not iok:
        ck.extra["instance_failed"] = True
    exe = build_godriver()
    scen = []
    n = 350 if ck.tier == "quick" else 9000
    for _ in range(n):
        entry = rng.choice(ENTRIES)
        fsy = entry in ("mkdir", "verify", "out-dry")
        nroots = rng.choice([1, 2, 3, 4, 6, 12])
        items = []
        for r in range(nroots):
            sub = gen_forest(rng, max_roots=1, max_nodes=7, max_depth=4, pool="fs" if fsy else "mixed")
            sub[0] = (1, b"r%d_" % r + (sub[0][1] if single_elem_ok(sub[0][1]) else b"x"))
            items += sub
        sp = gen_spelling(rng, items, allow_heading=False)
        lines = [r for r, _, _ in spell_lines(items, sp)]
        tag = None
        kind = rng.choice(["ok", "ok", "ok", "bad_local"])
        if kind == "bad_local":
            from c02 import inject
            i = rng.randrange(len(lines))
            new = inject(rng, lines, i, rng.choice(["no_bullet", "empty_text"]), sp["unit"])
            if new:
                lines = new
        doc = join_lines([(l, False, None) for l in lines], True) if kind == "bad_local" else spell(items, sp)
        exts = rng.choice(EXT_LISTS[:4])
        strict = rng.choice("01")
        pre = [(b"tgt", "d")]
        if entry == "verify":
            for p, k, _ in node_paths(flat_merged(items), exts):
                if rng.random() < 0.92:
                    pre.append((tjoin(b"tgt", p), "d"))
            if rng.random() < 0.3:
                pre.append((tjoin(b"tgt", items[0][1] + b"/zz_extra"), "d"))
        if entry == "mkdir" and rng.random() < 0.5:
            # an unusual umask, and permission bits in the snapshots: both modes must leave the same MODES too
            pre.append((rng.choice([b"002", b"000", b"027"]), "u"))
        scen.append((entry, doc, items, exts, pre, strict, tag, kind))
    # large documents (well beyond the scanner's 4 KiB buffer) and over-long lines
    for _ in range(12 if ck.tier == "quick" else 200):
        nroots = rng.choice([150, 300, 600])
        items = []
        for r in range(nroots):
            items.append((1, b"root_number_%d" % r))
            for c in range(rng.randint(0, 3)):
                items.append((2, b"child_%d_with_a_longer_name" % c))
        sp = gen_spelling(rng, items, allow_heading=False, blanks=False)
        entry = rng.choice(["out-d", "out-j", "walk", "out-dry"])
        scen.append((entry, spell(items, sp), items, [], [(b"tgt", "d")], "0", None, "ok"))
    # strict verify over many roots where everything required is present and exactly ONE stray entry exists under one
    # root: the verdict hangs on that one finding surviving whatever the other workers do meanwhile
    for _ in range(40 if ck.tier == "quick" else 600):
        nroots = rng.choice([6, 12, 24, 40])
        items = []
        for r in range(nroots):
            items += [(1, b"r%d" % r), (2, b"a"), (2, b"b"), (3, b"c")]
        pre = [(b"tgt", "d")] + [(tjoin(b"tgt", p), "d") for p, k, _ in node_paths(items, [])]
        pre.append((b"tgt/r%d/zz_stray" % rng.randrange(nroots), "d"))
        scen.append(("verify", spell(items, plain_spelling(items)), items, [], pre, "1", None, "stray"))
    for n in (65535, 65536) * (4 if ck.tier == "quick" else 20):
        for pos in ("first", "late"):
            items = [(1, b"r%d" % r) for r in range(6)]
            lines = [b"- r%d" % r for r in range(6)]
            long = b"- " + b"x" * (n - 2)
            lines = ([long] + lines) if pos == "first" else (lines + [long])
            scen.append(("out-d", b"\n".join(lines) + b"\n", [], [], [(b"tgt", "d")], "0", None, "long"))
    # one root whose rendering is far larger than any buffer (> 64 KiB) among small ones, written to a slow sink: the
    # blocks must stay contiguous
    for _ in range(3 if ck.tier == "quick" else 40):
        items = []
        nsmall = rng.choice([200, 400])
        big = rng.randrange(nsmall // 4, 3 * nsmall // 4)
        for r in range(nsmall):
            if r == big:
                items.append((1, b"rootHUGE"))
                for c in range(1500):
                    items.append((2, b"child-%04d-" % c + b"x" * 50))
            items += [(1, b"root%04d" % r), (2, b"a"), (3, b"b"), (2, b"c")]
        scen.append(("out-d", spell(items, plain_spelling(items)), items, [], [(b"tgt", "d")], "0", None, "huge"))
    # verify where a node with children is a SYMBOLIC LINK to a directory that has those children: the directory walk does
    # not follow links, so the children are missing -- in both modes, strict or not
    for _ in range(12 if ck.tier == "quick" else 150):
        nroots = rng.randint(2, 6)
        items, pre = [], [(b"tgt", "d")]
        linked = rng.randrange(nroots)
        for r in range(nroots):
            items += [(1, b"r%d" % r), (2, b"a"), (3, b"b"), (2, b"c")]
            pre += [(b"tgt/r%d" % r, "d"), (b"tgt/r%d/c" % r, "d")]
            if r == linked:
                pre += [(b"tgt/real%d/b" % r, "d"), (b"tgt/r%d/a" % r, "l" + hx(b"../real%d" % r))]
            else:
                pre += [(b"tgt/r%d/a/b" % r, "d")]
        scen.append(("verify", spell(items, plain_spelling(items)), items, [], pre, rng.choice("01"), None, "symlink"))
    # rows ending in a carriage return that is NOT part of the line terminator ("\r\r\n"): the name keeps it (D25)
    for _ in range(10 if ck.tier == "quick" else 150):
        items = [(1, b"r%d" % r) for r in range(rng.randint(2, 5))]
        lines = []
        for d, n in items:
            lines += [b"- " + n + rng.choice([b"\r", b"", b"\r\r"]), b"  - c" + rng.choice([b"\r", b""])]
        scen.append((rng.choice(["out-d", "out-j", "walk"]), b"\r\n".join(lines) + b"\r\n", [], [], [(b"tgt", "d")], "0", None, "cr"))
    # the known-finding inputs
    k1 = b"# a\n- b\n- c\n# d\n- e\n"
    k2 = b"- a\n - b\n - c\n- r\n\t- s\n\t- t\n- u\n - v\n"
    for rep in range(12):
        scen.append(("out-d", k1, [], [], [(b"tgt", "d")], "0", "heading_roots_massive", "k"))
        scen.append(("out-d", k2, [], [], [(b"tgt", "d")], "0", "non_uniform_blocks", "k"))
    for rep in range(4):
        scen.append(("mkdir", b"- a\n  - x\n- b\n  - y\n- c\n", [], [], [(b"tgt", "d"), (b"tgt/b", "d")], "0", "massive_mkdir_per_root_check", "k"))
    mcases, scases = [], []
    for entry, doc, items, exts, pre, strict, tag, kind in scen:
        procs = rng.choice([1, 2, 4, 16])
        seed = rng.choice([0, rng.randint(1, 10 ** 6), rng.randint(1, 10 ** 6), directed_delay(rng, doc.count(b"\n"))])
        if tag == "non_uniform_blocks":
            seed = rng.randint(1, 10 ** 6)
        if kind == "stray":
            procs = rng.choice([2, 4, 16])
            seed = rng.choice(["dverify.recv:300", "dverify.recv:1500", rng.randint(1, 10 ** 6), 0])
        if kind == "long":
            # the splitter's error must be reported whether the error readers are already waiting or not
            seed = rng.choice(["dherr.start:3000", "dherr.reader:3000", "dsplit.err:3000", 0, rng.randint(1, 10 ** 6)])
        mcases.append("mscn %s %d - - - - %s %s %s %s %s %s %s" % (entry, procs if kind != "huge" else rng.choice([4, 16]), seed, "2" if kind == "huge" else rng.choice("01"), snap_arg(pre), exts_plus(exts), hx(b"tgt"), strict, hx(doc)))
        scases.append(simple_case(entry, doc, exts, pre, strict))
    mres, _ = run_impl(exe, mcases, per_case_timeout=40.0)
    sres, _ = run_impl(exe, scases)
    # per-root reference blocks (simple mode on each root's own sub-document)
    bcases, bref = [], []
    for si, (entry, doc, items, exts, pre, strict, tag, kind) in enumerate(scen):
        if entry in ("out-d", "out-dry") and (kind == "ok" and len(items) < 400 or kind == "huge"):
            for blk in split_roots(items):
                bcases.append(simple_case(entry, spell(blk, plain_spelling(blk)), exts, pre, strict))
                bref.append(si)
    bres, _ = run_impl(exe, bcases)
    blocks = {}
    for si, r in zip(bref, bres):
        blocks.setdefault(si, []).append(unhx(r.split(" ")[1][1:]) if r.split(" ")[1] != "-" else b"")
    for si, (entry, doc, items, exts, pre, strict, tag, kind) in enumerate(scen):
        m = mres[si].split(" ")
        s = sres[si].split("|")[-1].split(" ")
        nroots = sum(1 for d, _ in items if d == 1)
        ck.case(mcases[si][:400], nroots >= 2)
        ck.count("entry:" + entry)
        ck.count("doc:" + kind)
        mr, sr = m[0], s[0]
        mout = m[5] if len(m) > 5 else "-"
        bad = None
        if len(m) > 7 and m[7] != "0":
            bad = "after the call returned, %s node(s) handed to the callback say something else than during the walk (or the writer / callback / reader was used late)" % m[7]
        elif (mr == "ok") != (sr == "ok"):
            bad = "massive returns %s, simple returns %s" % (mr, sr)
        elif entry == "mkdir" and mr == sr == "err:exist_path" and parse_snap(mout) != parse_snap(s[2]):
            bad = "path-exists error, but mkdir leaves a different file system than simple mode (which creates nothing)"
        elif mr == "ok":
            sout = s[1] if len(s) > 1 else "-"
            if entry in ("out-d", "out-dry"):
                mb = unhx(mout[1:]) if mout != "-" else b""
                if si in blocks and not perm_match(mb, blocks[si]):
                    bad = "output is not a permutation of the simple mode's per-root blocks"
            elif entry == "out-j":
                ml = sorted((unhx(mout[1:]) if mout != "-" else b"").split(b"\n"))
                sl = sorted((unhx(sout[1:]) if sout != "-" else b"").split(b"\n"))
                if ml != sl:
                    bad = "JSON lines differ as a multiset"
            elif entry == "out-y":
                if sorted(mout.split(";")) != sorted(sout.split(";")):
                    bad = "YAML documents differ as a multiset"
            elif entry == "walk":
                mv = mout.split(";") if mout != "-" else []
                sv = sout.split(";") if sout != "-" else []
                if Counter(mv) != Counter(sv):
                    bad = "walk callbacks saw a different multiset of nodes"
                else:
                    def by_root(vs):
                        d = {}
                        for v in vs:
                            root = unhx(v.split(",")[4]).split(b"/")[0]
                            d.setdefault(root, []).append(v)
                        return d
                    if by_root(mv) != by_root(sv):
                        bad = "callback order inside a root differs"
            elif entry == "mkdir":
                if parse_snap(mout) != parse_snap(s[2]):
                    bad = "mkdir leaves a different file system"
        if bad:
            rep = {"property": "C10", "kind": "massive_vs_simple", "class": entry + "|" + bad[:24], "case": mcases[si], "simple_case": scases[si],
                   "input": doc[:300].decode("utf-8", "replace"), "got": mres[si][:400], "simple": sres[si][-300:], "why": bad}
            if tag:
                rep["finding"] = tag
            ck.violation(rep)
    # several massive calls IN FLIGHT AT ONCE, started by caller goroutines, each with its own writer and its own
    # single-root document: every call must write exactly what it writes when it runs alone
    conc_hist = []
    for j in range(24 if ck.tier == "quick" else 300):
        its = [(1, b"root_of_call_%d" % j)] + [(2, b"child_%d_%03d" % (j, c)) for c in range(rng.choice([40, 150, 400]))]
        conc_hist.append("o,%s,0,0,-,-,-,-,-,%s" % (rng.choice("ddj"), hx(spell(its, plain_spelling(its)))))
    alone, _ = run_impl(exe, ["mhist " + h for h in conc_hist])
    groups = [list(range(g, min(g + 6, len(conc_hist)))) for g in range(0, len(conc_hist), 6)]
    together, _ = run_impl(exe, ["mchist " + "#".join(conc_hist[i] for i in grp) for grp in groups] * 3)
    for gi, res in enumerate(together):
        grp = groups[gi % len(groups)]
        parts = res.split("#")
        ck.case("mchist group %d rep %d" % (gi % len(groups), gi // len(groups)), True)
        ck.count("concurrent_massive_calls")
        for k, i in enumerate(grp):
            if k >= len(parts) or parts[k] != alone[i]:
                ck.violation({"property": "C10", "kind": "massive_vs_simple", "class": "concurrent_calls", "case": "mchist " + "#".join(conc_hist[x] for x in grp)[:3000],
                              "got": (parts[k] if k < len(parts) else res)[:300], "expected": alone[i][:300],
                              "why": "a massive call running at the same time as other massive calls (other writers, other documents) writes something else than when it runs alone"})
                break
    if not iok:
        return ('instance', iinfo.get('failure', ''))
    return stage_correspondence(ck, rng, exe)


def single_elem_ok(n):
    from c05 import single_elem
    return single_elem(n) and b"\n" not in n
