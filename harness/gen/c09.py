# C09 — dry run touches nothing and predicts the real run.
from lib import *
from hist import *
from fsgen import *

RULE = ("forests (file-system-safe and hostile names) x extension lists x {OutputFromMarkdown+dry-run (the CLI route), "
        "MkdirFromMarkdown+dry-run, MkdirFromRoot+dry-run, deprecated} x {simple, massive}, each followed by the REAL mkdir of the "
        "same tree with the same extensions into the same (empty) target: the jail is snapshotted before and after the dry run, the "
        "report must be the reference rendering of each root followed by an empty line and 'd directories, f files' where d/f are "
        "counted from what the real run created for that root; dry-run rejects iff the real run rejects for a name. "
        "non-trivial = >= 3 nodes or a hostile name")


def perm_match(text, blocks):
    """is text a concatenation of the blocks in some order?"""
    if not blocks:
        return text == b""
    for i, b in enumerate(blocks):
        if text.startswith(b) and perm_match(text[len(b):], blocks[:i] + blocks[i + 1:]):
            return True
    return False


def run(ck, rng):
    exe = build_godriver()
    cases, specs, meta = [], [], []
    n = 450 if ck.tier == "quick" else 12000
    for _ in range(n):
        hostile = rng.random() < 0.3
        items = gen_fs_forest(rng, hostile=hostile)
        if hostile:
            items = [(d, nm) for d, nm in items if nm and b"\n" not in nm and not nm.endswith(b"\r")]
            fixed, prev = [], 0
            for d, nm in items:
                d = min(d, prev + 1) if prev else 1
                fixed.append((d, nm))
                prev = d
            items = fixed
            if not items:
                continue
        exts = rng.choice(EXT_LISTS)
        bf = rng.choice(BF_CHOICES)
        vname = rng.choice(["out", "md", "md", "md_dep", "root", "root_dep"])
        massive = rng.random() < 0.25
        if not hostile and not massive and rng.random() < 0.1:
            # the same root block twice (equal root names are separate roots): the second pass finds everything in place
            first = []
            for d, nm in items:
                if d == 1 and first:
                    break
                first.append((d, nm))
            items = items + first
            if rng.random() < 0.5:
                exts = [b".md", b".go"]
        roots = merged_items(items)
        its = roots[0] if vname.startswith("root") else [it for r in roots for it in r]
        rlist = [roots[0]] if vname.startswith("root") else roots
        doc = spell(items, gen_spelling(rng, items, allow_heading=not massive))
        target = rng.choice([b"out", b"out", b"fresh/out", b"newdir"])
        pre = [(b"sentinel", "d"), (b"sentinel/keep.txt", "f")] + ([(b"out", "d")] if target == b"out" else [])
        if vname == "out":
            dry = "o,d,1,%s,%s,%s,%s" % (rng.choice("01"), bf_csv(bf), exts_plus(exts), hx(doc))
            real = "m,0,%s,%s,-,-,-,-,%s" % (exts_plus(exts), hx(target), hx(doc))
            build = []
        elif vname.startswith("md"):
            op = "m" if vname == "md" else "md"
            dry = "%s,1,%s,%s,%s,%s" % (op, exts_plus(exts), hx(target), bf_csv(bf), hx(doc))
            real = "%s,0,%s,%s,-,-,-,-,%s" % (op, exts_plus(exts), hx(target), hx(doc))
            build = []
        else:
            op = "M" if vname == "root" else "Md"
            build = canonical_build(roots[0])
            dry = "%s,0,1,%s,%s,%s" % (op, exts_plus(exts), hx(target), bf_csv(bf))
            real = "%s,0,0,%s,%s,-,-,-,-" % (op, exts_plus(exts), hx(target))
        cases.append(("mhist " if massive else "hist ") + ";".join(["F,%s" % snap_arg(pre)] + build + [dry, "F,-", real]))
        for r in rlist:
            specs.append("spec %s %s" % (bf_args(bf), items_arg(r)))
        meta.append((vname + ("_massive" if massive else ""), its, rlist, exts, target, len(build), massive))
    impl, _ = run_impl(exe, cases)
    model = run_model([c[1:] if c.startswith("m") else c for c in cases])
    spec = run_model(specs)
    broken = None
    si = 0
    for i, (name, its, rlist, exts, target, nb, massive) in enumerate(meta):
        texts = [unhx(spec[si + j].split(" ")[1][1:]) for j in range(len(rlist))]
        si += len(rlist)
        hostile = any(not single_elem(nm) for _, nm in its)
        ck.case(cases[i][:500], len(its) >= 3 or hostile)
        ck.count("variant:" + name)
        ck.count("hostile" if hostile else "clean")
        parts = impl[i].split("|")
        if len(parts) < 4 + nb or any(pp.split(" ")[0] in ("panic", "crash", "timeout") for pp in parts):
            ck.violation({"property": "C09", "kind": "abnormal", "class": "abnormal", "case": cases[i], "got": impl[i][-300:],
                          "why": "a call did not return normally"})
            continue
        before = parse_snap(parts[0].split(" ")[2])
        dres = parts[1 + nb].split(" ")
        if name.startswith("out"):
            dr, dout = dres[0], dres[1]
        else:
            dr, dout = dres[0], dres[1]
        mid = parse_snap(parts[2 + nb].split(" ")[2])
        rr, _, rsnap = parts[3 + nb].split(" ")
        after = parse_snap(rsnap)
        bad = None
        if mid != before:
            bad = "the dry run changed the file system: %r" % [p for p in set(mid) ^ set(before)][:3]
        else:
            name_err = lambda r: r.startswith("err:invalid_name") or r.startswith("err:invalid_path")
            if name_err(dr) != name_err(rr) and "massive" in name and name_err(dr) and rr.startswith("err:"):
                # massive mode validates and creates root by root: another root's error (e.g. a root that already
                # "exists") may surface first; the tree is rejected either way
                ck.count("massive_other_error_first")
            elif name_err(dr) != name_err(rr):
                bad = "dry run says %s, real run says %s" % (dr[:40], rr[:40])
            elif dr == "ok" and rr == "ok":
                report = unhx(dout[1:]) if dout != "-" else b""
                blocks = []
                for r, text in zip(rlist, texts):
                    rootp = tjoin(target, r[0][1])
                    created = {p: k for p, k in after.items() if p not in mid and (p == rootp or p.startswith(rootp + b"/"))}
                    nd = sum(1 for k in created.values() if k == "d")
                    nf = sum(1 for k in created.values() if k != "d")
                    blocks.append(text + b"\n" + b"%d directories, %d files\n" % (nd, nf))
                if massive:
                    if not perm_match(report, blocks):
                        bad = "report is not a permutation of the expected per-root blocks"
                elif report != b"".join(blocks):
                    bad = "report differs from tree text + counts of what mkdir created"
            elif dr != "ok" and not name_err(dr):
                bad = "dry run failed with " + dr
        if bad:
            ck.violation({"property": "C09", "kind": "dry_run", "class": name + "|" + bad[:22], "case": cases[i],
                          "got": impl[i][-700:], "why": bad, "expected": model[i][-700:]})
        elif not massive and impl[i] != model[i]:
            broken = broken or (cases[i][:1500], impl[i][-400:], model[i][-400:])
    # several dry runs IN FLIGHT AT ONCE (caller goroutines, different trees): every report is what it is alone
    dh = []
    for j in range(24 if ck.tier == "quick" else 300):
        its = []
        for r in range(rng.randint(1, 3)):
            its += [(1, b"r%d_%d" % (j, r))] + [(2, rng.choice([b"f%03d.go", b"d%03d"]) % c) for c in range(rng.choice([20, 120, 300]))]
        dh.append("%s,d,1,%s,-,-,-,-,2e676f,%s" % (rng.choice(["o", "od"]), rng.choice("01"), hx(spell(its, plain_spelling(its)))))
    alone, _ = run_impl(exe, ["hist " + h for h in dh])
    groups = [list(range(g, min(g + 6, len(dh)))) for g in range(0, len(dh), 6)]
    for massive_ in (False, True):
        if massive_:
            alone, _ = run_impl(exe, ["mhist " + h for h in dh])
        together, _ = run_impl(exe, [("mchist " if massive_ else "chist ") + "#".join(dh[i] for i in grp) for grp in groups] * 2)
        for gi, res in enumerate(together):
            grp = groups[gi % len(groups)]
            parts = res.split("#")
            ck.case(("m" if massive_ else "") + "chist dry group %d rep %d" % (gi % len(groups), gi // len(groups)), True)
            ck.count("concurrent_dry_runs")
            for k, i in enumerate(grp):
                same = k < len(parts) and (parts[k] == alone[i] if not massive_ else sorted(parts[k]) == sorted(alone[i]))
                if not same:
                    ck.violation({"property": "C09", "kind": "dry_run", "class": "concurrent_dry_runs", "case": "chist " + "#".join(dh[x] for x in grp)[:3000],
                                  "got": (parts[k] if k < len(parts) else res)[-300:], "expected": alone[i][-300:],
                                  "why": "a dry run running at the same time as other dry runs reports something else than when it runs alone"})
                    break
    return broken
