# C05 — walk visits the rendered tree: same nodes, same order, consistent node facts.
from lib import *
from hist import *

RULE = ("forests (sampler + enumeration) x branch strings x every position at which the callback fails / the consumer breaks "
        "(exhaustive in k for <= 12 nodes, sampled beyond) x {WalkFromMarkdown, Walk, WalkFromRoot, WalkProgrammably, "
        "WalkIterFromRoot, WalkIterProgrammably}; oracle = extracted top-down spec (spec_visits) and the implementation's own "
        "text output (Row = i-th line); Path compared when all names are single valid path elements; non-trivial = >= 3 nodes")


def single_elem(n):
    try:
        n.decode("utf-8")
    except UnicodeDecodeError:
        return False
    return n not in (b"", b".", b"..") and b"/" not in n


def merged_items(items):
    """pre-order items of the forest after merging equally named siblings (what Add builds)"""
    pt = PyTree()
    stack = []
    for d, n in items:
        if d == 1:
            h = pt.new_root(n)
            stack = [h]
        else:
            h = pt.add(stack[d - 2], n)
            stack = stack[:d - 1] + [h]
    out = []
    for ri in range(len(pt.roots)):
        out.append(pt.items(ri))
    return out


def run(ck, rng):
    exe = build_godriver()
    forests = enum_forests(4 if ck.tier == "quick" else 5) + wide_forests(10)[::3] + deep_forests(depths=(64, 65, 66, 130))
    # many roots (an implementation may treat the roots in chunks or in parallel from some number on)
    for nr in (63, 64, 65, 66, 67, 130, 257):
        many = []
        for r in range(nr):
            many += [(1, b"root%03d" % r), (2, b"a"), (3, b"b"), (2, b"c")]
        forests.append(many)
    for _ in range(250 if ck.tier == "quick" else 6000):
        forests.append(gen_forest(rng, max_nodes=14 if rng.random() < 0.8 else 40, pool=rng.choice(["mixed", "ascii", "fs", "fs_hostile"])))
    cases, mcases, specs, texts, meta = [], [], [], [], []
    for items in forests:
        n = len(items)
        bf = rng.choice(BF_CHOICES)
        doc = spell(items, gen_spelling(rng, items))
        stops = [None] + (list(range(n)) if n <= 12 else rng.sample(range(n), 6))
        roots = merged_items(items)
        for k in stops:
            # the error the callback returns: the harness's own, or a value that has a meaning elsewhere in Go
            # (fs.SkipDir, fs.SkipAll, io.EOF, context.Canceled, an error wrapping context.Canceled): returned UNCHANGED
            kplain = "-" if k is None else str(k)
            kk = kplain if k is None else kplain + rng.choice(["", "", "", "s", "a", "e", "c", "w"])
            r0 = roots[0]
            build = canonical_build(r0)
            enc_opt = rng.choice("jyt") if rng.random() < 0.15 else None

            def mk_variants(kw):
                # From-Root variants act on one root: use the first root's tree
                vs = [("md", "hist w,%s,%s,%s" % (bf_csv(bf), kw, hx(doc))), ("md_dep", "hist wd,%s,%s,%s" % (bf_csv(bf), kw, hx(doc))),
                      ("root", "hist " + ";".join(build + ["W,0,%s,%s" % (bf_csv(bf), kw)])),
                      ("root_dep", "hist " + ";".join(build + ["Wd,0,%s,%s" % (bf_csv(bf), kw)])),
                      ("iter", "hist " + ";".join(build + ["I,0,%s,%s" % (bf_csv(bf), kplain)])),
                      ("iter_dep", "hist " + ";".join(build + ["Id,0,%s,%s" % (bf_csv(bf), kplain)]))]
                if enc_opt:
                    # an encoding option on a walk call must not change what is visited
                    vs = [(nm, c + "," + enc_opt) if not nm.startswith("iter") else (nm, c) for nm, c in vs]
                return vs
            variants = mk_variants(kk)
            mvariants = mk_variants(kplain)     # the model's callback is an oracle "fails at visit k"
            idxs = list(range(len(variants))) if ck.tier == "thorough" else rng.sample(range(len(variants)), 2)
            for vi in idxs:
                name, c = variants[vi]
                its = items if name.startswith("md") else r0
                cases.append(c)
                mcases.append(mvariants[vi][1])
                specs.append("specwalk %s %s" % (bf_args(bf), items_arg(its)))
                texts.append("spec %s %s" % (bf_args(bf), items_arg(its)))
                meta.append((name, its, k))
    impl, _ = run_impl(exe, cases)
    model = run_model(mcases)
    spec = run_model(specs)
    text = run_model(texts)
    broken = None
    for i, (name, its, k) in enumerate(meta):
        ck.case(cases[i][:400], len(its) >= 3)
        ck.count("variant:" + name)
        ck.count("stop:" + ("none" if k is None else "k"))
        res = impl[i].split("|")[-1]
        r, vs = res.split(" ") if " " in res else (res, "-")
        want_all = spec[i].split(" ")[1].split(";") if spec[i].split(" ")[1] != "-" else []
        nvis = len(want_all)
        if k is not None and k < nvis:
            want = want_all[:k + 1]
            want_r = "ok" if name.startswith("iter") else "err:callback:%d" % k
        else:
            want, want_r = want_all, "ok"
        got = vs.split(";") if vs != "-" else []
        paths_ok = all(single_elem(n) for _, n in its)
        lines = unhx(text[i].split(" ")[1][1:]).split(b"\n")[:-1] if text[i] != "ok t-" else []
        bad = None
        if r != want_r:
            bad = "returned %s, expected %s" % (r, want_r)
        elif len(got) != len(want):
            bad = "%d visits, expected %d" % (len(got), len(want))
        else:
            for j, (g, w) in enumerate(zip(got, want)):
                gf, wf = g.split(","), w.split(",")
                if not paths_ok:
                    gf[4] = wf[4] = "*"
                if gf != wf:
                    bad = "visit %d is %s, expected %s" % (j, g, w)
                    break
                if unhx(gf[2]) != lines[j]:
                    bad = "visit %d Row is not line %d of the text output" % (j, j)
                    break
        if bad:
            ck.violation({"property": "C05", "kind": "walk", "class": name + "|" + bad[:16], "case": cases[i], "got": res[:500],
                          "expected_visits": ";".join(want)[:500], "expected_result": want_r, "why": bad})
        elif impl[i].split("|")[-1] != model[i].split("|")[-1]:
            broken = broken or (cases[i][:1500], impl[i][-300:], model[i][-300:])
    return broken
