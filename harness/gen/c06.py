# C06 — mkdir creates exactly the tree: right paths, right kinds, nothing else.
from lib import *
from hist import *
from fsgen import *
import re

RULE = ("forests with distinct root names over file-system-safe names x extension lists (empty, whole-name, overlapping, \"\") x "
        "target directories (cwd, existing, missing, nested, with trailing slash) x pre-states (empty; unrelated entries; any "
        "subset of roots pre-existing as file or directory; a path component that is a file; over-long names) x {From-Markdown, "
        "From-Root, deprecated} x {simple, massive(success scenarios)}; the driver builds the pre-state in a fresh jail, runs the "
        "real call and snapshots (path, kind, empty?) recursively; oracle = node paths computed from the forest. "
        "non-trivial = >= 3 nodes or a pre-existing root / OS refusal scenario")


def run(ck, rng):
    exe = build_godriver()
    cases, meta = [], []
    n = 450 if ck.tier == "quick" else 12000
    for _ in range(n):
        items = gen_fs_forest(rng)
        if rng.random() < 0.12:
            # many roots (thresholds at which an implementation may switch from one Stat per root to listing the
            # target once), some childless with an extension, some with children
            items = []
            for r_ in range(rng.choice([15, 16, 17, 18, 20, 33])):
                nm = b"root%02d" % r_ + rng.choice([b"", b"", b".go", b".md"])
                items.append((1, nm))
                if not nm.endswith((b".go", b".md")) and rng.random() < 0.6:
                    items += [(2, b"k"), (2, b"f.go")]
        long_exts = False
        if rng.random() < 0.08:
            # a long extension list with entries that are whole names or have several dots, and leaves that match them
            items = [(1, b"proj"), (2, b"Makefile"), (2, b"a.tar.gz"), (2, b"src"), (3, b"main.go"), (3, b"profile"), (3, b"x.tar.gz"),
                     (2, b"docs"), (3, b"README.md"), (1, b"GNUmakefile"), (1, b"other"), (2, b"file")]
            long_exts = True
        flat = flat_merged(items)
        exts = rng.choice(EXT_LISTS) if not long_exts else EXT_LISTS[-1]
        target = rng.choice(TARGETS)
        np_ = node_paths(flat, exts)
        roots = [p for p, k, r in np_ if b"/" not in p]
        scen = rng.choice(["empty", "empty", "unrelated", "exists_dir", "exists_file", "file_component", "long_name", "target_is_file"])
        pre = []
        ct = clean_target(target)
        if scen in ("unrelated", "exists_dir", "exists_file", "file_component") and target in (b"tgt", b"sub/tgt", b"tgt/", b"./tgt"):
            pre.append((ct, "d"))
        if scen == "unrelated":
            pre += [(tjoin(target, b"zz_other"), "d"), (tjoin(target, b"zz_other/keep.txt"), "f"), (b"outside.txt", "f")]
        elif scen == "exists_dir":
            pre.append((tjoin(target, rng.choice(roots)), "d"))
        elif scen == "exists_file":
            pre.append((tjoin(target, rng.choice(roots)), "f"))
        elif scen == "file_component":
            deep = [p for p, k, r in np_ if b"/" in p]
            if not deep:
                scen = "empty"
            else:
                p = rng.choice(deep)
                # a proper ancestor below the root cannot pre-exist without the root existing; make the TARGET's parent chain a file instead
                scen = "target_is_file"
        if scen == "target_is_file":
            if ct == b".":
                scen = "empty"
            else:
                first = ct.split(b"/")[0]
                pre = [(first, "f")]
        vname = rng.choice(["md", "md_dep", "root", "root", "root_dep"])
        if scen == "long_name":
            nfirst = len(merged_items(items)[0]) if vname.startswith("root") else len(items)
            j = rng.randrange(min(nfirst, len(items)))
            if vname.startswith("root"):
                # position j of the first root's merged listing: rebuild from that listing
                items = merged_items(items)[0] + [it for r in merged_items(items)[1:] for it in r]
            items = list(items)
            items[j] = (items[j][0], b"L" * 256)
            flat = flat_merged(items)
            np_ = node_paths(flat, exts)
        massive = scen in ("empty", "unrelated") and rng.random() < 0.25
        doc = spell(items, gen_spelling(rng, items, allow_heading=not massive))
        variants = [("md", "m,0,%s,%s,-,-,-,-,%s" % (exts_plus(exts), hx(target), hx(doc))),
                    ("md_dep", "md,0,%s,%s,-,-,-,-,%s" % (exts_plus(exts), hx(target), hx(doc)))]
        first_root = merged_items(items)[0]
        variants.append(("root", ";".join(canonical_build(first_root) + ["M,0,0,%s,%s,-,-,-,-" % (exts_plus(exts), hx(target))])))
        variants.append(("root_dep", ";".join(canonical_build(first_root) + ["Md,0,0,%s,%s,-,-,-,-" % (exts_plus(exts), hx(target))])))
        name, op = [v for v in variants if v[0] == vname][0]
        if rng.random() < 0.12:
            op += "," + rng.choice("jyt")
        its = first_root if name.startswith("root") else flat
        modes = False
        if scen in ("empty", "unrelated") and ct != b"." and rng.random() < 0.3:
            # the target exists with restrictive permission bits, the umask is unusual, snapshots carry the bits:
            # nothing that existed may change its MODE either (not modelled: predicate only)
            pre = [(p_, "dm700" if p_ == ct else k_) for p_, k_ in pre]
            if not any(p_ == ct for p_, _ in pre):
                pre.append((ct, "dm700"))
            pre.append((rng.choice([b"022", b"002", b"077"]), "u"))
            modes = True
        cases.append(("mhist " if massive else "hist ") + "F,%s;%s" % (snap_arg(pre), op))
        meta.append((name + ("_massive" if massive else "") + ("_modes" if modes else ""), its, exts, target, scen, pre))
    impl, _ = run_impl(exe, cases)
    def model_case(c):
        c = c[1:] if c.startswith("m") else c
        # permission bits and the umask are not modelled
        return re.sub(r"dm[0-7]+:", "d:", re.sub(r"\+?u:[0-9a-f]+", "", c)).replace("F,+", "F,")
    model = run_model([model_case(c) for c in cases])
    broken = None
    for i, (name, its, exts, target, scen, pre) in enumerate(meta):
        ck.case(cases[i][:500], len(its) >= 3 or scen not in ("empty", "unrelated"))
        ck.count("scenario:" + scen)
        ck.count("variant:" + name)
        parts = impl[i].split("|")
        if parts[0].split(" ")[0] in ("panic", "crash", "timeout"):
            ck.violation({"property": ck.pid, "kind": "abnormal", "class": "abnormal|" + parts[0].split(" ")[0], "case": cases[i], "got": impl[i][-300:],
                          "why": "the call did not return normally: " + parts[0]})
            continue
        before_full = parse_snap(parts[0].split(" ")[2])
        before = {p_: k_[0] for p_, k_ in before_full.items()}
        r, _, snap = fs_result(parts[-1])
        if r in ("panic", "crash", "timeout") or len(parts) < 2:
            ck.violation({"property": ck.pid, "kind": "abnormal", "class": "abnormal|" + r, "case": cases[i], "got": impl[i][-300:],
                          "why": "the call did not return normally: " + r})
            continue
        after_full = parse_snap(snap)
        after = {p_: k_[0] for p_, k_ in after_full.items()}
        np_ = node_paths(its, exts)
        ct = clean_target(target)
        want_new = {tjoin(target, p): k for p, k, _ in np_}
        if ct != b".":
            for a in ancestors(ct) + [ct]:
                want_new.setdefault(a, "d")
        roots = [tjoin(target, p) for p, k, _ in np_ if b"/" not in p]
        root_exists = any(x in before for x in roots)
        bad = None
        unchanged = all(after_full.get(p) == k for p, k in before_full.items())     # kind AND (when recorded) permission bits
        if not unchanged:
            bad = "an entry that existed before was changed or removed"
        elif scen == "long_name" or scen == "target_is_file":
            if r == "ok":
                bad = "a failing file-system operation was reported as success"
        elif root_exists:
            if r != "err:exist_path":
                bad = "a root already exists but the result is " + r
            elif after != before:
                bad = "path-exists error but the file system changed"
        else:
            new = {p: k for p, k in after.items() if p not in before}
            if r != "ok":
                bad = "no root existed, result " + r
            else:
                exp = {p: k for p, k in want_new.items() if p not in before}
                if new != exp:
                    miss = [p for p in exp if p not in new]
                    extra = [p for p in new if p not in exp]
                    wrongk = [p for p in exp if p in new and new[p] != exp[p]]
                    bad = "new entries differ: missing %r extra %r wrong kind %r" % (miss[:3], extra[:3], wrongk[:3])
        if bad:
            ck.violation({"property": "C06", "kind": "mkdir_exact", "class": scen + "|" + name + "|" + bad[:20], "case": cases[i],
                          "got": impl[i][-700:], "why": bad, "expected": model[i]})
        elif "massive" not in name and "_modes" not in name and impl[i] != model[i]:
            broken = broken or (cases[i][:1500], impl[i][-400:], model[i][-400:])
    return broken
