import os
# fsgen.py — scenarios for the file-system properties (C06-C09) and their python-side specification
from lib import *
from hist import *
from c05 import merged_items, single_elem

TARGETS = [b"", b"tgt", b"sub/tgt", b"tgt/", b"./tgt", b"missing/deep", b"tgt/.", b"./sub/./tgt", b"sub//tgt", b"sub/../tgt"]
EXT_LISTS = [[], [b".go"], [b".go", b".md", b"Makefile"], [b"o", b".go"], [b"Makefile"], [b""], [b"a"],
             [b".go", b" .md"], [b".md ", b"\t.go"], [b"", b".md"],      # entries are compared as given: no trimming
             [b".go", b".md", b".go"], [b".md", b".md"],                  # duplicates
             # a long list with entries that are not "the last dot segment" of a name
             [b".go", b".md", b".txt", b".c", b".h", b".py", b".rs", b".js", b"Makefile", b".tar.gz", b"file"]]


def clean_target(t):
    import posixpath
    return posixpath.normpath(t.decode()) .encode() if t else b"."


def tjoin(target, p):
    import posixpath
    t = clean_target(target)
    return posixpath.normpath(posixpath.join(t.decode("utf-8", "surrogateescape"), p.decode("utf-8", "surrogateescape"))).encode("utf-8", "surrogateescape")


def inside(base, full):
    """the harness materialises a pre-state entry only inside its private scratch directory"""
    return os.path.normpath(full).startswith(os.path.normpath(base) + os.sep)


def node_paths(items, exts):
    """[(relative path under target, kind 'd'|'e', root index)] for merged single-element names"""
    out = []
    cur = []
    ri = -1
    for i, (d, n) in enumerate(items):
        if d == 1:
            ri += 1
        cur = cur[:d - 1] + [n]
        leaf = i + 1 >= len(items) or items[i + 1][0] <= d
        isfile = leaf and any(n.endswith(e) for e in exts)
        out.append((b"/".join(cur), "e" if isfile else "d", ri))
    return out


def flat_merged(items):
    out = []
    for r in merged_items(items):
        out += r
    return out


def parse_snap(s):
    if s == "-":
        return {}
    d = {}
    for e in s.split("+"):
        k, p = e.split(":")
        d[unhx(p)] = k
    return d


def snap_arg(entries):
    """pre-state entries with every ancestor directory listed explicitly (the model adds exactly what is listed)"""
    full = []
    seen = set()
    for p, k in entries:
        for a in ancestors(p):
            if a not in seen and a != b".." and a != b".":
                seen.add(a)
                full.append((a, "d"))
        if p not in seen:
            seen.add(p)
            full.append((p, k))
    return "+".join("%s:%s" % (k, hx(p)) for p, k in full) if full else "-"


def gen_fs_forest(rng, hostile=False, max_roots=3):
    items = gen_forest(rng, max_roots=max_roots, max_nodes=12 if rng.random() < 0.8 else 25, max_depth=5,
                       pool="fs_hostile" if hostile else rng.choice(["fs", "fs", "fs_prefix"]), dup_prob=0.2)
    # distinct root names (C06 quantifies over forests with distinct root names)
    seen = set()
    out = []
    skip = False
    for d, n in items:
        if d == 1:
            skip = n in seen
            seen.add(n)
        if not skip:
            out.append((d, n))
    return out


def ancestors(p):
    parts = p.split(b"/")
    return [b"/".join(parts[:i]) for i in range(1, len(parts))]


def fs_result(part):
    """(result, chunks, snapshot) of one file-system op result; abnormal results (panic / crash / timeout) have no snapshot"""
    f = part.split(" ")
    if len(f) >= 3:
        return f[0], f[1], f[2]
    return f[0], "-", "-"
