# C07 — mkdir never escapes the target directory and validates names first.
from lib import *
from hist import *
from fsgen import *
from c05 import single_elem

RULE = ("forests over the hostile name alphabet ('.', '..', 'a/b', '/abs', 'a/', '../x', '../../esc', 255/256-byte names, invalid "
        "UTF-8, NUL) at every node position x {From-Markdown, From-Root, deprecated} x {dry-run, real} x {simple, massive} x "
        "extension lists, inside a jail (scratch/o1/o2/jail, cwd = jail) that contains the target plus sentinel siblings; the "
        "whole scratch tree is snapshotted before and after. non-trivial = some name is not a single valid path element")


def run(ck, rng):
    exe = build_godriver()
    cases, meta = [], []
    n = 500 if ck.tier == "quick" else 15000
    for _ in range(n):
        items = gen_fs_forest(rng, hostile=rng.random() < 0.8)
        if rng.random() < 0.04:
            # hundreds of valid roots and ONE invalid name near the end (an implementation may work in chunks of roots)
            nr = rng.choice([255, 256, 257, 300, 520])
            items = []
            for r_ in range(nr):
                items += [(1, b"r%03d" % r_), (2, b"a")]
            items += [(1, b"last"), (2, rng.choice([b"..", b"x/y", b"."]))]
        # place one hostile name at a chosen position more often than the pool does
        if rng.random() < 0.5:
            j = rng.randrange(len(items))
            items[j] = (items[j][0], rng.choice(HOSTILE_FS))
        vname = rng.choice(["md", "md", "md_dep", "root", "root_dep"])
        dry = rng.choice("001")
        exts = rng.choice(EXT_LISTS)
        target = rng.choice([b"tgt", b"tgt", b"sub/tgt", b""])
        massive = rng.random() < 0.25
        pre = [(b"sentinel", "d"), (b"sentinel/keep.txt", "f"), (b"../outer_sentinel.txt", "f")]
        missing_target = bool(target) and rng.random() < 0.3
        if target and not missing_target:
            pre.append((clean_target(target), "d"))
            pre.append((tjoin(target, b"zz_keep"), "f"))
        if vname.startswith("md"):
            its = [(d, nm) for d, nm in items if nm and b"\n" not in nm and not nm.endswith(b"\r")]
            if not its or its[0][0] != 1:
                continue
            # keep the listing a valid pre-order after dropping unspellable names
            fixed = []
            prev = 0
            for d, nm in its:
                d = min(d, prev + 1) if prev else 1
                fixed.append((d, nm))
                prev = d
            its = fixed
            doc = spell(its, gen_spelling(rng, its, allow_heading=False))
            op = "%s,%s,%s,%s,-,-,-,-,%s" % ("m" if vname == "md" else "md", dry, exts_plus(exts), hx(target), hx(doc))
            if rng.random() < 0.2:
                op += "," + rng.choice("jyt")      # an encoding option on a mkdir call must not switch validation off
            flat = flat_merged(its)
        else:
            flat = merged_items(items)[0]
            # other From-Root calls on the same tree first (they do not validate names): the mkdir that follows must still validate
            before_ops = rng.choice([[], [], ["O,0,d,0,-,-,-,-,-"], ["W,0,-,-,-,-,-"], ["I,0,-,-,-,-,-"], ["O,0,j,0,-,-,-,-,-", "W,0,-,-,-,-,-"]])
            build_items, late_add = flat, []
            deep = [i_ for i_, (d_, _) in enumerate(flat) if d_ >= 2]
            if deep and rng.random() < 0.25 and all(single_elem(n_) for _, n_ in flat):
                # a VALIDATING call that succeeds first (dry run / verify / dry-run output), then a hostile name is added
                # below a NON-root node, then the mkdir: it must validate again
                par = rng.choice(deep)
                bad_nm = rng.choice([b"../../../escaped", b"..", b"a/b", b"/abs"])
                before_ops = before_ops + [rng.choice(["M,0,1,-,%s,-,-,-,-" % hx(target), "V,0,0,%s" % hx(target), "O,0,d,1,-,-,-,-,-"])]
                late_add = ["A,%d,%s" % (par, hx(bad_nm))]       # handle index = pre-order index (canonical_build)
                pd, j_ = flat[par][0], par + 1
                while j_ < len(flat) and flat[j_][0] > pd:
                    j_ += 1
                flat = flat[:j_] + [(pd + 1, bad_nm)] + flat[j_:]     # the tree the mkdir sees
            op = ";".join(canonical_build(build_items) + before_ops + late_add + ["%s,0,%s,%s,%s,-,-,-,-" % ("M" if vname == "root" else "Md", dry, exts_plus(exts), hx(target))])
            if rng.random() < 0.2:
                op += "," + rng.choice("jyt")
        cases.append(("mhist " if massive else "hist ") + "F,%s;%s" % (snap_arg(pre), op))
        meta.append((vname + ("_massive" if massive else "") + ("_dry" if dry == "1" else "") + ("_notarget" if missing_target else ""), flat, target, massive))
    impl, _ = run_impl(exe, cases)
    model = run_model([c[1:] if c.startswith("m") else c for c in cases])
    broken = None
    for i, (name, flat, target, massive) in enumerate(meta):
        bad_names = [n for _, n in flat if not single_elem(n)]
        ck.case(cases[i][:500], bool(bad_names))
        ck.count("variant:" + name)
        ck.count("hostile" if bad_names else "clean")
        parts = impl[i].split("|")
        if parts[0].split(" ")[0] in ("panic", "crash", "timeout"):
            ck.violation({"property": ck.pid, "kind": "abnormal", "class": "abnormal|" + parts[0].split(" ")[0], "case": cases[i], "got": impl[i][-300:],
                          "why": "the call did not return normally: " + parts[0]})
            continue
        before = parse_snap(parts[0].split(" ")[2])
        r, _, snap = fs_result(parts[-1])
        if r in ("panic", "crash", "timeout") or len(parts) < 2:
            ck.violation({"property": ck.pid, "kind": "abnormal", "class": "abnormal|" + r, "case": cases[i], "got": impl[i][-300:],
                          "why": "the call did not return normally: " + r})
            continue
        after = parse_snap(snap)
        ct = clean_target(target)
        # inside the target, or a missing prefix of the target itself (created as a directory by MkdirAll: C07_confined)
        inside = lambda p: ((ct == b"." and p != b".." and not p.startswith(b"../")) or p == ct or p.startswith(ct + b"/")
                            or (ct.startswith(p + b"/") and p not in before and after.get(p) == "d"))
        bad = None
        outside_changes = [p for p in set(before) | set(after) if before.get(p) != after.get(p) and not inside(p)]
        inside_damage = [p for p in before if before.get(p) != after.get(p)]
        if outside_changes:
            bad = "entries outside the target directory were created or changed: %r" % outside_changes[:3]
        elif inside_damage:
            bad = "pre-existing entries were changed: %r" % inside_damage[:3]
        elif bad_names:
            if r == "ok":
                bad = "a name that is not a single valid path element (%r) was accepted" % bad_names[0][:30]
            elif not massive and after != before:
                bad = "invalid name rejected but something was created: %r" % [p for p in after if p not in before][:3]
            elif massive and "_notarget" in name and r.startswith("err:invalid") and len(flat) >= 1 and flat[0][0] == 1 and sum(1 for d, _ in flat if d == 1) == 1 and after != before:
                bad = "single-root tree rejected for its names, but the missing target directory was created"
        elif "_dry" in name and after != before:
            bad = "a dry run created something: %r" % [p for p in after if p not in before][:3]
        if bad:
            ck.violation({"property": "C07", "kind": "mkdir_confined", "class": name + "|" + bad[:24], "case": cases[i],
                          "got": impl[i][-600:], "why": bad, "expected": model[i][-600:]})
        elif not massive and impl[i] != model[i]:
            broken = broken or (cases[i][:1500], impl[i][-400:], model[i][-400:])
    return broken
