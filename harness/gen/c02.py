# C02 — a document is rendered completely or rejected: no silent loss.
from lib import *
from mutate import *
import json as _json

RULE = ("documents = well-formed spelled forests; the same with one malformation (no bullet, empty text, indentation not a "
        "multiple of the unit, mixed tabs/spaces, level jump, item before the first root) injected at every line position "
        "for documents of <= 12 lines and at sampled positions beyond; plus the mutation stream. Oracle = the extracted "
        "declarative classifier (Spec/Classify.v). Ops: text by both routes, JSON, YAML, TOML (single root), massive text/JSON "
        "for block-local malformations. non-trivial = malformed line is not the first line, or accepted with >= 3 lines")
ASSUMPTIONS = ["massive mode is exercised only with malformations whose detection does not depend on parser state learnt from other blocks (known finding K2 of C10 otherwise)"]


def inject(rng, rows, i, kind, unit):
    """rows: list of bytes rows (no terminators); returns new rows or None"""
    row = rows[i]
    ind = len(row) - len(row.lstrip(b" \t"))
    body = row[ind:]
    if kind == "no_bullet":
        if body[:1] not in (b"-", b"*", b"+"):
            return None
        alt = rng.choice([b"x" + body, body[1:].lstrip(b" ") or b"x", b"=" + body[1:], b"\xe3\x80\x80" + body,
                          # a row made ONLY of control characters that are NOT white space: not blank, and no bullet
                          b"\x1b", b"\x00", b"\x01\x02", b"\x7f", b"\x1f\x1e", b"\x08"])
        if alt.lstrip(b" \t")[:1] in (b"-", b"*", b"+", b"#") or alt.strip() == b"":
            alt = b"x" + body
        new = row[:ind] + alt
    elif kind == "empty_text":
        if body[:1] == b"#":
            new = rng.choice([b"#", b"# ", b"##", b"#  "])
        elif body[:1] in (b"-", b"*", b"+"):
            new = row[:ind] + body[:1] + rng.choice([b"", b" "])
        else:
            return None
    elif kind == "not_multiple":
        if ind == 0 or len(unit) < 2:
            return None
        new = unit[:1] * rng.randint(1, len(unit) - 1) + row
    elif kind == "mixed":
        if ind == 0:
            return None
        other = b"\t" if unit[:1] == b" " else b" "
        pos = rng.randint(0, ind)
        new = row[:pos] + other + row[pos:] if rng.random() < 0.5 else row[:pos] + other + row[pos + 1:] if pos < ind else row[:ind] + other + body
    elif kind == "jump":
        if body[:1] == b"#":
            return None
        new = unit * rng.randint(2, 3) + row
        # only a jump if the previous item is shallow enough; the oracle decides
    elif kind == "no_root":
        if i != 0:
            return None
        return [unit * rng.randint(1, 2) + b"- early"] + rows
    else:
        return None
    out = list(rows)
    out[i] = new
    return out


KINDS = ["no_bullet", "empty_text", "not_multiple", "mixed", "jump", "no_root"]
LOCAL_KINDS = ("no_bullet", "empty_text", "no_root")
# in massive mode the unit is learnt from whichever block is parsed first: a jump / non-multiple is still an error on every
# schedule (some row fails), but WHICH row is reported depends on the schedule
MASSIVE_KINDS = LOCAL_KINDS + ("jump", "not_multiple")

SIMPLE_OPS = ["out d 0 0", "out d 0 1", "out j 0 0", "out j 0 1", "out y 0 0", "out t 0 1"]
MASSIVE_OPS = ["mout d 0 0", "mout j 0 0"]


def _valid_utf8(b):
    try:
        b.decode("utf-8")
        return True
    except UnicodeDecodeError:
        return False   # yaml.v3 / go-toml on names that are not UTF-8 are outside every claim


def paths_of_json(text):
    paths = set()

    def rec(node, pre):
        p = pre + (node["value"],)
        paths.add(p)
        for c in node.get("children") or []:
            rec(c, p)
    for line in text.split("\n"):
        if line.strip():
            rec(_json.loads(line), ())
    return paths


def spec_paths(items):
    cur = []
    out = []
    for d, n in items:
        cur = cur[:d - 1] + [n]
        out.append(tuple(cur))
    return out


def run(ck, rng):
    exe = build_godriver()
    docs = []   # (doc bytes, kind, massive_ok)
    nf = 160 if ck.tier == "quick" else 3000
    for _ in range(nf):
        items = gen_forest(rng, max_nodes=14 if rng.random() < 0.8 else 40, pool=rng.choice(["ascii", "mixed", "hostile_fmt"]))
        sp = gen_spelling(rng, items)
        lines = spell_lines(items, sp)
        rows = [r for r, _, _ in lines]
        uniform = sp["heading"] is None
        docs.append((spell(items, sp), "wellformed", uniform))
        positions = range(len(rows)) if len(rows) <= 12 else rng.sample(range(len(rows)), 8)
        for i in positions:
            for kind in KINDS:
                new = inject(rng, rows, i, kind, sp["unit"])
                if new is None:
                    continue
                nl = [(r, False, None) for r in new]
                docs.append((join_lines(nl, rng.random() < 0.8), kind, uniform and kind in MASSIVE_KINDS))
    for items in wide_forests(12):
        docs.append((spell(items, plain_spelling(items)), "wellformed", True))
    for d in malformed_stream(rng, 300 if ck.tier == "quick" else 6000):
        docs.append((d, "mutation", False))
    verdicts = run_model(["classdoc " + hx(d) for d, _, _ in docs])
    cases, meta = [], []
    for (doc, kind, mok), v in zip(docs, verdicts):
        if v == "too_long":
            continue
        ops = list(SIMPLE_OPS) if (ck.tier == "thorough" or rng.random() < 0.25) else ["out j 0 0"] + rng.sample(SIMPLE_OPS, 2)
        if mok:
            ops += [rng.choice(MASSIVE_OPS)]
        for op in ops:
            cases.append("%s - - - - - %s" % (op, hx(doc)))
            meta.append((doc, kind, v, op))
    impl, _ = run_impl(exe, cases)
    model = run_model([c[1:] if c.startswith("m") else c for c in cases])
    broken = None
    for i, (doc, kind, v, op) in enumerate(meta):
        vt = v.split(" ")
        r = impl[i].split(" ")[0]
        nroots = model[i].count(";") + 1
        if op.startswith("out t") and vt[0] == "ok" and (vt[1].count("1:") + (1 if vt[1].startswith("1:") else 0)) and model[i].count("et(") != 1:
            continue   # TOML is claimed for single-root input only
        nontrivial = (vt[0] == "bad" and vt[1] != "0") or (vt[0] == "ok" and doc.count(b"\n") >= 2)
        ck.case(cases[i][:500], nontrivial)
        ck.count("kind:" + kind)
        ck.count("verdict:" + (vt[2] if vt[0] == "bad" else "ok"))
        ck.count("op:" + op)
        bad = None
        if vt[0] == "bad":
            if r == "ok":
                bad = "malformed line %s (%s) but nil returned" % (vt[1], vt[2])
            elif r.startswith("err:format:") and r.split(":")[2] != vt[3] and not op.startswith("m"):
                # (massive mode: blocks are parsed concurrently through one parser, so WHICH offending row is named first is
                # schedule-dependent -- e.g. a rootless first block whose indentation also fixes the unit; error-iff is kept)
                bad = "format error names row %s, first malformed row is %s" % (r.split(":")[2], vt[3])
            elif not r.startswith("err:"):
                bad = "abnormal: " + r
        else:
            if r != "ok":
                bad = "well-formed document rejected: " + r
            elif op.startswith("out j") or op.startswith("mout j"):
                items = [(int(x.split(":")[0]), unhx(x.split(":")[1])) for x in vt[1].split(",")] if vt[1] != "-" else []
                out = impl[i].split(" ")[1]
                lost = []
                try:
                    names_utf8 = all(n.decode("utf-8") is not None for _, n in items)
                except UnicodeDecodeError:
                    names_utf8 = False      # JSON substitutes U+FFFD: the path comparison is skipped, the model comparison is not
                    ck.count("json_paths_skipped_invalid_utf8")
                if names_utf8:
                    try:
                        text = unhx(out[1:]).decode("utf-8") if out != "-" else ""
                        have = paths_of_json(text)
                        lost = [p for p in spec_paths(items) if tuple(x.decode("utf-8") for x in p) not in have]
                    except Exception as e:
                        lost = ["json output unreadable: %s" % e]
                if lost:
                    bad = "nil returned but input lines are not represented in the output: %r" % (lost[:3],)
        if bad:
            ck.violation({"property": "C02", "kind": "complete_or_rejected", "class": bad[:24] + "|" + op[:4], "case": cases[i],
                          "input": doc[:400].decode("utf-8", "replace"), "verdict": v[:200], "got": impl[i][:400], "why": bad,
                          "expected": model[i]})
        elif not op.startswith("m") and impl[i] != model[i] and not (op[4] in "yt" and not _valid_utf8(doc)):
            if r == "ok" or model[i].split(" ")[0] == "ok" or r.split(":")[1] != model[i].split(" ")[0].split(":")[1]:
                broken = broken or (cases[i][:1500], impl[i][:300], model[i][:300])
            else:
                ck.drift += 1   # partial output before an error (iterator route) etc.
    return broken
