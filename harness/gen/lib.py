# lib.py — shared harness code: builds, process drivers, generators, evidence.
import os, sys, json, time, random, subprocess, tempfile, shutil, hashlib, fcntl, re, atexit

VERIF = os.path.dirname(os.path.dirname(os.path.dirname(os.path.abspath(__file__))))
REPO = os.environ.get("VERIF_REPO", "/repo")
COQ = os.path.join(VERIF, "coq")
MODELRUN_DIR = os.path.join(VERIF, "harness", "modelrun")
GODRIVER_DIR = os.path.join(VERIF, "harness", "godriver")
GOENV = dict(os.environ, GOFLAGS="-mod=mod", GOPROXY="off")
GOENV.pop("GOTOOLCHAIN", None) if os.environ.get("GOTOOLCHAIN") == "local" else None
GOENV.pop("GOSUMDB", None) if os.environ.get("GOSUMDB") == "off" else None

_scratch = None


def scratch():
    """a private scratch directory outside /repo and /verif, removed at exit"""
    global _scratch
    if _scratch is None:
        base = os.environ.get("TMPDIR", "/tmp")
        _scratch = tempfile.mkdtemp(prefix="gtverif-", dir=base)
        atexit.register(lambda: shutil.rmtree(_scratch, ignore_errors=True))
    return _scratch


def hx(b):
    return b.hex() if b else "-"


def unhx(h):
    return b"" if h in ("-", "_") else bytes.fromhex(h)


def hxlist(lst):
    if not lst:
        return "-"
    return ",".join(x.hex() if x else "_" for x in lst)


# ---------------------------------------------------------------- builds

class Lock:
    def __init__(self, name):
        self.path = os.path.join(VERIF, ".lock-" + name)

    def __enter__(self):
        self.f = open(self.path, "w")
        fcntl.flock(self.f, fcntl.LOCK_EX)

    def __exit__(self, *a):
        fcntl.flock(self.f, fcntl.LOCK_UN)
        self.f.close()


def sh(cmd, cwd=None, env=None, timeout=3600, check=True):
    p = subprocess.run(cmd, shell=isinstance(cmd, str), cwd=cwd, env=env, timeout=timeout,
                       stdout=subprocess.PIPE, stderr=subprocess.STDOUT)
    out = p.stdout.decode("utf-8", "replace")
    if check and p.returncode != 0:
        raise RuntimeError("command failed (%d): %s\n%s" % (p.returncode, cmd, out[-4000:]))
    return p.returncode, out


def build_coq():
    """full .vo build (no -vos); returns (ok, log)"""
    with Lock("coq"):
        if not os.path.exists(os.path.join(COQ, "Makefile")):
            sh("coq_makefile -f _CoqProject -o Makefile", cwd=COQ)
        rc, out = sh("timeout 3000 make -j16", cwd=COQ, check=False)
        return rc == 0, out


def build_modelrun():
    with Lock("modelrun"):
        exe = os.path.join(MODELRUN_DIR, "modelrun")
        srcs = [os.path.join(COQ, "theories", "Extract", "Extract.v"), os.path.join(MODELRUN_DIR, "driver.ml")]
        vos = []
        for root, _, files in os.walk(os.path.join(COQ, "theories")):
            vos += [os.path.join(root, f) for f in files if f.endswith(".vo")]
        newest = max([os.path.getmtime(p) for p in srcs + vos] or [0])
        if os.path.exists(exe) and os.path.getmtime(exe) >= newest:
            return exe
        sh("coqc -Q %s GT %s" % (os.path.join(COQ, "theories"), srcs[0]), cwd=MODELRUN_DIR)
        sh("ocamlfind ocamlopt -O2 -w -a model.mli model.ml driver.ml -o modelrun", cwd=MODELRUN_DIR)
        return exe


_built = {}


def build_godriver(tags=""):
    """build the Go driver against /repo's current working tree"""
    # hooks are always compiled in (build tag verif); they do nothing unless a check installs a callback
    tags = ",".join([t for t in tags.split(",") if t] + ["verif"])
    key = tags
    if key in _built:
        return _built[key]
    out = os.path.join(scratch(), "godriver-" + (tags.replace(",", "_") or "default"))
    # the driver module lives in /verif; go.sum is copied from /repo on every build
    shutil.copy(os.path.join(REPO, "go.sum"), os.path.join(GODRIVER_DIR, "go.sum"))
    race = "race" in tags.split(",")
    tags = ",".join(t for t in tags.split(",") if t != "race")
    cmd = ["go", "build"] + (["-race"] if race else []) + (["-tags", tags] if tags else []) + ["-o", out, "."]
    with Lock("gobuild"):
        rc, log = sh(cmd, cwd=GODRIVER_DIR, env=GOENV, check=False, timeout=900)
    if rc != 0:
        raise RuntimeError("go build failed:\n" + log)
    _built[key] = out
    return out


def build_cli():
    if "cli" in _built:
        return _built["cli"]
    out = os.path.join(scratch(), "gtree-cli")
    with Lock("gobuild"):
        rc, log = sh(["go", "build", "-o", out, "./cmd/gtree"], cwd=REPO, env=GOENV, check=False, timeout=900)
    if rc != 0:
        raise RuntimeError("go build of cmd/gtree failed:\n" + log)
    _built["cli"] = out
    return out


# ---------------------------------------------------------------- running

def _big_stack():
    # the extracted OCaml code is not tail-recursive everywhere: deeply nested documents need a large system stack
    import resource
    try:
        resource.setrlimit(resource.RLIMIT_STACK, (resource.RLIM_INFINITY, resource.RLIM_INFINITY))
    except (ValueError, OSError):
        pass


def run_model(cases):
    exe = build_modelrun()
    p = subprocess.run([exe], input=("\n".join(cases) + "\n").encode(), stdout=subprocess.PIPE,
                       stderr=subprocess.PIPE, timeout=3600, preexec_fn=_big_stack)
    lines = p.stdout.decode().split("\n")
    if lines and lines[-1] == "":
        lines.pop()
    if len(lines) != len(cases):
        raise RuntimeError("model runner returned %d lines for %d cases: %s" % (len(lines), len(cases), p.stderr[-2000:]))
    return lines


def _run_alone(exe, case, per_case_timeout, cwd, env, extra_args):
    try:
        p = subprocess.run([exe] + list(extra_args), input=(case + "\nsettle\n").encode(), stdout=subprocess.PIPE,
                           stderr=subprocess.PIPE, cwd=cwd, env=env, timeout=per_case_timeout + 5)
    except subprocess.TimeoutExpired:
        return "timeout -"
    lines = p.stdout.decode("utf-8", "replace").split("\n")
    if len(lines) >= 2 and lines[1] == "settled" and p.returncode == 0:
        return lines[0]
    return "crash -"


def run_impl(exe, cases, per_case_timeout=10.0, cwd=None, env=None, extra_args=(), max_abnormal=10, preexec_fn=None):
    """Feed cases to the Go driver one at a time.  The driver answers each line before
    reading the next; if the process dies (unrecoverable panic in a goroutine) the case
    is recorded as 'crash -', if it does not answer within the deadline as 'timeout -',
    and a fresh process continues with the next case.  After max_abnormal timeouts / crashes the
    remaining cases are not run (result 'skipped -'): the check has its violations and replays, and a
    change that makes every call hang must not make the check itself run for hours."""
    import threading, queue
    # the driver's own temporary files (jails of the file-system cases) live in this run's scratch directory, so
    # that a driver process that is killed leaves nothing behind once the check ends
    env = dict(env if env is not None else os.environ)
    env["TMPDIR"] = os.path.join(scratch(), "drv")
    os.makedirs(env["TMPDIR"], exist_ok=True)
    results = []
    crashes = []
    n = len(cases)
    i = 0
    while i < n:
        if sum(1 for r in results if r.startswith(("timeout", "crash"))) >= max_abnormal:
            results += ["skipped -"] * (n - i)
            break
        p = subprocess.Popen([exe] + list(extra_args), stdin=subprocess.PIPE, stdout=subprocess.PIPE,
                             stderr=subprocess.PIPE, cwd=cwd, env=env, bufsize=0, preexec_fn=preexec_fn)
        q = queue.Queue()

        def reader(pr=p, qq=q):
            for line in pr.stdout:
                qq.put(line)
            qq.put(None)

        errbuf = []

        def ereader(pr=p):
            errbuf.append(pr.stderr.read())

        threading.Thread(target=reader, daemon=True).start()
        threading.Thread(target=ereader, daemon=True).start()
        # pipeline a window of cases to amortise round trips
        WINDOW = 64
        sent = i
        dead = False
        while i < n and not dead:
            while sent < n and sent - i < WINDOW:
                try:
                    p.stdin.write((cases[sent] + "\n").encode())
                    sent += 1
                except (BrokenPipeError, OSError):
                    break
            try:
                line = q.get(timeout=per_case_timeout)
            except queue.Empty:
                p.kill()
                # the harness's own deadline (not the driver's): a loaded machine can stall a process for that long.
                # The case is run again, alone, with a longer deadline; a call that hangs does so again.
                again = _run_alone(exe, cases[i], 3 * per_case_timeout, cwd, env, extra_args)
                if again not in ("timeout -", "crash -") and not again.startswith("timeout"):
                    results.append(again)
                    i += 1
                    dead = True
                    break
                results.append("timeout -")
                crashes.append((i, "timeout", ""))
                i += 1
                dead = True
                break
            if line is None:
                p.wait()
                time.sleep(0.05)
                etxt = (errbuf[0] if errbuf else b"").decode("utf-8", "replace")[-1500:]
                # attribute the crash: re-run the case alone; a goroutine left behind by an
                # earlier (massive) case may have panicked while this one was running
                if "DATA RACE" in etxt:
                    alone = "crash -"        # the race detector stopped the process: report it on this case
                else:
                    alone = _run_alone(exe, cases[i], per_case_timeout, cwd, env, extra_args)
                if alone in ("crash -", "timeout -"):
                    results.append(alone)
                    crashes.append((i, "crash", etxt))
                else:
                    results.append(alone)
                    for j in range(i - 1, max(-1, i - 12), -1):
                        if cases[j].startswith("m") or " massive" in cases[j]:
                            for _ in range(2):
                                if _run_alone(exe, cases[j], per_case_timeout, cwd, env, extra_args) == "crash -":
                                    results[j] = "crash -"
                                    crashes.append((j, "late crash", etxt))
                                    break
                            if results[j] == "crash -":
                                break
                    else:
                        crashes.append((i, "unattributed crash", etxt))
                i += 1
                dead = True
                break
            results.append(line.decode("utf-8", "replace").rstrip("\n"))
            i += 1
            if results[-1].startswith("timeout"):
                # the driver's own deadline fired (a hung call); goroutines of that call are still around:
                # continue in a fresh process, and stop altogether after max_abnormal of these
                p.kill()
                dead = True
                break
        if not dead:
            try:
                p.stdin.close()
            except OSError:
                pass
            p.wait()
    return results, crashes


# ---------------------------------------------------------------- generators

ASCII_WORDS = [b"a", b"b", b"c", b"dir", b"src", b"main.go", b"README.md", b"Makefile", b"x y", b"foo", b"bar",
               b"k8s", b"v1.2", b"node_modules", b"tmp"]
BULLETY = [b"-", b"*", b"+", b"#", b"- x", b"* y", b"+ z", b"# h", b"a-b", b"a*b", b"a+b", b"a#b", b"--", b"-*+",
           b"a - b", b"x -", b" - lead", b"##x", b"C#", b"f#", b"x ##", b"a #"]
# different names of equal length with the same 32-bit FNV-1a / CRC-32 / Adler-32 checksum (siblings looked up by a
# checksum instead of the name would be merged)
COLLIDE = [b"declinate", b"macallums", b"costarring", b"liquid", b"altarage", b"zinke", b"IMG_422789.jpg", b"IMG_639192.jpg",
           b"plumless", b"buckeroo", b"Aa", b"BB", b"AaAa", b"BBBB", b"AaBB", b"BBAa"]
# names with characters that are special to fmt / paths on other platforms / trailing blanks
ODD = [b"a\\b", b"100%", b"cpu%d.txt", b"a%20b", b"%s", b"%!", b"sp ", b"tb\t", b"c:\\x"]
UNICODE = ["日本語".encode(), "é".encode(), "é".encode(), "a b".encode(), "　x".encode(),
           "x　".encode(), "🌳".encode(), "ß".encode(), " ".encode() + b"z", "ｆ".encode()]
# valid but unusual UTF-8 (combining marks, RTL / LTR marks, zero-width joiner and space, BOM inside a name,
# variation selectors) and WTF-8 (an encoded surrogate: invalid UTF-8)
UNICODE2 = ["e\u0301".encode(), "a\u0300\u0301\u0302".encode(), "\u200fabc".encode(), "abc\u200e".encode(), "a\u200db".encode(),
            "a\u200bb".encode(), "x\ufeffy".encode(), "\u2764\ufe0f".encode(), "\U0001F468\u200d\U0001F469\u200d\U0001F467".encode(),
            b"\xed\xa0\x80", b"a\xed\xb0\x80b", "\u0041\u030a".encode(), "\u00c5".encode(), "\u212b".encode()]
BLANKY = [b" a", b"a ", b"  a  ", b"\ta", b"a\tb", b" ", b"  ", b"\t", b"a\rb"]
HOSTILE_FMT = [b'"q"', b"a:b", b"a: b", b"#c", b"a #c", b"back\\slash", b"y", b"null", b"~", b"0x10", b"1e3",
               b"true", b"'s'", b"[x]", b"{y}", b"a,b", b"\xef\xbb\xbfbom", b"nul\x00x", b"esc\x1bx", b"cr\rx",
               b"tab\tx", b"<tag>&", b"\x7f", b"\x01", b"\x08\x0c", b"-", b"- -", b"? x", b"| x", b"> x", b"&a", b"*a",
               b"!t", b"%p", b"@a", b"`b", b"x" * 300, "  ".encode(), "퟿".encode(), b"'", b'"',
               b"a\\nb", b"\\", b" lead", b"trail ", b"1", b"-1", b"1.5", b".inf", b"2001-01-01", b"=", b"a=b", b"[[t]]"]
HOSTILE_FS = [b".", b"..", b"a/b", b"/abs", b"a/", b"../x", b"../../esc", b"x" * 256, b"x" * 255, b"./a", b"a/../b",
              b"\xff", b"nul\x00", b"...", b"/", b"//", b"./", b"../", b"/.", b"a//b", b". ", b" .", b".. "]

# names that differ only by case or by Unicode case folding (Kelvin sign / k, long s / s): distinct nodes
CASEY = [b"Makefile", b"makefile", b"MAKEFILE", b"README", b"Readme", b"readme", b"a", b"A", b"k", b"K", "\u212a".encode(),
         b"s", "\u017f".encode(), b"src", b"SRC", "\u00e9".encode(), "\u00c9".encode(), "\u03c3".encode(), "\u03c2".encode(), "\u03a3".encode()]

POOLS = {
    "ascii": ASCII_WORDS,
    "mixed": ASCII_WORDS * 3 + BULLETY + UNICODE + BLANKY + CASEY + ODD + UNICODE2 + COLLIDE,
    "collide": COLLIDE,
    "casey": CASEY,
    "hostile_fmt": ASCII_WORDS + HOSTILE_FMT * 2 + UNICODE + ODD + UNICODE2,
    "fs": ASCII_WORDS * 4 + [b"f.go", b"g.go", b"Makefile", b"x.md", b"o", b"lib.o", b"a.tar.gz", b"b.tar.gz", b"GNUmakefile", b"profile",
                             b"makefile", b"MAKEFILE", b"README.MD", b"a.Md", b"CHANGELOG.MD", b"x.GO"] + ODD + COLLIDE,
    "fs_hostile": ASCII_WORDS * 3 + HOSTILE_FS,
    # sibling names that are prefixes of each other, continued by bytes sorting below and above '/'
    "fs_prefix": [b"cmd", b"cmd-old", b"cmd.md", b"cmd_x", b"cmd0", b"cmd x", b"cmd+", b"a", b"a-b", b"a.b", b"a b", b"ab", b"a_b", b"a!",
                  b"src", b"src.go", b"src-gen", b"d", b"d.d", b"x.go", b"x.go.bak", b"Makefile", b"Makefile.in"],
}


def name_ok(n):
    return len(n) > 0 and b"\n" not in n and not n.endswith(b"\r")


def case_variant(n):
    try:
        t = n.decode("utf-8")
    except UnicodeDecodeError:
        return n
    v = t.swapcase()
    if v == t or not name_ok(v.encode()):
        v = t.replace("k", "\u212a") if "k" in t else t
    return v.encode()


def gen_forest(rng, max_roots=5, max_nodes=30, max_depth=7, fan=6, dup_prob=0.3, pool="mixed"):
    """pre-order (depth, name) items of a random ordered forest (sibling names may repeat)"""
    names = [n for n in POOLS[pool] if name_ok(n)]
    items = []
    budget = rng.randint(1, max_nodes)

    def kids(depth, sibs_budget):
        nonlocal budget
        used = []
        k = rng.randint(0, fan) if depth > 1 else 1
        for _ in range(k):
            if budget <= 0:
                return
            if used and rng.random() < dup_prob:
                nm = rng.choice(used)
            elif used and rng.random() < 0.12:
                nm = case_variant(rng.choice(used))     # a DIFFERENT name: equal only under case folding
            else:
                nm = rng.choice(names)
            used.append(nm)
            budget -= 1
            items.append((depth, nm))
            if depth < max_depth and rng.random() < 0.6:
                kids(depth + 1, 0)

    roots = rng.randint(1, max_roots)
    for _ in range(roots):
        nm = rng.choice(names)
        items.append((1, nm))
        budget -= 1
        if rng.random() < 0.85:
            kids(2, 0)
    return items


def enum_forests(n, names=(b"a", b"b")):
    """all ordered forests with 1..n nodes over the given names, as pre-order item lists"""
    out = []

    def rec(items, depth_prev, remaining):
        if items:
            out.append(list(items))
        if remaining == 0:
            return
        maxd = 1 if not items else depth_prev + 1
        for d in range(1, maxd + 1):
            for nm in names:
                items.append((d, nm))
                rec(items, d, remaining - 1)
                items.pop()

    rec([], 0, n)
    return out


def wide_forests(kmax=14):
    """a parent (root or inner node) with k distinct children followed by a repeat of the j-th one, for every j <= k <= kmax:
    merging must work at every position of a wide node (lookup structures with size thresholds)"""
    out = []
    for k in range(1, kmax + 1):
        for j in range(1, k + 1):
            kids = [(2, b"c%d" % i) for i in range(1, k + 1)]
            out.append([(1, b"r")] + kids + [(2, b"c%d" % j), (3, b"g")])
            if k % 3 == 0:
                inner = [(3, b"c%d" % i) for i in range(1, k + 1)]
                out.append([(1, b"r"), (2, b"p")] + inner + [(3, b"c%d" % j), (4, b"g"), (2, b"q"), (1, b"s")])
    return out


def very_wide_forests(ks=(15, 16, 17, 18, 31, 32, 33, 63, 64, 65, 66, 127, 128, 129, 257)):
    """nodes around the sizes at which implementations switch lookup structures (16, 32, 64, 128, 256 children):
    k distinct children, then repeats of the first, the last, the one before the last and a middle one, each with a
    grandchild, and one more new child"""
    out = []
    for k in ks:
        kids = [(2, b"c%d" % i) for i in range(1, k + 1)]
        reps = []
        for j in sorted({1, k, max(1, k - 1), (k + 1) // 2}):
            reps += [(2, b"c%d" % j), (3, b"g%d" % j)]
        out.append([(1, b"r")] + kids + reps + [(2, b"new"), (1, b"s")])
        inner = [(3, b"c%d" % i) for i in range(1, k + 1)]
        out.append([(1, b"r"), (2, b"p")] + inner + [(3, b"c%d" % k), (4, b"g"), (3, b"c1"), (4, b"h"), (2, b"q")])
    return out


def deep_forests(depths=(63, 64, 65, 66, 67, 70, 129, 130, 257, 520)):
    """chains nested to the given depth (around 64, 128, 256, 512: bit masks, fixed stacks, recursion guards), once as
    only children and once with a second sibling at every level after the deep one"""
    out = []
    for n in depths:
        chain = [(d, b"n%d" % d) for d in range(1, n + 1)]
        out.append(chain + [(1, b"after")])
        if n > 130:
            continue
        sib = []
        for d in range(1, n + 1):
            sib.append((d, b"n%d" % d))
        for d in range(n, 1, -1):
            sib.append((d, b"s%d" % d))
        out.append(sib)
    return out


def deep_spelling(items):
    sp = plain_spelling(items)
    sp["unit"] = b"\t"
    return sp


BLANK_LINES = [b"", b" ", b"   ", b"\t", b" \t ", " ".encode(), "　".encode(), "  ".encode(), b"\x0b", b"\x0c",
               "\u0085".encode(), " ".encode(), " ".encode(), " ".encode()]


def heading_ok(items):
    for d, n in items:
        if d == 1 and (n.startswith(b"#") or n.startswith(b" ") or n.endswith(b" ")):
            return False
    return True


def gen_spelling(rng, items, allow_heading=True, blanks=True):
    sp = {}
    if rng.random() < 0.3:
        sp["unit"] = b"\t"
    else:
        sp["unit"] = b" " * rng.choice([1, 2, 2, 3, 4, 4, 8])
    mode = rng.random()
    if mode < 0.4:
        sp["bullets"] = [b"-"] * len(items)
    elif mode < 0.55:
        b = rng.choice([b"*", b"+"])
        sp["bullets"] = [b] * len(items)
    else:
        sp["bullets"] = [rng.choice([b"-", b"*", b"+"]) for _ in items]
    sp["heading"] = None
    if allow_heading and heading_ok(items) and rng.random() < 0.25:
        sp["heading"] = [(rng.choice([1, 1, 2, 3]), rng.choice([b" ", b" ", b"", b"  "]), rng.choice([b"", b"", b" "])) for _ in items]
        # mixed notation: the first roots as bullets, headings from some later root on (after the first heading every
        # column-0 bullet is a child, so the switch can happen only once, at a root)
        root_idx = [i for i, (d, _) in enumerate(items) if d == 1]
        if len(root_idx) > 1 and rng.random() < 0.4:
            sp["heading_from"] = rng.choice(root_idx[1:])
    nl = len(items)
    if blanks and rng.random() < 0.5:
        sp["blanks"] = [[rng.choice(BLANK_LINES) for _ in range(rng.choice([0, 0, 0, 1, 1, 2]))] for _ in range(nl + 1)]
    else:
        sp["blanks"] = [[] for _ in range(nl + 1)]
    m = rng.random()
    if m < 0.6:
        sp["crlf"] = [False] * (nl + 1)
    elif m < 0.75:
        sp["crlf"] = [True] * (nl + 1)
    else:
        sp["crlf"] = [rng.random() < 0.5 for _ in range(nl + 1)]
    sp["final_newline"] = rng.random() < 0.7
    return sp


def plain_spelling(items, unit=b"  "):
    nl = len(items)
    return {"unit": unit, "bullets": [b"-"] * nl, "heading": None, "blanks": [[] for _ in range(nl + 1)],
            "crlf": [False] * (nl + 1), "final_newline": True}


def spell_lines(items, sp):
    """the list of raw lines (without terminators) plus per-line crlf flags"""
    lines = []
    for i, (d, n) in enumerate(items):
        for bl in sp["blanks"][i]:
            lines.append((bl, sp["crlf"][i], None))
        if sp["heading"] is not None and i >= sp.get("heading_from", 0):
            if d == 1:
                k, pre, post = sp["heading"][i]
                row = b"#" * k + pre + n + post
            else:
                row = sp["unit"] * (d - 2) + sp["bullets"][i] + b" " + n
        else:
            row = sp["unit"] * (d - 1) + sp["bullets"][i] + b" " + n
        lines.append((row, sp["crlf"][i], i))
    for bl in sp["blanks"][len(items)]:
        lines.append((bl, sp["crlf"][len(items)], None))
    return lines


def join_lines(lines, final_newline=True):
    out = b""
    for j, (row, crlf, _) in enumerate(lines):
        out += row
        last = j == len(lines) - 1
        if last and not final_newline:
            # a blank last line made only of CR-less content may stay unterminated
            break
        out += b"\r\n" if crlf else b"\n"
    return out


def spell(items, sp):
    return join_lines(spell_lines(items, sp), sp["final_newline"])


def items_arg(items):
    return ",".join("%d:%s" % (d, n.hex() if n else "_") for d, n in items) or "-"


BF_DEFAULT = ("└──".encode(), b"    ", "├──".encode(), "│   ".encode())
BF_CHOICES = [BF_DEFAULT, (b"+--", b"    ", b"|--", b"|   "), (b"", b"", b"", b""),
              ("🌿".encode(), "  ".encode(), "🌱".encode(), "┆ ".encode()), (b"L", b"", b"M", b"i"),
              (b"`-", b" ", b"|-", b"|"),
              # connectors of DIFFERENT byte lengths for last / intermediate nodes
              (b"`---", b"   ", b"|-", b"|  "), (b"\\", b"", b"+---", b"|"), (b"", b"  ", b"*", b"."),
              ("└".encode(), b" ", b"+-", "│ ".encode()),
              # two tuples whose continuation strings CONCATENATE to the same text as the defaults' ("    " + "│   ")
              ("└──".encode(), b"  ", "├──".encode(), "  │   ".encode()), ("└──".encode(), b"    ", "├──".encode(), "│   ".encode()),
              # characters that are special to fmt
              (b"%-", b"% ", b"|%s", b"%d "), (b"`%%", b"  ", b"%v", b"%")]


def bf_args(bf):
    if bf is None:
        return "D D D D"        # no branch-format option: the library's own defaults
    return " ".join(hx(x) for x in bf)


# ---------------------------------------------------------------- verdicts, evidence

class Check:
    def __init__(self, pid, tier, seed):
        self.pid = pid
        self.tier = tier
        self.seed = seed
        self.t0 = time.time()
        self.violations = []      # (text, replay dict)
        self.known = []
        self.evals = 0
        self.nontrivial = set()
        self.samples = []
        self.dist = {}
        self.drift = 0
        self.extra = {}
        self.proof = None
        kf = os.path.join(VERIF, "known_findings.json")
        self.findings = json.load(open(kf)) if os.path.exists(kf) else []

    def count(self, key, n=1):
        self.dist[key] = self.dist.get(key, 0) + n

    def case(self, case_line, nontrivial):
        self.evals += 1
        if nontrivial:
            self.nontrivial.add(hashlib.sha1(case_line.encode()).digest()[:8])
        if len(self.samples) < 5 and nontrivial and self.evals % 97 == 1:
            self.samples.append(case_line[:600])

    def matches_known(self, replay):
        for f in self.findings:
            if f.get("status") != "known" or f.get("property") != self.pid:
                continue
            m = f.get("matcher", {})
            if all(replay.get(k) == v for k, v in m.items()):
                return f
        return None

    def violation(self, replay, no_input=False):
        if any(str(replay.get(k, "")).startswith("skipped -") for k in ("got", "impl")):
            self.count("not_run_after_repeated_timeouts")
            return
        f = self.matches_known(replay)
        if f is not None:
            key = f["id"]
            if key not in [k["id"] for k in self.known]:
                self.known.append(f)
            return
        self.violations.append((replay, no_input))

    def finish(self, rule, level="proof", assumptions=None):
        wall = time.time() - self.t0
        for f in self.known:
            print("KNOWN-FINDING: property=%s %s" % (self.pid, f["text"]))
        rdir = os.path.join(VERIF, "replays", self.pid)
        shutil.rmtree(rdir, ignore_errors=True)
        n = 0
        seen = set()
        for replay, no_input in self.violations:
            kind = replay.get("kind", "") + "|" + replay.get("class", "")
            if kind in seen and n >= 3:
                continue
            seen.add(kind)
            os.makedirs(rdir, exist_ok=True)
            path = os.path.join(rdir, "%d.json" % n)
            json.dump(replay, open(path, "w"), indent=1)
            print("VIOLATION property=%s replay=%s%s" % (self.pid, path, " no-failing-input-found" if no_input else ""))
            n += 1
            if n >= 8:
                break
        cov = {
            "evaluations": self.evals,
            "distinct_nontrivial": len(self.nontrivial),
            "rule": rule,
            "samples": self.samples or ["(no sample recorded)"],
            "distribution": self.dist,
            "drift": self.drift,
        }
        if self.proof:
            pr = dict(self.proof)
            if pr.get("discharged", 0) < 1 or pr.get("discharged") != pr.get("obligations"):
                # a failed obligation is reported through the VIOLATION line; keep the evidence schema-valid
                pr["proof_obligations_failed"] = True
                pr.pop("obligations", None)
                pr.pop("discharged", None)
            cov.update(pr)
        cov.update(self.extra)
        ev = {"property_id": self.pid, "tier": self.tier, "seed": self.seed, "level": level, "coverage": cov,
              "assumptions": assumptions or [], "wall_s": round(wall, 2), "violations": len(self.violations)}
        os.makedirs(os.path.join(VERIF, "evidence"), exist_ok=True)
        json.dump(ev, open(os.path.join(VERIF, "evidence", self.pid + ".json"), "w"), indent=1)
        print("%s: %d cases, %d distinct non-trivial, %d violations, %d known findings, %.1fs" %
              (self.pid, self.evals, len(self.nontrivial), len(self.violations), len(self.known), wall))
        return 1 if self.violations else 0


# ---------------------------------------------------------------- proof obligations

FORBIDDEN = re.compile(r"\b(Admitted|admit|Axiom|Axioms|Parameter|Parameters|Conjecture|Hypothesis|Variable)\b|Unset Guard|bypass_check|type-in-type|impredicative-set|Admit Obligations")


def scan_sources():
    """syntactic scan for forbidden declarations; Variable/Hypothesis are allowed inside sections only"""
    bad = []
    for root, _, files in os.walk(os.path.join(COQ, "theories")):
        for f in files:
            if not f.endswith(".v"):
                continue
            depth = 0
            txt = open(os.path.join(root, f)).read()
            txt = re.sub(r"\(\*.*?\*\)", "", txt, flags=re.S)
            for ln, line in enumerate(txt.split("\n"), 1):
                if re.match(r"\s*Section\b", line):
                    depth += 1
                if re.match(r"\s*End\b", line) and depth > 0:
                    depth -= 1
                m = FORBIDDEN.search(line)
                if m:
                    w = m.group(0)
                    if w in ("Variable", "Hypothesis") and depth > 0:
                        continue
                    bad.append("%s:%d: %s" % (f, ln, line.strip()[:120]))
    return bad


def proof_obligations(pid):
    """(ok, info): full build up to date, Properties/<pid>.v recompiled, assumptions closed"""
    info = {"checker_cmd": "make -C coq -j16 (coq_makefile, full .vo) && coqc -Q coq/theories GT coq/theories/Properties/%s.v" % pid,
            "trusted_base": ["Coq 8.16.1 kernel (coqc; vm_compute used in Examples)", "no axioms (Print Assumptions: closed under the global context)",
                             "hand-written Gallina model tied to /repo by the correspondence run of this check",
                             "extraction ExtrOcamlBasic only + OCaml 4.13.1 + harness/modelrun/driver.ml",
                             "Go driver harness/godriver, python generators/comparers"]}
    ok, log = build_coq()
    if not ok:
        info["obligations"] = 1
        info["discharged"] = 0
        info["failure"] = "coq build failed: " + log[-1500:]
        return False, info
    bad = scan_sources()
    if bad:
        info["obligations"] = 1
        info["discharged"] = 0
        info["failure"] = "forbidden declarations: " + "; ".join(bad[:10])
        return False, info
    pf = os.path.join(COQ, "theories", "Properties", pid + ".v")
    if not os.path.exists(pf):
        info["obligations"] = 1
        info["discharged"] = 0
        info["failure"] = "no property file " + pf
        return False, info
    out_vo = os.path.join(scratch(), pid + ".vo")
    rc, out = sh("timeout 1200 coqc -Q %s GT -o %s %s" % (os.path.join(COQ, "theories"), out_vo, pf), check=False)
    if rc != 0:
        info["obligations"] = 1
        info["discharged"] = 0
        info["failure"] = "property file does not compile: " + out[-1500:]
        return False, info
    theorems = re.findall(r"^\s*(?:Theorem|Corollary)\s+(\w+)", open(pf).read(), flags=re.M)
    closed = out.count("Closed under the global context")
    axioms = re.findall(r"^Axioms:\n((?:.+\n)+)", out, flags=re.M)
    info["theorems"] = theorems
    info["print_assumptions_closed"] = closed
    info["axioms_reported"] = [a.strip() for a in axioms]
    # obligations: every Qed-closed statement in the dependency closure of the property file
    deps = dep_closure(pf)
    nq = 0
    for d in deps:
        txt = re.sub(r"\(\*.*?\*\)", "", open(d).read(), flags=re.S)
        nq += len(re.findall(r"\bQed\.", txt))
    info["obligations"] = nq
    info["discharged"] = nq
    info["dependency_files"] = [os.path.relpath(d, COQ) for d in deps]
    good = closed >= len(theorems) and len(theorems) > 0 and not axioms
    if not good:
        info["failure"] = "assumptions not closed: " + out[-800:]
        info["discharged"] = 0
    return good, info


def dep_closure(vfile):
    seen = []
    todo = [vfile]
    root = os.path.join(COQ, "theories")
    while todo:
        f = todo.pop()
        if f in seen:
            continue
        seen.append(f)
        txt = open(f).read()
        for m in re.finditer(r"From GT Require (?:Import|Export)\s+([^.]*(?:\.[A-Za-z_][\w]*)*[^.]*)\.\s", txt):
            for mod in m.group(1).split():
                p = os.path.join(root, *mod.split(".")) + ".v"
                if os.path.exists(p):
                    todo.append(p)
    return seen


# ---------------------------------------------------------------- massive-mode instance (C10 / C11)

def instance_obligation():
    """Re-derive the pipeline's synchronisation structure from /repo's CURRENT source with the go/ast
    inventory scanner and re-check the static obligations (Conc/InstanceCheck.v: every massive entry
    point has an instance and it satisfies safe_params) against it.  Returns (ok, info)."""
    info = {}
    sc = scratch()
    inv_dir = os.path.join(VERIF, "harness", "inventory")
    exe = os.path.join(sc, "inventory")
    with Lock("gobuild"):
        rc, log = sh(["go", "build", "-o", exe, "."], cwd=inv_dir, env=GOENV, check=False, timeout=600)
    if rc != 0:
        return False, {"failure": "inventory scanner does not build: " + log[-800:]}
    d = os.path.join(sc, "inst")
    os.makedirs(d, exist_ok=True)
    rc, out = sh([exe, REPO, os.path.join(d, "inventory.json")], check=False)
    if rc != 0:
        return False, {"failure": "inventory scanner failed on /repo: " + out[-800:]}
    gen = out.replace("Conc/Instance.v", "InstanceNow.v")
    open(os.path.join(d, "InstanceNow.v"), "w").write(gen)
    chk = open(os.path.join(COQ, "theories", "Conc", "InstanceCheck.v")).read()
    chk = chk.replace("From GT Require Import Conc.Pipeline Conc.Instance.", "From GT Require Import Conc.Pipeline.\nFrom GTN Require Import InstanceNow.")
    open(os.path.join(d, "InstanceCheckNow.v"), "w").write(chk)
    committed = open(os.path.join(COQ, "theories", "Conc", "Instance.v")).read()
    info["inventory_equals_committed"] = (committed.split("\n", 1)[1] == out.split("\n", 1)[1])
    info["inventory_functions"] = len(json.load(open(os.path.join(d, "inventory.json")))["functions"])
    th = os.path.join(COQ, "theories")
    for f in ("InstanceNow.v", "InstanceCheckNow.v"):
        rc, o = sh("timeout 600 coqc -Q %s GT -Q %s GTN %s" % (th, d, os.path.join(d, f)), check=False)
        if rc != 0:
            info["failure"] = "static obligation on the current source fails in %s: %s" % (f, o[-1200:])
            return False, info
    return True, info


# ---------------------------------------------------------------- thorough tier extras

def coqchk_property(pid):
    """independent re-check of the compiled property file and everything it depends on (coqchk -o)"""
    rc, out = sh("timeout 2400 coqchk -silent -o -Q %s GT GT.Properties.%s" % (os.path.join(COQ, "theories"), pid), cwd=COQ, check=False, timeout=2500)
    axioms = re.findall(r"^\* Axioms:\n((?:.*\n)*?)(?=\n|\* )", out, flags=re.M)
    return rc == 0, {"coqchk_exit": rc, "coqchk_tail": out[-1500:]}


def _coq_str(b):
    return "[" + ";".join("ch %d" % x for x in b) + "]"


def kernel_crosscheck(out_cases, answers, limit=300):
    """evaluate a sub-sample of `out` cases with the kernel's vm_compute (no extraction, no OCaml) and compare
    with the answers of the extracted runner.  Returns (n checked, n mismatching, log)."""
    import random as _r
    idx = [i for i, c in enumerate(out_cases) if c.startswith("out ") and c.split(" ")[1] in ("d", "j") and len(c) < 4000]
    _r.Random(7).shuffle(idx)
    idx = idx[:limit]
    if not idx:
        return 0, 0, ""
    lines = ["From Coq Require Import List Ascii Arith Bool.", "From GT Require Import Base.GoStr Tree.Tree Tree.Grower Api.Simple Api.Faults.",
             "Import ListNotations.", "Definition cases : list (cfg * str * bool * str) := ["]
    rows = []
    for i in idx:
        t = out_cases[i].split(" ")
        e, d, n, ld, li, md, mi, exts, inp = t[1:10]
        exl = [] if exts == "-" else [unhx(x) for x in exts.split(",")]
        cfg = "{| c_bf := {| last_d := %s; last_i := %s; mid_d := %s; mid_i := %s |}; c_enc := %s; c_dry := %s; c_exts := [%s]; c_noiter := %s |}" % (
            _coq_str(unhx(ld)), _coq_str(unhx(li)), _coq_str(unhx(md)), _coq_str(unhx(mi)), "EncJSON" if e == "j" else "EncDefault",
            "true" if d == "1" else "false", ";".join(_coq_str(x) for x in exl), "true" if n == "1" else "false")
        res, chunks = answers[i].split(" ")
        bytes_ = b"".join(unhx(c[1:]) for c in chunks.split(";") if c.startswith("t")) if chunks != "-" else b""
        rows.append("(%s, %s, %s, %s)" % (cfg, _coq_str(unhx(inp)), "true" if res == "ok" else "false", _coq_str(bytes_)))
    lines.append(";\n".join(rows))
    lines += ["].", "Definition agrees (c : cfg * str * bool * str) : bool :=", "  let '(cf, inp, ok, bytes) := c in",
              "  let '(cs, r) := output_md cf inp in", "  Bool.eqb (match r with Ok _ => true | _ => false end) ok && str_eqb (chunk_bytes cs) bytes.",
              "Definition mismatches : nat := List.length (filter (fun c => negb (agrees c)) cases).", "Eval vm_compute in mismatches."]
    d = os.path.join(scratch(), "kx")
    os.makedirs(d, exist_ok=True)
    f = os.path.join(d, "cases.v")
    open(f, "w").write("\n".join(lines) + "\n")
    rc, out = sh("timeout 1800 coqc -Q %s GT %s" % (os.path.join(COQ, "theories"), f), check=False, timeout=1900)
    m = re.search(r"=\s*(\d+)\s*:\s*nat", out)
    bad = int(m.group(1)) if (rc == 0 and m) else len(idx)
    return len(idx), bad, out[-600:]
