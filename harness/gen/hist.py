# hist.py — histories of NewRoot / Add / operations, with a python mirror of the trees
from lib import *


class PyTree:
    """mirror of the arena: nodes are [name, children]; handles index nodes"""
    def __init__(self):
        self.handles = []      # (root_index, node)
        self.roots = []

    def new_root(self, name):
        node = [name, []]
        self.roots.append(node)
        self.handles.append((len(self.roots) - 1, node, True))
        return len(self.handles) - 1

    def add(self, h, name):
        ri, node, _ = self.handles[h]
        for c in node[1]:
            if c[0] == name:
                self.handles.append((ri, c, False))
                return len(self.handles) - 1
        c = [name, []]
        node[1].append(c)
        self.handles.append((ri, c, False))
        return len(self.handles) - 1

    def items(self, ri):
        out = []

        def rec(n, d):
            out.append((d, n[0]))
            for c in n[1]:
                rec(c, d + 1)
        rec(self.roots[ri], 1)
        return out


def canonical_build(items):
    """history ops that build the tree in pre-order; returns (ops, handle of root)"""
    ops = []
    stack = []   # handle index at depth d-1
    h = -1
    for d, n in items:
        h += 1
        if d == 1:
            ops.append("R,%s" % hx(n))
            stack = [h]
        else:
            ops.append("A,%d,%s" % (stack[d - 2], hx(n)))
            stack = stack[:d - 1] + [h]
    return ops


def bf_csv(bf):
    if bf is None:
        return "D,D,D,D"        # no branch-format option at all
    return ",".join(hx(x) for x in bf)


def exts_plus(exts):
    return "+".join(x.hex() if x else "_" for x in exts) if exts else "-"
