# C14 — reader and writer failures are reported, never swallowed.
from lib import *
from hist import *
from c05 import merged_items

RULE = ("documents (spelled forests, <= 200 bytes exhaustively in the failure offset, sampled beyond) x reader failing after every "
        "byte offset x writer budgets 0..|output| (every write boundary and mid-write offsets; two writer flavours: injected "
        "error / io.ErrShortWrite, both with a partial count) x all output modes (text both routes, JSON, YAML, TOML, dry-run) x "
        "{From-Markdown, From-Root} x {simple, massive}. Predicates: reader failure => errors.Is(err, injected); nil returned => "
        "the writer accepted the whole (unfaulted) output. non-trivial = the fault hits before the end of input / output")
ASSUMPTIONS = ["a writer that returns a short count with a nil error breaks io.Writer's contract and is outside the claim",
               "YAML/TOML encoders are opaque: their cases are checked against the predicate only, not against the model"]

MODES = ["d 0 0", "d 0 1", "j 0 0", "j 0 1", "y 0 0", "t 0 1", "d 1 0", "d 1 1"]


def run(ck, rng):
    exe = build_godriver()
    docs = []
    for _ in range(60 if ck.tier == "quick" else 1200):
        items = gen_forest(rng, max_roots=3, max_nodes=8 if rng.random() < 0.8 else 20, pool=rng.choice(["ascii", "fs"]))
        # massive mode is only exercised on heading-free spellings (known finding K1 of C10 otherwise)
        sp = gen_spelling(rng, items)
        docs.append((items, spell(items, sp), sp["heading"] is None))
    # unfaulted reference runs
    ref_cases, ref_meta = [], []
    for items, doc, mok in docs:
        for mode in (MODES if ck.tier == "thorough" else rng.sample(MODES, 3)):
            if mode.startswith("t") and sum(1 for d, _ in items if d == 1) != 1:
                continue
            bf = rng.choice(BF_CHOICES[:3])
            exts = rng.choice([[], [b".go"]])
            massive = mok and rng.random() < 0.3
            ref_cases.append("%sfout - - 0 %s %s %s %s" % ("m" if massive else "", mode, bf_args(bf), hxlist(exts), hx(doc)))
            ref_meta.append((items, doc, mode, bf, exts, massive))
    ref, _ = run_impl(exe, ref_cases)
    cases, meta = [], []
    for (items, doc, mode, bf, exts, massive), rr in zip(ref_meta, ref):
        r0, out0 = rr.split(" ")
        total = len(unhx(out0))
        pre = "m" if massive else ""
        tail = "%s %s %s %s" % (mode, bf_args(bf), hxlist(exts), hx(doc))
        # reader failures
        offs = range(len(doc) + 1) if len(doc) <= 200 and ck.tier == "thorough" else sorted(set(rng.sample(range(len(doc) + 1), min(10, len(doc) + 1)) + [0, len(doc)]))
        for k in offs:
            # sometimes the reader's error also wraps context.Canceled (an abandoned stream): still the reader's failure
            # ... or is transient ("n": fails once at that offset and would deliver the rest if asked again)
            cases.append("%sfout %d%s - 0 %s" % (pre, k, rng.choice(["", "", "c", "n"]), tail))
            meta.append(("reader", k, len(doc), total, doc, mode, massive, out0))
        # the document in a regular file opened write-only: a real *os.File whose reads fail
        if len(doc) > 0:
            cases.append("%sfout w - 0 %s" % (pre, tail))
            meta.append(("reader_osfile", 0, len(doc), total, doc, mode, massive, out0))
        # writer budgets
        if r0 == "ok":
            buds = range(total + 1) if total <= 120 and ck.tier == "thorough" else sorted(set(rng.sample(range(total + 1), min(10, total + 1)) + [0, max(0, total - 1), total]))
            for b in buds:
                # 0: (partial n, injected error); 1: io.ErrShortWrite; 4: (len(p), error) on the crossing write;
                # 5: the error also wraps context.Canceled
                fl = rng.choice("010145")
                cases.append("%sfout - %d %s %s" % (pre, b, fl, tail))
                meta.append(("writer", b, len(doc), total, doc, mode, massive, out0))
            # a real *os.File that rejects every write (/dev/full, read-only descriptor, broken pipe)
            for fk in (rng.sample(range(3), 1) if ck.tier == "quick" else range(3)):
                cases.append("%sfout - %d 3 %s" % (pre, fk, tail))
                meta.append(("writer_osfile", 0, len(doc), total, doc, mode, massive, out0))
            # transient failure: exactly the k-th Write call is rejected, later ones succeed
            for kth in range(0, 14) if ck.tier == "thorough" else rng.sample(range(0, 14), 5):
                cases.append("%sfout - %d 2 %s" % (pre, kth, tail))
                meta.append(("writer_kth", kth, len(doc), total, doc, mode, massive, out0))
    # From-Root with a budgeted writer
    for items, doc, mok in docs:
        r0 = merged_items(items)[0]
        for mode in rng.sample(["d 0", "j 0", "y 0", "t 0", "d 1"], 2):
            bf = rng.choice(BF_CHOICES[:3])
            massive = rng.random() < 0.3
            refc = "%sfrout 1000000 0 %s %s %s" % ("m" if massive else "", mode, bf_args(bf), items_arg(r0))
            out = run_impl(exe, [refc])[0][0]
            total = len(unhx(out.split(" ")[1]))
            for b in sorted(set(rng.sample(range(total + 1), min(6, total + 1)) + [0, max(0, total - 1), total])):
                cases.append("%sfrout %d %s %s %s %s" % ("m" if massive else "", b, rng.choice("01"), mode, bf_args(bf), items_arg(r0)))
                meta.append(("root_writer", b, 0, total, doc, mode + " r", massive, out.split(" ")[1]))
            cases.append("%sfrout %d 3 %s %s %s" % ("m" if massive else "", rng.randrange(3), mode, bf_args(bf), items_arg(r0)))
            meta.append(("root_writer_osfile", 0, 0, total, doc, mode + " r", massive, out.split(" ")[1]))
            for kth in rng.sample(range(0, 10), 3):
                cases.append("%sfrout %d 2 %s %s %s" % ("m" if massive else "", kth, mode, bf_args(bf), items_arg(r0)))
                meta.append(("root_writer_kth", kth, 0, total, doc, mode + " r", massive, out.split(" ")[1]))
    impl, _ = run_impl(exe, cases)
    def model_case(c):
        c = c[1:] if c.startswith("m") else c
        f = c.split(" ")
        if f[0] == "fout" and f[1] == "w":
            f[1] = "0"
        if f[0] == "fout" and f[1].endswith(("c", "n")):
            f[1] = f[1][:-1]
        if f[0] == "fout" and f[3] == "5":
            f[3] = "0"
        if f[0] == "fout" and f[3] == "4":
            f[3] = "0"      # not modelled: compared through the predicate only (see below)
        if f[0] == "fout" and f[3] == "3":
            f[2], f[3] = "0", "0"
        if f[0] == "frout" and f[2] == "3":
            f[1], f[2] = "0", "0"
        return " ".join(f)
    model = run_model([model_case(c) for c in cases])
    verdicts = {}
    broken = None
    for i, (kind, k, dl, total, doc, mode, massive, out0) in enumerate(meta):
        fields = impl[i].split(" ")
        r, acc = fields[0], fields[1]
        nontriv = (kind == "reader" and k < dl) or (kind != "reader" and k < total)
        ck.case(cases[i][:400], nontriv)
        ck.count(kind + (":massive" if massive else ""))
        ck.count("mode:" + mode)
        bad = None
        rep = {}
        if kind == "reader_osfile":
            if r == "ok":
                bad = "every read of the input file fails (write-only descriptor) but the call returned nil"
            model[i] = impl[i]
        elif kind == "reader":
            if r != "err:reader":
                bad = "the reader failed after %d of %d bytes but the call returned %s" % (k, dl, r)
                # K4: the failure is inside a line whose delivered prefix is itself malformed
                trunc = doc[:k]
                if not trunc.endswith(b"\n") and r.startswith("err:") and r not in ("err:reader",):
                    v = run_model(["classdoc " + hx(trunc)])[0]
                    if v.startswith("bad"):
                        nlines = trunc.count(b"\n")
                        if int(v.split(" ")[1]) == nlines:
                            rep["finding"] = "reader_midline_masked"
        elif kind.endswith("_kth"):
            if len(fields) > 2 and fields[2] == "1" and r == "ok":
                bad = "nil returned although the writer rejected write call number %d" % k
            if len(fields) > 2:
                impl[i] = fields[0] + " " + fields[1]
        elif kind.endswith("_osfile"):
            if r == "ok" and total > 0:
                bad = "nil returned although the *os.File rejects every write (%d bytes of output)" % total
            impl[i] = r + " -"
            model[i] = model[i].split(" ")[0] + " -"
        elif kind == "writer" and cases[i].split(" ")[3] == "4":
            if r == "ok" and k < total:
                bad = "nil returned although a Write reported an error (after taking its bytes), budget %d of %d" % (k, total)
            model[i] = impl[i]
        else:
            if r == "ok" and k < total:
                bad = "nil returned although the writer accepted only %d of %d bytes" % (len(unhx(acc)), total)
            elif r != "ok" and k >= total and r != "err:writer":
                pass
            elif r != "ok" and k >= total:
                bad = "writer error reported although the whole output (%d bytes) fits the budget %d" % (total, k)
        if bad:
            rep.update({"property": "C14", "kind": "io_faults", "class": kind + "|" + mode + ("|massive" if massive else "") + "|" + bad[:14],
                        "case": cases[i], "got": impl[i][:400], "why": bad, "expected": model[i][:400]})
            ck.violation(rep)
        elif not massive and mode[0] in "dj" and impl[i] != model[i]:
            broken = broken or (cases[i][:1500], impl[i][-400:], model[i][-400:])
    return broken
