# mutate.py — grammar-aware mutations and raw byte strings for the malformed streams
from lib import *

RAW_ALPHABET = [b"-", b"*", b"+", b"#", b" ", b"\t", b"\n", b"\r", b"\r\n", b"a", b"b", b"- a", b"  ", b"\xff", b"\xc2", b"\xc2\xa0",
                b"\xe3\x80\x80", b"\xe2\x80\xa8", b"\x00", b"\x0b", b"\x0c", b"/", b".", b"..", b"x" * 40, b"\xe2\x80", b"\xc0\xa0"]


def raw_bytes(rng):
    n = rng.choice([0, 0, 1, 2, 3, 5, 8, 13, 30])
    return b"".join(rng.choice(RAW_ALPHABET) for _ in range(n))


SPECIALS = [b"", b"\n", b" ", b"\n\n\n", b" \n\t\n", b"\r\n", b"\xe3\x80\x80\n", b"  - a\n", b"\t- a\n- b\n", b" \n- a\n", b"- a", b"-", b"- ",
            b"-\n", b"#", b"# ", b"#\n- a", b"##", b"# #", b"- a\n      - b\n", b"- a\n  - b\n      - c\n  - d\n", b"a\n", b"- a\n b\n",
            b"- a\n\t- b\n  - c\n", b"- a\n  - b\n   - c\n", b"- a\n  -\n", b"- a\n  - \n", b"# a\n- b\n- c\n", b"- a\n# b\n- c\n",
            b"\xff\xfe", b"\x00", b"- \x00\n", b"- a\r", b"- a\r\r\n", b"\r", b"-a\n", b"- a\n-b\n", b"+ a\n * b\n", b"- a\n \t- b\n"]


def long_line_docs():
    out = []
    for n in (65533, 65534, 65535, 65536):
        out.append(b"- " + b"x" * (n - 2))                 # raw line of n bytes, no newline
        out.append(b"- " + b"x" * (n - 2) + b"\n")
        out.append(b"- a\n  - " + b"y" * (n - 4) + b"\r\n- b\n")   # CR counts towards the limit
        out.append(b"- a\n" + b" " * n + b"\n- b\n")
    return out


def mutate(rng, doc):
    lines = doc.split(b"\n")
    k = rng.randint(1, 3)
    for _ in range(k):
        m = rng.randint(0, 13)
        i = rng.randrange(len(lines)) if lines else 0
        if not lines:
            lines = [b""]
        if m == 0:
            del lines[i]
        elif m == 1:
            lines.insert(i, lines[i])
        elif m == 2:
            lines[i] = rng.choice([b" ", b"  ", b"\t", b"   ", b"    ", b"      ", b" \t"]) + lines[i]
        elif m == 3:
            lines[i] = lines[i].lstrip(b" \t")
        elif m == 4:
            lines[i] = lines[i].replace(b"- ", rng.choice([b"-", b"", b"x ", b"-  ", b"# ", b"*", b"+ "]), 1)
        elif m == 5:
            pos = rng.randint(0, len(lines[i]))
            lines[i] = lines[i][:pos] + rng.choice(RAW_ALPHABET) + lines[i][pos:]
        elif m == 6:
            lines[i] = lines[i][:rng.randint(0, len(lines[i]))]
        elif m == 7:
            lines[i] = lines[i] + b"\r"
        elif m == 8:
            lines.insert(i, rng.choice(BLANK_LINES))
        elif m == 9:
            lines[i] = lines[i].replace(b" ", b"\t", 1)
        elif m == 10:
            lines[i] = lines[i].replace(b"  ", b" ", 1)
        elif m == 11 and len(lines) > 1:
            j = rng.randrange(len(lines))
            lines[i], lines[j] = lines[j], lines[i]
        elif m == 12:
            lines[i] = rng.choice([b"#", b"##", b"# "]) + lines[i].lstrip(b"-*+ \t")
        elif m == 13:
            lines[i] = b"    " + lines[i]
    return b"\n".join(lines)


def malformed_stream(rng, n):
    out = list(SPECIALS)
    while len(out) < n:
        r = rng.random()
        if r < 0.2:
            out.append(raw_bytes(rng))
        else:
            items = gen_forest(rng, max_nodes=12, pool=rng.choice(["ascii", "mixed"]))
            doc = spell(items, gen_spelling(rng, items))
            out.append(mutate(rng, doc))
    return out
