# C12 — no input can crash or hang the library; blank input gives empty output and nil.
# Doubles as the full-observable conformance stream (impl vs model on every simple-mode op).
from lib import *
from mutate import *

KERNEL_XCHECK = True
RULE = ("byte strings = fixed specials (empty, blank-only, leading indented item, level jumps, binary, invalid UTF-8) + "
        "lines of 65533..65536 bytes + grammar-aware mutations of spelled random forests + raw alphabet strings; each run "
        "through every entry point (text/JSON/YAML/TOML/dry-run output by iterator and non-iterator routes, walk, and the "
        "massive variants); non-trivial = input is not accepted as a well-formed document by the model or has >= 3 lines")
ASSUMPTIONS = ["a crash or hang is observed per isolated driver process; the massive variants are checked for normal return and the blank clause only (their outputs are C10's subject)"]

OPS = [("out d 0 0", True), ("out d 0 1", True), ("out j 0 0", True), ("out j 0 1", True), ("out y 0 0", True), ("out t 0 1", True),
       ("out d 1 0", True), ("out d 1 1", True), ("walk", True),
       ("mout d 0 0", False), ("mout j 0 0", False), ("mout d 1 0", False), ("mout y 0 0", False), ("mwalk", False),
       ("fs:m,0", True), ("fs:m,1", True), ("fs:v,0", True), ("fs:v,1", True), ("mfs:m,0", False), ("mfs:v,1", False)]


def mk_case(op, doc, bf, exts):
    if "fs:" in op:
        # mkdir (real / dry-run) and verify inside a fresh jail with a pre-existing target
        kind = op.split(":")[1]
        pre = "F,d:746774"
        if kind.startswith("m"):
            body = "m,%s,%s,746774,-,-,-,-,%s" % (kind[2], "+".join(x.hex() if x else "_" for x in exts) if exts else "-", hx(doc))
        else:
            body = "v,%s,746774,%s" % (kind[2], hx(doc))
        return ("mhist " if op.startswith("m") else "hist ") + pre + ";" + body
    if op.endswith("walk"):
        return "%s %s - %s" % (op, bf_args(bf), hx(doc))
    return "%s %s %s %s" % (op, bf_args(bf), hxlist(exts), hx(doc))


def is_blank_doc(doc):
    try:
        return doc.decode("utf-8").strip() == "" and all(len(l) < 65536 for l in doc.split(b"\n"))
    except UnicodeDecodeError:
        return False


def run(ck, rng):
    exe = build_godriver()
    n = 700 if ck.tier == "quick" else 20000
    docs = malformed_stream(rng, n)
    docs += long_line_docs()
    # nodes with 15..257 children (sizes at which lookup structures change), with repeated names
    docs += [spell(items, plain_spelling(items)) for items in very_wide_forests()]
    docs += [spell(items, deep_spelling(items)) for items in deep_forests(depths=(64, 65, 66, 130))]
    cases, meta = [], []
    for doc in docs:
        ops = OPS if (ck.tier == "thorough" or len(doc) > 60000 or rng.random() < 0.15) else rng.sample(OPS, 4)
        for op, modelled in ops:
            bf = rng.choice(BF_CHOICES)
            exts = rng.choice([[], [b".go"], [b"a", b"b"], [b".md", b"Makefile", b".go"]])
            cases.append(mk_case(op, doc, bf, exts))
            meta.append((op, modelled, doc))
    impl, crashes = run_impl(exe, cases)
    # the massive entry points again in a process with ONE processor (GOMAXPROCS=1): must return all the same
    one = [i for i, (op, modelled, doc) in enumerate(meta) if op.startswith("m") and len(doc) < 5000]
    one = rng.sample(one, min(len(one), 150 if ck.tier == "quick" else 3000))
    got1, _ = run_impl(exe, [cases[i] for i in one], env=dict(os.environ, GOMAXPROCS="1"), per_case_timeout=10.0, max_abnormal=5)
    for i, g in zip(one, got1):
        ck.case("GOMAXPROCS=1 " + cases[i][:300], True)
        ck.count("one_processor")
        if g.split("|")[-1].split(" ")[0] in ("panic", "crash", "timeout"):
            ck.violation({"property": "C12", "kind": "no_crash", "class": "one_processor|" + meta[i][0].split(" ")[0], "case": cases[i],
                          "input": meta[i][2][:300].decode("utf-8", "replace"), "got": g[:300],
                          "why": "with a single processor (GOMAXPROCS=1) the call does not return normally"})
    mcases = [c[1:] if c.startswith("m") else c for c in cases]
    model = run_model(mcases)
    ck.xcheck_cases = (mcases, model)
    broken_corr = None
    for i, (op, modelled, doc) in enumerate(meta):
        mres = model[i].split("|")[-1].split(" ")[0]
        ires = impl[i].split("|")[-1].split(" ")[0]
        nontrivial = (mres != "ok") or doc.count(b"\n") >= 2
        ck.case(cases[i][:400], nontrivial)
        ck.count("model:" + mres.split(":")[1] if mres.startswith("err:") else "model:" + mres)
        ck.count("op:" + op.split(" ")[0])
        bad = None
        if ires in ("panic", "crash", "timeout"):
            bad = "does not return normally: " + ires
        elif is_blank_doc(doc) and "fs:" not in op and impl[i] != "ok -":
            bad = "blank input must give empty output and nil"
        if bad:
            ck.violation({"property": "C12", "kind": "no_crash", "class": ires + "|" + op.split(" ")[0], "case": cases[i],
                          "input_hex": hx(doc), "input": doc[:300].decode("utf-8", "replace"), "got": impl[i][:300],
                          "expected": "ok -" if is_blank_doc(doc) else None, "why": bad})
        elif modelled and impl[i] != model[i]:
            # full-observable conformance: not part of C12's predicate
            ck.drift += 1
            if mres == "panic":
                broken_corr = broken_corr or (cases[i][:2000], impl[i][:500], model[i][:500])
            ck.extra.setdefault("drift_samples", [])
            if len(ck.extra["drift_samples"]) < 5:
                ck.extra["drift_samples"].append({"case": cases[i][:300], "impl": impl[i][:200], "model": model[i][:200]})
    return broken_corr
