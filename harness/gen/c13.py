# C13 — results depend only on the tree, not on call history or concurrent use.
from lib import *
from hist import *
import itertools

RULE = ("histories over <= 3 live trees: exhaustive up to the tier's length over the alphabet {NewRoot, Add x 2 names on any "
        "earlier handle, Output, Walk}, random up to length 60 (text/JSON/YAML output, walk, iterator walk consumed at once or "
        "obtained first and ranged over after further Adds and calls, From-Markdown calls in between), and the same histories run concurrently in 2-4 goroutines. Predicate (model-free): every "
        "operation's result equals the result of the same operation on a copy of the same tree built in pre-order in a "
        "fresh process. non-trivial = history with an operation after >= 2 Adds that follow an earlier operation")


def random_history(rng, maxlen, names, ops_kinds):
    pt = PyTree()
    ops, checks = [], []    # checks: (op index, root items, op text with handle placeholder)
    n = rng.randint(3, maxlen)
    pending = []            # iterators obtained (Ic) and not yet consumed: (key, handle, branch strings)

    def range_over(key, h, bf):
        # the sequence is computed when it is ranged over: the result is that of an iterator walk of the tree as it is NOW
        checks.append((len(ops), pt.items(pt.handles[h][0]), "I,%%d,%s,-" % bf_csv(bf)))
        ops.append("Ir,%d,-" % key)

    for _ in range(n):
        r = rng.random()
        if pending and r > 0.9:
            key, h, bf = rng.choice(pending)
            if rng.random() < 0.7:
                pending.remove((key, h, bf))
            range_over(key, h, bf)
            continue
        if not pt.handles or (r < 0.08 and len(pt.roots) < 3):
            nm = rng.choice(names)
            pt.new_root(nm)
            ops.append("R,%s" % hx(nm))
        elif r < 0.62:
            h = rng.randrange(len(pt.handles))
            nm = rng.choice(names)
            pt.add(h, nm)
            ops.append("A,%d,%s" % (h, hx(nm)))
        else:
            roots = [i for i, (ri, nd, isroot) in enumerate(pt.handles) if isroot]
            h = rng.choice(roots)
            ri = pt.handles[h][0]
            k = rng.choice(ops_kinds)
            bf = rng.choice(BF_CHOICES + [None, None, None])      # None: the call is made without any option
            if k in ("M", "V", "m", "v"):
                # interference only: mkdir / verify calls (their own results depend on the jail's state and are not compared)
                doc = spell(pt.items(ri), plain_spelling(pt.items(ri)))
                ex = rng.choice(["-", "-", "2e676f", "2e676f+2e6d64+2e676f", "2e6d64+61"])     # the same option values recur within a process
                ops.append({"M": "M,%d,%s,%s,%s,-,-,-,-" % (h, rng.choice("01"), ex, hx(b"tgt")),
                            "V": rng.choice(["V,%d,%s,%s" % (h, rng.choice("01"), hx(b"tgt")), "V,%d,0,-" % h]),     # the second: no option at all
                            "m": "m,%s,%s,%s,-,-,-,-,%s" % (rng.choice("01"), ex, hx(b"tgt"), hx(doc)),
                            "v": "v,%s,%s,%s" % (rng.choice("01"), hx(b"tgt"), hx(doc))}[k])
                continue
            if k == "O":
                tmpl = "O,%%d,%s,0,%s,-" % (rng.choice("djy"), bf_csv(bf))
            elif k == "W":
                tmpl = "W,%%d,%s,-" % bf_csv(bf)
            elif k == "Wn":
                # a walk whose callback makes another From-Root call (on this or another tree): same visits as a plain walk
                others = [x for x in roots if pt.handles[x][0] != ri]
                if not others:
                    continue
                other = rng.choice(others)      # ANOTHER tree: re-entrant use of the same tree is outside the property
                checks.append((len(ops), pt.items(ri), "W,%%d,%s,-" % bf_csv(bf)))
                ops.append("Wn,%d,%d,%s" % (h, other, bf_csv(bf)))
                continue
            elif k == "Ob":
                # an output whose writer fails part-way: interference only
                if rng.random() < 0.5:
                    ops.append("Ob,%d,%d" % (h, rng.randint(0, 30)))
                else:
                    ops.append("Ob,%d,%d,%s" % (h, rng.randint(0, 30), hx(spell(pt.items(ri), plain_spelling(pt.items(ri))))))
                continue
            elif k == "I" and rng.random() < 0.4:
                # obtain the iterator now, consume it after further Adds / calls with other options
                key = sum(1 for o in ops if o.startswith("Ic"))
                ops.append("Ic,%d,%d,%s" % (key, h, bf_csv(bf)))
                pending.append((key, h, bf))
                continue
            elif k == "I":
                tmpl = "I,%%d,%s,-" % bf_csv(bf)
            else:
                doc = spell(pt.items(ri), plain_spelling(pt.items(ri)))
                ops.append("o,d,0,0,%s,-,%s" % (bf_csv(bf), hx(doc)))
                continue
            checks.append((len(ops), pt.items(ri), tmpl))
            ops.append(tmpl % h)
    for key, h, bf in pending:
        range_over(key, h, bf)
    return ops, checks


def exhaustive_histories(maxlen):
    """all histories up to maxlen over {R, A(any earlier handle) x {a,b}, Output(any root)}"""
    out = []

    def rec(ops, nh, roots, ln):
        if ops and ops[-1][0] == "O":
            out.append(list(ops))
        if ln == maxlen:
            return
        if len(roots) < 2:
            rec(ops + [("R", b"r")], nh + 1, roots + [nh], ln + 1)
        for h in range(nh):
            for nm in (b"a", b"b"):
                rec(ops + [("A", h, nm)], nh + 1, roots, ln + 1)
        for h in roots:
            if nh > len(roots):
                rec(ops + [("O", h)], nh, roots, ln + 1)
    rec([], 0, [], 0)
    return out


def materialise(hist):
    pt = PyTree()
    ops, checks = [], []
    for o in hist:
        if o[0] == "R":
            pt.new_root(o[1])
            ops.append("R,%s" % hx(o[1]))
        elif o[0] == "A":
            pt.add(o[1], o[2])
            ops.append("A,%d,%s" % (o[1], hx(o[2])))
        else:
            tmpl = "O,%%d,d,0,%s,-" % bf_csv(BF_CHOICES[1])
            checks.append((len(ops), pt.items(pt.handles[o[1]][0]), tmpl))
            ops.append(tmpl % o[1])
    return ops, checks


def run(ck, rng):
    exe = build_godriver()
    hs = []
    L = 5 if ck.tier == "quick" else 7
    for h in exhaustive_histories(L):
        hs.append(materialise(h))
    names = [b"a", b"b", b"c", b"dir", b"x y", "é".encode(), b"- z"]
    for _ in range(600 if ck.tier == "quick" else 20000):
        hs.append(random_history(rng, 60 if rng.random() < 0.2 else 14, names, ["O", "O", "W", "I", "o", "Wn", "Ob"]))
    # histories in which mkdir / verify calls (which switch name validation on) and names that are no valid path
    # elements occur between the operations that are compared
    hostile = names + [b"x/y", b"..", b".", b"a/"]
    for _ in range(300 if ck.tier == "quick" else 8000):
        ops_h, checks_h = random_history(rng, 24, hostile, ["O", "W", "I", "o", "M", "V", "m", "v", "M", "V", "Ob"])
        if rng.random() < 0.4:
            # colours switched on (as on a terminal) for the whole history: dry-run mkdir colours its report, and must not
            # leave anything of that in the caller's trees
            ops_h = ["K"] + ops_h
            checks_h = [(oi + 1, items, tmpl) for oi, items, tmpl in checks_h]
        hs.append((ops_h, checks_h))
    cases = ["hist " + ";".join(ops) for ops, _ in hs]
    impl, _ = run_impl(exe, cases)
    model = run_model(cases)
    # canonical re-runs
    canon_cases, canon_ref = [], []
    for hi, (ops, checks) in enumerate(hs):
        for (oi, items, tmpl) in checks:
            cops = canonical_build(items)
            canon_cases.append("hist " + ";".join(cops + [tmpl % 0]))
            canon_ref.append((hi, oi))
    canon, _ = run_impl(exe, canon_cases)
    broken = None
    bad_hist = set()
    for (hi, oi), cres in zip(canon_ref, canon):
        got = impl[hi].split("|")
        want = cres.split("|")[-1]
        if oi >= len(got) or got[oi] != want:
            if hi not in bad_hist:
                bad_hist.add(hi)
                ck.violation({"property": "C13", "kind": "history_dependence", "class": "seq", "case": cases[hi],
                              "op_index": oi, "got": got[oi] if oi < len(got) else impl[hi][:200], "expected_op_result": want,
                              "why": "operation result differs from the result on a freshly built copy of the same tree"})
    for hi, (ops, checks) in enumerate(hs):
        later_adds = any(o.startswith("A") for o in ops[checks[0][0]:]) if checks else False
        ck.case(cases[hi][:400], bool(checks) and later_adds)
        ck.count("len<=5" if len(ops) <= 5 else "len<=14" if len(ops) <= 14 else "len>14")
        if hi not in bad_hist and impl[hi] != model[hi] and ops[0] != "K":     # the model has colours off
            broken = broken or (cases[hi][:1500], impl[hi][:400], model[hi][:400])
    # concurrent: groups of 2-4 histories in goroutines, repeated
    groups = []
    # the jail (working directory) is process-wide: histories with mkdir / verify calls are not run concurrently
    idx = [i for i in range(len(hs)) if hs[i][1] and not any(o[0] in "MVmvFK" for o in hs[i][0])]
    rng.shuffle(idx)
    ng = 150 if ck.tier == "quick" else 4000
    for g in range(ng):
        k = rng.randint(2, 4)
        groups.append([idx[(g * 4 + j) % len(idx)] for j in range(k)])
    ccases = ["chist " + "#".join(";".join(hs[i][0]) for i in grp) for grp in groups]
    cres, _ = run_impl(exe, ccases * (2 if ck.tier == "quick" else 3))
    for gi, res in enumerate(cres):
        grp = groups[gi % len(groups)]
        parts = res.split("#")
        ck.case(ccases[gi % len(groups)][:300] + "#rep%d" % (gi // len(groups)), True)
        ck.count("concurrent_groups")
        for j, hi in enumerate(grp):
            if hi in bad_hist:
                continue
            if j >= len(parts) or parts[j] != impl[hi]:
                ck.violation({"property": "C13", "kind": "history_dependence", "class": "concurrent", "case": ccases[gi % len(groups)],
                              "history_index": j, "got": parts[j][:300] if j < len(parts) else res[:200], "expected_history_result": impl[hi][:300],
                              "why": "history run concurrently with others gives a result different from running it alone"})
                break
    return broken
