# C11 — massive mode always returns and leaves no goroutine or data race behind.
from lib import *
from hist import *
from fsgen import *
from c05 import merged_items
from c10 import directed_delay

RULE = ("massive-mode scenarios = documents with 0..many failing blocks (format errors at the generator stage, invalid names at "
        "the grow stage, writer / callback / path-exists / verify failures at the sink) x cancellation (already cancelled, at every "
        "sampled reader offset, at hook points, after a delay) x reader failure x GOMAXPROCS in {1,2,4,16} x seeded delays/yields "
        "at the verifPoint hooks x {output text/JSON/YAML/dry-run, walk, mkdir, verify} x {From-Markdown, From-Root}; per call: a "
        "deadline, a goroutine dump AT the moment of return and after a settling period (goroutines with a frame in package gtree), "
        "a count of writer / callback uses after the return, and the same scenarios "
        "under a -race build. non-trivial = a failure, a cancellation or >= 3 roots")
ASSUMPTIONS = ["reader, writer and callback calls return; the Go scheduler and race detector are not modelled"]

ENTRIES = ["out-d", "out-d", "out-j", "out-y", "out-dry", "walk", "mkdir", "verify", "mkdir-dry", "rout-d", "rout-j", "rwalk", "rmkdir", "rverify"]


def scenarios(rng, n, heading_share=0.0):
    out = []
    for _ in range(n):
        entry = rng.choice(ENTRIES)
        heading = rng.random() < heading_share
        nroots = rng.choice([1, 2, 3, 5, 8, 14, 30])
        items = []
        for r in range(nroots):
            items.append((1, b"r%d" % r))
            for c in range(rng.randint(0, 3)):
                items.append((2, rng.choice([b"a", b"b", b"f.go", b"dir"])))
                if rng.random() < 0.3:
                    items.append((3, b"x"))
        fails = []
        lines = [r for r, _, _ in spell_lines(items, plain_spelling(items))]
        nbad = rng.choice([0, 0, 1, 2, 3, 5, 12])
        kind = rng.choice(["format", "name", "sink"])
        if entry.startswith("r"):
            nbad = min(nbad, 1)
        surely_bad = True
        if nbad and kind == "format" and not entry.startswith("r"):
            root_idx = [i for i, l in enumerate(lines) if not l.startswith(b" ")]
            for i in rng.sample(root_idx, min(nbad, len(root_idx))):
                bad_line = rng.choice([b"  x no bullet", b"  -", b"      - jump"])
                if b"jump" in bad_line:
                    surely_bad = False      # as the document's first indented line it defines the unit and is well-formed
                lines.insert(i + 1, bad_line)
                root_idx = [j + (1 if j > i else 0) for j in root_idx]
        elif nbad and kind == "name" and entry in ("out-dry", "mkdir", "verify", "mkdir-dry"):
            root_idx = [i for i, l in enumerate(lines) if not l.startswith(b" ")]
            for i in rng.sample(root_idx, min(nbad, len(root_idx))):
                lines.insert(i + 1, b"  - bad/name")
                root_idx = [j + (1 if j > i else 0) for j in root_idx]
        if heading and not entry.startswith("r"):
            # heading roots: every generator worker writes Parser.isSharpRoot (results are C10's K1; races are not)
            lines = [(b"# " + l[2:]) if not l.startswith(b" ") else l[2:] for l in lines]
        doc = b"\n".join(lines) + b"\n"
        budget = cbfail = "-"
        pre = [(b"tgt", "d")]
        if nbad and kind == "sink":
            if entry.startswith("out") or entry in ("rout-d", "rout-j", "mkdir-dry"):
                budget = str(rng.randint(0, 40))
            elif "walk" in entry:
                cbfail = str(rng.randint(0, 6))
            elif "mkdir" in entry:
                for r in rng.sample(range(nroots), min(nbad, nroots)):
                    pre.append((b"tgt/r%d" % r, "d"))
        if "verify" in entry and rng.random() < 0.5:
            for r in range(nroots):
                if rng.random() < 0.6:
                    pre.append((b"tgt/r%d" % r, "d"))
        cancel = rng.choice(["-", "-", "-", "pre", "r%d" % rng.randint(0, len(doc)), "t%d" % rng.choice([0, 20, 100, 400]),
                             "p%s:%d" % (rng.choice(["gen.recv", "grow.recv", "spread.recv", "split.send", "herr.reader", "gen.line", "feed.send", "walk.recv", "mkdir.recv"]), rng.randint(1, 6))])
        rfail = "-" if rng.random() < 0.85 or entry.startswith("r") else str(rng.randint(0, len(doc)))
        procs = rng.choice([1, 2, 4, 16])
        seed = rng.choice([0, rng.randint(1, 10 ** 6), rng.randint(1, 10 ** 6), directed_delay(rng, len(lines))])
        slow = rng.choice("01")
        if entry.startswith("r"):
            inp = items_arg(merged_items(items)[0]).encode()
        else:
            inp = doc
        # file extensions: the file/directory decision is shared state of the mkdir and dry-run workers
        exts = rng.choice(["-", "-", "2e676f", "2e676f+61"])
        case = "mscn %s %d %s %s %s %s %s %s %s %s %s 0 %s" % (entry, procs, cancel, rfail, budget, cbfail, seed, slow, snap_arg(pre), exts, hx(b"tgt"), hx(inp))
        fmt_bad = bool(nbad and kind == "format" and not entry.startswith("r") and surely_bad and not heading)
        faultless = (nbad == 0 and "verify" not in entry and not heading)
        out.append((case, entry, cancel, rfail, nbad, nroots, len(doc), "fmt" if fmt_bad else "clean" if faultless else "other"))
    return out


def judge(ck, case, res, entry, cancel, rfail, nbad, nroots, dl, race=False, expect="other"):
    f = res.split(" ")
    r = f[0]
    bad = None
    if r in ("timeout", "crash", "panic"):
        bad = "the call did not return normally: " + r
    elif len(f) >= 3 and f[2] != "0":
        bad = "%s goroutine(s) started by the call are still alive after it returned" % f[2]
    elif len(f) >= 8 and f[7] != "0":
        bad = "the writer / callback was used %s time(s) AFTER the call had returned" % f[7]
    elif len(f) >= 8 and f[6] != "0":
        bad = "%s goroutine(s) started by the call were still running at the moment it returned" % f[6]
    elif cancel == "pre" and r != "err:ctx":
        bad = "context cancelled before the call, result " + r
    elif cancel.startswith("r") and not entry.startswith("r") and int(cancel[1:]) < dl - 1 and r == "ok" and rfail == "-":
        bad = "context cancelled after %s of %d input bytes but the call returned nil" % (cancel[1:], dl)
    elif expect == "fmt" and r == "ok":
        # C10_nil_return_no_failure: nil is returned only if no block fails at any stage
        bad = "a block is malformed but the call returned nil"
    elif expect == "clean" and cancel == "-" and rfail == "-" and r != "ok":
        # C10_faultless_returns_nil / C10_error_return_exact: an error needs a cause in the scenario
        bad = "nothing fails and nobody cancels, yet the call returned " + r
    if bad:
        ck.violation({"property": "C11", "kind": "massive_returns", "class": entry + "|" + bad[:30] + ("|race-build" if race else ""),
                      "case": case, "got": res[:300], "why": bad})


def run(ck, rng):
    iok, iinfo = instance_obligation()
    ck.extra["instance"] = iinfo
    if not iok:
        ck.extra["instance_failed"] = True
    exe = build_godriver()
    n = 900 if ck.tier == "quick" else 25000
    scs = scenarios(rng, n)
    # many FAILING calls in a row in one process (every root already exists / a file is in the way), then valid ones:
    # whatever a failed call holds (slots, locks, pooled objects) must have been given back
    doc2 = b"- r0\n  - a\n- r1\n  - b\n"
    for j in range(45):
        pre_ = [(b"tgt", "d"), (b"tgt/r0", rng.choice("df")), (b"tgt/r1", "d")]
        scs.append(("mscn mkdir %d - - - - 0 0 %s - %s 0 %s" % (rng.choice([1, 4]), snap_arg(pre_), hx(b"tgt"), hx(doc2)), "mkdir", "-", "-", 1, 2, len(doc2), "other"))
    for j in range(6):
        scs.append(("mscn mkdir 4 - - - - 0 0 %s - %s 0 %s" % (snap_arg([(b"tgt", "d")]), hx(b"tgt"), hx(doc2)), "mkdir", "-", "-", 0, 2, len(doc2), "clean"))
    cases = [s[0] for s in scs]
    impl, crashes = run_impl(exe, cases, per_case_timeout=40.0, max_abnormal=6)
    def max_ms(rs):
        return max([int(r.split(" ")[1]) for r in rs if len(r.split(" ")) > 2 and r.split(" ")[1].isdigit()] or [0])
    ck.extra["max_call_ms"] = max_ms(impl)
    for (case, entry, cancel, rfail, nbad, nroots, dl, expect), res in zip(scs, impl):
        ck.case(case[:300], nbad > 0 or cancel != "-" or nroots >= 3)
        ck.count("entry:" + entry)
        ck.count("cancel:" + (cancel[0] if cancel != "-" else "none"))
        ck.count("failing_blocks:%s" % (nbad if nbad < 3 else "3+"))
        ck.count("result:" + res.split(" ")[0].split(":")[-1][:12])
        ck.count("expect:" + expect)
        judge(ck, case, res, entry, cancel, rfail, nbad, nroots, dl, expect=expect)
    # the same kind of scenarios under the race detector
    rexe = build_godriver("race")
    rs = scenarios(rng, 250 if ck.tier == "quick" else 5000, heading_share=0.4)
    # many roots in flight while the writer / callback starts failing part-way: unsynchronised "failed" flags and the like
    for _ in range(80 if ck.tier == "quick" else 1500):
        nroots = rng.choice([20, 40, 80])
        items = []
        for r in range(nroots):
            items += [(1, b"r%d" % r), (2, b"a.go"), (2, b"b")]
        doc = spell(items, plain_spelling(items))
        entry = rng.choice(["out-d", "out-d", "out-j", "out-dry", "walk", "mkdir", "mkdir", "verify"])
        budget = str(rng.randint(0, len(doc))) if entry.startswith("out") else "-"
        cbf = str(rng.randint(0, 3 * nroots)) if entry == "walk" else "-"
        case = "mscn %s %d - - %s %s %d %s %s %s %s 0 %s" % (entry, rng.choice([2, 4, 16]), budget, cbf, rng.choice([0, rng.randint(1, 10 ** 6)]), rng.choice("01"),
                                                          snap_arg([(b"tgt", "d")]), rng.choice(["-", "2e676f", "2e676f+62"]), hx(b"tgt"), hx(doc))
        rs.append((case, entry, "-", "-", 1, nroots, len(doc), "other"))
    env = dict(os.environ, GORACE="halt_on_error=1 exitcode=66")
    rimpl, rcrashes = run_impl(rexe, [s[0] for s in rs], per_case_timeout=60.0, env=env, max_abnormal=6)
    ck.extra["max_call_ms_race_build"] = max_ms(rimpl)
    for (case, entry, cancel, rfail, nbad, nroots, dl, expect), res in zip(rs, rimpl):
        ck.case("race " + case[:300], True)
        ck.count("race_build_cases")
        judge(ck, case, res, entry, cancel, rfail, nbad, nroots, dl, race=True, expect=expect)
    for idx, kind, etxt in rcrashes:
        if "DATA RACE" in etxt:
            import re
            locs = re.findall(r"\n\s+(github.com/ddddddO/gtree[^\n]*)\n\s+(/repo/[^\s]+)", etxt)
            ck.violation({"property": "C11", "kind": "data_race", "class": "race|" + (locs[0][1] if locs else "?"),
                          "case": rs[idx][0] if idx < len(rs) else "", "report": etxt[-1400:], "why": "the race detector reports unsynchronised access to shared memory"})
    # several massive calls in flight at once (caller goroutines, different documents and writers), under the race detector
    conc = []
    for g in range(8 if ck.tier == "quick" else 120):
        hs = []
        for j in range(5):
            its = [(1, b"r%d_%d" % (g, j))] + [(2, b"c%03d" % c) for c in range(rng.choice([30, 200]))] + [(1, b"s%d_%d" % (g, j)), (2, b"x")]
            hs.append("o,%s,0,0,-,-,-,-,-,%s" % (rng.choice("dj"), hx(spell(its, plain_spelling(its)))))
        conc.append("mchist " + "#".join(hs))
    cres, ccrashes = run_impl(rexe, conc, per_case_timeout=60.0, env=env, max_abnormal=4)
    for c, res in zip(conc, cres):
        ck.case("race " + c[:200], True)
        ck.count("race_build_concurrent_calls")
        if res.split(" ")[0] in ("timeout", "crash", "panic") and not any("DATA RACE" in e for _, _, e in ccrashes):
            ck.violation({"property": "C11", "kind": "massive_returns", "class": "concurrent_calls|" + res.split(" ")[0], "case": c[:3000], "got": res[:300],
                          "why": "massive calls running at the same time do not all return normally"})
    for idx, kind, etxt in ccrashes:
        if "DATA RACE" in etxt:
            import re
            locs = re.findall(r"\n\s+(github.com/ddddddO/gtree[^\n]*)\n\s+(/repo/[^\s]+)", etxt)
            ck.violation({"property": "C11", "kind": "data_race", "class": "race_between_calls|" + (locs[0][1] if locs else "?"),
                          "case": conc[idx][:3000] if idx < len(conc) else "", "report": etxt[-1400:],
                          "why": "the race detector reports unsynchronised access to memory shared BETWEEN two massive calls"})
    ck.extra["race_build_crashes"] = len(rcrashes)
    return ("instance", iinfo.get("failure", "")) if not iok else None
