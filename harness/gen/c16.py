# C16 — the CLI is a faithful front end with a truthful exit status.
from lib import *
from hist import *
from fsgen import *
from c05 import merged_items
import subprocess, tempfile, shutil

RULE = ("documents (well-formed, malformed, hostile names) x flag combinations (--format json|yaml|toml|bad, --massive, "
        "--massive-timeout, --file / stdin / missing file, --dry-run, -e ..., --target-dir, --strict, stray arguments, unknown "
        "flags) x stdout states (pipe, closed, /dev/full) run against the binary built from /repo/cmd/gtree in a fresh directory; "
        "compared with the library called through the Go driver with the corresponding options (stdout bytes, file-system "
        "snapshot) ; exit status 0 iff the library returned nil and the usage was valid; 'template | output' must print the "
        "documented sample. non-trivial = any case except plain well-formed output to a pipe")

SAMPLE = ("gtree\n├── cmd\n│   └── gtree\n│       └── main.go\n├── testdata\n│   ├── sample1.md\n│   └── sample2.md\n"
          "├── Makefile\n└── tree.go\n").encode()


def snap_dir(root):
    out = {}
    broot = os.fsencode(root)
    for dp, dns, fns in os.walk(broot):
        for d in dns:
            out[os.path.relpath(os.path.join(dp, d), broot)] = "d"
        for f in fns:
            p = os.path.join(dp, f)
            out[os.path.relpath(p, broot)] = "e" if os.path.getsize(p) == 0 else "f"
    return out


def run_cli(cli, args, stdin_bytes, stdout_mode, pre):
    base = tempfile.mkdtemp(prefix="gtcli-", dir=scratch())
    jail = os.path.join(base, "o1", "jail")
    os.makedirs(jail)
    for p, k in pre:
        full = os.path.join(jail, p.decode())
        if not inside(base, full):
            continue
        if k.startswith("l"):
            os.makedirs(os.path.dirname(full), exist_ok=True)
            os.symlink(unhx(k[1:]), full)
        elif k == "d":
            os.makedirs(full, exist_ok=True)
        else:
            os.makedirs(os.path.dirname(full), exist_ok=True)
            open(full, "wb").write(b"x" if k == "f" else b"")
    before = snap_dir(base)
    if stdout_mode == "pipe":
        so = subprocess.PIPE
    elif stdout_mode == "full":
        so = open("/dev/full", "wb")
    else:
        so = None
    try:
        if stdout_mode == "closed":
            p = subprocess.run(["/bin/sh", "-c", 'exec "$0" "$@" >&-', cli] + args, input=stdin_bytes, stderr=subprocess.PIPE,
                               cwd=jail, timeout=20, env=dict(os.environ, NO_COLOR="1"))
        else:
            p = subprocess.run([cli] + args, input=stdin_bytes, stdout=so, stderr=subprocess.PIPE, cwd=jail, timeout=20,
                               env=dict(os.environ, NO_COLOR="1"))
        rc, out, err = p.returncode, (p.stdout or b""), p.stderr
    except subprocess.TimeoutExpired:
        rc, out, err = -999, b"", b"timeout"
    after = snap_dir(base)
    shutil.rmtree(base, ignore_errors=True)
    rel = lambda d: {os.path.relpath(os.path.join(base, k.decode()), jail).encode(): v for k, v in d.items() if os.path.join(base, k.decode()) != jail and k not in (b"o1",)}
    return rc, out, err, rel(before), rel(after)


def run(ck, rng):
    exe = build_godriver()
    cli = build_cli()
    n = 400 if ck.tier == "quick" else 6000
    scen = []
    # template | output
    rc, tmpl, err, _, _ = run_cli(cli, ["template"], b"", "pipe", [])
    rc2, out2, err2, _, _ = run_cli(cli, ["output"], tmpl, "pipe", [])
    ck.case("template|output", True)
    if rc != 0 or rc2 != 0 or out2 != SAMPLE:
        ck.violation({"property": "C16", "kind": "cli", "class": "template", "why": "'gtree template | gtree output' does not print the documented sample tree",
                      "got": out2.decode("utf-8", "replace"), "exit": [rc, rc2]})
    # input FILES of several sizes up to > 1 MiB, with roots in an order that only a sequential rendering keeps and
    # with heading roots: the command must do exactly what the library does with the options its flags stand for
    for nchild in (50, 3000, 24000):
        bigdoc = b""
        for r_ in range(3):
            bigdoc += b"# root %d\n" % r_ + b"".join(b"- child number %06d of this root\n  - leaf\n" % c for c in range(nchild // 3))
        bigdoc += b"- z last\n- a after z\n"
        lres_big, _ = run_impl(exe, ["out d 0 0 %s - %s" % (bf_args(BF_DEFAULT), hx(bigdoc))], per_case_timeout=120.0)
        want_big = unhx(lres_big[0].split(" ")[1][1:]) if lres_big[0].startswith("ok t") else None
        rcb, outb, errb, _, _ = run_cli_doc(cli, ["output", "--file", "in.md"], b"", "pipe", [(b"in.md", "f")], bigdoc, "in.md")
        ck.case("output --file in.md (%d bytes)" % len(bigdoc), True)
        ck.count("kind:big_file")
        if want_big is None or rcb != 0 or outb != want_big:
            ck.violation({"property": "C16", "kind": "cli", "class": "big_file", "argv": "output --file in.md", "input_bytes": len(bigdoc),
                          "exit": rcb, "stderr": errb[:300].decode("utf-8", "replace"), "library": lres_big[0][:120],
                          "why": "for an input file of %d bytes the command's stdout / exit status differ from the library's result for the same document" % len(bigdoc)})
    lib_cases, jobs, model_cases = [], [], []
    for _ in range(n):
        kind = rng.choice(["output", "output", "output", "mkdir", "mkdir", "verify", "usage"])
        hostile = rng.random() < 0.2
        items = gen_fs_forest(rng, hostile=hostile) if kind in ("mkdir", "verify") else gen_forest(rng, max_nodes=12, pool=rng.choice(["ascii", "mixed", "hostile_fmt"]))
        items = [(d, nm) for d, nm in items if nm and b"\n" not in nm and not nm.endswith(b"\r")]
        fixed, prev = [], 0
        for d, nm in items:
            d = min(d, prev + 1) if prev else 1
            fixed.append((d, nm))
            prev = d
        items = fixed or [(1, b"a")]
        massive = rng.random() < 0.2
        if massive:
            items = merged_items(items)[0]
        doc = spell(items, gen_spelling(rng, items, allow_heading=not massive))
        if kind == "output" and not massive and rng.random() < 0.25:
            # valid roots followed by a malformed one: the library has already written the earlier trees when it fails
            doc = doc.rstrip(b"\r\n") + b"\n" + rng.choice([b"- late\n      - jump\n", b"- late\n  -\n", b"- late\n  x no bullet\n"])
        elif rng.random() < 0.2:
            from mutate import mutate
            doc = mutate(rng, doc)
            if massive and doc.count(b"\n-") + doc.count(b"\n*") + doc.count(b"\n+") + doc.count(b"\n#") > 0:
                massive = False
        if not massive and rng.random() < 0.06:
            # the read fails before the first root is complete: an over-long first row (the scanner's limit)
            doc = rng.choice([b"- ", b"", b"  "]) + b"x" * rng.choice([65536, 70000]) + b"\n" + doc
        stdout_mode = rng.choice(["pipe", "pipe", "pipe", "full", "closed", "broken"])
        via_file = rng.choice([None, None, "in.md", "-", "missing.md"] + (["adir", "/dev/stdin", "/dev/null", "<devnull"] if kind != "usage" else []))
        if via_file in ("/dev/null", "<devnull"):      # "<devnull": no --file, and the standard input IS /dev/null (cron, nohup, os/exec)
            doc = b""           # --file names a special file: whatever can be opened and read is read
        args, pre, lib, expect_usage_err, expect_open_err = [], [], None, False, False
        mfmt, mdry, mexts, mtarget, mstrict = "-", "0", [], b"", "0"
        stdin = doc
        if via_file == "in.md":
            pre.append((b"in.md", "f"))
        if kind == "output":
            fmt = rng.choice(["", "", "json", "yaml", "toml", "xml"])
            args = ["output"]
            if fmt:
                args += ["--format", fmt]
            if massive:
                # --massive-timeout implies massive mode (a generous deadline: the call finishes long before it)
                args += rng.choice([["--massive"], ["-m"], ["--massive-timeout", "30s"], ["--mt", "1m"], ["--massive", "--massive-timeout", "30s"]])
            mfmt = fmt or "-"
            enc = {"": "d", "json": "j", "yaml": "y", "toml": "t"}.get(fmt)
            if enc is None:
                expect_usage_err = True
            else:
                lib = "%sout %s 0 0 %s - %s" % ("m" if massive else "", enc, bf_args(BF_DEFAULT), hx(doc))
        elif kind == "mkdir":
            dry = rng.random() < 0.4
            exts = rng.choice(EXT_LISTS[:5])
            target = rng.choice([b"", b"tgt", b"sub/tgt"])
            mdry, mexts, mtarget = ("1" if dry else "0"), exts, target
            args = ["mkdir"]
            if dry:
                args += [rng.choice(["--dry-run", "-d"])]
            for e in exts:
                args += ["-e", e.decode()]
            if target:
                args += ["--target-dir", target.decode()]
            if massive:
                args += ["--massive"]     # mkdir has no --massive flag: a usage error
                expect_usage_err = True
            symlink_target = (target == b"tgt" and rng.random() < 0.15)
            if symlink_target:
                # --target-dir is a symbolic link to a directory: the library works through it, so must the command
                pre += [(b"real_tgt", "d"), (b"tgt", "l" + hx(b"real_tgt"))]
            pre += [(b"sentinel", "d")] + ([(b"tgt/" + merged_items(items)[0][0][1], "d")] if rng.random() < 0.15 and target == b"tgt" and not symlink_target and b"/" not in merged_items(items)[0][0][1] and b"\x00" not in merged_items(items)[0][0][1] and len(merged_items(items)[0][0][1]) <= 255 and merged_items(items)[0][0][1] not in (b".", b"..") else [])
            if dry:
                lib = "hist F,%s;o,d,1,0,%s,%s,%s" % (snap_arg(pre), bf_csv(BF_DEFAULT), exts_plus(exts), hx(doc))
            else:
                lib = "hist F,%s;m,0,%s,%s,-,-,-,-,%s" % (snap_arg(pre), exts_plus(exts), hx(target), hx(doc))
        elif kind == "verify":
            strict = rng.random() < 0.5
            target = rng.choice([b"", b"tgt"])
            mstrict, mtarget = ("1" if strict else "0"), target
            args = ["verify"] + (["--strict"] if strict else []) + (["--target-dir", target.decode()] if target else [])
            np_ = node_paths(flat_merged(items), [])
            if target == b"tgt" and rng.random() < 0.15:
                pre += [(b"real_tgt", "d"), (b"tgt", "l" + hx(b"real_tgt"))]
                np_ = [(b"../real_tgt/" + p, k_, r_) for p, k_, r_ in np_]
            pre += [(tjoin(target, p), "d") for p, _, _ in np_ if rng.random() < 0.9 and all(single_elem(c) for c in p.split(b"/"))]
            pre = [(p, k) for p, k in pre if not p.startswith(b"/") and not p.startswith(b"..") and b"\x00" not in p and len(p) < 200]
            lib = "hist F,%s;v,%s,%s,%s" % (snap_arg(pre), "1" if strict else "0", hx(target), hx(doc))
        else:
            base = rng.choice(["output", "mkdir", "verify", "template"])
            args = rng.choice([[base, "stray"], [base, "--no-such-flag"], ["output", "--massive-timeout", "0s"], ["output", "-mt", "-1s"],
                               [base, "--file"], ["nosuchcommand"], [base, ""], [base, "", "x"], [base, " "], [base, "-", "-"],
                               ["mkdir", "--dry-run", ""], ["verify", "--strict", "stray"]])
            expect_usage_err = True
            if args == ["nosuchcommand"]:
                continue   # urfave/cli prints help for an unknown command name; not part of the claim
        if via_file == "<devnull":
            stdin = None
        elif via_file is not None and kind != "usage":
            args += [rng.choice(["--file", "-f"]), via_file]
            if via_file in ("in.md", "/dev/null"):
                stdin = b""
            if via_file == "missing.md":
                expect_open_err = True
            if via_file == "adir":
                # --file names a directory: opening succeeds, the first read fails; judged like an open failure
                pre.append((b"adir", "d"))
                expect_open_err = True
                stdin = b""
        jobs.append((kind, args, stdin, stdout_mode, pre, lib, expect_usage_err, expect_open_err, doc, via_file, massive))
        lib_cases.append(lib or "settle")
        mpre = [(p_, k_) for p_, k_ in pre if p_ != b"in.md"]
        if (via_file == "adir" and kind != "usage") or any(k.startswith("l") for _, k in pre):
            model_cases.append("skip")      # not modelled: a directory as input file, symbolic links
            continue
        model_cases.append("cli %s %s %s %s %s %s %s %s %s %s %s" % (
            kind if kind != "usage" else args[0] if args[0] in ("output", "mkdir", "verify", "template") else "output",
            "1" if (expect_usage_err and mfmt not in ("xml",)) or kind == "usage" else "0", mfmt, "1" if expect_open_err else "0", mdry,
            exts_plus(mexts), hx(mtarget), mstrict, "0" if stdout_mode in ("full", "broken") else "-", snap_arg(mpre), hx(doc)))
    libres, _ = run_impl(exe, lib_cases)
    modelres = run_model(model_cases)
    broken = None
    for (kind, args, stdin, stdout_mode, pre, lib, usage_err, open_err, doc, via_file, massive), lr, mr in zip(jobs, libres, modelres):
        pre2 = list(pre)
        if via_file == "in.md":
            pre2 = [(p, k) for p, k in pre if p != b"in.md"]
        rc, out, err, before, after = run_cli_doc(cli, args, stdin, stdout_mode, pre, doc, via_file)
        line = "%s stdout=%s %s" % (" ".join(args), stdout_mode, hx(doc)[:200])
        ck.case(line, not (kind == "output" and stdout_mode == "pipe" and not usage_err and not open_err and lr.startswith("ok")))
        ck.count("kind:" + kind)
        ck.count("stdout:" + stdout_mode)
        bad = None
        if stdout_mode == "broken" and rc == -13:
            rc = 141        # killed by SIGPIPE: the conventional end of a process writing into a closed pipe (a failure status)
        if rc < 0 or rc > 125 and rc != 141:
            bad = "the process crashed or hung (status %d)" % rc
        elif usage_err or open_err:
            ck.count("usage_or_open_error")
            if rc == 0:
                bad = "usage / open failure but exit status 0"
            elif not err.strip() and rc != 141:     # (killed by SIGPIPE while printing the usage text to a closed pipe: no chance to explain)
                bad = "failure without a diagnostic on stderr"
            elif {k: v for k, v in after.items() if k != b"in.md"} != {k: v for k, v in before.items() if k != b"in.md"}:
                bad = "usage / open failure but the file system changed"
        else:
            parts = lr.split("|")
            lres = parts[-1].split(" ")
            lib_ok = lres[0] == "ok"
            if kind == "output":
                lib_out = lres[1]
                lib_bytes = None
            if kind in ("mkdir", "verify"):
                lib_snap = parse_snap(lres[2]) if len(lres) > 2 else parse_snap(parts[0].split(" ")[2])
                links = set(p_ for p_, k_ in pre if k_.startswith("l"))      # a link is listed differently by the two snapshot walkers
                lib_snap = {k: v for k, v in lib_snap.items() if k != b"in.md" and k not in links}
            # expected stdout bytes: what the library wrote
            if kind == "output" or (kind == "mkdir" and "o,d,1" in lib):
                want_out = b""
                # re-run the library's text through the raw channel: chunksOf gives text bytes for text/json; yaml/toml decoded
                want_out = None if lres[1][:1] in ("e", "x") else (unhx(lres[1][1:]) if lres[1] != "-" else b"")
            else:
                want_out = b""
            ck.count("lib:" + ("ok" if lib_ok else "err"))
            writes_expected = (want_out is None) or len(want_out) > 0
            if stdout_mode == "pipe":
                if (rc == 0) != lib_ok:
                    bad = "exit status %d but the library returned %s" % (rc, lres[0])
                elif want_out is not None and out != want_out and not massive:
                    bad = "stdout differs from what the library writes"
                elif rc != 0 and not err.strip():
                    bad = "failure without a diagnostic on stderr"
            elif stdout_mode == "closed":
                # the Go runtime opens /dev/null on a closed fd 1 at start-up: every write succeeds and is discarded
                if (rc == 0) != lib_ok:
                    bad = "exit status %d but the library returned %s" % (rc, lres[0])
            else:
                # stdout cannot take the output: success only if nothing had to be written
                if lib_ok and writes_expected and rc == 0:
                    bad = "stdout is %s, output could not be written, but exit status 0" % stdout_mode
                elif not lib_ok and rc == 0:
                    bad = "library error but exit status 0"
                elif lib_ok and not writes_expected and rc != 0:
                    bad = "nothing to write and the library succeeds, but exit status %d" % rc
            if not bad and kind in ("mkdir", "verify"):
                fs_after = {k: v for k, v in after.items() if k != b"in.md" and k not in links}
                if fs_after != lib_snap:
                    bad = "file-system effect differs from the library's: %r" % sorted(set(fs_after.items()) ^ set(lib_snap.items()))[:3]
        if not bad and not massive and mr != "badcase" and not mr.startswith("exn"):
            # correspondence with the Gallina model of the CLI (Api/Cli.v): exit status, stdout bytes, file system
            mcode, mout, msnap = mr.split(" ")
            mcode = int(mcode)
            codes_agree = (mcode == rc) or (mcode != 0 and rc != 0 and kind == "usage") or (mcode != 0 and rc == 141 and stdout_mode == "broken")
            fs_now = {k: v for k, v in after.items() if k != b"in.md"}
            if not codes_agree:
                broken = broken or ("cli " + " ".join(args), "exit %d" % rc, "model exit %d" % mcode)
            elif stdout_mode == "pipe" and kind in ("output", "mkdir") and mout not in ("-",) and "yaml" not in args and "toml" not in args and unhx(mout) != out:
                broken = broken or ("cli " + " ".join(args), out[:200].hex(), mout[:400])
            elif kind in ("mkdir", "verify") and not usage_err and not open_err and parse_snap(msnap) != fs_now:
                broken = broken or ("cli " + " ".join(args), "fs differs", msnap[:300])
        if bad:
            ck.violation({"property": "C16", "kind": "cli", "class": kind + "|" + stdout_mode + "|" + bad[:20], "argv": args, "stdout_state": stdout_mode,
                          "input_hex": hx(doc), "input": doc[:200].decode("utf-8", "replace"), "exit": rc, "stderr": err[:300].decode("utf-8", "replace"),
                          "stdout": out[:300].decode("utf-8", "replace"), "library": lr[-400:], "why": bad, "pre_state": [(p.decode(), k) for p, k in pre]})
    return broken


def run_cli_doc(cli, args, stdin, stdout_mode, pre, doc, via_file):
    """like run_cli, but the input file (if any) holds the document"""
    base = tempfile.mkdtemp(prefix="gtcli-", dir=scratch())
    jail = os.path.join(base, "jail")
    os.makedirs(jail)
    for p, k in pre:
        full = os.path.join(jail, p.decode("utf-8", "surrogateescape"))
        if p == b"in.md" or not inside(base, full):
            continue
        if k.startswith("l"):
            os.makedirs(os.path.dirname(full), exist_ok=True)
            os.symlink(unhx(k[1:]), full)
        elif k == "d":
            os.makedirs(full, exist_ok=True)
        else:
            os.makedirs(os.path.dirname(full), exist_ok=True)
            open(full, "wb").write(b"x" if k == "f" else b"")
    if via_file == "in.md":
        open(os.path.join(jail, "in.md"), "wb").write(doc)
    before = snap_dir(jail)
    # stdin None: the standard input is /dev/null itself (a character device), not a pipe
    stdin_kw = {"stdin": subprocess.DEVNULL} if stdin is None else {"input": stdin}
    so = subprocess.PIPE if stdout_mode == "pipe" else (open("/dev/full", "wb") if stdout_mode == "full" else None)
    if stdout_mode == "broken":
        # a pipe whose reading end is already closed: every write fails with EPIPE (or the process is killed by SIGPIPE)
        rfd, wfd = os.pipe()
        os.close(rfd)
        so = os.fdopen(wfd, "wb")
    try:
        if stdout_mode == "closed":
            p = subprocess.run(["/bin/sh", "-c", 'exec "$0" "$@" >&-', cli] + args, stderr=subprocess.PIPE,
                               cwd=jail, timeout=20, **stdin_kw)
        else:
            p = subprocess.run([cli] + args, stdout=so, stderr=subprocess.PIPE, cwd=jail, timeout=20, **stdin_kw)
        rc, out, err = p.returncode, (p.stdout or b""), p.stderr
    except subprocess.TimeoutExpired:
        rc, out, err = -999, b"", b"timeout"
    after = snap_dir(jail)
    shutil.rmtree(base, ignore_errors=True)
    return rc, out, err, before, after
