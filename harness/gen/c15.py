# C15 — equivalent spellings of a document give byte-identical results.
from lib import *

RULE = ("forests (sampler + enumeration over {a,b}) x PAIRS of spellings drawn from the notation family (unit tab / 1..8 spaces, "
        "bullet per line, heading roots, blank / whitespace-only / Unicode-space lines, LF/CRLF per line, final newline) x "
        "{text with random branch strings, JSON, YAML, TOML(single root), dry-run+extensions, mkdir+verify in a jail}; metamorphic: "
        "the two implementation results are compared with each other; non-trivial = >= 2 nodes and the two spellings differ")

OPS = ["out d 0 0", "out d 0 1", "out j 0 0", "out y 0 0", "out t 0 0", "out d 1 0", "out d 1 1", "walk", "fs:m", "fs:v"]


def run(ck, rng):
    exe = build_godriver()
    forests = enum_forests(4 if ck.tier == "quick" else 6) + wide_forests(10 if ck.tier == "quick" else 20)
    for _ in range(700 if ck.tier == "quick" else 25000):
        forests.append(gen_forest(rng, pool=rng.choice(["mixed", "ascii", "hostile_fmt", "fs"])))
    # documents well beyond the scanner's 4 KiB buffer (a row must not alias memory that is reused while the document is read)
    for _ in range(25 if ck.tier == "quick" else 400):
        big = gen_forest(rng, max_roots=6, max_nodes=rng.choice([150, 300, 500]), max_depth=6, fan=8, dup_prob=0.1, pool="fs")
        forests.append([(d, n + b"_%d" % i if len(n) < 6 else n) for i, (d, n) in enumerate(big)])
    c1, c2, meta = [], [], []
    for items in forests:
        sp1 = gen_spelling(rng, items)
        sp2 = gen_spelling(rng, items)
        if rng.random() < 0.3:
            sp1 = plain_spelling(items)
        d1, d2 = spell(items, sp1), spell(items, sp2)
        nroots = sum(1 for d, _ in items if d == 1)
        ops = [o for o in OPS if not (o.startswith("out t") and nroots != 1)]
        for op in (ops if ck.tier == "thorough" else rng.sample(ops, 3)):
            bf = rng.choice(BF_CHOICES)
            exts = rng.choice([[], [b".go"], [b".go", b".md", b"Makefile"], [b"a"]])
            if op.startswith("fs:"):
                # mkdir / verify in a fresh jail (names must be path elements for the two results to be comparable states)
                from c05 import single_elem
                if not all(single_elem(n) and len(n) < 200 and b"\x00" not in n for _, n in items):
                    continue
                if op == "fs:m":
                    mk = lambda d: "hist F,d:746774;m,0,%s,746774,-,-,-,-,%s" % ("+".join(x.hex() for x in exts) if exts else "-", hx(d))
                else:
                    mk = lambda d: "hist F,d:746774+d:%s;v,%s,746774,%s" % (hx(b"tgt/" + items[0][1]), strict, hx(d))
                    strict = rng.choice("01")
                c1.append(mk(d1))
                c2.append(mk(d2))
                meta.append((items, d1, d2, op))
                continue
            if op == "walk":
                pre, post = "walk %s -" % bf_args(bf), ""
            else:
                pre, post = "%s %s %s" % (op, bf_args(bf), hxlist(exts)), ""
            c1.append("%s %s" % (pre, hx(d1)))
            c2.append("%s %s" % (pre, hx(d2)))
            meta.append((items, d1, d2, op))
    r1, _ = run_impl(exe, c1)
    r2, _ = run_impl(exe, c2)
    m1 = run_model(c1)
    broken = None
    for i, (items, d1, d2, op) in enumerate(meta):
        ck.case(c1[i][:300] + "||" + c2[i][-200:], len(items) >= 2 and d1 != d2)
        ck.count("op:" + op)
        if r1[i] != r2[i]:
            ck.violation({"property": "C15", "kind": "spelling_pair", "class": op, "case": c1[i], "case2": c2[i],
                          "input": d1[:300].decode("utf-8", "replace"), "input2": d2[:300].decode("utf-8", "replace"),
                          "got": r1[i][:300], "got2": r2[i][:300], "expected": r2[i],
                          "why": "two spellings of the same forest give different results"})
        elif r1[i] != m1[i]:
            def utf8(n):
                try:
                    n.decode("utf-8")
                    return True
                except UnicodeDecodeError:
                    return False
            if op.startswith(("out y", "out t")) and not all(utf8(n) for _, n in items):
                ck.count("yaml_toml_invalid_utf8_not_compared_with_model")     # outside every claim (opaque encoders)
            else:
                broken = broken or (c1[i][:1500], r1[i][:300], m1[i][:300])
    return broken
