# C04 — JSON, YAML and TOML outputs are well-formed and isomorphic to the tree.
from lib import *
from hist import *
from c05 import merged_items
import json as _json

RULE = ("forests over the hostile name alphabet (quotes, colons, hashes, backslashes, YAML/TOML keywords and numbers, BOM, NUL, "
        "ESC, CR, control characters, 300-byte names, Unicode) x {JSON, YAML, TOML(single root)} x {From-Markdown both routes, "
        "From-Root} x {simple, massive}; the output is decoded (python json / yaml.v3 / go-toml in the driver) and compared with "
        "the forest; JSON bytes are also compared with the Gallina json_encode exactly. non-trivial = >= 2 nodes and a name "
        "outside [A-Za-z0-9]")


def canon_items(items):
    """canonical (name child child) notation of one merged root given as pre-order items"""
    out = []

    def rec(i, d):
        s = "(" + hx(items[i][1])
        j = i + 1
        while j < len(items) and items[j][0] > d:
            if items[j][0] == d + 1:
                s2, j = rec(j, d + 1)
                s += s2
            else:
                j += 1
        return s + ")", j
    return rec(0, 1)[0]


def canon_json(node):
    return "(" + hx(node["value"].encode("utf-8", "surrogatepass")) + "".join(canon_json(c) for c in (node.get("children") or [])) + ")"


def valid_utf8(n):
    try:
        n.decode("utf-8")
        return True
    except UnicodeDecodeError:
        return False


def run(ck, rng):
    exe = build_godriver()
    forests = wide_forests(10)[::2] + deep_forests(depths=(64, 65, 66, 67, 130))
    for _ in range(700 if ck.tier == "quick" else 20000):
        forests.append(gen_forest(rng, max_roots=4, max_nodes=12 if rng.random() < 0.8 else 30, pool="hostile_fmt"))
    cases, meta = [], []
    for items in forests:
        roots = merged_items(items)
        want = [canon_items(r) for r in roots]
        doc = spell(items, gen_spelling(rng, items, allow_heading=False))
        for enc in "jyt":
            if enc == "t" and len(roots) != 1:
                continue
            variants = [("md_iter", "out %s 0 0 - - - - - %s" % (enc, hx(doc))), ("md_noiter", "out %s 0 1 - - - - - %s" % (enc, hx(doc))),
                        ("md_massive", "mout %s 0 0 - - - - - %s" % (enc, hx(doc)))]
            r0 = roots[rng.randrange(len(roots))]
            if rng.random() < 0.3:
                r0 = r0 + [(2, rng.choice([b"line\nfeed", b"a\nb\n", b"\n"]))]
            variants.append(("root", "hist " + ";".join(canonical_build(r0) + ["O,0,%s,0,-,-,-,-,-" % enc])))
            variants.append(("root_massive", "mhist " + ";".join(canonical_build(r0) + ["O,0,%s,0,-,-,-,-,-" % enc])))
            for name, c in (variants if ck.tier == "thorough" else rng.sample(variants, 2)):
                cases.append(c)
                if name.startswith("root"):
                    meta.append((name, enc, [canon_items(merged_items(r0)[0])], r0))
                else:
                    meta.append((name, enc, want, items))
    impl, _ = run_impl(exe, cases)
    model = run_model([c[1:] if c.startswith("m") else c for c in cases])
    broken = None
    for i, (name, enc, want, items) in enumerate(meta):
        nontriv = len(items) >= 2 and any(not n.isalnum() for _, n in items)
        ck.case(cases[i][:400], nontriv)
        ck.count(name + ":" + enc)
        res = impl[i].split("|")[-1]
        r, out = (res.split(" ") + ["-"])[:2]
        utf8 = all(valid_utf8(n) for _, n in items)
        bad = None
        if r != "ok":
            bad = "returned " + r
        elif utf8:
            try:
                if enc == "j":
                    text = unhx(out[1:]).decode("utf-8") if out != "-" else ""
                    lines = [l for l in text.split("\n") if l != ""]
                    got = [canon_json(_json.loads(l)) for l in lines]
                    if text and not text.endswith("\n"):
                        bad = "JSON stream does not end with a newline"
                else:
                    if out.startswith("x"):
                        raise ValueError("does not parse under the %s decoder" % ("yaml.v3" if enc == "y" else "go-toml"))
                    got = [p[2:] for p in out.split(";")] if out != "-" else []
                if bad is None:
                    if "massive" in name:
                        if sorted(got) != sorted(want):
                            bad = "decoded forest differs (as a multiset of roots)"
                    elif got != want:
                        bad = "decoded forest differs"
            except Exception as e:
                bad = "output unreadable: %s" % e
        else:
            ck.count("skipped_invalid_utf8")
        if bad:
            rep = {"property": "C04", "kind": "format_iso", "class": name + ":" + enc + "|" + bad[:12], "case": cases[i],
                   "got": res[:600], "expected_forest": want, "why": bad}
            if enc == "y" and bad.startswith("decoded forest differs") and any(n.startswith(b"\n") for _, n in items):
                # yaml.v3 writes a string that starts with a line feed as a block scalar which its own decoder
                # reads back without that line feed; tag the case only if this explains the whole difference
                import re as _re
                want2 = [_re.sub(r"([(])0a", r"\1", w) for w in want]
                want2 = [_re.sub(r"[(](?=[()])", "(-", w) for w in want2]
                if sorted(got) == sorted(want2):
                    rep["finding"] = "yaml_leading_newline"
            ck.violation(rep)
        elif "massive" not in name and impl[i].split("|")[-1] != model[i].split("|")[-1]:
            if utf8 or enc == "j":
                broken = broken or (cases[i][:1500], impl[i][-300:], model[i][-300:])
    return broken
