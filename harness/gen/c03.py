# C03 — programmatically built trees behave exactly like the equivalent Markdown.
from lib import *
from hist import *
from c05 import merged_items

RULE = ("random trees x random Add orders that build them (any interleaving respecting parent-before-child, repeated Adds of "
        "existing names and From-Root calls injected at any point) x options shared by both families (branch strings, JSON/YAML/TOML, walk with a "
        "failing callback, iterator walk with break; mkdir / dry-run / verify in a jail) x {current, deprecated} entry points; "
        "plus nil and non-root arguments. Predicate: From-Root result == From-Markdown result on a spelling of the same tree "
        "(both from the implementation). non-trivial = tree with >= 3 nodes")


def random_build(rng, items):
    """ops (R/A) building the single-root tree given by pre-order items in a random legal order with duplicate Adds;
    returns ops and the handle of the root (0)"""
    # node ids in pre-order; parent of each
    parent = {}
    stack = []
    for i, (d, n) in enumerate(items):
        if d > 1:
            parent[i] = stack[d - 2]
        stack = stack[:d - 1] + [i]
    ops = ["R,%s" % hx(items[0][1])]
    handle = {0: 0}
    nh = 1
    # children must be added in sibling order for the same resulting child order
    pending = list(range(1, len(items)))
    next_child = {}
    kids = {}
    for i in pending:
        kids.setdefault(parent[i], []).append(i)
    ready = [kids[0][0]] if 0 in kids else []
    pos = {p: 0 for p in kids}
    while ready:
        i = rng.choice(ready)
        ready.remove(i)
        ops.append("A,%d,%s" % (handle[parent[i]], hx(items[i][1])))
        handle[i] = nh
        nh += 1
        p = parent[i]
        pos[p] += 1
        if pos[p] < len(kids[p]):
            ready.append(kids[p][pos[p]])
        if i in kids:
            ready.append(kids[i][0])
        # an incrementally built tree: a From-Root call between two Adds must not influence the later result
        if rng.random() < 0.12:
            ops.append(rng.choice(["O,0,d,0,-,-,-,-,-", "O,0,j,0,-,-,-,-,-", "W,0,-,-,-,-,-"]))
        # duplicate Add of an existing name under a random already built parent
        if rng.random() < 0.25:
            built = [j for j in handle if j != 0]
            j = rng.choice(built)
            ops.append("A,%d,%s" % (handle[parent[j]], hx(items[j][1])))
            nh += 1
    return ops


def run(ck, rng):
    exe = build_godriver()
    cases, meta = [], []
    ntrees = 500 if ck.tier == "quick" else 15000
    for _ in range(ntrees):
        items = gen_forest(rng, max_roots=1, max_nodes=16 if rng.random() < 0.85 else 40, dup_prob=0.0,
                           pool=rng.choice(["mixed", "ascii", "hostile_fmt", "fs"]))
        # Add merges equal sibling names: make sibling names distinct so that the item list is the tree
        items = merged_items(items)[0]
        build = random_build(rng, items)
        doc = spell(items, gen_spelling(rng, items))
        # + branch strings whose continuation strings share characters with the connectors
        bf = rng.choice(BF_CHOICES + [(b"+-", b" -", b"|-", b"|-"), (b"`-", b" ", b"|-", b"|")])
        enc = rng.choice("ddjyt")
        dep = rng.choice(["", "", "d"])
        k = rng.choice([None, None] + list(range(len(items))))
        kk = "-" if k is None else str(k)
        pairs = [
            ("output_" + enc, "O%s,0,%s,0,%s,-" % (dep, enc, bf_csv(bf)), "o%s,%s,0,%s,%s,-,%s" % (dep, enc, rng.choice("01"), bf_csv(bf), hx(doc))),
            ("walk", "W%s,0,%s,%s" % (dep, bf_csv(bf), kk), "w%s,%s,%s,%s" % (dep, bf_csv(bf), kk, hx(doc))),
        ]
        for name, rop, mop in pairs:
            cases.append("hist " + ";".join(build + [rop, mop]))
            meta.append((name + ("_dep" if dep else ""), items, "pair"))
        if rng.random() < 0.35:
            # deprecated aliases behave identically to the functions that replace them (every entry point, custom options)
            br = rng.choice([None] + list(range(len(items))))
            bb = "-" if br is None else str(br)
            al = rng.choice([("O,0,%s,0,%s,-" % (enc, bf_csv(bf)), "Od,0,%s,0,%s,-" % (enc, bf_csv(bf))),
                             ("W,0,%s,%s" % (bf_csv(bf), kk), "Wd,0,%s,%s" % (bf_csv(bf), kk)),
                             ("I,0,%s,%s" % (bf_csv(bf), bb), "Id,0,%s,%s" % (bf_csv(bf), bb)),
                             ("o,%s,0,0,%s,-,%s" % (enc, bf_csv(bf), hx(doc)), "od,%s,0,0,%s,-,%s" % (enc, bf_csv(bf), hx(doc))),
                             ("w,%s,%s,%s" % (bf_csv(bf), kk, hx(doc)), "wd,%s,%s,%s" % (bf_csv(bf), kk, hx(doc)))])
            cases.append("hist " + ";".join(build + [al[0], al[1]]))
            meta.append(("alias_" + al[0][0], items, "pair"))
        if rng.random() < 0.35:
            # mkdir / dry-run / verify in a jail: From-Root vs From-Markdown on the same pre-state, simple and massive,
            # sometimes with a name that is not a single path element (both must reject and create nothing)
            fitems = [(d, n) for d, n in items]
            if rng.random() < 0.25 and len(fitems) > 1:
                j = rng.randrange(len(fitems))
                bad = rng.choice([b"..", b".", b"x/y", b"../esc"])
                if all(not (dd == fitems[j][0] and nn == bad) for dd, nn in fitems):
                    fitems[j] = (fitems[j][0], bad)
            if all(b"\n" not in n and b"\r" not in n and n.strip() == n and n for _, n in fitems):
                fbuild = random_build(rng, fitems)
                fdoc = spell(fitems, plain_spelling(fitems))
                exts = rng.choice(["-", "2e676f", "2e676f+2e6d64"])
                dry = rng.choice("001")
                pre = "d:746774" + rng.choice(["", "", "+d:" + hx(b"tgt/" + fitems[0][1]) if b"/" not in fitems[0][1] and b"\x00" not in fitems[0][1] and len(fitems[0][1]) <= 255 and fitems[0][1] not in (b".", b"..") else ""])
                op = rng.choice(["hist", "hist", "mhist"])
                if rng.random() < 0.6:
                    # two histories (each starts in a fresh jail), compared with each other
                    cases.append("%s %s" % (op, ";".join(fbuild + ["F," + pre, "M%s,0,%s,%s,746774,-,-,-,-" % (dep, dry, exts)])))
                    meta.append(("mkdir" + ("_dry" if dry == "1" else "") + ("_massive" if op == "mhist" else ""), fitems, "fspair"))
                    cases.append("%s %s" % (op, ";".join(["F," + pre, "m%s,%s,%s,746774,-,-,-,-,%s" % (dep, dry, exts, hx(fdoc))])))
                    meta.append(("mkdir_md_side", fitems, "second"))
                else:
                    st = rng.choice("01")
                    cases.append("%s %s" % (op, ";".join(fbuild + ["F," + pre, "V%s,0,%s,746774" % (dep, st), "v%s,%s,746774,%s" % (dep, st, hx(fdoc))])))
                    meta.append(("verify" + ("_massive" if op == "mhist" else ""), fitems, "vpair"))
        if rng.random() < 0.3:
            # guards: nil node, non-root node; nothing may be written
            nonroot = rng.randrange(1, max(2, len([o for o in build if o[0] in "RA"])))
            g = rng.choice(["O%s,N,%s,0,%s,-" % (dep, enc, bf_csv(bf)), "O%s,%d,%s,0,%s,-" % (dep, nonroot, enc, bf_csv(bf)),
                            "W%s,N,%s,-" % (dep, bf_csv(bf)), "W%s,%d,%s,-" % (dep, nonroot, bf_csv(bf)),
                            "I%s,N,%s,-" % (dep, bf_csv(bf)), "I%s,%d,%s,-" % (dep, nonroot, bf_csv(bf))])
            if len(build) > 1:
                cases.append("hist " + ";".join(build + [g]))
                meta.append(("guard", items, "nil" if ",N," in g else "notroot"))
        if rng.random() < 0.3:
            # Add of an existing name returns the existing child: the handle's subtree is the old one
            j = rng.randrange(1, len(items)) if len(items) > 1 else None
            if j:
                cases.append("hist " + ";".join(build + ["O,0,j,0,-,-,-,-,-"] + [o for o in build if o.startswith("A")][:3] + ["O,0,j,0,-,-,-,-,-"]))
                meta.append(("add_idempotent", items, "idem"))
    # wide parents: k children, then re-Adds of existing names (first, last, last but one, middle) -- the lookup of an
    # existing child must work at every size of the parent
    for k in (15, 16, 17, 18, 31, 32, 33, 63, 64, 65, 66, 129):
        ops = ["R,72"] + ["A,0,%s" % hx(b"c%d" % i) for i in range(1, k + 1)]
        for j in sorted({1, k, max(1, k - 1), (k + 1) // 2}):
            ops.append("A,0,%s" % hx(b"c%d" % j))
        ops.append("A,0,%s" % hx(b"new"))
        witems = [(1, b"r")] + [(2, b"c%d" % i) for i in range(1, k + 1)] + [(2, b"new")]
        wdoc = spell(witems, plain_spelling(witems))
        cases.append("hist " + ";".join(ops + ["O,0,d,0,-,-,-,-,-", "o,d,0,0,-,-,-,-,-,%s" % hx(wdoc)]))
        meta.append(("wide_readd", witems, "pair"))
    impl, _ = run_impl(exe, cases)
    model = run_model([c if not c.startswith("mhist") else "hist " + c[6:] for c in cases])
    broken = None
    for i, (name, items, kind) in enumerate(meta):
        ck.case(cases[i][:500], len(items) >= 3)
        ck.count(name)
        parts = impl[i].split("|")
        bad = None
        if any(pp.split(" ")[0] in ("panic", "crash", "timeout", "skipped") for pp in parts) or len(parts) < 2:
            ck.violation({"property": "C03", "kind": "abnormal", "class": "abnormal|" + name, "case": cases[i], "got": impl[i][-300:],
                          "why": "a call did not return normally"})
            continue
        if kind == "pair":
            if parts[-2] != parts[-1]:
                bad = "From-Root gives %s, From-Markdown gives %s" % (parts[-2][:200], parts[-1][:200])
        elif kind == "fspair":
            other = impl[i + 1].split("|")[-1]
            if parts[-1] != other:
                bad = "MkdirFromRoot gives %s, MkdirFromMarkdown on the same pre-state gives %s" % (parts[-1][:200], other[:200])
        elif kind == "vpair":
            if parts[-2] != parts[-1]:
                bad = "VerifyFromRoot gives %s, VerifyFromMarkdown gives %s" % (parts[-2][:200], parts[-1][:200])
        elif kind == "nil":
            if parts[-1] != "err:nil_node -":
                bad = "nil node: got " + parts[-1][:100]
        elif kind == "notroot":
            if parts[-1] != "err:not_root -":
                bad = "non-root node: got " + parts[-1][:100]
        elif kind == "idem":
            outs = [p for p in parts if p.startswith("ok t")][-2:]
            if len(outs) != 2 or outs[0] != outs[1]:
                bad = "re-adding existing names changed the tree"
        if bad:
            ck.violation({"property": "C03", "kind": "root_vs_markdown", "class": name, "case": cases[i], "got": impl[i][-600:], "why": bad})
        elif any(len(pp.split(" ")) > 1 and pp.split(" ")[1].startswith("x") for pp in parts):
            ck.count("yaml_toml_undecodable_not_compared_with_model")     # names that are not UTF-8: outside every claim (opaque encoders)
        elif impl[i] != model[i] and not cases[i].startswith("mhist"):
            broken = broken or (cases[i][:1500], impl[i][-300:], model[i][-300:])
    return broken
