# C17 — the tinywasm build renders the same trees as the default build.
from lib import *
from mutate import *

KERNEL_XCHECK = True
RULE = ("documents = spelled random forests (well-formed) + the malformed stream of C12 (mutations, raw bytes, long lines); "
        "options in {text default, custom branch strings, JSON, dry-run + extensions}; one driver source compiled twice "
        "(with and without -tags tinywasm) from /repo; non-trivial = accepted with >= 2 lines, or rejected")


def run(ck, rng):
    exe_d = build_godriver()
    exe_w = build_godriver("tinywasm")
    n_ok = 1200 if ck.tier == "quick" else 30000
    n_bad = 600 if ck.tier == "quick" else 15000
    docs = []
    for _ in range(n_ok):
        items = gen_forest(rng, pool=rng.choice(["mixed", "hostile_fmt", "fs_hostile"]))
        docs.append(spell(items, gen_spelling(rng, items)))
    # the scanner limit is part of the accept/reject decision: rows just below, at and well above 64 KiB
    docs += malformed_stream(rng, n_bad) + long_line_docs()
    docs += [b"- a\n  - " + b"z" * n + b"\n- b\n" for n in (70000, 200000)] + [b"- r\n" + b" " * 100000]
    docs += [spell(items, deep_spelling(items)) for items in deep_forests()]
    dcases, wcases, docs2, fails = [], [], [], set()
    for doc in docs:
        mode = rng.choice(["d 0", "d 0", "j 0", "d 1"])
        bf = rng.choice(BF_CHOICES)
        exts = rng.choice([[], [b".go"], [b".go", b".md", b"Makefile"], [b"a", b"b"], [b""], [b".go", b" .md"], [b".md ", b"\t.go"], [b" "]]) if mode == "d 1" else []
        tail = "%s %s %s" % (bf_args(bf), hxlist(exts), hx(doc))
        if rng.random() < 0.08:
            # a call whose writer fails part-way, in the SAME process: the calls that follow must not be affected
            fails.add(len(dcases))
            dcases.append("settle")
            wcases.append("wasmfail %d %s %s" % (rng.randint(0, 40), rng.choice("01"), hx(doc)))
            docs2.append(doc)
        dcases.append("out %s %s %s" % (mode, rng.choice("01"), tail))
        wcases.append("wasm %s 0 %s" % (mode, tail))
        docs2.append(doc)
    impl_d, _ = run_impl(exe_d, dcases)
    impl_w, _ = run_impl(exe_w, wcases)
    model_w = run_model([c if not c.startswith("wasmfail") else "settle" for c in wcases])
    model_d = run_model(dcases)
    docs = docs2
    ck.xcheck_cases = ([c for c in dcases if c != "settle"], [m for c, m in zip(dcases, model_d) if c != "settle"])
    broken = None
    for i, doc in enumerate(docs):
        if i in fails:
            continue
        rd, rw = impl_d[i].split(" ")[0], impl_w[i].split(" ")[0]
        ck.case(wcases[i][:400], rd != "ok" or doc.count(b"\n") >= 2)
        ck.count("default:" + rd.split(":")[1] if rd.startswith("err:") else "default:" + rd)
        acc_d, acc_w = rd == "ok", rw == "ok"
        bad = None
        if acc_d != acc_w:
            bad = "accept/reject decision differs"
        elif acc_d and impl_d[i] != impl_w[i]:
            bad = "accepted input, bytes differ"
        if bad:
            ck.violation({"property": "C17", "kind": "wasm_vs_default", "class": bad, "case": wcases[i], "default_case": dcases[i],
                          "input": doc[:300].decode("utf-8", "replace"), "default": impl_d[i][:400], "tinywasm": impl_w[i][:400],
                          "expected": impl_d[i] if acc_d else None, "why": bad})
        else:
            if impl_w[i] != model_w[i]:
                # the error class on rejected inputs is not part of the claim; bytes on accepted ones are
                if acc_w or model_w[i].split(" ")[0] == "ok":
                    broken = broken or (wcases[i][:1500], impl_w[i][:300], model_w[i][:300])
                else:
                    ck.drift += 1
            if impl_d[i] != model_d[i] and (acc_d or model_d[i].split(" ")[0] == "ok"):
                broken = broken or (dcases[i][:1500], impl_d[i][:300], model_d[i][:300])
    return broken
