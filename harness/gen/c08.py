# C08 — verify reports exactly the differences between the tree and the directory.
from lib import *
from hist import *
from fsgen import *

RULE = ("(forest, directory state) pairs: arbitrary subsets of node paths present (as directory or file), arbitrary extra files "
        "and directories at any depth, states produced by mkdir of the same or of another tree with any extension list, a root "
        "that is a regular file, a missing root; x {strict, non-strict} x target directories x {From-Markdown, From-Root, "
        "deprecated} ; oracle computed from the forest and the snapshot; non-trivial = some difference exists or >= 3 nodes")


def run(ck, rng):
    exe = build_godriver()
    cases, mcases, meta = [], [], []
    n = 600 if ck.tier == "quick" else 15000
    for _ in range(n):
        items = gen_fs_forest(rng)
        flat = flat_merged(items)
        target = rng.choice([b"", b"tgt", b"sub/tgt", b"tgt/"])
        strict = rng.choice("01")
        exts = rng.choice(EXT_LISTS)
        vname = rng.choice(["md", "md", "md_dep", "root", "root_dep"])
        its = merged_items(items)[0] if vname.startswith("root") else flat
        np_ = node_paths(its, exts)
        scen = rng.choice(["after_mkdir", "after_mkdir", "subset", "subset", "extras", "other_tree", "missing_root", "file_root", "mixed"])
        pre = []
        ops = []
        ct = clean_target(target)
        if ct != b".":
            pre.append((ct, "d"))
        doc = spell(its, gen_spelling(rng, its))
        if scen == "after_mkdir":
            ops.append("m,0,%s,%s,-,-,-,-,%s" % (exts_plus(exts), hx(target), hx(doc)))
        elif scen == "other_tree":
            other = gen_fs_forest(rng)
            ops.append("m,0,%s,%s,-,-,-,-,%s" % (exts_plus(exts), hx(target), hx(spell(other, plain_spelling(other)))))
        else:
            present = []
            for p, k, ri in np_:
                keep = rng.random() < (0.85 if scen != "missing_root" else 0.6)
                par = p.rsplit(b"/", 1)[0] if b"/" in p else None
                if keep and (par is None or par in [q for q, _ in present if True]):
                    leaf_like = k == "e" or rng.random() < 0.1
                    # a path can only have children if it is a directory
                    has_kids = any(q.startswith(p + b"/") for q, _, _ in np_)
                    present.append((p, "d" if (has_kids or not leaf_like) else rng.choice("ef")))
            if scen == "missing_root":
                r0 = np_[0][0]
                present = [(p, k) for p, k in present if not (p == r0 or p.startswith(r0 + b"/"))]
            if scen == "file_root":
                r0 = np_[0][0]
                present = [(p, k) for p, k in present if not (p == r0 or p.startswith(r0 + b"/"))] + [(r0, "f")]
            pre += [(tjoin(target, p), k) for p, k in present]
            if scen in ("extras", "mixed") or rng.random() < 0.3:
                dirs = [p for p, k in present if k == "d"]
                for _ in range(rng.randint(1, 3)):
                    base = rng.choice(dirs) if dirs else None
                    if base is None:
                        break
                    nm = rng.choice([b"extra", b"x.tmp", b".hidden", b"zz"])
                    pre.append((tjoin(target, base + b"/" + nm), rng.choice("df")))
                    if rng.random() < 0.3:
                        pre.append((tjoin(target, base + b"/" + nm + b"_d/deeper/f.txt"), "f"))
                if rng.random() < 0.3:
                    pre.append((tjoin(target, b"unrelated_top"), "d"))
                if dirs and rng.random() < 0.25:
                    # an extra entry that is a SYMBOLIC LINK (to a directory, or dangling): an entry like any other
                    pre.append((tjoin(target, rng.choice(dirs) + b"/zz_link"), "l" + hx(rng.choice([b"..", b"nowhere", b"."]))))
        if rng.random() < 0.15:
            # an EARLIER verify in the same process that fails with an I/O error part-way (its target is a regular file,
            # or a name is too long for the OS): what it collected must not leak into the verify that follows
            pre.append((b"plainfile", "f"))
            ops = [rng.choice(["v,%s,%s,%s" % (strict, hx(b"plainfile"), hx(doc)),
                               "v,%s,%s,%s" % (strict, hx(target), hx(b"- " + b"L" * 300 + b"\n  - x\n"))])] + ops
        # the target as an ABSOLUTE path, written uncleanly (trailing and doubled slashes, "/."): same verdict, same paths
        vtarget = target
        if target in (b"tgt", b"sub/tgt") and rng.random() < 0.2:
            vtarget = b"@JAIL/" + target.replace(b"/", rng.choice([b"/", b"//"])) + rng.choice([b"", b"/", b"//", b"/.", b"/./"])
        def mk_vop(tg):
            if vname.startswith("md"):
                return "%s,%s,%s,%s" % ("v" if vname == "md" else "vd", strict, hx(tg), hx(doc))
            return "%s,0,%s,%s" % ("V" if vname == "root" else "Vd", strict, hx(tg))
        build = [] if vname.startswith("md") else canonical_build(its)
        encs = ("," + rng.choice("jyt")) if rng.random() < 0.12 else ""
        vop = mk_vop(vtarget) + encs
        cases.append("hist " + ";".join(["F,%s" % snap_arg(pre)] + ops + build + [vop]))
        mcases.append("hist " + ";".join(["F,%s" % snap_arg(pre)] + ops + build + [mk_vop(target) + encs]))
        meta.append((vname + ("_link" if any(k_.startswith("l") for _, k_ in pre) else ""), its, target, strict == "1", scen, len(ops)))
    impl, _ = run_impl(exe, cases)
    model = run_model(mcases)
    broken = None
    # deeply nested directories in a process that may keep only a few files open (RLIMIT_NOFILE = 40): a tree just
    # created by mkdir still verifies
    def few_files():
        import resource
        resource.setrlimit(resource.RLIMIT_NOFILE, (40, 40))
    deep = []
    for depth in (30, 60, 120):
        chain = [(d, b"n%d" % d) for d in range(1, depth + 1)]
        ddoc = spell(chain, deep_spelling(chain))
        deep.append("hist F,d:746774;m,0,-,746774,-,-,-,-,%s;v,1,746774,%s" % (hx(ddoc), hx(ddoc)))
    dres, _ = run_impl(exe, deep, preexec_fn=few_files)
    for c, got in zip(deep, dres):
        ck.case(c[:300], True)
        ck.count("scenario:deep_few_descriptors")
        parts = got.split("|")
        if len(parts) < 3 or not parts[1].startswith("ok") or not parts[2].startswith("ok"):
            ck.violation({"property": "C08", "kind": "verify_exact", "class": "deep_few_descriptors", "case": c[:2000], "got": got[-300:],
                          "why": "a freshly created chain of nested directories does not verify when only 40 files may be open: " + "|".join(x.split(" ")[0] for x in parts)})
    # the file-system root as target (the joined paths must be spelled as the directory walk spells them)
    fixed = [("hist v,0,2f,%s" % hx(b"- dev\n  - null\n"), "ok - -"),
             ("hist v,0,2f,%s" % hx(b"- dev\n  - null\n  - zz_no_such_entry_verif\n"), "err:verify:/" + hx(b"/dev/zz_no_such_entry_verif") + " - -"),
             ("hist R,%s;A,0,%s;V,0,0,2f" % (hx(b"dev"), hx(b"null")), "h0|h1|ok - -")]
    fres, _ = run_impl(exe, [c for c, _ in fixed])
    for (c, want), got in zip(fixed, fres):
        ck.case(c, True)
        ck.count("scenario:root_target")
        g = "|".join(p if not p.startswith(("ok", "err")) else " ".join(p.split(" ")[:1] + ["-", "-"]) for p in got.split("|"))
        if g != want:
            ck.violation({"property": "C08", "kind": "verify_exact", "class": "root_target", "case": c, "got": got[:300],
                          "why": "verify against the target '/' gives %s, expected %s" % (g[:120], want[:120])})
    for i, (name, its, target, strict, scen, nops) in enumerate(meta):
        parts = impl[i].split("|")
        if parts[0].split(" ")[0] in ("panic", "crash", "timeout"):
            ck.violation({"property": ck.pid, "kind": "abnormal", "class": "abnormal|" + parts[0].split(" ")[0], "case": cases[i], "got": impl[i][-300:],
                          "why": "the call did not return normally: " + parts[0]})
            continue
        fsnap = parse_snap(parts[nops].split(" ")[2])          # state the verification ran against
        r, _, snap = fs_result(parts[-1])
        if r in ("panic", "crash", "timeout") or len(parts) < 2:
            ck.violation({"property": ck.pid, "kind": "abnormal", "class": "abnormal|" + r, "case": cases[i], "got": impl[i][-300:],
                          "why": "the call did not return normally: " + r})
            continue
        after = parse_snap(snap)
        want_paths = [tjoin(target, p) for p, _, _ in node_paths(its, [])]
        roots = [tjoin(target, p) for p, _, _ in node_paths(its, []) if b"/" not in p]
        # expected verdict, root by root
        exp = "ok"
        exp_first = None
        for rt in roots:
            mine = [p for p in want_paths if p == rt or p.startswith(rt + b"/")]
            missing = sorted(p for p in mine if p not in fsnap)
            extra = sorted(p for p in fsnap if (p == rt or p.startswith(rt + b"/")) and p not in mine) if strict else []
            if missing or extra:
                exp = "err:verify"
                exp_first = (extra, missing)
                break
        # verdict over ALL roots (the iff of the statement)
        any_missing = any(p not in fsnap for p in want_paths)
        any_extra = strict and any((p == rt or p.startswith(rt + b"/")) and p not in want_paths for rt in roots for p in fsnap)
        ck.case(cases[i][:500], exp != "ok" or len(its) >= 3)
        ck.count("scenario:" + scen)
        ck.count("variant:" + name + ("_strict" if strict else ""))
        ck.count("verdict:" + exp)
        bad = None
        if after != fsnap:
            bad = "verify changed the file system"
        elif (r == "ok") != (not (any_missing or any_extra)):
            bad = "verdict %s, but missing=%s extra=%s" % (r, any_missing, any_extra)
        elif r.startswith("err:verify:"):
            ex, mi = r[len("err:verify:"):].split("/")
            gex = sorted(unhx(x) for x in ex.split(",") if x)
            gmi = sorted(unhx(x) for x in mi.split(",") if x)
            if (gex, gmi) != (exp_first[0], exp_first[1]):
                bad = "lists for the first differing root: got extra=%r missing=%r, expected extra=%r missing=%r" % (gex[:3], gmi[:3], exp_first[0][:3], exp_first[1][:3])
        elif r != "ok":
            bad = "unexpected result " + r
        if scen == "after_mkdir" and parts[nops].startswith("ok") and not bad and r != "ok":
            bad = "a tree just created by mkdir does not verify"
        if bad:
            ck.violation({"property": "C08", "kind": "verify_exact", "class": scen + "|" + name + "|" + bad[:18], "case": cases[i],
                          "got": parts[-1][:600], "why": bad, "expected": model[i].split("|")[-1][:600]})
        elif impl[i] != model[i] and "_link" not in name:      # symbolic links are not modelled
            broken = broken or (cases[i][:1500], impl[i][-400:], model[i][-400:])
    return broken
