# C01 — text output obeys the tree-drawing rule.
from lib import *

KERNEL_XCHECK = True
RULE = ("well-formed documents = (random forest sampler + exhaustive enumeration of all ordered forests over names {a,b} "
        "up to the tier's node bound) x random spelling x branch 4-tuple x {iterator, no-iterator} route; "
        "non-trivial = forest with >= 2 nodes; distinct = by case line hash")


def cases_for(rng, tier):
    out = []
    nmax = 5 if tier == "quick" else 7
    forests = enum_forests(nmax) + wide_forests(12 if tier == "quick" else 24) + very_wide_forests()
    for items in forests:
        sp = gen_spelling(rng, items) if rng.random() < 0.7 else plain_spelling(items)
        out.append((items, sp, rng.choice(BF_CHOICES), rng.choice(["0", "1"])))
    # chains nested 63..520 levels deep (per-ancestor bit masks, fixed stacks, recursion guards)
    for items in deep_forests():
        out.append((items, deep_spelling(items), rng.choice(BF_CHOICES), rng.choice(["0", "1"])))
    nrand = 1500 if tier == "quick" else 60000
    for _ in range(nrand):
        items = gen_forest(rng)
        sp = gen_spelling(rng, items)
        out.append((items, sp, rng.choice(BF_CHOICES + [None, None]), rng.choice(["0", "0", "1"])))
    return out


def run(ck, rng):
    exe = build_godriver()
    cs = cases_for(rng, ck.tier)
    lines, specs = [], []
    for items, sp, bf, noiter in cs:
        doc = spell(items, sp)
        lines.append("out d 0 %s %s - %s" % (noiter, bf_args(bf), hx(doc)))
        specs.append("spec %s %s" % (bf_args(bf), items_arg(items)))
    impl, crashes = run_impl(exe, lines)
    model = run_model(lines)
    spec = run_model(specs)
    ck.xcheck_cases = (lines, model)
    # the same cases in a process whose ENVIRONMENT differs (legacy locales, no TERM, odd TZ / HOME / NO_COLOR ...): the text
    # is a function of the input and the options only
    sample = rng.sample(range(len(lines)), min(300, len(lines)))
    for envx in ({"LC_ALL": "ja_JP.eucJP", "LANG": "ja_JP.eucJP"}, {"LANG": "en_US.ISO-8859-1", "LC_CTYPE": "de_DE.ISO-8859-15@euro", "TERM": "dumb", "TZ": "Pacific/Chatham"},
                 {"LC_ALL": "C", "NO_COLOR": "1", "HOME": "/nonexistent", "COLUMNS": "10", "GTREE_DEBUG": "1"}):
        e2 = dict(os.environ)
        e2.update(envx)
        got, _ = run_impl(exe, [lines[i] for i in sample], env=e2)
        for i, g in zip(sample, got):
            ck.case("env " + " ".join(sorted(envx)) + " " + lines[i][:200], True)
            ck.count("environment_variants")
            if g != impl[i]:
                ck.violation({"property": "C01", "kind": "text_rule", "class": "environment", "case": lines[i], "environment": envx,
                              "input": "", "expected": impl[i][:300], "got": g[:300],
                              "why": "the output depends on the process environment"})
    broken_corr = None
    for i, (items, sp, bf, noiter) in enumerate(cs):
        ck.case(lines[i], len(items) >= 2)
        ck.count("nodes<=3" if len(items) <= 3 else "nodes<=10" if len(items) <= 10 else "nodes>10")
        ck.count("heading" if sp["heading"] else "unit_tab" if sp["unit"] == b"\t" else "unit_sp%d" % len(sp["unit"]))
        want = spec[i]
        if impl[i] != want:
            ck.violation({"property": "C01", "kind": "text_rule", "class": impl[i].split(" ")[0][:12],
                          "case": lines[i], "input": spell(items, sp).decode("utf-8", "replace"),
                          "expected": want, "got": impl[i], "model": model[i],
                          "replay": "bin/check replay <this file>"})
        elif impl[i] != model[i]:
            broken_corr = broken_corr or (lines[i], impl[i], model[i])
    return broken_corr
