(* driver.ml — line protocol around the extracted model (model.ml).
   One case per input line, one result per output line.  Bytes are hex. *)
open Model

let ascii_of_int n =
  let bit k = (n lsr k) land 1 = 1 in
  Ascii (bit 0, bit 1, bit 2, bit 3, bit 4, bit 5, bit 6, bit 7)
let int_of_ascii (Ascii (b0,b1,b2,b3,b4,b5,b6,b7)) =
  let v b k = if b then 1 lsl k else 0 in
  v b0 0 + v b1 1 + v b2 2 + v b3 3 + v b4 4 + v b5 5 + v b6 6 + v b7 7
let hexval c = match c with
  | '0'..'9' -> Char.code c - 48 | 'a'..'f' -> Char.code c - 87 | 'A'..'F' -> Char.code c - 55
  | _ -> failwith "hex"
let str_of_hex h =
  if h = "-" || h = "_" then [] else
  let n = String.length h / 2 in
  List.init n (fun i -> ascii_of_int (hexval h.[2*i] * 16 + hexval h.[2*i+1]))
let hex_of_str l =
  match l with [] -> "-" | _ ->
  let b = Buffer.create 64 in
  List.iter (fun a -> Buffer.add_string b (Printf.sprintf "%02x" (int_of_ascii a))) l;
  Buffer.contents b
let rec int_of_nat = function O -> 0 | S n -> 1 + int_of_nat n
let rec nat_of_int n = if n <= 0 then O else S (nat_of_int (n - 1))

let split c s = if s = "-" then [] else String.split_on_char c s
let hexlist s = List.map str_of_hex (split ',' s)

let err_str = function
  | EEmptyText -> "empty_text"
  | EFormat r -> "format:" ^ hex_of_str r
  | ENilStack -> "nil_stack"
  | ETooLong -> "too_long"
  | EReader -> "reader"
  | EInvalidName n -> "invalid_name:" ^ hex_of_str n
  | EInvalidPath p -> "invalid_path:" ^ hex_of_str p
  | EExistPath -> "exist_path"
  | EVerify (ex, mi) ->
      "verify:" ^ String.concat "," (List.sort compare (List.map hex_of_str ex)) ^ "/" ^ String.concat "," (List.sort compare (List.map hex_of_str mi))
  | EWriter -> "writer"
  | ECtx -> "ctx"
  | ENilNode -> "nil_node"
  | ENotRoot -> "not_root"
  | EOs -> "os"
  | ECallback k -> "callback:" ^ string_of_int (int_of_nat k)

let res_str = function
  | Ok _ -> "ok"
  | Err e -> "err:" ^ err_str e
  | Panic -> "panic"

let rec fnode_str (F (n, ks)) =
  "(" ^ hex_of_str n ^ String.concat "" (List.map fnode_str ks) ^ ")"

(* consecutive text chunks are merged: write granularity is not an observable here *)
let chunks_str cs =
  let out = ref [] and cur = ref [] in
  let flush () =
    (* empty writes never reach the io.Writer (bufio does not flush an empty buffer) *)
    let bytes = List.concat (List.rev !cur) in
    if bytes <> [] then out := ("t" ^ hex_of_str bytes) :: !out;
    cur := [] in
  List.iter (function
    | CText s -> cur := s :: !cur
    | CEnc (e, f) ->
        flush ();
        let tag = match e with EncYAML -> "y" | EncTOML -> "t" | EncJSON -> "j" | EncDefault -> "d" in
        out := ("e" ^ tag ^ fnode_str f) :: !out) cs;
  flush ();
  match List.rev !out with [] -> "-" | l -> String.concat ";" l

let enc_of = function "j" -> EncJSON | "y" -> EncYAML | "t" -> EncTOML | _ -> EncDefault

let bf_of ld li md mi =
  if ld = "D" then default_bfmt   (* no branch-format option given: the library's defaults *)
  else { last_d = str_of_hex ld; last_i = str_of_hex li; mid_d = str_of_hex md; mid_i = str_of_hex mi }

let exts_of s = if s = "-" then [] else List.map str_of_hex (String.split_on_char ',' s)

let visit_str v =
  String.concat "," [hex_of_str v.v_name; hex_of_str v.v_branch; hex_of_str v.v_row;
    string_of_int (int_of_nat v.v_level); hex_of_str v.v_path; if v.v_haschild then "1" else "0"]

let items_of s =
  List.map (fun it -> match String.split_on_char ':' it with
    | [d; h] -> (nat_of_int (int_of_string d), str_of_hex h)
    | _ -> failwith "item") (split ',' s)

let handle line =
  match String.split_on_char ' ' line with
  | [("out" | "wasm") as op; e; d; n; ld; li; md; mi; exts; input] ->
      let c = { c_bf = bf_of ld li md mi; c_enc = enc_of e; c_dry = (d = "1");
                c_exts = exts_of exts; c_noiter = (n = "1") } in
      let (cs, r) = if op = "wasm" then wasm_output c (str_of_hex input) else output_md c (str_of_hex input) in
      res_str r ^ " " ^ chunks_str cs
  | ["fout"; k; b; _fl; e; d; n; ld; li; md; mi; exts; input] ->
      let c = { c_bf = bf_of ld li md mi; c_enc = enc_of e; c_dry = (d = "1");
                c_exts = exts_of exts; c_noiter = (n = "1") } in
      let opt s = if s = "-" then None else Some (nat_of_int (int_of_string s)) in
      let (acc, r) = if _fl = "2" then output_faulty_kth c (str_of_hex input) (nat_of_int (int_of_string b))
                     else output_faulty c (str_of_hex input) (opt k) (opt b) in
      res_str r ^ " " ^ hex_of_str acc
  | ["frout"; b; _fl; e; d; ld; li; md; mi; items] ->
      let c = { c_bf = bf_of ld li md mi; c_enc = enc_of e; c_dry = (d = "1"); c_exts = []; c_noiter = false } in
      (match forest_of_items (items_of items) [] with
       | [t] -> let (acc, r) = if _fl = "2" then output_root_faulty_kth c t (nat_of_int (int_of_string b))
                               else output_root_faulty c t (nat_of_int (int_of_string b)) in res_str r ^ " " ^ hex_of_str acc
       | _ -> "badcase")
  | ["cli"; cmd; usage; fmt; missing; dry; exts; target; strict; budget; pre; doc] ->
      let iv = { i_cmd = (match cmd with "output" -> CmdOutput | "mkdir" -> CmdMkdir | "verify" -> CmdVerify | _ -> CmdTemplate);
                 i_usage_error = (usage = "1");
                 i_format = (match fmt with "-" -> None | "json" -> Some (Some EncJSON) | "yaml" -> Some (Some EncYAML)
                                           | "toml" -> Some (Some EncTOML) | _ -> Some None);
                 i_input = (if missing = "1" then InMissingFile else InGiven);
                 i_dry = (dry = "1"); i_exts = (if exts = "-" then [] else List.map str_of_hex (String.split_on_char '+' exts));
                 i_target = str_of_hex target; i_strict = (strict = "1") } in
      let fs0 = List.map (fun e -> match String.split_on_char ':' e with
              | ["d"; p] -> (str_of_hex p, KDir) | ["f"; p] -> (str_of_hex p, KFile false) | ["e"; p] -> (str_of_hex p, KFile true)
              | _ -> failwith "fsentry") (if pre = "-" then [] else String.split_on_char '+' pre) in
      let b = if budget = "-" then None else Some (nat_of_int (int_of_string budget)) in
      let ((out, fs1), code) = run_cli iv (str_of_hex doc) fs0 b in
      let ents = List.sort compare (List.map (fun (p, k) -> match k with
              | KDir -> "d:" ^ hex_of_str p | KFile true -> "e:" ^ hex_of_str p | KFile false -> "f:" ^ hex_of_str p) fs1) in
      Printf.sprintf "%d %s %s" (int_of_nat code) (hex_of_str out) (match ents with [] -> "-" | _ -> String.concat "+" ents)
  | ["walk"; ld; li; md; mi; fail; input] ->
      let c = { c_bf = bf_of ld li md mi; c_enc = EncDefault; c_dry = false; c_exts = []; c_noiter = false } in
      let k = if fail = "-" then -1 else int_of_string fail in
      let cb i = (int_of_nat i = k) in
      let (vs, r) = walk_md c cb (str_of_hex input) in
      res_str r ^ " " ^ (match vs with [] -> "-" | _ -> String.concat ";" (List.map visit_str vs))
  | ["spec"; ld; li; md; mi; items] ->
      let f = forest_of_items (items_of items) [] in
      "ok t" ^ hex_of_str (render (bf_of ld li md mi) (List.map trie_of f))
  | ["hist"; ops] ->
      let opt_h s = if s = "N" then None else Some (nat_of_int (int_of_string s)) in
      let opt_k s = if s = "-" then None else Some (nat_of_int (int_of_string s)) in
      let exts_plus s = if s = "-" then [] else List.map str_of_hex (String.split_on_char '+' s) in
      let strip_enc o =
        (* optional trailing encoding field on non-output entry points: the model (after D23) ignores it *)
        let fs = String.split_on_char ',' o in
        let n = List.length fs in
        let want = match fs with
          | ("M" | "Md") :: _ -> 9 | ("m" | "md") :: _ -> 9 | ("V" | "Vd") :: _ -> 4 | ("v" | "vd") :: _ -> 4
          | ("W" | "Wd") :: _ -> 7 | ("w" | "wd") :: _ -> 7 | _ -> n in
        if n = want + 1 then List.filteri (fun i _ -> i < want) fs else fs in
      let parse_op o = match strip_enc o with
        | ["R"; n] -> PNewRoot (str_of_hex n)
        | ["A"; h; n] -> PAdd (nat_of_int (int_of_string h), str_of_hex n)
        | [("O" | "Od"); h; e; d; ld; li; md; mi; exts] ->
            POutput (opt_h h, { c_bf = bf_of ld li md mi; c_enc = enc_of e; c_dry = (d = "1"); c_exts = exts_plus exts; c_noiter = false })
        | [("W" | "Wd"); h; ld; li; md; mi; f] -> PWalk (opt_h h, bf_of ld li md mi, opt_k f)
        | [("I" | "Id"); h; ld; li; md; mi; k] -> PWalkIter (opt_h h, bf_of ld li md mi, opt_k k)
        | [("o" | "od"); e; d; n; ld; li; md; mi; exts; doc] ->
            PMdOutput ({ c_bf = bf_of ld li md mi; c_enc = enc_of e; c_dry = (d = "1"); c_exts = exts_plus exts; c_noiter = (n = "1") }, str_of_hex doc)
        | [("w" | "wd"); ld; li; md; mi; f; doc] -> PMdWalk (bf_of ld li md mi, opt_k f, str_of_hex doc)
        | ["F"; es] ->
            PFsInit (List.map (fun e -> match String.split_on_char ':' e with
              | ["d"; p] -> (str_of_hex p, KDir)
              | ["f"; p] -> (str_of_hex p, KFile false)
              | ["e"; p] -> (str_of_hex p, KFile true)
              | _ -> failwith "fsentry") (if es = "-" then [] else String.split_on_char '+' es))
        | [("M" | "Md"); h; d; exts; dir; ld; li; md; mi] ->
            PMkdir (opt_h h, { c_bf = bf_of ld li md mi; c_enc = EncDefault; c_dry = (d = "1"); c_exts = exts_plus exts; c_noiter = false }, str_of_hex dir)
        | [("V" | "Vd"); h; st; dir] ->
            PVerify (opt_h h, { c_bf = default_bfmt; c_enc = EncDefault; c_dry = false; c_exts = []; c_noiter = false }, st = "1", str_of_hex dir)
        | [("m" | "md"); d; exts; dir; ld; li; md; mi; doc] ->
            PMdMkdir ({ c_bf = bf_of ld li md mi; c_enc = EncDefault; c_dry = (d = "1"); c_exts = exts_plus exts; c_noiter = false }, str_of_hex dir, str_of_hex doc)
        | [("v" | "vd"); st; dir; doc] ->
            PMdVerify ({ c_bf = default_bfmt; c_enc = EncDefault; c_dry = false; c_exts = []; c_noiter = false }, st = "1", str_of_hex dir, str_of_hex doc)
        | _ -> failwith ("op " ^ o) in
      (* deferred iterators: "Ic,K,h,bf" obtains an iterator (no effect in the model: the sequence is computed when it
         is ranged over), "Ir,K,brk" ranges over it -- the model runs the iterator walk at that point of the history *)
      let tbl = Hashtbl.create 8 in
      let raw = String.split_on_char ';' ops in
      (* ops without any effect in the model: obtaining an iterator, an output into a failing writer (interference),
         switching colours on *)
      let is_ic o = (String.length o > 3 && (String.sub o 0 3 = "Ic," || String.sub o 0 3 = "Ob,")) || o = "K" in
      let subst o =
        match String.split_on_char ',' o with
        | "Ic" :: k :: rest -> Hashtbl.replace tbl k rest; o
        | ["Wn"; h; _; ld; li; md; mi] -> String.concat "," ["W"; h; ld; li; md; mi; "-"]
        | ["Ir"; k; brk] -> "I," ^ String.concat "," (Hashtbl.find tbl k) ^ "," ^ brk
        | _ -> o in
      let raw = List.map subst raw in
      let outs0 = prun world0 (List.map parse_op (List.filter (fun o -> not (is_ic o)) raw)) in
      let rec weave raw outs = match raw, outs with
        | [], _ -> []
        | o :: r, _ when is_ic o -> None :: weave r outs
        | _ :: r, x :: xs -> Some x :: weave r xs
        | _ :: _, [] -> [] in
      let outs = weave raw outs0 in
      let marks = List.filter is_ic raw in
      let mark_of o = if o = "K" then "k" else if String.sub o 0 3 = "Ob," then "b" else "c" in
      let marks = ref (List.map mark_of marks) in
      String.concat "|" (List.map (function None -> (match !marks with m :: r -> marks := r; m | [] -> "c") | Some x -> (match x with
        | OHandle h -> "h" ^ string_of_int (int_of_nat h)
        | OOutput (cs, r) -> res_str r ^ " " ^ chunks_str cs
        | OWalk (vs, r) -> res_str r ^ " " ^ (match vs with [] -> "-" | _ -> String.concat ";" (List.map visit_str vs))
        | OFs (cs, r, f) ->
            let ents = List.sort compare (List.map (fun (p, k) -> match k with
              | KDir -> "d:" ^ hex_of_str p
              | KFile true -> "e:" ^ hex_of_str p
              | KFile false -> "f:" ^ hex_of_str p) f) in
            res_str r ^ " " ^ chunks_str cs ^ " " ^ (match ents with [] -> "-" | _ -> String.concat "+" ents)
        | OBad -> "bad")) outs)
  | ["specwalk"; ld; li; md; mi; items] ->
      let f = List.map trie_of (forest_of_items (items_of items) []) in
      let vs = spec_visits (bf_of ld li md mi) f in
      "ok " ^ (match vs with [] -> "-" | _ -> String.concat ";" (List.map visit_str vs))
  | ["classdoc"; input] ->
      let (rows, e) = scan_lines (str_of_hex input) in
      (match classify_rows rows with
       | VOk items ->
           (match e with ScanTooLong -> "too_long" | ScanEOF ->
            "ok " ^ (match items with [] -> "-" | _ ->
              String.concat "," (List.map (fun (d, n) -> Printf.sprintf "%d:%s" (int_of_nat d) (match n with [] -> "_" | _ -> hex_of_str n)) items)))
       | VBad (i, r) ->
           let rs = match r with RNoBullet -> "no_bullet" | REmptyText -> "empty_text" | RMixed -> "mixed"
             | RNotMultiple -> "not_multiple" | RJump -> "jump" | RNoRoot -> "no_root" in
           Printf.sprintf "bad %d %s %s" (int_of_nat i) rs (hex_of_str (List.nth rows (int_of_nat i))))
  | ["parse"; rows] ->
      let res = parse_all p0 (hexlist rows) in
      String.concat "," (List.map (function
        | PBlank -> "B" | PEmpty -> "E" | PFormat -> "F"
        | PItem (h, t) -> Printf.sprintf "I%d:%s" (int_of_nat h) (hex_of_str t)) res)
  | ["clean"; p] -> hex_of_str (path_clean (str_of_hex p))
  | ["join"; ps] -> hex_of_str (path_join (hexlist ps))
  | ["validpath"; p] -> if valid_path (str_of_hex p) then "1" else "0"
  | ["utf8"; p] -> if utf8_valid (str_of_hex p) then "1" else "0"
  | ["space"; p] -> if all_space (str_of_hex p) then "1" else "0"
  | ["scan"; p] ->
      let (ls, e) = scan_lines (str_of_hex p) in
      (match e with ScanEOF -> "eof" | ScanTooLong -> "too_long") ^ " " ^
      (match ls with [] -> "-" | _ -> String.concat "," (List.map (fun l -> match l with [] -> "_" | _ -> hex_of_str l) ls))
  | ["msplit"; doc] ->
      let (bs, ok) = split_doc (str_of_hex doc) in
      (if ok then "ok" else "err") ^ " " ^
      (match bs with [] -> "-" | _ -> String.concat "," (List.map (fun l -> match l with [] -> "_" | _ -> hex_of_str l) bs))
  | ["mgen"; ld; li; md; mi; block] ->
      (match gen_block (str_of_hex block) with
       | BRoot None -> "ok none"
       | BRoot (Some t) -> "ok t" ^ hex_of_str (render (bf_of ld li md mi) [t])
       | BErr -> "err -"
       | BPanic -> "panic -")
  | _ -> "badcase"

let () =
  try while true do
    let line = input_line stdin in
    print_endline (try handle line with e -> "exn:" ^ Printexc.to_string e)
  done with End_of_file -> ()
