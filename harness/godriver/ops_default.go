//go:build !tinywasm

package main

import (
	"sync"
	"bufio"
	"bytes"
	"context"
	"errors"
	"fmt"
	"io"
	"io/fs"
	"path"
	"strings"
	"unicode/utf8"

	"github.com/ddddddO/gtree"
	md "github.com/ddddddO/gtree/markdown"
	toml "github.com/pelletier/go-toml/v2"
	"gopkg.in/yaml.v3"
)

func classifyDefault(err error) string {
	switch {
	case errors.Is(err, gtree.ErrExistPath):
		return "err:exist_path"
	case errors.Is(err, gtree.ErrNilNode):
		return "err:nil_node"
	case errors.Is(err, gtree.ErrNotRoot):
		return "err:not_root"
	}
	msg := err.Error()
	if strings.HasPrefix(msg, "Extra paths exist:") || strings.HasPrefix(msg, "Required paths does not exist:") {
		return "err:verify:" + verifyLists(msg)
	}
	return ""
}

// outOptions: E D N LD LI MD MI EXTS
func outOptions(t []string) []gtree.Option {
	var opts []gtree.Option
	switch t[0] {
	case "j":
		opts = append(opts, gtree.WithEncodeJSON())
	case "y":
		opts = append(opts, gtree.WithEncodeYAML())
	case "t":
		opts = append(opts, gtree.WithEncodeTOML())
	}
	if t[1] == "1" {
		opts = append(opts, gtree.WithDryRun())
	}
	if t[2] == "1" {
		opts = append(opts, gtree.WithNoUseIterOfSimpleOutput())
	}
	if t[3] != "D" {
		// "D D D D": no branch-format option at all (the library's own defaults)
		opts = append(opts, gtree.WithBranchFormatLastNode(unhex(t[3]), unhex(t[4])))
		opts = append(opts, gtree.WithBranchFormatIntermedialNode(unhex(t[5]), unhex(t[6])))
	}
	if t[7] != "-" {
		opts = append(opts, gtree.WithFileExtensions(hexlist(t[7])))
	}
	// the ORDER in which options are given, and giving one twice with the same value, changes nothing:
	// rotate / duplicate deterministically by the option set
	if n := len(opts); n > 1 {
		k := (len(t[3]) + len(t[7]) + n) % n
		opts = append(opts[k:], opts[:k]...)
		if (len(t[4])+n)%3 == 0 {
			opts = append(opts, opts[0])
		}
	}
	return opts
}

type fnode struct {
	Value    string   `yaml:"value" toml:"value" json:"value"`
	Children []*fnode `yaml:"children" toml:"children" json:"children"`
}

func (f *fnode) canon() string {
	var b strings.Builder
	b.WriteString("(")
	b.WriteString(hx(f.Value))
	for _, c := range f.Children {
		b.WriteString(c.canon())
	}
	b.WriteString(")")
	return b.String()
}

// chunksOf renders the bytes the writer received in the model's chunk notation.
func chunksOf(enc string, dry bool, data []byte) (res string) {
	defer func() {
		// third-party decoders may panic on truncated documents (fault-injection scenarios)
		if r := recover(); r != nil {
			res = "x" + hx(string(data))
		}
	}()
	if len(data) == 0 {
		return "-"
	}
	if dry || (enc != "y" && enc != "t") {
		return "t" + hx(string(data))
	}
	var parts []string
	if enc == "y" {
		dec := yaml.NewDecoder(bytes.NewReader(data))
		for {
			var f fnode
			err := dec.Decode(&f)
			if err == io.EOF {
				break
			}
			if err != nil {
				return "x" + hx(string(data))
			}
			parts = append(parts, "ey"+f.canon())
		}
	} else {
		var f fnode
		if err := toml.Unmarshal(data, &f); err != nil {
			return "x" + hx(string(data))
		}
		parts = append(parts, "et"+f.canon())
	}
	if len(parts) == 0 {
		return "-"
	}
	return strings.Join(parts, ";")
}

type visitRec struct {
	name, branch, row, path string
	level                   uint
	hasChild                bool
}

func visitsStr(vs []visitRec) string {
	if len(vs) == 0 {
		return "-"
	}
	parts := make([]string, len(vs))
	for i, v := range vs {
		hc := "0"
		if v.hasChild {
			hc = "1"
		}
		parts[i] = fmt.Sprintf("%s,%s,%s,%d,%s,%s", hx(v.name), hx(v.branch), hx(v.row), v.level, hx(v.path), hc)
	}
	return strings.Join(parts, ";")
}

// retainedChanged: the nodes handed to the callback, read again after the walk, must say what they said then.
func retainedChanged(kept []*gtree.WalkerNode, vs []visitRec) int {
	n := 0
	for i, wn := range kept {
		if i < len(vs) && recVisit(wn) != vs[i] {
			n++
		}
	}
	return n
}

func recVisit(wn *gtree.WalkerNode) visitRec {
	return visitRec{wn.Name(), wn.Branch(), wn.Row(), wn.Path(), wn.Level(), wn.HasChild()}
}

func handle(toks []string) string {
	switch toks[0] {
	case "out", "mout":
		// out E D N LD LI MD MI EXTS INPUT
		opts := outOptions(toks[1:9])
		if toks[0] == "mout" {
			opts = append(opts, gtree.WithMassive(context.Background()))
		}
		var w bytes.Buffer
		err := gtree.OutputFromMarkdown(&w, mkReader(unhex(toks[9])), opts...)
		return classify(err, -1) + " " + chunksOf(toks[1], toks[2] == "1", w.Bytes())
	case "walk", "mwalk":
		// walk LD LI MD MI FAIL INPUT
		opts := []gtree.Option{
			gtree.WithBranchFormatLastNode(unhex(toks[1]), unhex(toks[2])),
			gtree.WithBranchFormatIntermedialNode(unhex(toks[3]), unhex(toks[4])),
		}
		if toks[0] == "mwalk" {
			opts = append(opts, gtree.WithMassive(context.Background()))
		}
		fail := parseFail(toks[5])
		var vs []visitRec
		i := 0
		var vmu sync.Mutex // with the massive option the callback is invoked from several workers
		var keptNodes []*gtree.WalkerNode
		cb := func(wn *gtree.WalkerNode) error {
			vmu.Lock()
			defer vmu.Unlock()
			vs = append(vs, recVisit(wn))
			keptNodes = append(keptNodes, wn)
			i++
			if i-1 == fail {
				return cbErr
			}
			return nil
		}
		err := gtree.WalkFromMarkdown(mkReader(unhex(toks[6])), cb, opts...)
		if n := retainedChanged(keptNodes, vs); n > 0 {
			return fmt.Sprintf("retained_changed:%d %s", n, visitsStr(vs))
		}
		return classify(err, fail) + " " + visitsStr(vs)
	case "parse":
		p := md.NewParser()
		rows := hexlist(toks[1])
		out := make([]string, len(rows))
		for i, r := range rows {
			m, err := p.Parse(r)
			switch err {
			case nil:
				out[i] = fmt.Sprintf("I%d:%s", m.Hierarchy(), hx(m.Text()))
			case md.ErrBlankLine:
				out[i] = "B"
			case md.ErrEmptyText:
				out[i] = "E"
			default:
				out[i] = "F"
			}
		}
		return strings.Join(out, ",")
	case "clean":
		return hx(path.Clean(unhex(toks[1])))
	case "join":
		return hx(path.Join(hexlist(toks[1])...))
	case "validpath":
		if fs.ValidPath(unhex(toks[1])) {
			return "1"
		}
		return "0"
	case "utf8":
		if utf8.ValidString(unhex(toks[1])) {
			return "1"
		}
		return "0"
	case "space":
		if len(strings.TrimSpace(unhex(toks[1]))) == 0 {
			return "1"
		}
		return "0"
	case "scan":
		sc := bufio.NewScanner(strings.NewReader(unhex(toks[1])))
		var ls []string
		for sc.Scan() {
			l := sc.Text()
			if l == "" {
				ls = append(ls, "_")
			} else {
				ls = append(ls, hx(l))
			}
		}
		end := "eof"
		if errors.Is(sc.Err(), bufio.ErrTooLong) {
			end = "too_long"
		}
		if len(ls) == 0 {
			return end + " -"
		}
		return end + " " + strings.Join(ls, ",")
	}
	if r, ok := handleMore(toks); ok {
		return r
	}
	return "badcase"
}
