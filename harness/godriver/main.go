// godriver — runs the real gtree (from /repo's working tree) on case lines and prints
// the observation in the same line protocol as the extracted model runner.
package main

import (
	"bufio"
	"bytes"
	"context"
	"encoding/hex"
	"errors"
	"fmt"
	"io"
	"io/fs"
	"os"
	"runtime/debug"
	"strings"
	"time"
)

var (
	errInjectedReader   = errors.New("verif: injected reader failure")
	errInjectedWriter   = errors.New("verif: injected writer failure")
	errInjectedCallback = errors.New("verif: injected callback failure")
)

// cbErr is the error value the walk callback of the current case returns at its failing index
// (the first error of the callback must be returned UNCHANGED, whatever it is).
var cbErr error

// parseFail reads "K" or "K<kind>": the callback fails at visit K with the injected error, or with
// s = fs.SkipDir, a = fs.SkipAll, e = io.EOF, c = context.Canceled, w = an error wrapping context.Canceled.
func parseFail(tok string) int {
	cbErr = errInjectedCallback
	if tok == "-" || tok == "" {
		return -1
	}
	kind := byte(0)
	if c := tok[len(tok)-1]; c < '0' || c > '9' {
		kind = c
		tok = tok[:len(tok)-1]
	}
	switch kind {
	case 's':
		cbErr = fs.SkipDir
	case 'a':
		cbErr = fs.SkipAll
	case 'e':
		cbErr = io.EOF
	case 'c':
		cbErr = context.Canceled
	case 'w':
		cbErr = fmt.Errorf("stream abandoned: %w", context.Canceled)
	}
	n := -1
	fmt.Sscanf(tok, "%d", &n)
	return n
}

// mkReader hands the document to the library through readers of different dynamic types (the library
// takes an io.Reader; what it gets must not matter): chosen by the content, so a case always gets the same one.
type plainReader struct{ r io.Reader }

func (p plainReader) Read(b []byte) (int, error) { return p.r.Read(b) }

func mkReader(doc string) io.Reader {
	h := 0
	for i := 0; i < len(doc); i++ {
		h = h*31 + int(doc[i])
	}
	if h < 0 {
		h = -h
	}
	switch h % 8 {
	case 6:
		return &dataEOFReader{data: []byte(doc)} // the last bytes come TOGETHER with io.EOF
	case 7:
		return &stutterReader{r: strings.NewReader(doc)} // (0, nil) before every real read
	case 0:
		return strings.NewReader(doc)
	case 1:
		return bytes.NewBufferString(doc)
	case 2:
		return bytes.NewReader([]byte(doc))
	case 3:
		return bufio.NewReaderSize(strings.NewReader(doc), 16)
	case 4:
		return plainReader{strings.NewReader(doc)} // only Read, nothing else
	default:
		if len(doc) > 2000 {
			return strings.NewReader(doc)
		}
		return iotest1{strings.NewReader(doc)} // one byte per Read
	}
}

type dataEOFReader struct {
	data []byte
	done bool
}

func (d *dataEOFReader) Read(p []byte) (int, error) {
	if d.done {
		return 0, io.EOF
	}
	n := copy(p, d.data)
	d.data = d.data[n:]
	if len(d.data) == 0 {
		d.done = true
		return n, io.EOF
	}
	return n, nil
}

type stutterReader struct {
	r    io.Reader
	flip bool
}

func (s *stutterReader) Read(p []byte) (int, error) {
	s.flip = !s.flip
	if s.flip {
		return 0, nil
	}
	return s.r.Read(p)
}

type iotest1 struct{ r io.Reader }

func (o iotest1) Read(b []byte) (int, error) {
	if len(b) == 0 {
		return 0, nil
	}
	return o.r.Read(b[:1])
}

func unhex(h string) string {
	if h == "-" || h == "_" {
		return ""
	}
	b, err := hex.DecodeString(h)
	if err != nil {
		panic("bad hex " + h)
	}
	return string(b)
}

func hx(s string) string {
	if s == "" {
		return "-"
	}
	return hex.EncodeToString([]byte(s))
}

func hexlist(s string) []string {
	if s == "-" {
		return nil
	}
	parts := strings.Split(s, ",")
	out := make([]string, len(parts))
	for i, p := range parts {
		out[i] = unhex(p)
	}
	return out
}

// classify maps a returned error onto the model's error enum.
func classify(err error, cbIndex int) string {
	if err == nil {
		return "ok"
	}
	msg := err.Error()
	switch {
	case errors.Is(err, errInjectedReader):
		return "err:reader"
	case errors.Is(err, errInjectedWriter):
		return "err:writer"
	case err == errInjectedCallback || (cbErr != nil && err == cbErr):
		return fmt.Sprintf("err:callback:%d", cbIndex)
	case errors.Is(err, errInjectedCallback):
		return fmt.Sprintf("err:callback_wrapped:%d", cbIndex)
	case errors.Is(err, bufio.ErrTooLong):
		return "err:too_long"
	case errors.Is(err, context.Canceled), errors.Is(err, context.DeadlineExceeded):
		return "err:ctx"
	case msg == "empty text":
		return "err:empty_text"
	case msg == "nil stack":
		return "err:nil_stack"
	case strings.HasPrefix(msg, "incorrect input format: "):
		return "err:format:" + hx(strings.TrimPrefix(msg, "incorrect input format: "))
	case strings.HasPrefix(msg, "invalid node name: "):
		return "err:invalid_name:" + hx(strings.TrimPrefix(msg, "invalid node name: "))
	case strings.HasPrefix(msg, "invalid path: "):
		return "err:invalid_path:" + hx(strings.TrimPrefix(msg, "invalid path: "))
	}
	if c := classifyDefault(err); c != "" {
		return c
	}
	return "err:os"
}

func main() {
	in := bufio.NewReaderSize(os.Stdin, 1<<20)
	out := bufio.NewWriterSize(os.Stdout, 1<<20)
	defer out.Flush()
	for {
		line, err := in.ReadString('\n')
		line = strings.TrimRight(line, "\n")
		if line != "" {
			res := safeHandle(line)
			out.WriteString(res)
			out.WriteByte('\n')
			out.Flush()
		}
		if err != nil {
			return
		}
	}
}

func safeHandle(line string) (res string) {
	defer func() {
		if r := recover(); r != nil {
			if os.Getenv("VERIF_DEBUG") != "" {
				fmt.Fprintf(os.Stderr, "panic: %v\n%s\n", r, debug.Stack())
			}
			// keep what panicked in the result: such events can be rare and schedule-dependent
			st := string(debug.Stack())
			if len(st) > 1800 {
				st = st[:1800]
			}
			res = "panic p" + hx(fmt.Sprint(r)+"\n"+st)
		}
	}()
	toks := strings.Split(line, " ")
	if toks[0] == "settle" {
		// give goroutines left behind by the previous case time to finish (or to panic)
		time.Sleep(40 * time.Millisecond)
		return "settled"
	}
	return handle(toks)
}
