//go:build !tinywasm

package main

import (
	"bytes"
	"context"
	"fmt"
	"iter"
	"strconv"
	"strings"
	"sync"

	"github.com/ddddddO/gtree"
	"github.com/fatih/color"
)

// extOption returns ONE Option value (and one backing slice) per extension list for the whole life of the process:
// callers keep and reuse their options, and the library must neither keep state in them nor modify the caller's slice.
var extOptions = map[string]gtree.Option{}
var extSlices = map[string][]string{}

func extOption(s string) gtree.Option {
	if o, ok := extOptions[s]; ok {
		// the caller's slice must still be what the caller wrote
		if strings.Join(extSlices[s], "\x00") != strings.Join(plusList(s), "\x00") {
			panic("the library modified the caller's extension slice: " + s)
		}
		return o
	}
	sl := plusList(s)
	extSlices[s] = sl
	extOptions[s] = gtree.WithFileExtensions(sl)
	return extOptions[s]
}

// bfOptions: the two branch-format options, or NO option at all when the first field is "D"
func bfOptions(ld, li, md, mi string) []gtree.Option {
	if ld == "D" {
		return nil
	}
	return []gtree.Option{
		gtree.WithBranchFormatLastNode(unhex(ld), unhex(li)),
		gtree.WithBranchFormatIntermedialNode(unhex(md), unhex(mi)),
	}
}

func plusList(s string) []string {
	if s == "-" {
		return nil
	}
	parts := strings.Split(s, "+")
	out := make([]string, len(parts))
	for i, p := range parts {
		out[i] = unhex(p)
	}
	return out
}

func optInt(s string) int {
	if s == "-" || s == "N" {
		return -1
	}
	n, _ := strconv.Atoi(s)
	return n
}

// runHist executes a history of NewRoot / Add / From-Root / From-Markdown operations
// in this process, in order, and reports one result per operation.
func runHist(spec string, massive bool) string {
	defer jailLeave()
	var handles []*gtree.Node
	var outs []string
	colorForced, savedNoColor := false, false
	defer func() {
		if colorForced {
			color.NoColor = savedNoColor
		}
	}()
	var iters map[string]iter.Seq2[*gtree.WalkerNode, error]
	node := func(h string) *gtree.Node {
		if h == "N" {
			return nil
		}
		return handles[optInt(h)]
	}
	for _, o := range strings.Split(spec, ";") {
		f := strings.Split(o, ",")
		var mopt []gtree.Option
		if massive {
			mopt = append(mopt, gtree.WithMassive(context.Background()))
		}
		switch f[0] {
		case "R":
			handles = append(handles, gtree.NewRoot(unhex(f[1])))
			outs = append(outs, fmt.Sprintf("h%d", len(handles)-1))
		case "A":
			handles = append(handles, handles[optInt(f[1])].Add(unhex(f[2])))
			outs = append(outs, fmt.Sprintf("h%d", len(handles)-1))
		case "O", "Od":
			// O,h,E,D,LD,LI,MD,MI,EXTS
			opts := outOptions([]string{f[2], f[3], "0", f[4], f[5], f[6], f[7], "-"})
			if f[8] != "-" {
				opts = append(opts, extOption(f[8]))
			}
			opts = append(opts, mopt...)
			var w bytes.Buffer
			var err error
			if f[0] == "O" {
				err = gtree.OutputFromRoot(&w, node(f[1]), opts...)
			} else {
				err = gtree.OutputProgrammably(&w, node(f[1]), opts...)
			}
			outs = append(outs, classify(err, -1)+" "+chunksOf(f[2], f[3] == "1", w.Bytes()))
		case "W", "Wd":
			opts := bfOptions(f[2], f[3], f[4], f[5])
			opts = append(opts, mopt...)
			opts = append(opts, encOpt(f, 7)...)
			fail := parseFail(f[6])
			var vs []visitRec
			i := 0
			var vmu sync.Mutex // with the massive option the callback is invoked from several workers
			cb := func(wn *gtree.WalkerNode) error {
				vmu.Lock()
				defer vmu.Unlock()
				vs = append(vs, recVisit(wn))
				i++
				if i-1 == fail {
					return cbErr
				}
				return nil
			}
			var err error
			if f[0] == "W" {
				err = gtree.WalkFromRoot(node(f[1]), cb, opts...)
			} else {
				err = gtree.WalkProgrammably(node(f[1]), cb, opts...)
			}
			outs = append(outs, classify(err, fail)+" "+visitsStr(vs))
		case "I", "Id":
			opts := bfOptions(f[2], f[3], f[4], f[5])
			brk := optInt(f[6])
			var vs []visitRec
			var ierr error
			i := 0
			seq := gtree.WalkIterFromRoot(node(f[1]), opts...)
			if f[0] == "Id" {
				seq = gtree.WalkIterProgrammably(node(f[1]), opts...)
			}
			for wn, err := range seq {
				if err != nil {
					ierr = err
					break
				}
				vs = append(vs, recVisit(wn))
				i++
				if i-1 == brk {
					break
				}
			}
			outs = append(outs, classify(ierr, -1)+" "+visitsStr(vs))
		case "Wn":
			// Wn,h,h2,LD,LI,MD,MI : WalkFromRoot(h) whose callback, at its first visit, renders root h2 (a From-Root call made
			// from inside a callback); the result is the walk's
			var vs []visitRec
			first := true
			cb := func(wn *gtree.WalkerNode) error {
				vs = append(vs, recVisit(wn))
				if first {
					first = false
					var nb bytes.Buffer
					_ = gtree.OutputFromRoot(&nb, node(f[2]))
				}
				return nil
			}
			err := gtree.WalkFromRoot(node(f[1]), cb, bfOptions(f[3], f[4], f[5], f[6])...)
			outs = append(outs, classify(err, -1)+" "+visitsStr(vs))
		case "Ob":
			// Ob,h,BUDGET : OutputFromRoot into a writer that fails after BUDGET bytes (interference only)
			b, _ := strconv.Atoi(f[2])
			if len(f) > 3 {
				// Ob,h,BUDGET,DOC : the same through OutputFromMarkdown (both routes)
				_ = gtree.OutputFromMarkdown(&budgetWriter{budget: b, flavour: "0"}, strings.NewReader(unhex(f[3])))
				_ = gtree.OutputFromMarkdown(&budgetWriter{budget: b, flavour: "0"}, strings.NewReader(unhex(f[3])), gtree.WithNoUseIterOfSimpleOutput())
			} else {
				_ = gtree.OutputFromRoot(&budgetWriter{budget: b, flavour: "0"}, node(f[1]))
			}
			outs = append(outs, "b")
		case "K":
			// colours on for the rest of this history (fatih/color decides by the terminal; a library call must not
			// leave colour codes in the caller's tree)
			if !colorForced {
				colorForced = true
				savedNoColor = color.NoColor
				color.NoColor = false
			}
			outs = append(outs, "k")
		case "Ic":
			// Ic,K,h,LD,LI,MD,MI : obtain the iterator now, consume it later (Ir)
			opts := bfOptions(f[3], f[4], f[5], f[6])
			if iters == nil {
				iters = map[string]iter.Seq2[*gtree.WalkerNode, error]{}
			}
			iters[f[1]] = gtree.WalkIterFromRoot(node(f[2]), opts...)
			outs = append(outs, "c")
		case "Ir":
			// Ir,K,BREAK : range over the iterator obtained by Ic,K
			brk := optInt(f[2])
			var vs []visitRec
			var ierr error
			i := 0
			for wn, err := range iters[f[1]] {
				if err != nil {
					ierr = err
					break
				}
				vs = append(vs, recVisit(wn))
				i++
				if i-1 == brk {
					break
				}
			}
			outs = append(outs, classify(ierr, -1)+" "+visitsStr(vs))
		case "o", "od":
			// o,E,D,N,LD,LI,MD,MI,EXTS,DOC
			opts := outOptions([]string{f[1], f[2], f[3], f[4], f[5], f[6], f[7], "-"})
			if f[8] != "-" {
				opts = append(opts, extOption(f[8]))
			}
			opts = append(opts, mopt...)
			var w bytes.Buffer
			var err error
			if f[0] == "o" {
				err = gtree.OutputFromMarkdown(&w, mkReader(unhex(f[9])), opts...)
			} else {
				err = gtree.Output(&w, mkReader(unhex(f[9])), opts...)
			}
			outs = append(outs, classify(err, -1)+" "+chunksOf(f[1], f[2] == "1", w.Bytes()))
		case "w", "wd":
			// w,LD,LI,MD,MI,FAIL,DOC
			opts := bfOptions(f[1], f[2], f[3], f[4])
			opts = append(opts, mopt...)
			opts = append(opts, encOpt(f, 7)...)
			fail := parseFail(f[5])
			var vs []visitRec
			i := 0
			var vmu sync.Mutex // with the massive option the callback is invoked from several workers
			cb := func(wn *gtree.WalkerNode) error {
				vmu.Lock()
				defer vmu.Unlock()
				vs = append(vs, recVisit(wn))
				i++
				if i-1 == fail {
					return cbErr
				}
				return nil
			}
			var err error
			if f[0] == "w" {
				err = gtree.WalkFromMarkdown(mkReader(unhex(f[6])), cb, opts...)
			} else {
				err = gtree.Walk(mkReader(unhex(f[6])), cb, opts...)
			}
			outs = append(outs, classify(err, fail)+" "+visitsStr(vs))
		default:
			if r, ok := histMore(f, node, massive); ok {
				outs = append(outs, r)
			} else {
				outs = append(outs, "bad")
			}
		}
	}
	return strings.Join(outs, "|")
}
