//go:build tinywasm

package main

import (
	"bytes"

	"github.com/ddddddO/gtree"
)

func classifyDefault(err error) string { return "" }

func handle(toks []string) string {
	switch toks[0] {
	case "wasm":
		// wasm E D N LD LI MD MI EXTS INPUT
		var opts []gtree.Option
		switch toks[1] {
		case "j":
			opts = append(opts, gtree.WithEncodeJSON())
		case "y":
			opts = append(opts, gtree.WithEncodeYAML())
		case "t":
			opts = append(opts, gtree.WithEncodeTOML())
		}
		if toks[2] == "1" {
			opts = append(opts, gtree.WithDryRun())
		}
		opts = append(opts, gtree.WithBranchFormatLastNode(unhex(toks[4]), unhex(toks[5])))
		opts = append(opts, gtree.WithBranchFormatIntermedialNode(unhex(toks[6]), unhex(toks[7])))
		if toks[8] != "-" {
			opts = append(opts, gtree.WithFileExtensions(hexlist(toks[8])))
		}
		var w bytes.Buffer
		err := gtree.Output(&w, mkReader(unhex(toks[9])), opts...)
		chunks := "-"
		if w.Len() > 0 {
			chunks = "t" + hx(w.String())
		}
		return classify(err, -1) + " " + chunks
	case "wasmfail":
		// wasmfail BUDGET D INPUT : an Output whose writer fails after BUDGET bytes (the result does not matter; what
		// a failed call leaves behind in the process does)
		n := 0
		for _, c := range toks[1] {
			n = n*10 + int(c-'0')
		}
		var opts []gtree.Option
		if toks[2] == "1" {
			opts = append(opts, gtree.WithDryRun())
		}
		_ = gtree.Output(&shortWriter{left: n}, mkReader(unhex(toks[3])), opts...)
		return "b"
	}
	return "badcase"
}

type shortWriter struct{ left int }

func (s *shortWriter) Write(p []byte) (int, error) {
	if len(p) <= s.left {
		s.left -= len(p)
		return len(p), nil
	}
	n := s.left
	s.left = 0
	return n, errInjectedWriter
}
