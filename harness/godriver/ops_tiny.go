//go:build tinywasm

package main

import (
	"bytes"

	"github.com/ddddddO/gtree"
)

func classifyDefault(err error) string { return "" }

func handle(toks []string) string {
	switch toks[0] {
	case "wasm":
		// wasm E D N LD LI MD MI EXTS INPUT
		var opts []gtree.Option
		switch toks[1] {
		case "j":
			opts = append(opts, gtree.WithEncodeJSON())
		case "y":
			opts = append(opts, gtree.WithEncodeYAML())
		case "t":
			opts = append(opts, gtree.WithEncodeTOML())
		}
		if toks[2] == "1" {
			opts = append(opts, gtree.WithDryRun())
		}
		opts = append(opts, gtree.WithBranchFormatLastNode(unhex(toks[4]), unhex(toks[5])))
		opts = append(opts, gtree.WithBranchFormatIntermedialNode(unhex(toks[6]), unhex(toks[7])))
		if toks[8] != "-" {
			opts = append(opts, gtree.WithFileExtensions(hexlist(toks[8])))
		}
		var w bytes.Buffer
		err := gtree.Output(&w, mkReader(unhex(toks[9])), opts...)
		chunks := "-"
		if w.Len() > 0 {
			chunks = "t" + hx(w.String())
		}
		return classify(err, -1) + " " + chunks
	}
	return "badcase"
}
