//go:build !tinywasm

package main

import (
	"bytes"
	"strings"

	"github.com/ddddddO/gtree"
)

// handleStages runs single stages of the massive pipeline through the verif-tagged hooks.
func handleStages(toks []string) (string, bool) {
	switch toks[0] {
	case "msplit":
		blocks, err := gtree.VerifSplit(strings.NewReader(unhex(toks[1])))
		res := "ok"
		if err != nil {
			res = "err"
		}
		if len(blocks) == 0 {
			return res + " -", true
		}
		hs := make([]string, len(blocks))
		for i, b := range blocks {
			if b == "" {
				hs[i] = "_"
			} else {
				hs[i] = hx(b)
			}
		}
		return res + " " + strings.Join(hs, ","), true
	case "mgen":
		// mgen LD LI MD MI BLOCK
		root, err := gtree.VerifGenerateBlock(unhex(toks[5]))
		if err != nil {
			return "err -", true
		}
		if root == nil {
			return "ok none", true
		}
		var w bytes.Buffer
		if err := gtree.OutputFromRoot(&w, root,
			gtree.WithBranchFormatLastNode(unhex(toks[1]), unhex(toks[2])),
			gtree.WithBranchFormatIntermedialNode(unhex(toks[3]), unhex(toks[4]))); err != nil {
			return "outerr -", true
		}
		return "ok t" + hx(w.String()), true
	}
	return "", false
}
