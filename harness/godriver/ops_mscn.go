//go:build !tinywasm

package main

import (
	"bytes"
	"errors"
	"context"
	"fmt"
	"io"
	"math/rand"
	"os"
	"runtime/debug"
	"runtime"
	"sort"
	"strconv"
	"strings"
	"sync"
	"time"

	"github.com/ddddddO/gtree"
	"github.com/fatih/color"
)

// gtreeGoroutines counts goroutines (other than the caller) that have a frame inside package gtree.
var errCallerCause = errors.New("verif: the caller's private reason for cancelling")

func gtreeGoroutines() (int, string) {
	buf := make([]byte, 1<<20)
	n := runtime.Stack(buf, true)
	stacks := strings.Split(string(buf[:n]), "\n\n")
	cnt := 0
	var sample string
	for i, s := range stacks {
		if i == 0 {
			continue // the calling goroutine
		}
		if strings.Contains(s, "github.com/ddddddO/gtree.") || strings.Contains(s, "github.com/ddddddO/gtree/markdown.") {
			cnt++
			if sample == "" {
				sample = s
			}
		}
	}
	return cnt, sample
}

func settleLeaks(before int) (int, string) {
	var n int
	var s string
	for i := 0; i < 400; i++ { // up to 2 s; returns as soon as nothing is left
		n, s = gtreeGoroutines()
		if n <= before {
			return n, ""
		}
		time.Sleep(5 * time.Millisecond)
	}
	return n, s
}

type cancelReader struct {
	r      io.Reader
	pos    int
	at     int
	cancel context.CancelFunc
	slow   bool
	closed bool // written by Close, read by Read, deliberately without a lock (like most readers)

	mu         sync.Mutex
	returned   bool // the call under test has returned
	lateCloses int  // Close calls after that
	closes     int
}

// Close makes the reader an io.ReadCloser: the library is handed a reader it does not own and must neither close it
// nor touch it from a goroutine that outlives the call.
func (c *cancelReader) Close() error {
	c.closed = true
	c.mu.Lock()
	c.closes++
	if c.returned {
		c.lateCloses++
	}
	c.mu.Unlock()
	return nil
}

func (c *cancelReader) Read(p []byte) (int, error) {
	if c.closed {
		return 0, io.ErrClosedPipe
	}
	if c.at >= 0 && c.pos >= c.at {
		c.cancel()
		c.at = -1
	}
	if c.slow && len(p) > 3 {
		p = p[:3]
		runtime.Gosched()
	}
	if c.at >= 0 && c.pos+len(p) > c.at {
		p = p[:c.at-c.pos]
		if len(p) == 0 {
			c.cancel()
			c.at = -1
			return 0, nil
		}
	}
	n, err := c.r.Read(p)
	c.pos += n
	return n, err
}

type lockedWriter struct {
	mu       sync.Mutex
	w        io.Writer
	returned bool // set (under mu) once the call under test has returned
	late     int  // Write calls that arrived after that
	sleep    time.Duration
}

func (l *lockedWriter) Write(p []byte) (int, error) {
	l.mu.Lock()
	defer l.mu.Unlock()
	if l.sleep > 0 {
		time.Sleep(l.sleep) // a slow sink: widens the window in which two roots are written at the same moment
	}
	if l.returned {
		l.late++
	}
	return l.w.Write(p)
}

func buildRoot(items string) *gtree.Node {
	var stack []*gtree.Node
	var root *gtree.Node
	for _, it := range strings.Split(items, ",") {
		kv := strings.SplitN(it, ":", 2)
		d, _ := strconv.Atoi(kv[0])
		if d == 1 {
			root = gtree.NewRoot(unhex(kv[1]))
			stack = []*gtree.Node{root}
		} else {
			n := stack[d-2].Add(unhex(kv[1]))
			stack = append(stack[:d-1], n)
		}
	}
	return root
}

// mscn ENTRY PROCS CANCEL RFAIL BUDGET CBFAIL DELAYSEED SLOW PRE EXTS TARGET STRICT INPUT
func runMscn(t []string) string {
	entry, procsS, cancelS, rfailS, budgetS, cbfailS, seedS, slowS, pre, extsS, target, strictS, input := t[0], t[1], t[2], t[3], t[4], t[5], t[6], t[7], t[8], t[9], t[10], t[11], t[12]
	procs, _ := strconv.Atoi(procsS)
	old := runtime.GOMAXPROCS(procs)
	defer runtime.GOMAXPROCS(old)

	// the caller's context carries a private CAUSE: a cancelled call must still return ctx.Err()
	// (context.Canceled), not whatever context.Cause gives
	parent, cancelCause := context.WithCancelCause(context.Background())
	cancel := func() { cancelCause(errCallerCause) }
	defer cancel()

	// hook: trace + seeded delays + cancellation at a point
	// DELAYSEED: a number seeds random delays / yields at every hook point; "d<point>:<us>" delays
	// every visit of one point by <us> microseconds (a directed schedule)
	delayPoint, delayUs := "", 0
	if strings.HasPrefix(seedS, "d") {
		kv := strings.SplitN(seedS[1:], ":", 2)
		delayPoint = kv[0]
		if len(kv) > 1 {
			delayUs, _ = strconv.Atoi(kv[1])
		}
		seedS = "0"
	}
	seed, _ := strconv.ParseInt(seedS, 10, 64)
	var hmu sync.Mutex
	reached := map[string]int{}
	rng := rand.New(rand.NewSource(seed))
	cancelPoint, cancelN := "", 0
	if strings.HasPrefix(cancelS, "p") && cancelS != "pre" {
		kv := strings.SplitN(cancelS[1:], ":", 2)
		cancelPoint = kv[0]
		cancelN, _ = strconv.Atoi(kv[1])
	}
	gtree.VerifSetHook(func(name string) {
		hmu.Lock()
		reached[name]++
		hit := reached[name]
		var d time.Duration
		yield := false
		if seed != 0 {
			switch rng.Intn(6) {
			case 0:
				d = time.Duration(rng.Intn(300)) * time.Microsecond
			case 1, 2:
				yield = true
			}
		}
		hmu.Unlock()
		if name == cancelPoint && hit == cancelN {
			cancel()
		}
		if name == delayPoint {
			d = time.Duration(delayUs) * time.Microsecond
		}
		if d > 0 {
			time.Sleep(d)
		} else if yield {
			runtime.Gosched()
		}
	})
	defer gtree.VerifSetHook(nil)

	if cancelS == "pre" {
		cancel()
	}
	if strings.HasPrefix(cancelS, "t") {
		us, _ := strconv.Atoi(cancelS[1:])
		go func() {
			time.Sleep(time.Duration(us) * time.Microsecond)
			cancel()
		}()
	}

	data := []byte(unhex(input))
	var base io.Reader = bytes.NewReader(data)
	if rfailS != "-" {
		k, _ := strconv.Atoi(rfailS)
		if k > len(data) {
			k = len(data)
		}
		base = &failingReader{data: data[:k], step: 5}
	}
	cr := &cancelReader{r: base, at: -1, cancel: cancel, slow: slowS == "1"}
	if strings.HasPrefix(cancelS, "r") {
		cr.at, _ = strconv.Atoi(cancelS[1:])
	}

	var out bytes.Buffer
	var w io.Writer = &out
	var bw *budgetWriter
	if budgetS != "-" {
		b, _ := strconv.Atoi(budgetS)
		bw = &budgetWriter{budget: b, flavour: "0"}
		w = bw
	}
	w = &lockedWriter{w: w}
	if slowS == "2" {
		w.(*lockedWriter).sleep = 20 * time.Microsecond
	}

	cbfail, _ := strconv.Atoi(strings.Replace(cbfailS, "-", "-1", 1))
	var cmu sync.Mutex
	var visits []visitRec
	cbi := 0
	cbReturned, cbLate := false, 0
	var kept []*gtree.WalkerNode // the callback may keep the nodes it is given and read them later
	cb := func(wn *gtree.WalkerNode) error {
		cmu.Lock()
		if cbReturned {
			cbLate++
		}
		kept = append(kept, wn)
		visits = append(visits, recVisit(wn))
		i := cbi
		cbi++
		cmu.Unlock()
		if slowS == "1" {
			runtime.Gosched()
		}
		if i == cbfail {
			return errInjectedCallback
		}
		return nil
	}

	opts := []gtree.Option{gtree.WithMassive(parent)}
	if extsS != "-" {
		opts = append(opts, extOption(extsS))
	}
	if target != "-" {
		opts = append(opts, gtree.WithTargetDir(unhex(target)))
	}
	if strictS == "1" {
		opts = append(opts, gtree.WithStrictVerify())
	}
	needJail := strings.Contains(entry, "mkdir") || strings.Contains(entry, "verify")
	if needJail {
		histMore([]string{"F", pre}, nil, false)
		defer jailLeave()
	}
	enc := "d"
	dry := false
	before, _ := gtreeGoroutines()
	start := time.Now()
	var err error
	done := make(chan struct{})
	go func() {
		defer close(done)
		defer func() {
			if r := recover(); r != nil {
				err = fmt.Errorf("panic: %v", r)
				if os.Getenv("VERIF_DEBUG") != "" {
					fmt.Fprintf(os.Stderr, "panic in call: %v\n%s\n", r, debug.Stack())
				}
			}
		}()
		switch entry {
		case "out-d":
			err = gtree.OutputFromMarkdown(w, cr, opts...)
		case "out-j":
			enc = "j"
			err = gtree.OutputFromMarkdown(w, cr, append(opts, gtree.WithEncodeJSON())...)
		case "out-y":
			enc = "y"
			err = gtree.OutputFromMarkdown(w, cr, append(opts, gtree.WithEncodeYAML())...)
		case "out-dry":
			dry = true
			err = gtree.OutputFromMarkdown(w, cr, append(opts, gtree.WithDryRun())...)
		case "walk":
			err = gtree.WalkFromMarkdown(cr, cb, opts...)
		case "mkdir":
			err = gtree.MkdirFromMarkdown(cr, opts...)
		case "mkdir-dry":
			dry = true
			saved := color.Output
			color.Output = w
			err = gtree.MkdirFromMarkdown(cr, append(opts, gtree.WithDryRun())...)
			color.Output = saved
		case "verify":
			err = gtree.VerifyFromMarkdown(cr, opts...)
		case "rout-d":
			err = gtree.OutputFromRoot(w, buildRoot(string(data)), opts...)
		case "rout-j":
			enc = "j"
			err = gtree.OutputFromRoot(w, buildRoot(string(data)), append(opts, gtree.WithEncodeJSON())...)
		case "rwalk":
			err = gtree.WalkFromRoot(buildRoot(string(data)), cb, opts...)
		case "rmkdir":
			err = gtree.MkdirFromRoot(buildRoot(string(data)), opts...)
		case "rverify":
			err = gtree.VerifyFromRoot(buildRoot(string(data)), opts...)
		default:
			err = fmt.Errorf("bad entry")
		}
	}()
	timedOut := false
	select {
	case <-done:
	case <-time.After(callDeadline()):
		timedOut = true
	}
	elapsed := time.Since(start)
	// the call has returned (or is given up): from now on nothing may touch the writer or the callback,
	// and no goroutine of the call may be left
	lwr := w.(*lockedWriter)
	lwr.mu.Lock()
	lwr.returned = true
	lwr.mu.Unlock()
	cmu.Lock()
	cbReturned = true
	cmu.Unlock()
	cr.mu.Lock()
	cr.returned = true
	cr.mu.Unlock()
	// a goroutine that has just closed its channels may not have left its deferred function yet: such a
	// goroutine has nothing left to do and is gone after a few scheduler rounds (at most ~2 ms are allowed);
	// anything that still WORKS is caught exactly by the late-use counters above
	atReturn := 0
	for i := 0; i < 20; i++ {
		atReturn, _ = gtreeGoroutines()
		atReturn -= before
		if atReturn <= 0 {
			atReturn = 0
			break
		}
		runtime.Gosched()
		time.Sleep(100 * time.Microsecond)
	}
	res := "timeout"
	if !timedOut {
		res = classify(err, cbfail)
		if err != nil && strings.HasPrefix(err.Error(), "panic:") {
			res = "panic"
		}
	}
	leaked, sample := settleLeaks(before)
	leaked -= before
	if leaked < 0 {
		leaked = 0
	}
	_ = sample
	hmu.Lock()
	var pts []string
	for k, v := range reached {
		pts = append(pts, fmt.Sprintf("%s=%d", k, v))
	}
	hmu.Unlock()
	sort.Strings(pts)
	var chunks string
	switch {
	case strings.Contains(entry, "walk"):
		cmu.Lock()
		chunks = visitsStr(visits)
		cmu.Unlock()
	case needJail && !dry:
		chunks = snapshot()
	default:
		// goroutines that have not noticed the cancellation yet may still be writing
		lw := w.(*lockedWriter)
		lw.mu.Lock()
		data := append([]byte(nil), out.Bytes()...)
		if bw != nil {
			data = append([]byte(nil), bw.acc.Bytes()...)
		}
		lw.mu.Unlock()
		chunks = chunksOf(enc, dry, data)
	}
	cancelled := "0"
	if parent.Err() != nil {
		cancelled = "1"
	}
	lwr.mu.Lock()
	late := lwr.late
	lwr.mu.Unlock()
	cmu.Lock()
	late += cbLate
	for i, wn := range kept {
		if i < len(visits) && recVisit(wn) != visits[i] {
			late++ // a node handed to the callback says something else after the walk
		}
	}
	cmu.Unlock()
	cr.mu.Lock()
	late += cr.lateCloses
	cr.mu.Unlock()
	return fmt.Sprintf("%s %d %d %s %s %s %d %d", res, elapsed.Milliseconds(), leaked, cancelled, strings.Join(pts, ","), chunks, atReturn, late)
}

// callDeadline: how long a massive call may take before it is reported as not returning. The
// calls of the scenarios take milliseconds; VERIF_MSCN_DEADLINE_MS overrides the default of 6 s.
func callDeadline() time.Duration {
	if v := os.Getenv("VERIF_MSCN_DEADLINE_MS"); v != "" {
		if n, err := strconv.Atoi(v); err == nil && n > 0 {
			return time.Duration(n) * time.Millisecond
		}
	}
	return 6 * time.Second
}
