//go:build !tinywasm

package main

import (
	"bytes"
	"context"
	"errors"
	"io"
	"os"
	"strconv"
	"strings"

	"github.com/ddddddO/gtree"
)

// failingReader delivers data[:k] and then fails (never io.EOF).
type failingReader struct {
	data []byte
	pos  int
	step int
	err  error // nil: errInjectedReader
	// a reader that fails ONCE at offset failAt and would deliver the rest if asked again (a transient failure):
	// the call must still report it
	failAt  int
	transit bool
	fired   bool
}

// an injected failure that also wraps context.Canceled (an abandoned stream): still a failure of the reader / writer
var (
	errReaderCanceled = errors.Join(errInjectedReader, context.Canceled)
	errWriterCanceled = errors.Join(errInjectedWriter, context.Canceled)
)

func (r *failingReader) Read(p []byte) (int, error) {
	if r.transit {
		if !r.fired && r.pos >= r.failAt {
			r.fired = true
			return 0, errInjectedReader
		}
		if r.pos >= len(r.data) {
			return 0, io.EOF
		}
		n := len(p)
		if !r.fired && n > r.failAt-r.pos {
			n = r.failAt - r.pos
		}
		if n > len(r.data)-r.pos {
			n = len(r.data) - r.pos
		}
		copy(p, r.data[r.pos:r.pos+n])
		r.pos += n
		return n, nil
	}
	if r.pos >= len(r.data) {
		if r.err != nil {
			return 0, r.err
		}
		return 0, errInjectedReader
	}
	n := len(p)
	if r.step > 0 && n > r.step {
		n = r.step
	}
	if n > len(r.data)-r.pos {
		n = len(r.data) - r.pos
	}
	copy(p, r.data[r.pos:r.pos+n])
	r.pos += n
	return n, nil
}

// budgetWriter accepts bytes until the budget is used up; the write that crosses the
// budget is answered with the partial count and an error, later writes with (0, err).
type budgetWriter struct {
	budget  int
	flavour string
	acc     bytes.Buffer
	failed  bool
	calls   int
}

func (w *budgetWriter) Write(p []byte) (int, error) {
	if w.flavour == "2" {
		// transient failure: exactly the k-th Write call (k = budget) is rejected
		w.calls++
		if w.calls-1 == w.budget {
			w.failed = true
			return 0, errInjectedWriter
		}
		w.acc.Write(p)
		return len(p), nil
	}
	if len(p) <= w.budget {
		w.budget -= len(p)
		w.acc.Write(p)
		return len(p), nil
	}
	if w.flavour == "4" {
		// the write that crosses the budget takes all its bytes and reports an error all the same
		// (io.Writer allows n == len(p) with a non-nil error, e.g. a failed sync after the copy)
		w.acc.Write(p)
		w.budget = 0
		w.failed = true
		return len(p), errInjectedWriter
	}
	n := w.budget
	w.acc.Write(p[:n])
	w.budget = 0
	w.failed = true
	if w.flavour == "1" {
		return n, io.ErrShortWrite
	}
	if w.flavour == "5" {
		return n, errWriterCanceled
	}
	return n, errInjectedWriter
}

// fileWriter returns a real *os.File on which every write fails: 0 = /dev/full (ENOSPC), 1 = a file opened
// read-only (EBADF), 2 = the write end of a pipe whose read end is closed (EPIPE).
func fileWriter(kind int) (*os.File, func()) {
	switch kind {
	case 1:
		f, err := os.CreateTemp("", "gtro")
		if err != nil {
			panic(err)
		}
		name := f.Name()
		f.Close()
		ro, err := os.Open(name)
		if err != nil {
			panic(err)
		}
		return ro, func() { ro.Close(); os.Remove(name) }
	case 2:
		r, w, err := os.Pipe()
		if err != nil {
			panic(err)
		}
		r.Close()
		return w, func() { w.Close() }
	}
	f, err := os.OpenFile("/dev/full", os.O_WRONLY, 0)
	if err != nil {
		panic(err)
	}
	return f, func() { f.Close() }
}

func classifyFault(err error, fl string) string {
	if err != nil && fl == "3" {
		return "err:writer"
	}
	if err != nil && fl == "1" && strings.Contains(err.Error(), io.ErrShortWrite.Error()) {
		return "err:writer"
	}
	return classify(err, -1)
}

func handleFaults(toks []string) (string, bool) {
	switch toks[0] {
	case "fout", "mfout":
		// fout K B FL E D N LD LI MD MI EXTS INPUT
		opts := outOptions(toks[4:12])
		if toks[0] == "mfout" {
			opts = append(opts, gtree.WithMassive(context.Background()))
		}
		data := []byte(unhex(toks[12]))
		var r io.Reader = bytes.NewReader(data)
		if toks[1] != "-" {
			var rerr error
			ks := toks[1]
			transit := false
			if ks == "w" {
				// the document in a regular file, opened WRITE-ONLY: an *os.File whose every Read fails (EBADF)
				f, err := os.CreateTemp("", "gtwo")
				if err != nil {
					panic(err)
				}
				f.Write(data)
				f.Close()
				wo, err := os.OpenFile(f.Name(), os.O_WRONLY, 0)
				if err != nil {
					panic(err)
				}
				defer func() { wo.Close(); os.Remove(f.Name()) }()
				var w bytes.Buffer
				err = gtree.OutputFromMarkdown(&w, wo, opts...)
				if err != nil {
					return "err:reader " + hx(w.String()), true
				}
				return "ok " + hx(w.String()), true
			}
			if strings.HasSuffix(ks, "c") {
				rerr = errReaderCanceled
				ks = ks[:len(ks)-1]
			} else if strings.HasSuffix(ks, "n") {
				transit = true
				ks = ks[:len(ks)-1]
			}
			k, _ := strconv.Atoi(ks)
			if k > len(data) {
				k = len(data)
			}
			if transit {
				r = &failingReader{data: data, failAt: k, transit: true}
			} else {
				r = &failingReader{data: data[:k], step: 7, err: rerr}
			}
		}
		var err error
		var acc string
		if toks[2] != "-" && toks[3] == "3" {
			// a real *os.File that cannot be written to (the writer's dynamic type matters to callers that buffer)
			k, _ := strconv.Atoi(toks[2])
			fw, done := fileWriter(k)
			err = gtree.OutputFromMarkdown(fw, r, opts...)
			done()
		} else if toks[2] != "-" {
			b, _ := strconv.Atoi(toks[2])
			w := &budgetWriter{budget: b, flavour: toks[3]}
			err = gtree.OutputFromMarkdown(w, r, opts...)
			acc = w.acc.String()
			if toks[3] == "2" {
				fl := "0"
				if w.failed {
					fl = "1"
				}
				return classifyFault(err, toks[3]) + " " + hx(acc) + " " + fl, true
			}
		} else {
			var w bytes.Buffer
			err = gtree.OutputFromMarkdown(&w, r, opts...)
			acc = w.String()
		}
		return classifyFault(err, toks[3]) + " " + hx(acc), true
	case "frout", "mfrout":
		// frout B FL E D LD LI MD MI ITEMS   (single root given as pre-order items d:hex,...)
		opts := outOptions([]string{toks[3], toks[4], "0", toks[5], toks[6], toks[7], toks[8], "-"})
		if toks[0] == "mfrout" {
			opts = append(opts, gtree.WithMassive(context.Background()))
		}
		var stack []*gtree.Node
		var root *gtree.Node
		for _, it := range strings.Split(toks[9], ",") {
			kv := strings.SplitN(it, ":", 2)
			d, _ := strconv.Atoi(kv[0])
			if d == 1 {
				root = gtree.NewRoot(unhex(kv[1]))
				stack = []*gtree.Node{root}
			} else {
				n := stack[d-2].Add(unhex(kv[1]))
				stack = append(stack[:d-1], n)
			}
		}
		b, _ := strconv.Atoi(toks[1])
		if toks[2] == "3" {
			fw, done := fileWriter(b)
			err := gtree.OutputFromRoot(fw, root, opts...)
			done()
			return classifyFault(err, "3") + " -", true
		}
		w := &budgetWriter{budget: b, flavour: toks[2]}
		err := gtree.OutputFromRoot(w, root, opts...)
		if toks[2] == "2" {
			fl := "0"
			if w.failed {
				fl = "1"
			}
			return classifyFault(err, toks[2]) + " " + hx(w.acc.String()) + " " + fl, true
		}
		return classifyFault(err, toks[2]) + " " + hx(w.acc.String()), true
	}
	return "", false
}
