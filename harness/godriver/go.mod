module gtverif/godriver

go 1.24

require (
	github.com/ddddddO/gtree v0.0.0
	github.com/fatih/color v1.18.0
	github.com/pelletier/go-toml/v2 v2.2.4
	gopkg.in/yaml.v3 v3.0.1
)

require (
	github.com/mattn/go-colorable v0.1.13 // indirect
	github.com/mattn/go-isatty v0.0.20 // indirect
	golang.org/x/sync v0.13.0 // indirect
	golang.org/x/sys v0.25.0 // indirect
)

replace github.com/ddddddO/gtree => /repo
