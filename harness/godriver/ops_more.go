//go:build !tinywasm

package main

import (
	"strings"
	"sync"

	"github.com/ddddddO/gtree"
)

func verifyLists(msg string) string {
	// "Extra paths exist:\n\t<p>\n...Required paths does not exist:\n\t<p>..."
	var extra, missing []string
	cur := &extra
	for _, l := range strings.Split(msg, "\n") {
		switch {
		case strings.HasPrefix(l, "Extra paths exist:"):
			cur = &extra
		case strings.HasPrefix(l, "Required paths does not exist:"):
			cur = &missing
		case strings.HasPrefix(l, "\t"):
			*cur = append(*cur, hx(strings.TrimPrefix(l, "\t")))
		}
	}
	return strings.Join(extra, ",") + "/" + strings.Join(missing, ",")
}

func handleMore(toks []string) (string, bool) {
	switch toks[0] {
	case "hist":
		return runHist(toks[1], false), true
	case "mhist":
		return runHist(toks[1], true), true
	case "chist":
		// histories separated by '#', each run in its own goroutine behind a start barrier
		hs := strings.Split(toks[1], "#")
		res := make([]string, len(hs))
		var wg, ready sync.WaitGroup
		start := make(chan struct{})
		for i := range hs {
			wg.Add(1)
			ready.Add(1)
			go func(i int) {
				defer wg.Done()
				defer func() {
					if r := recover(); r != nil {
						res[i] = "panic -"
					}
				}()
				ready.Done()
				<-start
				res[i] = runHist(hs[i], false)
			}(i)
		}
		ready.Wait()
		close(start)
		wg.Wait()
		return strings.Join(res, "#"), true
	}
	return "", false
}

func histMore(f []string, node func(string) *gtree.Node, massive bool) (string, bool) {
	return "", false
}
