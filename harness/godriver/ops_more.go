//go:build !tinywasm

package main

import "strings"

func verifyLists(msg string) string {
	// "Extra paths exist:\n\t<p>\n...Required paths does not exist:\n\t<p>..."
	var extra, missing []string
	cur := &extra
	for _, l := range strings.Split(msg, "\n") {
		switch {
		case strings.HasPrefix(l, "Extra paths exist:"):
			cur = &extra
		case strings.HasPrefix(l, "Required paths does not exist:"):
			cur = &missing
		case strings.HasPrefix(l, "\t"):
			*cur = append(*cur, hx(strings.TrimPrefix(l, "\t")))
		}
	}
	return strings.Join(extra, ",") + "/" + strings.Join(missing, ",")
}

func handleMore(toks []string) (string, bool) {
	return "", false
}
