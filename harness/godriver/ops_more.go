//go:build !tinywasm

package main

import (
	"fmt"
	"strconv"
	"syscall"
	"bytes"
	"context"
	"io/fs"
	"os"
	"path/filepath"
	"sort"
	"strings"
	"sync"

	"github.com/ddddddO/gtree"
	"github.com/fatih/color"
)

// absPrefix: when a case gives its target as "@JAIL/..." the target is the ABSOLUTE path of the jail plus the rest
// (written as given: not cleaned), and reported paths are shown relative to the jail again.
var absPrefix string

func jailTarget(t string) string {
	absPrefix = ""
	if strings.HasPrefix(t, "@JAIL") {
		absPrefix = jail.dir + "/"
		return jail.dir + strings.TrimPrefix(t, "@JAIL")
	}
	return t
}

func verifyLists(msg string) string {
	// "Extra paths exist:\n\t<p>\n...Required paths does not exist:\n\t<p>..."
	var extra, missing []string
	cur := &extra
	for _, l := range strings.Split(msg, "\n") {
		switch {
		case strings.HasPrefix(l, "Extra paths exist:"):
			cur = &extra
		case strings.HasPrefix(l, "Required paths does not exist:"):
			cur = &missing
		case strings.HasPrefix(l, "\t"):
			p := strings.TrimPrefix(l, "\t")
			if absPrefix != "" {
				p = strings.TrimPrefix(p, absPrefix)
			}
			*cur = append(*cur, hx(p))
		}
	}
	sort.Strings(extra)
	sort.Strings(missing)
	return strings.Join(extra, ",") + "/" + strings.Join(missing, ",")
}

func handleMore(toks []string) (string, bool) {
	if r, ok := handleFaults(toks); ok {
		return r, true
	}
	if r, ok := handleStages(toks); ok {
		return r, true
	}
	switch toks[0] {
	case "mscn":
		return runMscn(toks[1:]), true
	case "hist":
		return runHist(toks[1], false), true
	case "mhist":
		return runHist(toks[1], true), true
	case "chist", "mchist":
		// histories separated by '#', each run in its own goroutine behind a start barrier
		hs := strings.Split(toks[1], "#")
		res := make([]string, len(hs))
		var wg, ready sync.WaitGroup
		start := make(chan struct{})
		for i := range hs {
			wg.Add(1)
			ready.Add(1)
			go func(i int) {
				defer wg.Done()
				defer func() {
					if r := recover(); r != nil {
						res[i] = "panic -"
					}
				}()
				ready.Done()
				<-start
				res[i] = runHist(hs[i], toks[0] == "mchist")
			}(i)
		}
		ready.Wait()
		close(start)
		wg.Wait()
		return strings.Join(res, "#"), true
	}
	return "", false
}

// ---- file-system operations inside a jail ----

type jailT struct {
	base, dir, prevwd string
	modes             bool // snapshots carry permission bits (switched on by a pre-state entry "u:<umask>")
	oldUmask          int
	umaskSet          bool
}

var jail *jailT

func jailEnter() {
	if jail != nil {
		return
	}
	base, err := os.MkdirTemp("", "gtjail")
	if err != nil {
		panic(err)
	}
	dir := filepath.Join(base, "o1", "o2", "jail")
	if err := os.MkdirAll(dir, 0o755); err != nil {
		panic(err)
	}
	wd, _ := os.Getwd()
	if err := os.Chdir(dir); err != nil {
		panic(err)
	}
	jail = &jailT{base: base, dir: dir, prevwd: wd}
}

func jailLeave() {
	if jail == nil {
		return
	}
	if jail.umaskSet {
		syscall.Umask(jail.oldUmask)
	}
	os.Chdir(jail.prevwd)
	// directories made unwritable by a case must not keep the jail alive
	filepath.WalkDir(jail.base, func(p string, d fs.DirEntry, err error) error {
		if err == nil && d.IsDir() {
			os.Chmod(p, 0o755)
		}
		return nil
	})
	os.RemoveAll(jail.base)
	jail = nil
}

func snapshot() string {
	var ents []string
	filepath.WalkDir(jail.base, func(p string, d fs.DirEntry, err error) error {
		if err != nil {
			return nil
		}
		rel, _ := filepath.Rel(jail.dir, p)
		if rel == "." || rel == ".." || rel == "../.." || rel == "../../.." {
			return nil
		}
		mode := ""
		if jail.modes {
			if info, e := d.Info(); e == nil {
				mode = fmt.Sprintf("%03o", info.Mode().Perm())
			}
		}
		switch {
		case d.IsDir():
			ents = append(ents, "d"+mode+":"+hx(rel))
		default:
			info, e := d.Info()
			if e == nil && info.Size() == 0 && info.Mode().IsRegular() {
				ents = append(ents, "e"+mode+":"+hx(rel))
			} else {
				ents = append(ents, "f"+mode+":"+hx(rel))
			}
		}
		return nil
	})
	sort.Strings(ents)
	if len(ents) == 0 {
		return "-"
	}
	return strings.Join(ents, "+")
}

func encOpt(f []string, n int) []gtree.Option {
	// optional trailing field: an encoding option passed to an entry point other than Output*
	if len(f) > n {
		switch f[n] {
		case "j":
			return []gtree.Option{gtree.WithEncodeJSON()}
		case "y":
			return []gtree.Option{gtree.WithEncodeYAML()}
		case "t":
			return []gtree.Option{gtree.WithEncodeTOML()}
		}
	}
	return nil
}

func histMore(f []string, node func(string) *gtree.Node, massive bool) (string, bool) {
	var mopt []gtree.Option
	if massive {
		mopt = append(mopt, gtree.WithMassive(context.Background()))
	}
	switch f[0] {
	case "F":
		jailEnter()
		if f[1] != "-" {
			for _, e := range strings.Split(f[1], "+") {
				kv := strings.SplitN(e, ":", 2)
				p := unhex(kv[1])
				if abs := filepath.Join(jail.dir, p); filepath.IsAbs(p) || !strings.HasPrefix(abs, jail.base+string(filepath.Separator)) {
					// the pre-state is built by the harness itself: never outside its private scratch directory
					continue
				}
				if kv[0] == "u" {
					// u:<hex of an octal umask> : the process umask for this jail; snapshots then carry permission bits
					n, _ := strconv.ParseInt(unhex(kv[1]), 8, 32)
					old := syscall.Umask(int(n))
					if !jail.umaskSet {
						jail.oldUmask, jail.umaskSet = old, true
					}
					jail.modes = true
					continue
				}
				if strings.HasPrefix(kv[0], "dm") {
					// dm<octal>:<hex path> : a directory with these permission bits
					if abs := filepath.Join(jail.dir, p); strings.HasPrefix(abs, jail.base+string(filepath.Separator)) {
						m, _ := strconv.ParseInt(kv[0][2:], 8, 32)
						os.MkdirAll(p, 0o755)
						os.Chmod(p, os.FileMode(m))
					}
					continue
				}
				if strings.HasPrefix(kv[0], "l") {
					// l<hex target>:<hex path> : a symbolic link (never given to the model; massive-vs-simple only)
					os.MkdirAll(filepath.Dir(p), 0o755)
					os.Symlink(unhex(kv[0][1:]), p)
					continue
				}
				switch kv[0] {
				case "d":
					os.MkdirAll(p, 0o755)
				case "f":
					os.MkdirAll(filepath.Dir(p), 0o755)
					os.WriteFile(p, []byte("x"), 0o644)
				case "e":
					os.MkdirAll(filepath.Dir(p), 0o755)
					os.WriteFile(p, nil, 0o644)
				}
			}
		}
		return "ok - " + snapshot(), true
	case "M", "Md", "m", "md":
		jailEnter()
		var opts []gtree.Option
		var err error
		var buf bytes.Buffer
		saved := color.Output
		color.Output = &buf
		if f[0] == "M" || f[0] == "Md" {
			// M,h,D,EXTS,DIR,LD,LI,MD,MI
			if f[2] == "1" {
				opts = append(opts, gtree.WithDryRun())
			}
			if f[3] != "-" {
				opts = append(opts, extOption(f[3]))
			}
			if f[4] != "-" {
				opts = append(opts, gtree.WithTargetDir(unhex(f[4])))
			}
			opts = append(opts, bfOptions(f[5], f[6], f[7], f[8])...)
			opts = append(opts, mopt...)
			opts = append(opts, encOpt(f, 9)...)
			if f[0] == "M" {
				err = gtree.MkdirFromRoot(node(f[1]), opts...)
			} else {
				err = gtree.MkdirProgrammably(node(f[1]), opts...)
			}
		} else {
			// m,D,EXTS,DIR,LD,LI,MD,MI,DOC
			if f[1] == "1" {
				opts = append(opts, gtree.WithDryRun())
			}
			if f[2] != "-" {
				opts = append(opts, extOption(f[2]))
			}
			if f[3] != "-" {
				opts = append(opts, gtree.WithTargetDir(unhex(f[3])))
			}
			opts = append(opts, bfOptions(f[4], f[5], f[6], f[7])...)
			opts = append(opts, mopt...)
			opts = append(opts, encOpt(f, 9)...)
			if f[0] == "m" {
				err = gtree.MkdirFromMarkdown(mkReader(unhex(f[8])), opts...)
			} else {
				err = gtree.Mkdir(mkReader(unhex(f[8])), opts...)
			}
		}
		color.Output = saved
		return classify(err, -1) + " " + chunksOf("d", true, buf.Bytes()) + " " + snapshot(), true
	case "V", "Vd", "v", "vd":
		jailEnter()
		var opts []gtree.Option
		var err error
		if f[0] == "V" || f[0] == "Vd" {
			// V,h,STRICT,DIR
			if f[2] == "1" {
				opts = append(opts, gtree.WithStrictVerify())
			}
			if f[3] != "-" {
				opts = append(opts, gtree.WithTargetDir(jailTarget(unhex(f[3]))))
			}
			opts = append(opts, mopt...)
			opts = append(opts, encOpt(f, 4)...)
			if f[0] == "V" {
				err = gtree.VerifyFromRoot(node(f[1]), opts...)
			} else {
				err = gtree.VerifyProgrammably(node(f[1]), opts...)
			}
		} else {
			// v,STRICT,DIR,DOC
			if f[1] == "1" {
				opts = append(opts, gtree.WithStrictVerify())
			}
			if f[2] != "-" {
				opts = append(opts, gtree.WithTargetDir(jailTarget(unhex(f[2]))))
			}
			opts = append(opts, mopt...)
			opts = append(opts, encOpt(f, 4)...)
			if f[0] == "v" {
				err = gtree.VerifyFromMarkdown(mkReader(unhex(f[3])), opts...)
			} else {
				err = gtree.Verify(mkReader(unhex(f[3])), opts...)
			}
		}
		return classify(err, -1) + " - " + snapshot(), true
	}
	return "", false
}
