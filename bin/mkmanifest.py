#!/usr/bin/env python3
# regenerates MANIFEST.json from the table below
import json, os
V = os.path.dirname(os.path.dirname(os.path.abspath(__file__)))
TECH = "machine-checked proof (Coq 8.16) over a hand-written Gallina model + differential correspondence run against /repo"
CLAIMED = {
 "C01": ("Coq theorems C01_text_rule (full statement: every forest x every spelling of the notation family x all four branch strings x both routes, down to the bytes), C01_grow_is_render, C01_build_is_trie, C01_text_rule_items (closed under the global context) + correspondence of the extracted model AND of the extracted reference renderer with the real OutputFromMarkdown on enumerated and sampled spelled forests", TECH),
 "C02": ("Coq theorems C02_error_iff (error iff the declarative classifier finds a malformed line, all byte strings within the scanner limit, text/JSON/YAML/TOML, both routes), C02_row, C02_accepted, C02_no_loss (every accepted line is a node of the output at its depth, under its parent; none dropped, merged only with an equal-named sibling), C02_parser_is_classifier (stateful three-symbol parser + stack machine = classifier) + correspondence: every malformation class injected at every line position, mutation stream, simple and massive; no-loss checked through decoded JSON paths", TECH),
 "C03": ("Coq theorems C03_output/_walk/_mkdir/_verify (From-Root = From-Markdown for every Add-built tree), C03_add_never_duplicates (all histories), C03_add_idempotent, C03_guard_* + correspondence: random Add orders with duplicate Adds, both API families and deprecated aliases, compared pairwise on the implementation and against the model", TECH),
 "C04": ("Coq theorems C04_structure (positional getChild copy = tree, all shapes), C04_stream, C04_json_roundtrip / C04_json_string_roundtrip (a Gallina JSON parser inverts the Gallina encoder on every forest with UTF-8 names; no axioms), C04_yaml_toml_partial (YAML/TOML: structure passed to the opaque encoder) + correspondence: JSON bytes compared exactly with the Gallina json_encode; JSON/YAML/TOML output decoded by standard decoders and compared with the forest over a hostile name alphabet (the YAML/TOML encoders themselves are opaque)", TECH),
 "C05": ("Coq theorems C05_visits (walk of the grown forest = top-down specification incl. Path, all forests with single-element names, all branch strings), C05_rows_are_lines, C05_visit_facts (all names), C05_first_error_stops (callback as an arbitrary oracle), C05_iter_break, C05_walk_spelled (from the bytes of any spelling) + correspondence: every stop position on enumerated forests, six entry points, compared with the extracted specification", TECH),
 "C06": ("Coq theorems C06_success (exact statement: on success the new entries are exactly the node paths, directories vs files by extension, nothing else added, nothing removed or retyped), C06_exists, C06_error_reported, C06_dirs_kept_partial over the finite-map file-system model + correspondence in a jail: pre-states with pre-existing roots, file components, over-long names; snapshot compared with the node paths computed from the forest", TECH),
 "C07": ("Coq theorem C07_rejects (every mkdir entry point, any position of a name that is empty, '.', '..' or contains '/': error and untouched file system); C07_confined / C07_never_outside (ALL inputs and outcomes incl. partial failure: nothing existing changes, every new entry is below the target or a missing prefix of it), C07_untouched, C07_outcomes, C07_parents_kept + correspondence: hostile names at every position, whole-scratch snapshot incl. sentinels outside the target", TECH),
 "C08": ("Coq theorems C08_iff_root, C08_sound, C08_readonly over the file-system model + correspondence: arbitrary subsets/extras, file roots, missing roots, states made by mkdir, strict and non-strict, both families", TECH),
 "C09": ("Coq theorems C09_no_effect, C09_report, C09_same_verdict + correspondence: dry run followed by the real run in the same jail; counts compared with what the real run created", TECH),
 "C10": ("Coq theorems over the pipeline LTS, all scenarios and ALL schedules: C10_blocks, C10_blocks_final (sink output = complete contiguous per-root blocks, each root at most once), C10_mutex, C10_items_unique; sequential layer (model of split and the generate workers sharing one parser, tied by the msplit/mgen stage correspondence through verif hooks): C10_split_concat, C10_schedule_independent, C10_front_end (on every heading-free uniform spelling of a forest, under EVERY interleaving of the workers' parse calls the roots are the forest's tries = what simple mode builds); C10_nil_return_complete / _nothing_in_flight / _no_failure (on a nil return the written text is exactly one complete block per root, nothing in flight, no item failed), C10_error_return_exact, C10_faultless_returns_nil (error iff error); C10_massive_text (both layers composed: on a nil return the text written is the rendering of a permutation of the forest's tries); instances generated from /repo's source by the go/ast inventory scanner and re-checked on every run. Partial: that grow/spread compute each root's rendering in massive mode as in simple mode, and the Go runtime, are covered by the correspondence: massive vs simple results on uniform heading-free documents under perturbed schedules (GOMAXPROCS, hook delays, slow readers/writers/callbacks); K1-K3 are known findings", TECH + "; LTS instance generated by a go/ast translator"),
 "C11": ("Coq theorems over the pipeline LTS for all scenarios and ALL schedules: C11_finite / C11_no_infinite_run (strictly decreasing measure), C11_no_leak, C11_returned_not_stuck, C11_cancelled_progress under safe_params; C11_returns / C11_main_not_stuck (under live_params every maximal run ends with the call returned; C11_live_needed shows the hypothesis is necessary), C11_cancelled_return_is_error; C11_nothing_remains_at_return / C11_drain_terminates (the moment the repaired call returns is a quiescent state, and it is reached in every run); C11_instances_safe, C11_md_entry_points, C11_root_entry_points: the 24 massive entry points of the CURRENT source (generated inventory) satisfy safe_params and live_params, hence every maximal run of each is finite, returns and leaves no goroutine. Partial: scheduler / channels / races are runtime facts, checked by deadline + goroutine dump + -race build under perturbed schedules", TECH + "; LTS instance generated by a go/ast translator"),
 "C12": ("Coq theorems C12_no_panic_* (Panic unreachable for every byte string, option set and failing reader; output, walk, wasm, mkdir and verify), C12_blank, C12_scan_failure + correspondence: mutation/raw/long-line stream through every entry point incl. massive variants in isolated processes", TECH),
 "C13": ("Coq theorems C13_function_of_tree, C13_repeat, C13_other_trees, C13_markdown_independent over all histories + correspondence: exhaustive short and random long histories, re-run on freshly built copies and concurrently in goroutines", TECH),
 "C14": ("Coq theorems C14_writer, C14_writer_root, C14_short_budget, C14_reader (reader/writer oracles universally quantified), C14_transient(_root) (a writer rejecting only its k-th call), C14_massive_nil_means_no_fault / C14_massive_error_is_a_fault (massive mode, every schedule of the LTS), C14_reader_error_partial + correspondence: reader failure at every sampled offset, writer budgets at every sampled byte, all modes, both families, simple and massive", TECH),
 "C15": ("Coq theorem C15_spelling (any two spellings of one forest in the notation family, down to the bytes), C15_massive_roots (with the massive option: same roots for any two heading-free spellings under any interleavings) and C15_spelling_items (any two documents read as the same items give identical results for all operations) + metamorphic correspondence on pairs of spellings", TECH),
 "C16": ("Coq theorems C16_exit (status 0 iff usage valid, input opened, library nil), C16_stdout, C16_effect, C16_codes over a model of the action functions, C16_template (template | output = documented sample, by computation). The proofs are thin case analyses; the weight is the correspondence: the binary built from /repo/cmd/gtree vs the library and vs the model on flag combinations, stray/empty/unknown arguments, missing files and stdout states pipe / closed / /dev/full", TECH),
 "C17": ("Coq theorems C17_equiv (every byte string, every claimed option set, both routes), C17_routes_agree + correspondence: one driver compiled with and without -tags tinywasm on well-formed and malformed inputs", TECH),
}
NA_REASON = "machinery under construction in this session; will be claimed once its check is built"
checks = []
for pid, (text, tech) in sorted(CLAIMED.items()):
    checks.append({
        "property_id": pid,
        "quick_cmd": "bin/check %s --tier quick" % pid,
        "thorough_cmd": "bin/check %s --tier thorough" % pid,
        "evidence_file": "evidence/%s.json" % pid,
        "replay_cmd_template": "bin/check replay {path}",
        "engine": "coq-model",
        "level_claimed": {"category": "proof", "text": text, "design_ref": "DESIGN.md section 6, " + pid},
        "level_note": "Trusted: Coq 8.16.1 kernel; the hand-written model's faithfulness (evidenced by the correspondence run on every check); extraction (ExtrOcamlBasic only) + OCaml; Go driver and python harness. Go's strings/bufio/path/fmt are modelled, not verified. See DESIGN.md section 10.",
        "technique": tech,
    })
m = {
 "version": 1,
 "setup_cmd": "bin/setup",
 "hooks": {"guard": "verif", "enable": "go build -tags verif (the checks pass -tags verif to the Go driver build where hooks are used)",
           "baseline_off_cmd": "cd /repo && GOFLAGS=-mod=mod go test -vet=off -count=1 ./...",
           "source_commits": [], "add_only": True},
 "engines": [{"name": "coq-model", "path": "coq/", "serves_properties": sorted(CLAIMED), "kind_free_text": "Coq 8.16 development: executable Gallina model of gtree, specification layer, theorems; extracted to OCaml for the correspondence harness (harness/)"}],
 "checks": checks,
 "not_applicable": [{"property_id": "C%02d" % i, "reason": NA_REASON} for i in range(1, 18) if "C%02d" % i not in CLAIMED],
 "notes": "bin/check <id> rebuilds the Go driver from /repo's working tree on every run; known_findings.json is read-only at run time.",
}
hooks_file = os.path.join(V, "MANIFEST.hooks.json")
if os.path.exists(hooks_file):
    m["hooks"].update(json.load(open(hooks_file)))
json.dump(m, open(os.path.join(V, "MANIFEST.json"), "w"), indent=1)
