#!/usr/bin/env python3
# regenerates MANIFEST.json from the table below
import json, os
V = os.path.dirname(os.path.dirname(os.path.abspath(__file__)))
TECH = "machine-checked proof (Coq 8.16) over a hand-written Gallina model + differential correspondence run against /repo"
CLAIMED = {
 "C01": ("Coq theorems C01_text_rule (full statement: every forest x every spelling of the notation family x all four branch strings x both routes, down to the bytes), C01_grow_is_render, C01_build_is_trie, C01_text_rule_items (closed under the global context) + correspondence of the extracted model AND of the extracted reference renderer with the real OutputFromMarkdown on enumerated and sampled spelled forests", TECH),
 "C02": ("Coq theorems C02_error_iff (error iff the declarative classifier finds a malformed line, all byte strings within the scanner limit, text/JSON/YAML/TOML, both routes), C02_row, C02_accepted, C02_parser_is_classifier (stateful three-symbol parser + stack machine = classifier) + correspondence: every malformation class injected at every line position, mutation stream, simple and massive; no-loss checked through decoded JSON paths", TECH),
 "C03": ("Coq theorems C03_output/_walk/_mkdir/_verify (From-Root = From-Markdown for every Add-built tree), C03_add_never_duplicates (all histories), C03_add_idempotent, C03_guard_* + correspondence: random Add orders with duplicate Adds, both API families and deprecated aliases, compared pairwise on the implementation and against the model", TECH),
 "C04": ("Coq theorems C04_structure (positional getChild copy = tree, all shapes), C04_stream + correspondence: JSON bytes compared exactly with the Gallina json_encode; JSON/YAML/TOML output decoded by standard decoders and compared with the forest over a hostile name alphabet (the YAML/TOML encoders themselves are opaque)", TECH),
 "C05": ("Coq theorems C05_visits (walk of the grown forest = top-down specification incl. Path, all forests with single-element names, all branch strings), C05_rows_are_lines, C05_visit_facts (all names), C05_first_error_stops (callback as an arbitrary oracle), C05_iter_break + correspondence: every stop position on enumerated forests, six entry points, compared with the extracted specification", TECH),
 "C06": ("Coq theorems C06_exists, C06_error_reported, C06_dirs_kept_partial over the finite-map file-system model (the exact-new-entry-set theorem is in progress: see DESIGN.md) + correspondence in a jail: pre-states with pre-existing roots, file components, over-long names; snapshot compared with the node paths computed from the forest", TECH),
 "C07": ("Coq theorem C07_rejects (every mkdir entry point, any position of a name that is empty, '.', '..' or contains '/': error and untouched file system) + correspondence: hostile names at every position, whole-scratch snapshot incl. sentinels outside the target", TECH),
 "C08": ("Coq theorems C08_iff_root, C08_sound, C08_readonly over the file-system model + correspondence: arbitrary subsets/extras, file roots, missing roots, states made by mkdir, strict and non-strict, both families", TECH),
 "C09": ("Coq theorems C09_no_effect, C09_report, C09_same_verdict + correspondence: dry run followed by the real run in the same jail; counts compared with what the real run created", TECH),
 "C12": ("Coq theorems C12_no_panic_* (Panic unreachable for every byte string, option set and failing reader), C12_blank, C12_scan_failure + correspondence: mutation/raw/long-line stream through every entry point incl. massive variants in isolated processes", TECH),
 "C13": ("Coq theorems C13_function_of_tree, C13_repeat, C13_other_trees, C13_markdown_independent over all histories + correspondence: exhaustive short and random long histories, re-run on freshly built copies and concurrently in goroutines", TECH),
 "C14": ("Coq theorems C14_writer, C14_writer_root, C14_short_budget, C14_reader (reader/writer oracles universally quantified), C14_reader_error_partial + correspondence: reader failure at every sampled offset, writer budgets at every sampled byte, all modes, both families, simple and massive", TECH),
 "C15": ("Coq theorem C15_spelling_items (any two documents read as the same items give identical results for all operations) + metamorphic correspondence on pairs of spellings", TECH),
 "C17": ("Coq theorems C17_equiv (every byte string, every claimed option set, both routes), C17_routes_agree + correspondence: one driver compiled with and without -tags tinywasm on well-formed and malformed inputs", TECH),
}
NA_REASON = "machinery under construction in this session; will be claimed once its check is built"
checks = []
for pid, (text, tech) in sorted(CLAIMED.items()):
    checks.append({
        "property_id": pid,
        "quick_cmd": "bin/check %s --tier quick" % pid,
        "thorough_cmd": "bin/check %s --tier thorough" % pid,
        "evidence_file": "evidence/%s.json" % pid,
        "replay_cmd_template": "bin/check replay {path}",
        "engine": "coq-model",
        "level_claimed": {"category": "proof", "text": text, "design_ref": "DESIGN.md section 6, " + pid},
        "level_note": "Trusted: Coq 8.16.1 kernel; the hand-written model's faithfulness (evidenced by the correspondence run on every check); extraction (ExtrOcamlBasic only) + OCaml; Go driver and python harness. Go's strings/bufio/path/fmt are modelled, not verified. See DESIGN.md section 10.",
        "technique": tech,
    })
m = {
 "version": 1,
 "setup_cmd": "bin/setup",
 "hooks": {"guard": "verif", "enable": "go build -tags verif (the checks pass -tags verif to the Go driver build where hooks are used)",
           "baseline_off_cmd": "cd /repo && GOFLAGS=-mod=mod go test -vet=off -count=1 ./...",
           "source_commits": [], "add_only": True},
 "engines": [{"name": "coq-model", "path": "coq/", "serves_properties": sorted(CLAIMED), "kind_free_text": "Coq 8.16 development: executable Gallina model of gtree, specification layer, theorems; extracted to OCaml for the correspondence harness (harness/)"}],
 "checks": checks,
 "not_applicable": [{"property_id": "C%02d" % i, "reason": NA_REASON} for i in range(1, 18) if "C%02d" % i not in CLAIMED],
 "notes": "bin/check <id> rebuilds the Go driver from /repo's working tree on every run; known_findings.json is read-only at run time.",
}
hooks_file = os.path.join(V, "MANIFEST.hooks.json")
if os.path.exists(hooks_file):
    m["hooks"].update(json.load(open(hooks_file)))
json.dump(m, open(os.path.join(V, "MANIFEST.json"), "w"), indent=1)
