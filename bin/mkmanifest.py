#!/usr/bin/env python3
# regenerates MANIFEST.json from the table below
import json, os
V = os.path.dirname(os.path.dirname(os.path.abspath(__file__)))
CLAIMED = {
 "C01": ("Coq theorems C01_grow_is_render, C01_build_is_trie, C01_text_rule_items (all forests, all names, all four branch strings, both routes; closed under the global context) + correspondence of the extracted model AND of the extracted reference renderer with the real OutputFromMarkdown on enumerated and sampled spelled forests",
         "machine-checked proof (Coq 8.16) over a hand-written Gallina model + differential correspondence run against /repo"),
}
NA_REASON = "machinery under construction in this session; will be claimed once its check is built"
checks = []
for pid, (text, tech) in sorted(CLAIMED.items()):
    checks.append({
        "property_id": pid,
        "quick_cmd": "bin/check %s --tier quick" % pid,
        "thorough_cmd": "bin/check %s --tier thorough" % pid,
        "evidence_file": "evidence/%s.json" % pid,
        "replay_cmd_template": "bin/check replay {path}",
        "engine": "coq-model",
        "level_claimed": {"category": "proof", "text": text, "design_ref": "DESIGN.md section 6, " + pid},
        "level_note": "Trusted: Coq 8.16.1 kernel; the hand-written model's faithfulness (evidenced by the correspondence run on every check); extraction (ExtrOcamlBasic only) + OCaml; Go driver and python harness. Go's strings/bufio/path/fmt are modelled, not verified. See DESIGN.md section 10.",
        "technique": tech,
    })
m = {
 "version": 1,
 "setup_cmd": "bin/setup",
 "hooks": {"guard": "verif", "enable": "go build -tags verif (the checks pass -tags verif to the Go driver build where hooks are used)",
           "baseline_off_cmd": "cd /repo && GOFLAGS=-mod=mod go test -vet=off -count=1 ./...",
           "source_commits": [], "add_only": True},
 "engines": [{"name": "coq-model", "path": "coq/", "serves_properties": sorted(CLAIMED), "kind_free_text": "Coq 8.16 development: executable Gallina model of gtree, specification layer, theorems; extracted to OCaml for the correspondence harness (harness/)"}],
 "checks": checks,
 "not_applicable": [{"property_id": "C%02d" % i, "reason": NA_REASON} for i in range(1, 18) if "C%02d" % i not in CLAIMED],
 "notes": "bin/check <id> rebuilds the Go driver from /repo's working tree on every run; known_findings.json is read-only at run time.",
}
hooks_file = os.path.join(V, "MANIFEST.hooks.json")
if os.path.exists(hooks_file):
    m["hooks"].update(json.load(open(hooks_file)))
json.dump(m, open(os.path.join(V, "MANIFEST.json"), "w"), indent=1)
