(* Spec/Spec.v — the specification layer: what the user means.  Independent of the
   model's mechanisms (no stack, no cursor, no bottom-up prefix assembly). *)
From Coq Require Import List Ascii Arith Bool.
From GT Require Import Base.GoStr Tree.Tree Tree.Grower Out.Walker.
Import ListNotations.

(* ---- "equally named siblings under one parent are a single node" ---- *)

(* insert a name path below a node; children kept in order of first insertion *)
Fixpoint ins (p : list str) (t : tree) {struct p} : tree :=
  match p with
  | [] => t
  | n :: p' =>
      T (tname t)
        ((fix ik (ks : list tree) : list tree :=
            match ks with
            | [] => [ins p' (T n [])]
            | k :: r => if str_eqb n (tname k) then ins p' k :: r else k :: ik r
            end) (tkids t))
  end.

(* the name paths of all proper descendants, in pre-order *)
Fixpoint paths (t : tree) : list (list str) :=
  match t with
  | T _ ks => flat_map (fun k => [tname k] :: map (cons (tname k)) (paths k)) ks
  end.

Definition trie_of (t : tree) : tree :=
  fold_left (fun acc p => ins p acc) (paths t) (T (tname t) []).

(* ---- the tree-drawing rule, top-down ---- *)

Fixpoint render_sub (bf : bfmt) (prefix : str) (islast : bool) (t : tree) {struct t} : str :=
  match t with
  | T n ks =>
      prefix ++ (if islast then last_d bf else mid_d bf) ++ [c_sp] ++ n ++ [c_lf] ++
      (fix go (l : list tree) : str :=
         match l with
         | [] => []
         | k :: r =>
             render_sub bf (prefix ++ (if islast then last_i bf else mid_i bf)) (is_nil r) k ++ go r
         end) ks
  end.

Definition render_root (bf : bfmt) (t : tree) : str :=
  match t with
  | T n ks =>
      n ++ [c_lf] ++
      (fix go (l : list tree) : str :=
         match l with
         | [] => []
         | k :: r => render_sub bf [] (is_nil r) k ++ go r
         end) ks
  end.

Definition render (bf : bfmt) (f : list tree) : str := concat (map (render_root bf) f).

(* ---- a forest from its pre-order (depth, name) listing (harness exchange format) ---- *)
(* attach at depth d below the last node at depth d-1 WITHOUT merging names *)
Fixpoint add_at_depth (d : nat) (nm : str) (t : tree) {struct d} : tree :=
  match d with
  | 0 => t
  | 1 => T (tname t) (tkids t ++ [T nm []])
  | S d' =>
      T (tname t)
        ((fix lastk (ks : list tree) : list tree :=
            match ks with
            | [] => []
            | [k] => [add_at_depth d' nm k]
            | k :: r => k :: lastk r
            end) (tkids t))
  end.

Fixpoint forest_of_items (items : list (nat * str)) (acc : list tree) : list tree :=
  match items with
  | [] => frev acc
  | (d, nm) :: r =>
      if d <=? 1 then forest_of_items r (T nm [] :: acc)
      else match acc with
           | [] => forest_of_items r acc
           | t :: acc' => forest_of_items r (add_at_depth (d - 1) nm t :: acc')
           end
  end.

(* ---- what a walk must show at each node (C05), top-down ---- *)
Fixpoint sv_sub (bf : bfmt) (prefix ppath : str) (d : nat) (islast : bool) (t : tree) {struct t} : list visit :=
  match t with
  | T n ks =>
      let br := prefix ++ (if islast then last_d bf else mid_d bf) in
      let p := ppath ++ [c_slash] ++ n in
      {| v_name := n; v_branch := br; v_row := br ++ [c_sp] ++ n; v_level := d; v_path := p;
         v_haschild := negb (is_nil ks) |} ::
      (fix go (l : list tree) : list visit :=
         match l with
         | [] => []
         | k :: r => sv_sub bf (prefix ++ (if islast then last_i bf else mid_i bf)) p (S d) (is_nil r) k ++ go r
         end) ks
  end.

Definition sv_root (bf : bfmt) (t : tree) : list visit :=
  match t with
  | T n ks =>
      {| v_name := n; v_branch := []; v_row := n; v_level := 1; v_path := n; v_haschild := negb (is_nil ks) |} ::
      (fix go (l : list tree) : list visit :=
         match l with
         | [] => []
         | k :: r => sv_sub bf [] n 2 (is_nil r) k ++ go r
         end) ks
  end.

Definition spec_visits (bf : bfmt) (f : list tree) : list visit := flat_map (sv_root bf) f.
