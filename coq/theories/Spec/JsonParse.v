(* Spec/JsonParse.v — SPECIFICATION: a small RFC 8259 decoder for the subset of JSON
   that gtree's JSON output lives in.  It is written independently of the encoder
   model (Out/Formatted.v): the only things shared are the record type [fnode]
   (the decoded record {value, children}) and the byte-string vocabulary of GoStr.

   What is decoded
   - string literals (RFC 8259 section 7): the escapes backslash + one of  dquote \ / b f n r t  and
     \uXXXX (hex digits in either case); raw bytes below 0x20 are rejected; every
     other byte is copied, so the decoded value is a UTF-8 byte string.
     RESTRICTIONS: \uXXXX is decoded for the Basic Multilingual Plane only; a
     surrogate code unit (D800..DFFF) is rejected instead of being paired.  Bytes
     >= 0x80 are copied without checking that they form valid UTF-8.
   - values: exactly the object  {value:S,children:C}  (keys quoted) with the members in that
     order, the two keys being decoded as JSON strings and compared with value and
     children; C is  null  or an array  [v,v,...]  (possibly empty) of such objects.
     null and [] both decode to "no children".
     RESTRICTION: no insignificant whitespace is accepted anywhere.
   - a stream: values, each followed by exactly one LF.

   Recursion uses explicit fuel: one unit per decoded character for strings, one unit
   per nesting step for values; the fuel-free entry points pass the input length. *)
From Coq Require Import List Ascii Arith Bool.
From GT Require Import Base.GoStr Out.Formatted.
Import ListNotations.

(* ---- string literals ---- *)

(* value of a hexadecimal digit, either case *)
Definition hexval (c : ascii) : option nat :=
  let n := b c in
  if (48 <=? n) && (n <=? 57) then Some (n - 48)          (* 0-9 *)
  else if (97 <=? n) && (n <=? 102) then Some (n - 87)    (* a-f *)
  else if (65 <=? n) && (n <=? 70) then Some (n - 55)     (* A-F *)
  else None.

Definition hex4 (h1 h2 h3 h4 : ascii) : option nat :=
  match hexval h1, hexval h2, hexval h3, hexval h4 with
  | Some x1, Some x2, Some x3, Some x4 => Some (((x1 * 16 + x2) * 16 + x3) * 16 + x4)
  | _, _, _, _ => None
  end.

(* UTF-8 encoding of a code point below 0x10000 *)
Definition utf8_enc (cp : nat) : str :=
  if cp <? 128 then [ch cp]
  else if cp <? 2048 then [ch (192 + cp / 64); ch (128 + cp mod 64)]
  else [ch (224 + cp / 4096); ch (128 + (cp / 64) mod 64); ch (128 + cp mod 64)].

(* D800..DFFF = 27 * 2048 .. 28 * 2048 - 1 *)
Definition is_surrogate (cp : nat) : bool := cp / 2048 =? 27.

(* the character after a backslash, other than u *)
Definition unescape1 (e : ascii) : option ascii :=
  let m := b e in
  if m =? 34 then Some (ch 34)          (* dquote *)
  else if m =? 92 then Some (ch 92)     (* \\ *)
  else if m =? 47 then Some (ch 47)     (* \/ *)
  else if m =? 98 then Some (ch 8)      (* \b *)
  else if m =? 102 then Some (ch 12)    (* \f *)
  else if m =? 110 then Some (ch 10)    (* \n *)
  else if m =? 114 then Some (ch 13)    (* \r *)
  else if m =? 116 then Some (ch 9)     (* \t *)
  else None.

(* one lexical element inside a string literal: the closing quote, or some decoded bytes *)
Inductive stok := TEnd | TBytes (x : str).

Definition str_step (l : str) : option (stok * str) :=
  match l with
  | [] => None                                     (* unterminated *)
  | c :: r =>
      let n := b c in
      if n =? 34 then Some (TEnd, r)               (* closing dquote *)
      else if n =? 92 then                         (* \ *)
        match r with
        | [] => None
        | e :: r1 =>
            if b e =? 117 then                     (* \uXXXX *)
              match r1 with
              | h1 :: h2 :: h3 :: h4 :: r2 =>
                  match hex4 h1 h2 h3 h4 with
                  | Some cp => if is_surrogate cp then None
                               else Some (TBytes (utf8_enc cp), r2)
                  | None => None
                  end
              | _ => None
              end
            else match unescape1 e with
                 | Some x => Some (TBytes [x], r1)
                 | None => None
                 end
        end
      else if n <? 32 then None                    (* raw control character *)
      else Some (TBytes [c], r)
  end.

(* the characters of a string literal after the opening quote, up to and including the
   closing quote; fuel = an upper bound on the number of lexical elements *)
Fixpoint parse_chars (fuel : nat) (l : str) : option (str * str) :=
  match fuel with
  | 0 => None
  | S f =>
      match str_step l with
      | None => None
      | Some (TEnd, r) => Some ([], r)
      | Some (TBytes x, r) =>
          match parse_chars f r with
          | Some (s, rest) => Some (x ++ s, rest)
          | None => None
          end
      end
  end.

(* a string literal starting at its opening quote: (decoded bytes, rest of input).
   Every lexical element consumes at least one byte, so the length of the input after
   the opening quote is enough fuel. *)
Definition parse_string (l : str) : option (str * str) :=
  match l with
  | c :: r => if b c =? 34 then parse_chars (List.length r) r else None
  | [] => None
  end.

(* ---- values ---- *)

(* strip the literal prefix p *)
Fixpoint expect (p l : str) : option str :=
  match p with
  | [] => Some l
  | c :: p' =>
      match l with
      | d :: l' => if Ascii.eqb c d then expect p' l' else None
      | [] => None
      end
  end.

Definition key_value : str := ["v"; "a"; "l"; "u"; "e"]%char.
Definition key_children : str := ["c"; "h"; "i"; "l"; "d"; "r"; "e"; "n"]%char.
Definition lit_null : str := ["n"; "u"; "l"; "l"]%char.

(* key:  — the quoted key is decoded as a string literal and compared *)
Definition parse_key (key l : str) : option str :=
  match parse_string l with
  | Some (k, l1) => if str_eqb k key then expect [":"%char] l1 else None
  | None => None
  end.

(* parse_value: one object {value:S,children:C}.
   parse_elems: the elements of a non-empty array after its [ up to and including ]. *)
Fixpoint parse_value (fuel : nat) (l : str) {struct fuel} : option (fnode * str) :=
  match fuel with
  | 0 => None
  | S f =>
      match expect ["{"%char] l with None => None | Some l1 =>
      match parse_key key_value l1 with None => None | Some l2 =>
      match parse_string l2 with None => None | Some (name, l3) =>
      match expect [","%char] l3 with None => None | Some l4 =>
      match parse_key key_children l4 with None => None | Some l5 =>
      match
        match expect lit_null l5 with
        | Some l6 => Some ([], l6)                           (* null *)
        | None =>
            match expect ["["%char] l5 with
            | None => None
            | Some l6 =>
                match expect ["]"%char] l6 with
                | Some l7 => Some ([], l7)                   (* [] *)
                | None => parse_elems f l6                   (* [v,...] *)
                end
            end
        end
      with
      | None => None
      | Some (ks, l8) =>
          match expect ["}"%char] l8 with
          | Some l9 => Some (F name ks, l9)
          | None => None
          end
      end end end end end end
  end
with parse_elems (fuel : nat) (l : str) {struct fuel} : option (list fnode * str) :=
  match fuel with
  | 0 => None
  | S f =>
      match parse_value f l with
      | None => None
      | Some (v, l1) =>
          match expect [","%char] l1 with
          | Some l2 =>
              match parse_elems f l2 with
              | Some (vs, l3) => Some (v :: vs, l3)
              | None => None
              end
          | None =>
              match expect ["]"%char] l1 with
              | Some l2 => Some ([v], l2)
              | None => None
              end
          end
      end
  end.

(* a value with a fuel-free bound: along every chain of recursive calls two units of
   fuel are matched by at least one consumed byte (an object or an element opens) *)
Definition parse_value_top (l : str) : option (fnode * str) := parse_value (List.length l) l.

(* ---- a stream of values, each followed by LF ---- *)
Fixpoint parse_lines_go (fuel : nat) (l : str) : option (list fnode) :=
  match l with
  | [] => Some []
  | _ :: _ =>
      match fuel with
      | 0 => None
      | S f =>
          match parse_value_top l with
          | None => None
          | Some (v, l1) =>
              match expect [c_lf] l1 with
              | None => None
              | Some l2 =>
                  match parse_lines_go f l2 with
                  | Some vs => Some (v :: vs)
                  | None => None
                  end
              end
          end
      end
  end.

Definition parse_lines (l : str) : option (list fnode) := parse_lines_go (List.length l) l.

(* ---- every name in a record tree is valid UTF-8 ---- *)
Inductive names_utf8 : fnode -> Prop :=
| NamesUtf8 n ks : utf8_valid n = true -> Forall names_utf8 ks -> names_utf8 (F n ks).
