(* Spec/Classify.v — declarative line classifier for C02: what a well-formed line is,
   stated without the parser's symbol loop and without its mutable `sep`. *)
From Coq Require Import List Ascii Arith Bool.
From GT Require Import Base.GoStr.
Import ListNotations.

Inductive reason := RNoBullet | REmptyText | RMixed | RNotMultiple | RJump | RNoRoot.

Inductive lclass :=
| LBlank
| LItem (depth : nat) (name : str)
| LBad (r : reason).

(* document context accumulated from the lines before *)
Record dctx := {
  d_unit : nat;               (* indentation (in characters) of the first indented item line; 0 = none yet *)
  d_char : option ascii;      (* indentation character used since the last column-0 item *)
  d_heading : bool;           (* a heading line has been seen: list items are one level down *)
  d_prev : nat                (* depth of the previous item; 0 = no root yet *)
}.
Definition dctx0 := {| d_unit := 0; d_char := None; d_heading := false; d_prev := 0 |}.

Definition is_indent (c : ascii) : bool := Ascii.eqb c c_sp || Ascii.eqb c c_tab.
Definition is_bullet (c : ascii) : bool := Ascii.eqb c c_hy || Ascii.eqb c c_as || Ascii.eqb c c_pl.

Fixpoint span_indent (l : str) : str * str :=
  match l with
  | c :: r => if is_indent c then let '(a, b) := span_indent r in (c :: a, b) else ([], l)
  | [] => ([], [])
  end.

Definition all_eq (c : ascii) (l : str) : bool := forallb (Ascii.eqb c) l.

(* the structural part: nesting at most one deeper than the item before; an item needs a root *)
Definition structural (cx : dctx) (depth : nat) (name : str) : lclass :=
  if depth =? 1 then LItem 1 name
  else if d_prev cx =? 0 then LBad RNoRoot
  else if d_prev cx + 1 <? depth then LBad RJump
  else LItem depth name.

Definition classify (cx : dctx) (row : str) : lclass * dctx :=
  if all_space row then (LBlank, cx)
  else
    match row with
    | [] => (LBlank, cx)
    | c0 :: rest0 =>
        if Ascii.eqb c0 c_sharp then
          let cx' := {| d_unit := d_unit cx; d_char := d_char cx; d_heading := true; d_prev := d_prev cx |} in
          match trim c_sp (trim_left c_sharp rest0) with
          | [] => (LBad REmptyText, cx')
          | text => (LItem 1 text, {| d_unit := d_unit cx; d_char := d_char cx; d_heading := true; d_prev := 1 |})
          end
        else
          let '(indent, rest) := span_indent row in
          match rest with
          | [] => (LBad RNoBullet, cx)
          | bl :: after =>
              if negb (is_bullet bl) then (LBad RNoBullet, cx)
              else
                let hd := if d_heading cx then 1 else 0 in
                match indent with
                | [] =>
                    (* column 0: a new block; the indentation character is forgotten *)
                    match trim_prefix1 c_sp after with
                    | [] => (LBad REmptyText, cx)
                    | text =>
                        match structural cx (1 + hd) text with
                        | LItem d nm => (LItem d nm, {| d_unit := d_unit cx; d_char := None; d_heading := d_heading cx; d_prev := d |})
                        | bad => (bad, cx)
                        end
                    end
                | ic :: _ =>
                    let blockc := match d_char cx with Some x => x | None => ic end in
                    if negb (all_eq blockc indent) then (LBad RMixed, cx)
                    else
                      let n := List.length indent in
                      let unit := if d_unit cx =? 0 then n else d_unit cx in
                      if (1 <? unit) && negb (n mod unit =? 0) then (LBad RNotMultiple, cx)
                      else
                        match trim_prefix1 c_sp after with
                        | [] => (LBad REmptyText, cx)
                        | text =>
                            match structural cx (n / unit + 1 + hd) text with
                            | LItem d nm => (LItem d nm, {| d_unit := unit; d_char := Some blockc; d_heading := d_heading cx; d_prev := d |})
                            | bad => (bad, cx)
                            end
                        end
                end
          end
    end.

(* verdict for a whole document: the items in order, or the index (from 0) of the first
   malformed line with its reason *)
Inductive verdict :=
| VOk (items : list (nat * str))
| VBad (line : nat) (r : reason).

Fixpoint classify_doc (cx : dctx) (i : nat) (rows : list str) (acc : list (nat * str)) : verdict :=
  match rows with
  | [] => VOk (frev acc)
  | row :: rs =>
      match classify cx row with
      | (LBlank, cx') => classify_doc cx' (S i) rs acc
      | (LItem d nm, cx') => classify_doc cx' (S i) rs ((d, nm) :: acc)
      | (LBad r, _) => VBad i r
      end
  end.

Definition classify_rows (rows : list str) : verdict := classify_doc dctx0 0 rows [].
