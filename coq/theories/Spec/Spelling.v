(* Spec/Spelling.v — the notation family of C01 / C15: what a well-formed spelling of a
   forest is, as a relation between the pre-order item listing and the rows (lines
   without terminators) and between rows and bytes.  Specification only. *)
From Coq Require Import List Ascii Arith Bool NArith.
From GT Require Import Base.GoStr Spec.Classify.
Import ListNotations.

(* indentation unit: a tab, or k+1 spaces *)
Inductive unit_t := UTab | USp (k : nat).
Definition uchar (u : unit_t) : ascii := match u with UTab => c_tab | USp _ => c_sp end.
Definition ulen (u : unit_t) : nat := match u with UTab => 1 | USp k => S k end.
Definition indent (u : unit_t) (levels : nat) : str := repeat (uchar u) (levels * ulen u).

(* one item row.  Without heading roots an item of depth d is indented d-1 units; with
   heading roots the roots are "#"-lines and an item of depth d >= 2 is indented d-2 units *)
Inductive row_of (u : unit_t) (heading : bool) : nat * str -> str -> Prop :=
| row_item d n b :
    is_bullet b = true -> 1 <= d -> (heading = true -> 2 <= d) ->
    row_of u heading (d, n) (indent u (d - (if heading then 2 else 1)) ++ b :: c_sp :: n)
| row_heading n k a z :
    heading = true ->
    row_of u heading (1, n) (repeat c_sharp (S k) ++ repeat c_sp a ++ n ++ repeat c_sp z).

(* blank rows (anything strings.TrimSpace reduces to "") may appear anywhere *)
Inductive rows_of (u : unit_t) (heading : bool) : list (nat * str) -> list str -> Prop :=
| rows_nil : rows_of u heading [] []
| rows_blank its bl rows :
    all_space bl = true -> rows_of u heading its rows -> rows_of u heading its (bl :: rows)
| rows_item it its r rows :
    row_of u heading it r -> rows_of u heading its rows -> rows_of u heading (it :: its) (r :: rows).

(* side conditions under which a spelling denotes the items at all *)
Definition first_not (c : ascii) (n : str) : Prop := match n with x :: _ => x <> c | [] => True end.
Definition last_not (c : ascii) (n : str) : Prop := match rev n with x :: _ => x <> c | [] => True end.

Definition item_ok (heading : bool) (it : nat * str) : Prop :=
  snd it <> [] /\
  (heading = true -> fst it = 1 ->
     first_not c_sharp (snd it) /\ first_not c_sp (snd it) /\ last_not c_sp (snd it)).

(* pre-order listing of a forest: starts with a root, never nests more than one deeper *)
Fixpoint nested_from (prev : nat) (its : list (nat * str)) : Prop :=
  match its with
  | [] => True
  | (d, _) :: r => 1 <= d /\ d <= S prev /\ nested_from d r
  end.
Definition nested (its : list (nat * str)) : Prop := nested_from 0 its.

(* ---- rows to bytes: LF or CRLF per line, optional final newline ---- *)
Definition row_bytes_ok (r : str) : Prop :=
  ~ In c_lf r /\ last_not c_cr r /\ (N.of_nat (List.length r) + 1 < 65536)%N.

Fixpoint unscan (rows : list (str * bool)) (final_newline : bool) : str :=
  match rows with
  | [] => []
  | [(r, crlf)] => r ++ (if final_newline then (if crlf then [c_cr; c_lf] else [c_lf]) else [])
  | (r, crlf) :: rest => r ++ (if crlf then [c_cr; c_lf] else [c_lf]) ++ unscan rest final_newline
  end.
