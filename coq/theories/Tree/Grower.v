(* Tree/Grower.v — model of defaultGrowerSimple.assemble* (simple_tree_grower.go),
   Node.setPath / validatePath / path (node.go).  MODEL ONLY.
   Bottom-up, as in Go: a node's branch is built by prepending, for each ancestor
   from its parent up to (excluding) the root, that ancestor's continuation
   string; isLastOfHierarchy is positional identity with the parent's last child
   (node.go after the repair of D5). *)
From Coq Require Import List Ascii Arith Bool.
From GT Require Import Base.GoStr Tree.Tree.
Import ListNotations.

Record bfmt := { last_d : str; last_i : str; mid_d : str; mid_i : str }.

(* └── / "    " / ├── / "│   " in UTF-8 *)
Definition default_bfmt : bfmt :=
  {| last_d := [ch 226; ch 148; ch 148; ch 226; ch 148; ch 128; ch 226; ch 148; ch 128];
     last_i := [c_sp; c_sp; c_sp; c_sp];
     mid_d := [ch 226; ch 148; ch 156; ch 226; ch 148; ch 128; ch 226; ch 148; ch 128];
     mid_i := [ch 226; ch 148; ch 130; c_sp; c_sp; c_sp] |}.

(* a grown node: name, brnch.value, path() *)
Inductive gtree := G (n : str) (branch : str) (path : str) (ks : list gtree).
Definition gname (g : gtree) := match g with G n _ _ _ => n end.
Definition gbranch (g : gtree) := match g with G _ b _ _ => b end.
Definition gpath (g : gtree) := match g with G _ _ p _ => p end.
Definition gkids (g : gtree) := match g with G _ _ _ ks => ks end.

(* the loop over tmpParent in assembleBranch followed by assembleBranchFinally;
   anc = ancestors nearest first as (name, isLastOfHierarchy), the root last *)
Fixpoint climb (bf : bfmt) (anc : list (str * bool)) (br pth : str) : str * str :=
  match anc with
  | [] => (br, pth)
  | [(rn, _)] => (br, path_join [rn; pth])
  | (an, al) :: rest =>
      climb bf rest ((if al then last_i bf else mid_i bf) ++ br) (path_join [an; pth])
  end.

Definition is_nil {A : Type} (l : list A) : bool := match l with [] => true | _ => false end.

Fixpoint grow_node (bf : bfmt) (anc : list (str * bool)) (islast : bool) (t : tree) {struct t} : gtree :=
  match t with
  | T n ks =>
      let '(br, p) :=
        match anc with
        | [] => ([], n)                                  (* a root: branch "", path() = name *)
        | _ => climb bf anc (if islast then last_d bf else mid_d bf) (path_join [n])
        end in
      G n br p
        ((fix go (l : list tree) : list gtree :=
            match l with
            | [] => []
            | k :: r => grow_node bf ((n, islast) :: anc) (is_nil r) k :: go r
            end) ks)
  end.

Definition grow_root (bf : bfmt) (t : tree) : gtree := grow_node bf [] false t.

(* Node.validatePath (after the repair of D14: "", "." and ".." are not names) *)
Definition bad_name (n : str) : bool :=
  contains c_slash n || is_nil n || is_dot n || is_dotdot n.

Definition validate_node (g : gtree) : option err :=
  if bad_name (gname g) then Some (EInvalidName (gname g))
  else if negb (valid_path (gpath g)) then Some (EInvalidPath (gpath g))
  else None.

(* first failure in pre-order *)
Fixpoint validate_g (g : gtree) {struct g} : option err :=
  match g with
  | G n b p ks =>
      match validate_node g with
      | Some e => Some e
      | None =>
          (fix go (l : list gtree) : option err :=
             match l with
             | [] => None
             | k :: r => match validate_g k with Some e => Some e | None => go r end
             end) ks
      end
  end.

Fixpoint validate_all (gs : list gtree) : option err :=
  match gs with
  | [] => None
  | g :: r => match validate_g g with Some e => Some e | None => validate_all r end
  end.

(* pre-order list of grown nodes with their depth *)
Fixpoint gpre (d : nat) (g : gtree) {struct g} : list (nat * gtree) :=
  match g with
  | G _ _ _ ks => (d, g) :: flat_map (gpre (S d)) ks
  end.
