(* Tree/Gen.v — model of nodeGenerator.generate, stack.dfs, rootGeneratorSimple
   .generate / .generateIter (root_generator.go), wasm rootGenerator.generate.
   MODEL ONLY.
   The stack of open nodes is always the chain root = s0, s1 … sk with hierarchy
   1 … k+1 (push only ever pushes a parent followed by one of its children), so
   it is represented by the position path [cursor] of sk; its size is
   length cursor + 1.  "pop until a node one level up is found" is therefore
   "truncate the cursor to h-2 positions", which fails iff h-1 > size. *)
From Coq Require Import List Ascii Arith Bool.
From GT Require Import Base.GoStr Md.Parser Tree.Tree.
Import ListNotations.

Record gst := {
  g_p : pstate;                       (* the Parser *)
  g_done : list tree;                 (* completed roots, newest first *)
  g_cur : option (tree * list nat)    (* pending root and stack (cursor) *)
}.
Definition g0 := {| g_p := p0; g_done := []; g_cur := None |}.

Inductive step_out :=
| SCont (s : gst)
| SErr (s : gst) (e : err)
| SPanic.

(* one iteration of the scanner loop *)
Definition gen_step (s : gst) (row : str) : step_out :=
  let '(p', r) := parse (g_p s) row in
  match r with
  | PBlank => SCont {| g_p := p'; g_done := g_done s; g_cur := g_cur s |}
  | PEmpty => SErr s EEmptyText
  | PFormat => SErr s (EFormat row)
  | PItem h nm =>
      if h =? 1 then
        SCont {| g_p := p';
                 g_done := match g_cur s with Some (t, _) => t :: g_done s | None => g_done s end;
                 g_cur := Some (T nm [], []) |}
      else
        match g_cur s with
        | None => SErr s ENilStack
        | Some (t, cursor) =>
            (* stack.dfs: a parent one level up exists iff h-1 <= size *)
            if h - 2 <=? List.length cursor then
              match attach (firstn (h - 2) cursor) nm t with
              | Some (t', c') => SCont {| g_p := p'; g_done := g_done s; g_cur := Some (t', c') |}
              | None => SPanic
              end
            else SErr s (EFormat row)
        end
  end.

Fixpoint gen_loop (s : gst) (rows : list str) : step_out :=
  match rows with
  | [] => SCont s
  | r :: rs => match gen_step s r with
               | SCont s' => gen_loop s' rs
               | o => o
               end
  end.

(* what a run of the generator over a whole input yields:
   roots completed before the end or before the error (oldest first),
   the pending root, and how it ended *)
Record gen_result := {
  gr_done : list tree;
  gr_pending : option tree;
  gr_end : res unit
}.

Definition end_res (e : scan_end) : res unit :=
  match e with ScanEOF => Ok tt | ScanTooLong => Err ETooLong | ScanReaderErr => Err EReader end.

Definition gen_run_r (input : str) (k : option nat) : gen_result :=
  let '(rows, e) := scan_lines_r input k in
  match gen_loop g0 rows with
  | SCont s =>
      {| gr_done := frev (g_done s);
         gr_pending := match g_cur s with Some (t, _) => Some t | None => None end;
         gr_end := end_res e |}
  | SErr s er =>
      {| gr_done := frev (g_done s);
         gr_pending := match g_cur s with Some (t, _) => Some t | None => None end;
         gr_end := Err er |}
  | SPanic => {| gr_done := []; gr_pending := None; gr_end := Panic |}
  end.

Definition opt_list {A : Type} (o : option A) : list A :=
  match o with Some a => [a] | None => [] end.

Definition gen_run (input : str) : gen_result := gen_run_r input None.

(* rootGeneratorSimple.generate (and the tinywasm generate): all roots or an error *)
Definition gen_all_r (input : str) (k : option nat) : res (list tree) :=
  let g := gen_run_r input k in
  match gr_end g with
  | Ok _ => Ok (gr_done g ++ opt_list (gr_pending g))
  | Err e => Err e
  | Panic => Panic
  end.

(* rootGeneratorSimple.generateIter: the roots yielded before the final event,
   then the final event.  A root is yielded when the next root line is met; the
   last one at end of input, unless the scanner failed. *)
Definition gen_all (input : str) : res (list tree) := gen_all_r input None.

Definition gen_stream_r (input : str) (k : option nat) : list tree * res unit :=
  let g := gen_run_r input k in
  match gr_end g with
  | Ok _ => (gr_done g ++ opt_list (gr_pending g), Ok tt)
  | Err e => (gr_done g, Err e)
  | Panic => ([], Panic)
  end.

Definition gen_stream (input : str) : list tree * res unit := gen_stream_r input None.
