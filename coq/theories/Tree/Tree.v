(* Tree/Tree.v — rose trees, position paths, results.  MODEL ONLY.
   A Go *Node under construction is a rose tree; "pointer to a node" is its
   position path from the root (list of child positions). *)
From Coq Require Import List Ascii Arith Bool.
From GT Require Import Base.GoStr.
Import ListNotations.

Inductive tree := T (n : str) (ks : list tree).
Definition tname (t : tree) : str := match t with T n _ => n end.
Definition tkids (t : tree) : list tree := match t with T _ ks => ks end.

(* error classes gtree can return (messages are canonicalised to these) *)
Inductive err :=
| EEmptyText
| EFormat (row : str)
| ENilStack
| ETooLong
| EReader
| EInvalidName (n : str)
| EInvalidPath (p : str)
| EExistPath
| EVerify (extra missing : list str)
| EWriter
| ECtx
| ENilNode
| ENotRoot
| EOs
| ECallback (k : nat).

Inductive res (A : Type) :=
| Ok (a : A)
| Err (e : err)
| Panic.
Arguments Ok {A} a.
Arguments Err {A} e.
Arguments Panic {A}.

(* Node.findChildByText: position of the first child with that name *)
Fixpoint find_idx (nm : str) (ks : list tree) : option nat :=
  match ks with
  | [] => None
  | k :: r => if str_eqb nm (tname k) then Some 0
              else match find_idx nm r with Some i => Some (S i) | None => None end
  end.

Fixpoint upd_nth {A : Type} (i : nat) (f : A -> A) (l : list A) : list A :=
  match l, i with
  | [], _ => []
  | x :: r, 0 => f x :: r
  | x :: r, S j => x :: upd_nth j f r
  end.

Fixpoint get_at (p : list nat) (t : tree) : option tree :=
  match p with
  | [] => Some t
  | i :: p' => match nth_error (tkids t) i with
               | Some k => get_at p' k
               | None => None
               end
  end.

Fixpoint upd_at (p : list nat) (f : tree -> tree) (t : tree) : tree :=
  match p with
  | [] => f t
  | i :: p' => T (tname t) (upd_nth i (upd_at p' f) (tkids t))
  end.

(* parent.addChild(newNode(nm)) *)
Definition add_child (nm : str) (t : tree) : tree := T (tname t) (tkids t ++ [T nm []]).

(* the body of stack.dfs once the parent (at position path pp) has been found, and
   of Node.Add: return the existing child of that name, or append a new one.
   Result: new tree and the position path of the child. None = dangling path. *)
Definition attach (pp : list nat) (nm : str) (t : tree) : option (tree * list nat) :=
  match get_at pp t with
  | None => None
  | Some par =>
      match find_idx nm (tkids par) with
      | Some i => Some (t, pp ++ [i])
      | None => Some (upd_at pp (add_child nm) t, pp ++ [List.length (tkids par)])
      end
  end.

(* pre-order list of nodes with depth (roots at 1) *)
Fixpoint preorder_d (d : nat) (t : tree) : list (nat * str) :=
  match t with
  | T n ks => (d, n) :: flat_map (preorder_d (S d)) ks
  end.
Definition preorder (t : tree) : list (nat * str) := preorder_d 1 t.

Fixpoint tsize (t : tree) : nat :=
  match t with T _ ks => S (list_sum (map tsize ks)) end.
