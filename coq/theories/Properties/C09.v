(* Properties/C09.v — dry run touches nothing and predicts the real run. *)
From Coq Require Import List Ascii String.
From GT Require Import Base.GoStr Tree.Tree Tree.Grower Out.Spreader Api.Simple Fs.FsModel Fs.Mkdir
  Proofs.Paths Proofs.Programmable Proofs.FsBasic Proofs.MkdirExact.
Import ListNotations.

(* with the dry-run option the file system is exactly as before, for every forest, target,
   extension list and result *)
Theorem C09_no_effect : forall c dir f ts, c_dry c = true -> fst (fst (mkdir_trees c dir f ts)) = f.
Proof. exact dry_run_no_effect. Qed.
Print Assumptions C09_no_effect.

(* the report is, per root in order, that root's plain tree text, an empty line and
   "<d> directories, <f> files" *)
Theorem C09_report : forall c dir f ts gs,
  c_dry c = true -> grow_all (no_enc c) true ts = Ok gs ->
  mkdir_trees c dir f ts = (f, [CText (List.concat (map (dry_block (c_exts c)) gs))], Ok tt) /\
  forall g, dry_block (c_exts c) g = text_of g ++ [c_lf] ++ summary (c_exts c) g ++ [c_lf].
Proof. exact dry_run_report. Qed.
Print Assumptions C09_report.

(* the counts printed per root are what the real mkdir creates for that root: among the
   entries the real run adds beneath the root there are exactly count_dirs directories and
   count_files empty files (per_root_counts, Proofs/MkdirExact.v) *)
Theorem C09_counts : forall bf exts tc ts f,
  eok tc -> acc tc ->
  Forall (fun t => Forall name_ok (tnames t)) ts -> all_nodup ts -> NoDup (map tname ts) ->
  fs_ok f ->
  (forall t, In t ts -> stat f (tjoin (pth tc) (tname t)) = StNone) ->
  forall g, In g (map (grow_root bf) ts) ->
    per_root_counts exts (pth tc) (fst (mkdirer exts (dir_of tc) f (map (grow_root bf) ts))) g.
Proof.
  intros bf exts tc ts f H1 H2 H3 H4 H5 H6 H7 g Hg.
  destruct (mkdir_exact bf exts tc ts f H1 H2 H3 H4 H5 H6 H7) as [Hm [_ [_ [_ [_ [Hc _]]]]]].
  rewrite Hm. apply Hc. exact Hg.
Qed.
Print Assumptions C09_counts.

(* dry run rejects a forest iff the real run rejects it because of a name (same error);
   otherwise the dry run returns nil *)
Theorem C09_same_verdict : forall c dir f ts,
  let dry := snd (mkdir_trees (with_dry c true) dir f ts) in
  let real := snd (mkdir_trees (with_dry c false) dir f ts) in
  (name_error dry = true <-> name_error real = true) /\
  (name_error dry = true -> real = dry) /\
  (name_error dry = false -> dry = Ok tt).
Proof. exact dry_run_same_verdict. Qed.
Print Assumptions C09_same_verdict.

Definition s (x : string) : str := list_ascii_of_string x.
Definition dc := {| c_bf := default_bfmt; c_enc := EncDefault; c_dry := true; c_exts := [s ".go"]; c_noiter := false |}.
Example C09_nonvacuous :
  snd (fst (mkdir_trees dc (s "t") [] [T (s "a") [T (s "m.go") []; T (s "d") []]])) <> [] /\
  summary [s ".go"] (grow_root default_bfmt (T (s "a") [T (s "m.go") []; T (s "d") []])) = s "2 directories, 1 files" /\
  fst (fst (mkdir_trees (with_dry dc false) (s "t") [] [T (s "a") [T (s "m.go") []; T (s "d") []]])) =
    [(s "t", KDir); (s "t/a", KDir); (s "t/a/m.go", KFile true); (s "t/a/d", KDir)].
Proof. repeat split; vm_compute; congruence. Qed.
