(* Properties/C01.v — text output obeys the tree-drawing rule.
   Only statements closed by [exact], their assumptions, and non-vacuity examples. *)
From Coq Require Import List Ascii String.
From GT Require Import Base.GoStr Md.Parser Tree.Tree Tree.Gen Tree.Grower Api.Simple Spec.Spec Spec.Classify Spec.Spelling
  Proofs.GenItems Proofs.GrowRender Proofs.BuildTrie Proofs.OutputText Proofs.SpelledTop Proofs.SpelledMixed.
Import ListNotations.

(* the same for the MIXED notation: the first roots written as bullets, and from some later root on every root
   written as a # heading (the switch can happen only once: after the first heading a column-0 bullet is a child) *)
Theorem C01_text_rule_mixed : forall bf ni ms f1 f2, mspells ms f1 f2 ->
  exists ws, output_md (text_cfg bf ni) (mbytes_of ms) = (ws, Ok tt) /\
             chunks_text ws = Some (render bf (map trie_of (f1 ++ f2))).
Proof. exact text_rule_mixed. Qed.
Print Assumptions C01_text_rule_mixed.

(* link (iv): bottom-up branch assembly + text spreader = top-down renderer, any tree *)
Theorem C01_grow_is_render : forall bf t, Out.Spreader.text_of (grow_root bf t) = render_root bf t.
Proof. exact grow_root_render. Qed.
Print Assumptions C01_grow_is_render.

(* link (iii): the stack machine builds the trie of the document's name paths *)
Theorem C01_build_is_trie : forall t0,
  exists c, run_items (T (tname t0) [], []) (flat_map (preorder_d 2) (tkids t0)) = Some (trie_of t0, c).
Proof. exact build_is_trie. Qed.
Print Assumptions C01_build_is_trie.

(* For every forest f, all four branch strings and both routes: if the scanner splits the
   input into rows that the line parser reads as the pre-order items of f (blank rows
   anywhere), the call returns nil and the bytes written are the reference rendering of
   the forest in which equally named siblings are merged. *)
Theorem C01_text_rule_items : forall bf ni input rows f st',
  scan_lines input = (rows, ScanEOF) ->
  parses p0 rows (forest_items f) st' ->
  exists ws, output_md (text_cfg bf ni) input = (ws, Ok tt) /\
             chunks_text ws = Some (render bf (map trie_of f)).
Proof. exact output_text_forest. Qed.
Print Assumptions C01_text_rule_items.

(* THE PROPERTY AT FULL STRENGTH.  For every forest f (any number of roots, depth, fan-out,
   repeated sibling names, any names allowed by item_ok: non-empty, and for heading-style
   roots not starting with '#'/' ' nor ending with ' '), every spelling of it in the
   notation family of Spec/Spelling.v (unit = tab or any k >= 1 spaces, a bullet per line
   among - * +, heading roots or not, blank / whitespace-only / Unicode-space rows anywhere,
   LF or CRLF per row, final newline or not; rows free of LF, not ending in CR, shorter than
   the scanner limit), all four branch strings and both routes: the call returns nil and the
   bytes written are the reference rendering of the forest with equally named siblings merged. *)
Theorem C01_text_rule : forall bf ni sp f, spells sp f ->
  exists ws, output_md (text_cfg bf ni) (bytes_of sp) = (ws, Ok tt) /\
             chunks_text ws = Some (render bf (map trie_of f)).
Proof. exact text_rule. Qed.
Print Assumptions C01_text_rule.

(* non-vacuity: a 2-root document with a merged sibling that changes who is last,
   depth 4, a name "- x", evaluated through the whole model *)
Definition s (x : string) : str := list_ascii_of_string x.
Definition nl : string := String (ch 10) EmptyString.
Definition doc1 : str :=
  s ("- r" ++ nl ++ "  - a" ++ nl ++ "    - - x" ++ nl ++ "      - deep" ++ nl ++ "  - b" ++ nl ++
     "  - a" ++ nl ++ "    - y" ++ nl ++ "* r2" ++ nl)%string.
Definition f1 : list tree :=
  [T (s "r") [T (s "a") [T (s "- x") [T (s "deep") []]]; T (s "b") []; T (s "a") [T (s "y") []]];
   T (s "r2") []].
Example C01_nonvacuous :
  fst (scan_lines doc1) <> [] /\
  chunks_text (fst (output_md (text_cfg default_bfmt false) doc1)) = Some (render default_bfmt (map trie_of f1)) /\
  map trie_of f1 <> f1.
Proof. split; [|split]; vm_compute; congruence. Qed.

(* the hypothesis of C01_text_rule is satisfiable: a heading-style, tab-indented, CRLF/LF-mixed
   spelling with a whitespace-only row, three different bullets and no final newline *)
Definition f2 : list tree := [T (s "r") [T (s "a") [T (s "- x") []]; T (s "a") [T (s "y") []]]; T (s "q") []].
Definition sp2 : spelling :=
  {| sp_unit := UTab; sp_heading := true;
     sp_rows := [(s "# r", true); ([c_sp; c_tab], false); (s "* a", false); ([c_tab] ++ s "+ - x", true); (s "- a", false);
                 ([c_tab] ++ s "- y", false); (s "##  q ", false)];
     sp_final_newline := false |}.
Example C01_spells_nonvacuous : spells sp2 f2.
Proof.
  unfold spells. split; [|split; [|split]].
  - repeat constructor; cbn; try discriminate; intros; try discriminate; repeat split; discriminate.
  - cbn [sp_rows sp_unit sp_heading map fst forest_items flat_map preorder_d f2 app tname].
    apply rows_item; [exact (row_heading UTab true (s "r") 0 1 0 eq_refl)|].
    apply rows_blank; [reflexivity|].
    apply rows_item; [refine (row_item UTab true 2 (s "a") c_as eq_refl _ _); [repeat constructor|intros; repeat constructor]|].
    apply rows_item; [refine (row_item UTab true 3 (s "- x") c_pl eq_refl _ _); [repeat constructor|intros; repeat constructor]|].
    apply rows_item; [refine (row_item UTab true 2 (s "a") c_hy eq_refl _ _); [repeat constructor|intros; repeat constructor]|].
    apply rows_item; [refine (row_item UTab true 3 (s "y") c_hy eq_refl _ _); [repeat constructor|intros; repeat constructor]|].
    apply rows_item; [exact (row_heading UTab true (s "q") 1 2 1 eq_refl)|].
    apply rows_nil.
  - repeat constructor; cbn; try (intros [H|H]; try discriminate; repeat (destruct H as [H|H]; try discriminate); try contradiction); try discriminate; try reflexivity.
  - intros _. cbn. discriminate.
Qed.
