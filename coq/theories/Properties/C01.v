(* Properties/C01.v — text output obeys the tree-drawing rule.
   Only statements closed by [exact], their assumptions, and non-vacuity examples. *)
From Coq Require Import List Ascii String.
From GT Require Import Base.GoStr Md.Parser Tree.Tree Tree.Gen Tree.Grower Api.Simple Spec.Spec
  Proofs.GenItems Proofs.GrowRender Proofs.BuildTrie Proofs.OutputText.
Import ListNotations.

(* link (iv): bottom-up branch assembly + text spreader = top-down renderer, any tree *)
Theorem C01_grow_is_render : forall bf t, Out.Spreader.text_of (grow_root bf t) = render_root bf t.
Proof. exact grow_root_render. Qed.
Print Assumptions C01_grow_is_render.

(* link (iii): the stack machine builds the trie of the document's name paths *)
Theorem C01_build_is_trie : forall t0,
  exists c, run_items (T (tname t0) [], []) (flat_map (preorder_d 2) (tkids t0)) = Some (trie_of t0, c).
Proof. exact build_is_trie. Qed.
Print Assumptions C01_build_is_trie.

(* For every forest f, all four branch strings and both routes: if the scanner splits the
   input into rows that the line parser reads as the pre-order items of f (blank rows
   anywhere), the call returns nil and the bytes written are the reference rendering of
   the forest in which equally named siblings are merged. *)
Theorem C01_text_rule_items : forall bf ni input rows f st',
  scan_lines input = (rows, ScanEOF) ->
  parses p0 rows (forest_items f) st' ->
  exists ws, output_md (text_cfg bf ni) input = (ws, Ok tt) /\
             chunks_text ws = Some (render bf (map trie_of f)).
Proof. exact output_text_forest. Qed.
Print Assumptions C01_text_rule_items.

(* non-vacuity: a 2-root document with a merged sibling that changes who is last,
   depth 4, a name "- x", evaluated through the whole model *)
Definition s (x : string) : str := list_ascii_of_string x.
Definition nl : string := String (ch 10) EmptyString.
Definition doc1 : str :=
  s ("- r" ++ nl ++ "  - a" ++ nl ++ "    - - x" ++ nl ++ "      - deep" ++ nl ++ "  - b" ++ nl ++
     "  - a" ++ nl ++ "    - y" ++ nl ++ "* r2" ++ nl)%string.
Definition f1 : list tree :=
  [T (s "r") [T (s "a") [T (s "- x") [T (s "deep") []]]; T (s "b") []; T (s "a") [T (s "y") []]];
   T (s "r2") []].
Example C01_nonvacuous :
  fst (scan_lines doc1) <> [] /\
  chunks_text (fst (output_md (text_cfg default_bfmt false) doc1)) = Some (render default_bfmt (map trie_of f1)) /\
  map trie_of f1 <> f1.
Proof. split; [|split]; vm_compute; congruence. Qed.
