(* Properties/C17.v — the tinywasm build renders the same trees as the default build. *)
From Coq Require Import List Ascii String.
From GT Require Import Base.GoStr Tree.Tree Api.Simple Api.Faults Api.Wasm Proofs.Wasm.
Import ListNotations.

(* For EVERY byte string and every claimed option set (text with any branch strings, JSON,
   dry-run + any extension list) and BOTH routes of the default build: same accept/reject
   decision, and byte-identical output whenever the input is accepted. *)
Theorem C17_equiv : forall c input b,
  claimed c = true ->
  accepted (snd (wasm_output c input)) = accepted (snd (output_md (with_noiter c b) input)) /\
  (accepted (snd (wasm_output c input)) = true ->
   chunk_bytes (fst (wasm_output c input)) = chunk_bytes (fst (output_md (with_noiter c b) input))).
Proof. exact wasm_equiv. Qed.
Print Assumptions C17_equiv.

(* the two routes of the default build (iterators / bulk) agree with each other *)
Theorem C17_routes_agree : forall c input,
  accepted (snd (output_md (with_noiter c false) input)) = accepted (snd (output_md (with_noiter c true) input)) /\
  (accepted (snd (output_md (with_noiter c true) input)) = true ->
   chunk_bytes (fst (output_md (with_noiter c false) input)) = chunk_bytes (fst (output_md (with_noiter c true) input))).
Proof. exact routes_agree. Qed.
Print Assumptions C17_routes_agree.

Definition s (x : string) : str := list_ascii_of_string x.
Definition dc := {| c_bf := Tree.Grower.default_bfmt; c_enc := EncDefault; c_dry := true; c_exts := [s ".go"]; c_noiter := false |}.
Example C17_nonvacuous :
  claimed dc = true /\
  accepted (snd (wasm_output dc (s "- a" ++ [c_lf] ++ s "  - m.go"))) = true /\
  chunk_bytes (fst (wasm_output dc (s "- a" ++ [c_lf] ++ s "  - m.go"))) <> [] /\
  accepted (snd (wasm_output dc (s "- a" ++ [c_lf] ++ s "  - b/c"))) = false.
Proof. repeat split; vm_compute; congruence. Qed.
