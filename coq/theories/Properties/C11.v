(* Properties/C11.v — massive mode always returns and leaves no goroutine behind.
   Theorems over the labelled transition system Conc/Pipeline.v, for EVERY scenario (items,
   which item fails at which stage, source error, caller cancellation at any step) and EVERY
   schedule (every run of the LTS).  The instances of the 24 massive entry points are built
   from the inventory GENERATED from /repo's source (Conc/Instance.v, Conc/InstanceCheck.v)
   and re-checked on every run.  Partial: the Go scheduler, the runtime's channels and the
   race detector are not modelled; shared-memory discipline is checked at run time (-race). *)
From Coq Require Import List Arith.
From GT Require Import Conc.Pipeline Conc.Instance Conc.InstanceCheck Proofs.PipeFinite Proofs.PipeNoLeak Proofs.PipeRefute Proofs.PipeProgress Proofs.InstanceLive Proofs.PipeStrictReturn.
Import ListNotations.

(* bounded time: every step strictly decreases a measure computed from the parameters, so every
   run from a reachable state has at most [measure p s] steps; there is no infinite run *)
Theorem C11_finite : forall p s, reach p s -> forall l, path p s l -> List.length l <= measure p s.
Proof. exact runs_are_finite. Qed.
Print Assumptions C11_finite.

Theorem C11_no_infinite_run : forall p, ~ exists f : nat -> state, f 0 = init p /\ forall k, step p (f k) (f (S k)).
Proof. exact no_infinite_run. Qed.
Print Assumptions C11_no_infinite_run.

(* no goroutine left behind: once the call has returned, as long as some goroutine it started
   is alive some step is enabled; hence (with C11_finite) every maximal run ends quiescent:
   source, all workers, all closers and all readers have returned *)
Theorem C11_no_leak : forall p s,
  safe_params p -> reach p s -> st_main s <> None -> (forall s', ~ step p s s') -> quiescent s.
Proof. exact stuck_after_return_is_quiescent. Qed.
Print Assumptions C11_no_leak.

Theorem C11_returned_not_stuck : forall p s,
  safe_params p -> reach p s -> st_main s <> None -> ~ quiescent s -> exists s', step p s s'.
Proof. exact returned_not_stuck. Qed.
Print Assumptions C11_returned_not_stuck.

(* a cancelled call can always move towards returning *)
Theorem C11_cancelled_progress : forall p s,
  safe_params p -> reach p s -> st_ucancel s = true -> st_main s = None -> exists s', step p s s'.
Proof. exact cancelled_not_stuck. Qed.
Print Assumptions C11_cancelled_progress.

(* the 24 massive entry points of the CURRENT source are instances with safe parameters, whatever
   the scenario (checked by computation on the generated inventory) *)
Theorem C11_instances_safe : forall k nop items src_err cancel f1 f2 f3 lines p,
  md_params k nop items src_err cancel f1 f2 f3 lines = Some p -> safe_params p.
Proof. exact md_instance_safe. Qed.
Print Assumptions C11_instances_safe.

Theorem C11_root_instances_safe : forall k nop cancel f2 f3 lines p,
  root_params k nop cancel f2 f3 lines = Some p -> safe_params p.
Proof. exact root_instance_safe. Qed.
Print Assumptions C11_root_instances_safe.

(* THE CALL RETURNS: in a pipeline with at least one stage and at least one worker per pool, as
   long as main has not returned some step is enabled; with C11_finite every maximal run is
   finite and ends with main returned *)
Theorem C11_returns : forall p s l,
  live_params p -> reach p s -> path p s l -> (forall s', ~ step p (last l s) s') ->
  List.length l <= measure p s /\ st_main (last l s) <> None.
Proof. exact every_maximal_run_returns. Qed.
Print Assumptions C11_returns.

Theorem C11_main_not_stuck : forall p s,
  live_params p -> reach p s -> st_main s = None -> exists s', step p s s'.
Proof. exact main_not_stuck. Qed.
Print Assumptions C11_main_not_stuck.

(* the hypothesis is needed: a pool without a worker is stuck before returning *)
Theorem C11_live_needed :
  reach p_no_worker s_no_worker /\ st_main s_no_worker = None /\ forall s', ~ step p_no_worker s_no_worker s'.
Proof. exact stuck_without_worker. Qed.
Print Assumptions C11_live_needed.

(* ... and the 24 entry points of the CURRENT source satisfy it and safe_params: every maximal
   run of every massive call, in every scenario, is finite, ends with the call returned and
   with every goroutine it started gone *)
Theorem C11_md_entry_points : forall k nop items src_err cancel f1 f2 f3 lines p l,
  md_params k nop items src_err cancel f1 f2 f3 lines = Some p ->
  path p (init p) l -> (forall s', ~ step p (last l (init p)) s') ->
  List.length l <= measure p (init p) /\ st_main (last l (init p)) <> None /\ quiescent (last l (init p)).
Proof. exact md_call_returns_and_no_leak. Qed.
Print Assumptions C11_md_entry_points.

Theorem C11_root_entry_points : forall k nop cancel f2 f3 lines p l,
  root_params k nop cancel f2 f3 lines = Some p ->
  path p (init p) l -> (forall s', ~ step p (last l (init p)) s') ->
  List.length l <= measure p (init p) /\ st_main (last l (init p)) <> None /\ quiescent (last l (init p)).
Proof. exact root_call_returns_and_no_leak. Qed.
Print Assumptions C11_root_entry_points.

(* a call whose context the caller cancelled does not return nil (D21 repair) *)
Theorem C11_cancelled_return_is_error : forall p s s' r,
  step p s s' -> st_main s = None -> st_main s' = Some r -> st_ucancel s = true -> r <> None.
Proof. exact cancelled_return_is_error. Qed.
Print Assumptions C11_cancelled_return_is_error.

(* ONCE IT HAS RETURNED NOTHING REMAINS (D24 repair: the call decides its outcome, cancels, drains
   every error channel until it is closed, and only then returns).  In the LTS the moment of the
   actual return is `drained`: outcome decided, source done, every stage closed; then the state is
   quiescent -- source, every worker, every closer and every reader have returned.  And the drain
   ends in every run. *)
Theorem C11_nothing_remains_at_return : forall p s, reach p s -> drained s -> quiescent s.
Proof. exact drained_is_quiescent. Qed.
Print Assumptions C11_nothing_remains_at_return.

Theorem C11_drain_terminates : forall p s l,
  safe_params p -> live_params p -> reach p s -> path p s l -> (forall s', ~ step p (last l s) s') ->
  List.length l <= measure p s /\ drained (last l s) /\ quiescent (last l s).
Proof. exact drain_terminates. Qed.
Print Assumptions C11_drain_terminates.

(* the model distinguishes the repaired code from the defective one (D12): with Blocking error
   sends -- a bare `errc <- err` on a capacity-1 channel read at most once -- a leak is reachable:
   3 failing items, main has returned its error, one worker is blocked for ever, the stage never
   closes, no step is enabled.  With the guarded sends of the repaired code the same scenario
   cannot get stuck before every goroutine has returned. *)
Theorem C11_refuted_leak_with_blocking_sends :
  exists s, reach leaky s /\ st_main s <> None /\ ~ quiescent s /\ forall s', ~ step leaky s s'.
Proof. exact leak_reachable. Qed.
Print Assumptions C11_refuted_leak_with_blocking_sends.

Theorem C11_same_scenario_repaired : forall s,
  reach (guarded leaky) s -> st_main s <> None -> (forall s', ~ step (guarded leaky) s s') -> quiescent s.
Proof. exact same_scenario_safe. Qed.
Print Assumptions C11_same_scenario_repaired.

(* non-vacuity: the text-output instance exists, and the theorem applies to it *)
Example C11_nonvacuous :
  match md_params SinkText false [0; 1; 2] false true (fun _ => true) (fun _ => false) (fun _ => false) (fun _ => 2) with
  | Some p => List.length (p_stages p) = 3 /\ safe_params p
  | None => False
  end.
Proof.
  destruct (md_params SinkText false [0; 1; 2] false true (fun _ => true) (fun _ => false) (fun _ => false) (fun _ => 2)) as [p|] eqn:E;
    [|vm_compute in E; discriminate].
  split; [|eapply md_instance_safe; exact E].
  vm_compute in E. inversion E. reflexivity.
Qed.
