(* Properties/C02.v — a document is rendered completely or rejected: no silent loss.
   The oracle is the declarative line classifier Spec/Classify.v (no symbol loop, no
   mutable parser state); Proofs/ParseClassify.v proves the stateful three-symbol parser
   and the stack machine equivalent to it, row by row and document by document. *)
From Coq Require Import List Ascii String.
From GT Require Import Base.GoStr Md.Parser Tree.Tree Tree.Gen Api.Simple Spec.Classify
  Spec.Spec Proofs.BuildTrie Proofs.GenItems Proofs.ParseClassify Proofs.NoLoss Proofs.Complete.
From GT Require Import Conc.Splitter Conc.Pipeline Proofs.MassiveReject Proofs.MassiveFront Proofs.SpelledTop Proofs.SplitSchedule.
Import ListNotations.

(* for every byte string whose lines are within the scanner limit and every output mode
   other than dry-run (text, JSON, YAML, TOML; both routes): a non-nil error is returned
   if and only if some line is malformed per the classifier (no bullet after the indentation,
   empty text, indentation not a multiple of the unit, mixed indentation characters, nesting
   more than one level deeper, item before the first root) *)
Theorem C02_error_iff : forall c input rows,
  c_dry c = false -> scan_lines input = (rows, ScanEOF) ->
  ((exists e, snd (output_md c input) = Err e) <-> (exists i r, classify_rows rows = VBad i r)).
Proof. exact error_iff_malformed. Qed.
Print Assumptions C02_error_iff.

(* a format error identifies the offending line: it is the first malformed one *)
Theorem C02_row : forall c input rows row,
  c_dry c = false -> scan_lines input = (rows, ScanEOF) ->
  snd (output_md c input) = Err (EFormat row) ->
  exists i r, classify_rows rows = VBad i r /\ nth_error rows i = Some row.
Proof. exact format_error_names_first_malformed. Qed.
Print Assumptions C02_row.

(* when nil is returned every line was read as blank or as an item, and the generator consumed
   exactly those items (the stack machine never drops one: Proofs/ParseClassify.v) *)
Theorem C02_accepted : forall c input rows,
  c_dry c = false -> scan_lines input = (rows, ScanEOF) ->
  snd (output_md c input) = Ok tt ->
  exists items st', classify_rows rows = VOk items /\ parses p0 rows items st'.
Proof. exact accepted_items. Qed.
Print Assumptions C02_accepted.

(* NO SILENT LOSS: when nil is returned, every non-blank line is represented by a node of the
   rendered forest: the path computed for it from the indentation alone (names of the
   nearest preceding items of depth 1..d-1, then its own name) exists in that forest *)
Theorem C02_no_loss : forall c input rows,
  c_dry c = false -> scan_lines input = (rows, ScanEOF) ->
  snd (output_md c input) = Ok tt ->
  exists items forest,
    classify_rows rows = VOk items /\ gen_all input = Ok forest /\
    forall p, In p (item_paths_from [] items) ->
      exists r rest t, p = r :: rest /\ In t forest /\ tname t = r /\ has_path rest t.
Proof. exact nothing_lost. Qed.
Print Assumptions C02_no_loss.

(* the line parser and the classifier agree row by row (the link the three theorems rest on) *)
Theorem C02_parser_is_classifier : forall rows,
  (exists s e, gen_loop g0 rows = SErr s e) <-> (exists i r, classify_rows rows = VBad i r).
Proof. exact gen_error_iff. Qed.
Print Assumptions C02_parser_is_classifier.

(* MASSIVE MODE (partial).  Well-formed: on a heading-free spelling of a forest every block's
   worker yields a root, under every interleaving (no spurious rejection; with
   C10_faultless_returns_nil the call returns nil).  Malformed, for the class whose detection does
   not depend on the shared parser's state -- a non-blank row that does not start with '#' and
   contains no bullet: whatever the interleaving, its block yields no root, and a pipeline whose
   generate stage fails on such blocks never returns nil.  For the state-dependent classes
   (indentation unit, mixed characters, nesting) massive mode is schedule-dependent on documents
   whose blocks disagree (known findings K1, K2 of C10); those are covered by the correspondence
   on uniform documents only. *)
Theorem C02_massive_accepts_spelled : forall sp f sched,
  spells sp f -> sp_heading sp = false ->
  interleave (split_rows (map fst (sp_rows sp))) sched ->
  Forall (fun r => exists o, r = BRoot o)
         (results_by_block (List.length (split_rows (map fst (sp_rows sp)))) (run_sched p0 sched)).
Proof.
  intros sp f sched Hs Hh Hil. destruct Hs as (Hi & Hr & _). rewrite Hh in Hi, Hr.
  exact (proj2 (massive_forest (sp_unit sp) f (map fst (sp_rows sp)) Hi Hr sched Hil)).
Qed.
Print Assumptions C02_massive_accepts_spelled.

Theorem C02_massive_rejects_bulletless_row : forall bs sched j rows row p s d,
  interleave bs sched -> nth_error bs j = Some rows -> In row rows -> always_bad row ->
  nth_error (p_stages p) 0 = Some d -> In j (p_items p) ->
  (forall i, (forall o, block_result i (run_sched p0 sched) <> BRoot o) -> d_fails d i = true) ->
  reach p s -> st_main s <> Some None.
Proof. exact massive_rejects_bad_row. Qed.
Print Assumptions C02_massive_rejects_bulletless_row.

Definition s (x : string) : str := list_ascii_of_string x.
Definition jc := {| c_bf := Tree.Grower.default_bfmt; c_enc := EncJSON; c_dry := false; c_exts := []; c_noiter := false |}.
Definition bad1 : str := s "- a" ++ [c_lf] ++ s "  - b" ++ [c_lf] ++ s "      - c" ++ [c_lf] ++ s "  - d".
Example C02_nonvacuous :
  classify_rows (fst (scan_lines bad1)) = VBad 2 RJump /\
  snd (output_md jc bad1) = Err (EFormat (s "      - c")) /\
  classify_rows (fst (scan_lines (s "- a" ++ [c_lf] ++ [c_tab] ++ s "* b"))) = VOk [(1, s "a"); (2, s "b")].
Proof. repeat split; vm_compute; reflexivity. Qed.
