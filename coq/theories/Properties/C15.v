(* Properties/C15.v — equivalent spellings of a document give identical results. *)
From Coq Require Import List Ascii String.
From GT Require Import Base.GoStr Md.Parser Tree.Tree Tree.Gen Tree.Grower Api.Simple Fs.FsModel Api.Programmable
  Spec.Spelling Proofs.GenItems Proofs.Programmable Proofs.SpelledTop.
From GT Require Import Conc.Splitter Proofs.SplitSchedule Proofs.MassiveFront Proofs.SpelledMixed.
Import ListNotations.

(* Any two documents whose rows the line parser reads as the pre-order items of the same
   forest (whatever the indentation unit, bullets, heading style, blank lines, CR/LF, final
   newline that led there) give identical results: every output mode and option, walk,
   mkdir (same file system, same report), verify. *)
Theorem C15_spelling_items : forall f input1 rows1 st1 input2 rows2 st2,
  scan_lines input1 = (rows1, ScanEOF) -> parses p0 rows1 (forest_items f) st1 ->
  scan_lines input2 = (rows2, ScanEOF) -> parses p0 rows2 (forest_items f) st2 ->
  (forall c, output_md c input1 = output_md c input2) /\
  (forall c cb, walk_md c cb input1 = walk_md c cb input2) /\
  (forall w c d, pstep w (PMdMkdir c d input1) = pstep w (PMdMkdir c d input2)) /\
  (forall w c s d, pstep w (PMdVerify c s d input1) = pstep w (PMdVerify c s d input2)).
Proof. exact same_items_same_results. Qed.
Print Assumptions C15_spelling_items.

(* THE PROPERTY AT FULL STRENGTH: any two spellings of the same forest from the notation
   family (see Properties/C01.v and Spec/Spelling.v) give identical results in every output
   mode and option set, the same walk, the same mkdir effect and report, the same verdict *)
Theorem C15_spelling : forall sp1 sp2 f, spells sp1 f -> spells sp2 f ->
  (forall c, output_md c (bytes_of sp1) = output_md c (bytes_of sp2)) /\
  (forall c cb, walk_md c cb (bytes_of sp1) = walk_md c cb (bytes_of sp2)) /\
  (forall w c d, pstep w (PMdMkdir c d (bytes_of sp1)) = pstep w (PMdMkdir c d (bytes_of sp2))) /\
  (forall w c s d, pstep w (PMdVerify c s d (bytes_of sp1)) = pstep w (PMdVerify c s d (bytes_of sp2))).
Proof. exact spelling_independent. Qed.
Print Assumptions C15_spelling.

(* the MIXED notation (bullet roots first, heading roots from some root on) is part of the family too: a mixed
   spelling agrees with every uniform spelling of the same forest and with every other mixed one, whatever the
   split point, in every output mode and operation *)
Theorem C15_spelling_mixed : forall ms f1 f2, mspells ms f1 f2 ->
  (forall sp, spells sp (f1 ++ f2) -> same_results (mbytes_of ms) (bytes_of sp)) /\
  (forall ms' g1 g2, mspells ms' g1 g2 -> f1 ++ f2 = g1 ++ g2 -> same_results (mbytes_of ms) (mbytes_of ms')).
Proof. exact spelling_independent_mixed_all. Qed.
Print Assumptions C15_spelling_mixed.

(* with the massive option: two heading-free spellings of one forest give the same roots, whatever
   the interleaving of the generate workers in either run (each equals the forest's tries) *)
Theorem C15_massive_roots : forall sp1 sp2 f sched1 sched2,
  spells sp1 f -> sp_heading sp1 = false -> spells sp2 f -> sp_heading sp2 = false ->
  interleave (split_rows (map fst (sp_rows sp1))) sched1 ->
  interleave (split_rows (map fst (sp_rows sp2))) sched2 ->
  roots_of (results_by_block (List.length (split_rows (map fst (sp_rows sp1)))) (run_sched p0 sched1)) =
  roots_of (results_by_block (List.length (split_rows (map fst (sp_rows sp2)))) (run_sched p0 sched2)).
Proof.
  intros sp1 sp2 f sched1 sched2 H1 N1 H2 N2 I1 I2.
  destruct (massive_front_end sp1 f H1 N1) as (_ & _ & R1). destruct (massive_front_end sp2 f H2 N2) as (_ & _ & R2).
  rewrite (proj1 (R1 sched1 I1)), (proj1 (R2 sched2 I2)). reflexivity.
Qed.
Print Assumptions C15_massive_roots.

Definition s (x : string) : str := list_ascii_of_string x.
Definition crlf : str := [c_cr; c_lf].
Definition docA : str := s "- r" ++ [c_lf] ++ s "  - a" ++ [c_lf] ++ s "    - x" ++ [c_lf] ++ s "- q" ++ [c_lf].
Definition docB : str := s "# r" ++ crlf ++ crlf ++ [c_tab] ++ crlf ++ s "* a" ++ crlf ++ [c_tab] ++ s "+ x" ++ [c_lf] ++ s "##  q ".
Definition jc := {| c_bf := default_bfmt; c_enc := EncJSON; c_dry := false; c_exts := []; c_noiter := false |}.
Example C15_nonvacuous :
  docA <> docB /\ output_md jc docA = output_md jc docB /\ snd (output_md jc docA) = Ok tt /\ fst (output_md jc docA) <> [].
Proof. repeat split; vm_compute; congruence. Qed.
