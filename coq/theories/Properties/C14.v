(* Properties/C14.v — reader and writer failures are reported.  The reader (fails after
   k bytes) and the writer (byte budget; the crossing write is answered with a partial
   count and an error) are universally quantified oracles. *)
From Coq Require Import List Ascii String.
From GT Require Import Base.GoStr Tree.Tree Tree.Gen Api.Simple Api.Programmable Api.Faults Proofs.Faults Proofs.Extras.
From GT Require Import Conc.Pipeline Proofs.PipeComplete.
Import ListNotations.

(* nil is returned only if the writer accepted every byte of the output (From-Markdown) *)
Theorem C14_writer : forall c input k b acc,
  output_faulty c input k (Some b) = (acc, Ok tt) ->
  acc = chunk_bytes (fst (output_md_r c input k)) /\ List.length acc <= b.
Proof. exact writer_failure_reported. Qed.
Print Assumptions C14_writer.

(* ... and From-Root *)
Theorem C14_writer_root : forall c t b acc,
  output_root_faulty c t b = (acc, Ok tt) ->
  acc = chunk_bytes (fst (output_root c t)) /\ List.length acc <= b.
Proof. exact writer_failure_reported_root. Qed.
Print Assumptions C14_writer_root.

(* text, JSON, dry-run: a budget smaller than the output is always an error *)
Theorem C14_short_budget : forall c input k b,
  (forall e f, ~ In (CEnc e f) (fst (output_md_r c input k))) ->
  b < List.length (chunk_bytes (fst (output_md_r c input k))) ->
  exists er, snd (output_faulty c input k (Some b)) = Err er.
Proof. exact short_budget_is_error. Qed.
Print Assumptions C14_short_budget.

(* a failing reader never yields nil, whatever the writer does *)
Theorem C14_reader : forall c input n budget,
  exists er, snd (output_faulty c input (Some n) budget) = Err er.
Proof. exact reader_failure_reported. Qed.
Print Assumptions C14_reader.

(* and the error is the reader's when everything delivered before the failure is well-formed
   (known finding K4: a malformed truncated last line is reported instead) *)
Theorem C14_reader_error_partial : forall c input n rows st,
  c_noiter c = true ->
  scan_lines_r input (Some n) = (rows, ScanReaderErr) ->
  gen_loop g0 rows = SCont st ->
  snd (output_md_r c input (Some n)) = Err EReader.
Proof. exact reader_error_is_returned. Qed.
Print Assumptions C14_reader_error_partial.

(* a TRANSIENT writer failure: the writer rejects exactly its k-th non-empty Write and would
   accept every other one.  nil is returned only if that call was never made, and then every
   byte of the output has been written *)
Theorem C14_transient : forall c input k acc,
  output_faulty_kth c input k = (acc, Ok tt) ->
  acc = chunk_bytes (fst (output_md c input)) /\ nonempty_writes (fst (output_md c input)) <= k.
Proof. exact transient_failure_reported. Qed.
Print Assumptions C14_transient.

Theorem C14_transient_root : forall c t k acc,
  output_root_faulty_kth c t k = (acc, Ok tt) ->
  acc = chunk_bytes (fst (output_root c t)) /\ nonempty_writes (fst (output_root c t)) <= k.
Proof. exact transient_failure_reported_root. Qed.
Print Assumptions C14_transient_root.

(* MASSIVE MODE (pipeline LTS, every schedule): a failing reader is the source's error, a failing
   writer / callback / file-system operation is an item that fails at the sink; the call returns
   nil only if neither happened, and an error it returns is one of them or the cancellation *)
Theorem C14_massive_nil_means_no_fault : forall p s, reach p s -> st_main s = Some None ->
  p_src_err p = false /\
  forall n d i, nth_error (p_stages p) n = Some d -> In i (p_items p) -> d_fails d i = false.
Proof.
  intros p s Hr Hm. split; [exact (nil_return_no_source_error p s Hr Hm)|exact (nil_return_no_failure p s Hr Hm)].
Qed.
Print Assumptions C14_massive_nil_means_no_fault.

Theorem C14_massive_error_is_a_fault : forall p s e, reach p s -> st_main s = Some (Some e) ->
  match e with
  | ESrc => p_src_err p = true
  | EStage n i => fails_at p n i
  | ECtx => st_ucancel s = true /\ p_user_may_cancel p = true
  end.
Proof. exact error_return_exact. Qed.
Print Assumptions C14_massive_error_is_a_fault.

Definition s (x : string) : str := list_ascii_of_string x.
Definition tc := {| c_bf := Tree.Grower.default_bfmt; c_enc := EncDefault; c_dry := false; c_exts := []; c_noiter := true |}.
Example C14_nonvacuous :
  output_faulty tc (s "- a" ++ [c_lf] ++ s "  - b") None (Some 3) = (s "a" ++ [c_lf] ++ [ch 226], Err EWriter) /\
  snd (output_faulty tc (s "- a" ++ [c_lf] ++ s "  - b") (Some 4) None) = Err EReader /\
  snd (output_faulty tc (s "- a" ++ [c_lf] ++ s "  - b") (Some 7) None) = Err EEmptyText.
Proof. repeat split; vm_compute; reflexivity. Qed.
