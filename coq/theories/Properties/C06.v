(* Properties/C06.v — mkdir creates exactly the tree (over the finite-map file-system model). *)
From Coq Require Import List Ascii String.
From GT Require Import Base.GoStr Tree.Tree Tree.Grower Out.Spreader Api.Simple Fs.FsModel Fs.Mkdir Fs.Verify
  Proofs.Paths Proofs.Programmable Proofs.FsBasic Proofs.MkdirExact.
Import ListNotations.

(* THE PROPERTY AT FULL STRENGTH (over the file-system model).  For every forest whose names are
   single path elements the OS accepts, with pairwise distinct root names (and sibling names,
   which the builder guarantees), every extension list, every target directory (existing,
   missing, nested, "."), every well-formed pre-state in which no root exists:
   mkdir returns nil; the new file system is the old one followed by exactly the missing
   prefixes of the target and one entry per node, in pre-order, each a directory or -- for a
   childless node whose name ends with an extension -- an empty file; nothing that existed
   changed; no node path existed before; strict verification passes right after; the
   per-root counts of new directories / files are those of the dry-run report *)
Theorem C06_success : forall bf exts tc ts f,
  eok tc -> acc tc ->
  Forall (fun t => Forall name_ok (tnames t)) ts -> all_nodup ts -> NoDup (map tname ts) ->
  fs_ok f ->
  (forall t, In t ts -> stat f (tjoin (pth tc) (tname t)) = StNone) ->
  let gs := map (grow_root bf) ts in
  let f' := f ++ added exts tc f gs in
  mkdirer exts (dir_of tc) f gs = (f', Ok tt) /\
  (forall p k, lookup p f = Some k -> lookup p f' = Some k) /\
  (forall p k, lookup p f = None ->
     (lookup p f' = Some k <->
      (exists g x, In g gs /\ In x (gnodes g) /\ p = tjoin (pth tc) (gpath x) /\ k = kind_of exts x) \/
      (gs <> [] /\ k = KDir /\ exists a, pfx a tc /\ a <> [] /\ p = pth a))) /\
  (forall g x, In g gs -> In x (gnodes g) -> lookup (tjoin (pth tc) (gpath x)) f = None) /\
  (forall strict, verifier strict (pth tc) f' gs = Ok tt) /\
  (forall g, In g gs -> per_root_counts exts (pth tc) f' g) /\
  fs_ok f' /\
  (all_dirs f [] tc -> f' = f ++ flat_map (entries exts (pth tc)) gs).
Proof. exact mkdir_exact. Qed.
Print Assumptions C06_success.

(* its hypotheses are satisfiable (a two-root forest with a file leaf into a missing target) *)
Example C06_success_nonvacuous :
  eok ex_tc /\ acc ex_tc /\ Forall (fun t => Forall name_ok (tnames t)) ex_ts /\ all_nodup ex_ts /\
  NoDup (map tname ex_ts) /\ fs_ok [] /\ (forall t, In t ex_ts -> stat [] (tjoin (pth ex_tc) (tname t)) = StNone).
Proof. exact ex_hyps. Qed.

(* if any root already exists (as a file, as a directory, or Stat fails otherwise) the call
   fails with the path-exists error and the file system is unchanged *)
Theorem C06_exists : forall exts dir f gs,
  exists_root f (target_of dir) gs = true -> mkdirer exts dir f gs = (f, Err EExistPath).
Proof. exact mkdirer_exists. Qed.
Print Assumptions C06_exists.

(* the result is nil only if every primitive succeeded; a failing MkdirAll / Create is an error *)
Theorem C06_error_reported : forall exts dir f gs f' r,
  mkdirer exts dir f gs = (f', r) ->
  (r = Ok tt /\ exists_root f (target_of dir) gs = false /\ make_roots exts (target_of dir) f gs = (f', true)) \/
  (r = Err EExistPath /\ f' = f) \/
  (r = Err EOs /\ exists_root f (target_of dir) gs = false /\ make_roots exts (target_of dir) f gs = (f', false)).
Proof. exact mkdirer_result. Qed.
Print Assumptions C06_error_reported.

(* nothing that existed before is removed or retyped by the primitives mkdir uses *)
Theorem C06_dirs_kept_partial : forall comps f cur f' ok p k,
  mkdir_all_from f cur comps = (f', ok) -> lookup p f = Some k -> lookup p f' = Some k.
Proof. exact mkdir_all_from_keeps. Qed.
Print Assumptions C06_dirs_kept_partial.

Definition s (x : string) : str := list_ascii_of_string x.
Definition g1 := grow_root default_bfmt (T (s "a") [T (s "m.go") []; T (s "d") []]).
Example C06_nonvacuous :
  mkdirer [s ".go"] (s "tgt") [] [g1] =
    ([(s "tgt", KDir); (s "tgt/a", KDir); (s "tgt/a/m.go", KFile true); (s "tgt/a/d", KDir)], Ok tt) /\
  mkdirer [s ".go"] (s "tgt") [(s "tgt", KDir); (s "tgt/a", KFile false)] [g1] = ([(s "tgt", KDir); (s "tgt/a", KFile false)], Err EExistPath).
Proof. split; vm_compute; reflexivity. Qed.
