(* Properties/C06.v — mkdir creates exactly the tree (over the finite-map file-system model). *)
From Coq Require Import List Ascii String.
From GT Require Import Base.GoStr Tree.Tree Tree.Grower Api.Simple Fs.FsModel Fs.Mkdir Proofs.FsBasic.
Import ListNotations.

(* if any root already exists (as a file, as a directory, or Stat fails otherwise) the call
   fails with the path-exists error and the file system is unchanged *)
Theorem C06_exists : forall exts dir f gs,
  exists_root f (target_of dir) gs = true -> mkdirer exts dir f gs = (f, Err EExistPath).
Proof. exact mkdirer_exists. Qed.
Print Assumptions C06_exists.

(* the result is nil only if every primitive succeeded; a failing MkdirAll / Create is an error *)
Theorem C06_error_reported : forall exts dir f gs f' r,
  mkdirer exts dir f gs = (f', r) ->
  (r = Ok tt /\ exists_root f (target_of dir) gs = false /\ make_roots exts (target_of dir) f gs = (f', true)) \/
  (r = Err EExistPath /\ f' = f) \/
  (r = Err EOs /\ exists_root f (target_of dir) gs = false /\ make_roots exts (target_of dir) f gs = (f', false)).
Proof. exact mkdirer_result. Qed.
Print Assumptions C06_error_reported.

(* nothing that existed before is removed or retyped by the primitives mkdir uses *)
Theorem C06_dirs_kept_partial : forall comps f cur f' ok p k,
  mkdir_all_from f cur comps = (f', ok) -> lookup p f = Some k -> lookup p f' = Some k.
Proof. exact mkdir_all_from_keeps. Qed.
Print Assumptions C06_dirs_kept_partial.

Definition s (x : string) : str := list_ascii_of_string x.
Definition g1 := grow_root default_bfmt (T (s "a") [T (s "m.go") []; T (s "d") []]).
Example C06_nonvacuous :
  mkdirer [s ".go"] (s "tgt") [] [g1] =
    ([(s "tgt", KDir); (s "tgt/a", KDir); (s "tgt/a/m.go", KFile true); (s "tgt/a/d", KDir)], Ok tt) /\
  mkdirer [s ".go"] (s "tgt") [(s "tgt", KDir); (s "tgt/a", KFile false)] [g1] = ([(s "tgt", KDir); (s "tgt/a", KFile false)], Err EExistPath).
Proof. split; vm_compute; reflexivity. Qed.
