(* Properties/C13.v — results depend only on the tree, not on call history.
   A history is any list of operations (NewRoot, Add on any handle of any live tree,
   From-Root and From-Markdown operations) executed by [pstep]; goroutine interleavings
   of calls on distinct trees are sequential histories of these atomic events. *)
From Coq Require Import List Ascii String.
From GT Require Import Base.GoStr Tree.Tree Tree.Grower Api.Simple Fs.FsModel Api.Programmable Proofs.Programmable.
Import ListNotations.

(* whatever two histories produced the worlds w1 and w2: if a handle designates the same
   tree in both (and, for mkdir/verify, the file systems agree) every operation gives the
   same result *)
Theorem C13_function_of_tree : forall w1 w2 h1 h2,
  root_of w1 h1 = root_of w2 h2 ->
  (forall c, snd (pstep w1 (POutput h1 c)) = snd (pstep w2 (POutput h2 c))) /\
  (forall bf f, snd (pstep w1 (PWalk h1 bf f)) = snd (pstep w2 (PWalk h2 bf f))) /\
  (forall bf b, snd (pstep w1 (PWalkIter h1 bf b)) = snd (pstep w2 (PWalkIter h2 bf b))) /\
  (w_fs w1 = w_fs w2 ->
   (forall c d, snd (pstep w1 (PMkdir h1 c d)) = snd (pstep w2 (PMkdir h2 c d))) /\
   (forall c s d, snd (pstep w1 (PVerify h1 c s d)) = snd (pstep w2 (PVerify h2 c s d)))).
Proof. exact result_function_of_tree. Qed.
Print Assumptions C13_function_of_tree.

(* operations other than NewRoot / Add / mkdir leave the world unchanged, hence repeating
   an operation repeats its result *)
Theorem C13_repeat : forall w o, reads_only o -> snd (pstep (fst (pstep w o)) o) = snd (pstep w o).
Proof. exact repeat_same. Qed.
Print Assumptions C13_repeat.

(* building or extending one tree leaves every other tree as it was *)
Theorem C13_other_trees : forall w o h tid path,
  nth_error (w_handles w) h = Some (tid, path) ->
  (exists nm, o = PNewRoot nm) \/
  (exists h' nm tid' p', o = PAdd h' nm /\ nth_error (w_handles w) h' = Some (tid', p') /\ tid' <> tid) ->
  tid < List.length (w_trees w) ->
  root_of (fst (pstep w o)) (Some h) = root_of w (Some h).
Proof. exact other_trees_untouched. Qed.
Print Assumptions C13_other_trees.

(* From-Markdown calls read nothing of the world: run anywhere in any history they give the
   result they give alone *)
Theorem C13_markdown_independent : forall w1 w2 c doc bf f,
  snd (pstep w1 (PMdOutput c doc)) = snd (pstep w2 (PMdOutput c doc)) /\
  snd (pstep w1 (PMdWalk bf f doc)) = snd (pstep w2 (PMdWalk bf f doc)).
Proof. exact md_calls_independent. Qed.
Print Assumptions C13_markdown_independent.

Definition s (x : string) : str := list_ascii_of_string x.
Definition tc := {| c_bf := default_bfmt; c_enc := EncDefault; c_dry := false; c_exts := []; c_noiter := false |}.
(* the history that exposed the index-reuse defect (D5): Output between the Adds *)
Definition h1 := [PNewRoot (s "r"); PAdd 0 (s "a"); POutput (Some 0) tc; PAdd 0 (s "b"); PAdd 0 (s "c")].
Definition h2 := [PNewRoot (s "z"); PNewRoot (s "r"); PAdd 1 (s "a"); PAdd 1 (s "b"); PAdd 0 (s "q"); PAdd 1 (s "c")].
Example C13_nonvacuous :
  let w1 := fold_left (fun w o => fst (pstep w o)) h1 world0 in
  let w2 := fold_left (fun w o => fst (pstep w o)) h2 world0 in
  root_of w1 (Some 0) = root_of w2 (Some 1) /\
  snd (pstep w1 (POutput (Some 0) tc)) = snd (pstep w2 (POutput (Some 1) tc)) /\
  root_of w1 (Some 0) = Ok (T (s "r") [T (s "a") []; T (s "b") []; T (s "c") []]).
Proof. repeat split; vm_compute; reflexivity. Qed.
