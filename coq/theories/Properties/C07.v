(* Properties/C07.v — mkdir validates names first. *)
From Coq Require Import List Ascii String.
From GT Require Import Base.GoStr Tree.Tree Tree.Grower Api.Simple Fs.FsModel Fs.Mkdir Proofs.Paths Proofs.FsBasic.
Import ListNotations.

(* every mkdir entry point (From-Markdown, From-Root, real or dry-run, any extensions and
   target): a forest containing, at ANY position, a name that is empty, ".", ".." or contains
   '/' is rejected and the file system is exactly as before *)
Theorem C07_rejects : forall c dir f ts,
  (exists t n, In t ts /\ In n (tnames t) /\ elem_ok n = false) ->
  exists e, mkdir_trees c dir f ts = (f, [], Err e).
Proof. exact mkdir_rejects_bad_names. Qed.
Print Assumptions C07_rejects.

Definition s (x : string) : str := list_ascii_of_string x.
Definition rc := {| c_bf := default_bfmt; c_enc := EncDefault; c_dry := false; c_exts := []; c_noiter := false |}.
Example C07_nonvacuous :
  mkdir_trees rc (s "tgt") [(s "tgt", KDir)] [T (s "a") [T (s "..") []]] = ([(s "tgt", KDir)], [], Err (EInvalidName (s ".."))) /\
  mkdir_trees rc (s "tgt") [(s "tgt", KDir)] [T (s "a") [T (s "b") [T (s "../../esc") []]]] = ([(s "tgt", KDir)], [], Err (EInvalidName (s "../../esc"))) /\
  elem_ok (s "..") = false /\ elem_ok (s "a/b") = false /\ elem_ok (s "ok") = true.
Proof. repeat split; vm_compute; reflexivity. Qed.
