(* Properties/C07.v — mkdir never escapes the target directory and validates names first. *)
From Coq Require Import List Ascii String.
From GT Require Import Base.GoStr Tree.Tree Tree.Grower Api.Simple Fs.FsModel Fs.Mkdir Proofs.Paths Proofs.FsBasic Proofs.MkdirExact Proofs.MkdirConfined.
Import ListNotations.

(* every mkdir entry point (From-Markdown, From-Root, real or dry-run, any extensions and
   target): a forest containing, at ANY position, a name that is empty, ".", ".." or contains
   '/' is rejected and the file system is exactly as before *)
Theorem C07_rejects : forall c dir f ts,
  (exists t n, In t ts /\ In n (tnames t) /\ elem_ok n = false) ->
  exists e, mkdir_trees c dir f ts = (f, [], Err e).
Proof. exact mkdir_rejects_bad_names. Qed.
Print Assumptions C07_rejects.

(* CONFINEMENT, all inputs and all outcomes (success, name rejection, path-exists error, an OS
   refusal part-way): for a target that is a clean relative path of valid elements, in a file
   system where every entry's parent is a directory entry, nothing that existed is removed or
   retyped, and every new entry is either strictly below the target, spelled by valid single
   elements only, or a missing prefix of the target itself (then a directory) *)
Theorem C07_confined : forall c tc f ts f' cs r,
  eok tc -> fs_parents f ->
  mkdir_trees c (dir_of tc) f ts = (f', cs, r) ->
  (forall p k, lookup p f = Some k -> lookup p f' = Some k) /\
  (forall p k, lookup p f = None -> lookup p f' = Some k ->
     (exists comps, comps <> [] /\ eok comps /\ p = pth (tc ++ comps))
     \/ (exists a, pfx a tc /\ a <> [] /\ p = pth a /\ k = KDir)).
Proof. exact mkdir_confined. Qed.
Print Assumptions C07_confined.

(* with no hypothesis on the file system at all: every new entry is comparable with the target
   (below it, or one of its prefixes) and spelled by valid elements *)
Theorem C07_never_outside : forall c tc f ts f' cs r,
  eok tc ->
  mkdir_trees c (dir_of tc) f ts = (f', cs, r) ->
  forall p k, lookup p f = None -> lookup p f' = Some k ->
    eok (comps_of p) /\ comps_of p <> [] /\
    ((cpfx (pth tc) p /\ p <> pth tc) \/ (cpfx p (pth tc) /\ k = KDir)).
Proof. exact mkdir_never_outside. Qed.
Print Assumptions C07_never_outside.

(* validation comes first: a dry run, a rejected name or path, and an existing root leave the
   file system exactly as it was, for every target string; and these are all the outcomes *)
Theorem C07_untouched : forall c dir f ts f' cs r,
  mkdir_trees c dir f ts = (f', cs, r) ->
  c_dry c = true \/ (r <> Ok tt /\ r <> Err EOs) -> f' = f.
Proof. exact mkdir_untouched. Qed.
Print Assumptions C07_untouched.

Theorem C07_outcomes : forall c dir f ts f' cs r,
  mkdir_trees c dir f ts = (f', cs, r) ->
  r = Ok tt \/ r = Err EOs \/ r = Err EExistPath \/
  (exists n, r = Err (EInvalidName n)) \/ (exists q, r = Err (EInvalidPath q)).
Proof. exact mkdir_outcomes. Qed.
Print Assumptions C07_outcomes.

(* the side condition of C07_confined is an invariant of mkdir, and holds of the empty file system *)
Theorem C07_parents_kept : forall c tc f ts f' cs r,
  eok tc -> fs_parents f -> mkdir_trees c (dir_of tc) f ts = (f', cs, r) -> fs_parents f'.
Proof. exact mkdir_keeps_parents. Qed.
Print Assumptions C07_parents_kept.

Definition s (x : string) : str := list_ascii_of_string x.
Definition rc := {| c_bf := default_bfmt; c_enc := EncDefault; c_dry := false; c_exts := []; c_noiter := false |}.
Example C07_nonvacuous :
  mkdir_trees rc (s "tgt") [(s "tgt", KDir)] [T (s "a") [T (s "..") []]] = ([(s "tgt", KDir)], [], Err (EInvalidName (s ".."))) /\
  mkdir_trees rc (s "tgt") [(s "tgt", KDir)] [T (s "a") [T (s "b") [T (s "../../esc") []]]] = ([(s "tgt", KDir)], [], Err (EInvalidName (s "../../esc"))) /\
  elem_ok (s "..") = false /\ elem_ok (s "a/b") = false /\ elem_ok (s "ok") = true.
Proof. repeat split; vm_compute; reflexivity. Qed.
