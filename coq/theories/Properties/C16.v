(* Properties/C16.v — the CLI is a faithful front end with a truthful exit status.
   urfave/cli's flag parsing is not modelled (the invocation record says what it found);
   the proofs are case analyses over the action functions -- the weight of this property
   is the correspondence run against the real binary. *)
From Coq Require Import List Ascii String.
From GT Require Import Base.GoStr Tree.Tree Tree.Gen Tree.Grower Api.Simple Fs.FsModel Fs.Mkdir Fs.Verify Api.Faults Api.Cli
  Spec.Spec Proofs.Cli.
Import ListNotations.

(* exit status 0 iff the usage is valid, the input can be opened and the library returns nil
   (with stdout as a byte-budget writer: a full device is a library error) *)
Theorem C16_exit : forall iv doc f budget,
  thd3 (run_cli iv doc f budget) = 0 <->
  usage_ok iv = true /\ input_ok iv = true /\ lib_result iv doc f budget = Ok tt.
Proof. exact exit_zero_iff. Qed.
Print Assumptions C16_exit.

Theorem C16_stdout : forall iv doc f budget,
  i_usage_error iv = false -> i_input iv = InGiven ->
  match i_cmd iv with
  | CmdOutput => forall e, i_format iv = Some (Some e) \/ (i_format iv = None /\ e = EncDefault) ->
                 fst3 (run_cli iv doc f budget) = fst (output_faulty (cli_cfg e false []) doc None budget)
  | CmdMkdir => if i_dry iv then fst3 (run_cli iv doc f budget) = fst (output_faulty (cli_cfg EncDefault true (i_exts iv)) doc None budget)
                else fst3 (run_cli iv doc f budget) = []
  | CmdVerify => fst3 (run_cli iv doc f budget) = []
  | CmdTemplate => True
  end.
Proof. exact stdout_is_library_output. Qed.
Print Assumptions C16_stdout.

(* the library's file-system effect for a real mkdir, none otherwise (mkdir --dry-run included) *)
Theorem C16_effect : forall iv doc f budget,
  snd3 (run_cli iv doc f budget) =
  match i_cmd iv, i_usage_error iv, i_input iv, i_dry iv, gen_all doc with
  | CmdMkdir, false, InGiven, false, Ok ts => fst (fst (mkdir_trees (cli_cfg EncDefault false (i_exts iv)) (i_target iv) f ts))
  | _, _, _, _, _ => f
  end.
Proof. exact fs_effect. Qed.
Print Assumptions C16_effect.

Theorem C16_codes : forall iv doc f budget,
  In (thd3 (run_cli iv doc f budget)) [0; exit_usage; exit_open; exit_output; exit_mkdir; exit_verify].
Proof. exact exit_codes. Qed.
Print Assumptions C16_codes.

(* 'gtree template | gtree output' renders the documented sample tree *)
Definition s (x : string) : str := list_ascii_of_string x.
Definition out_iv := {| i_cmd := CmdOutput; i_usage_error := false; i_format := None; i_input := InGiven;
                        i_dry := false; i_exts := []; i_target := []; i_strict := false |}.
Definition sample_tree : list tree :=
  [T (s "gtree") [T (s "cmd") [T (s "gtree") [T (s "main.go") []]];
                  T (s "testdata") [T (s "sample1.md") []; T (s "sample2.md") []];
                  T (s "Makefile") []; T (s "tree.go") []]].
Theorem C16_template :
  run_cli out_iv template_doc [] None = (render default_bfmt sample_tree, [], 0).
Proof. vm_compute. reflexivity. Qed.
Print Assumptions C16_template.

Example C16_nonvacuous :
  thd3 (run_cli out_iv (s "- a" ++ [c_lf] ++ s "  - b" ++ [c_lf] ++ s "      - c") [] None) = exit_output /\
  thd3 (run_cli {| i_cmd := CmdVerify; i_usage_error := false; i_format := None; i_input := InGiven; i_dry := false;
                   i_exts := []; i_target := []; i_strict := true |} (s "- a") [] None) = exit_verify /\
  thd3 (run_cli out_iv (s "- a") [] (Some 1)) = exit_output.
Proof. repeat split; vm_compute; reflexivity. Qed.
