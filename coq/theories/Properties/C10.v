(* Properties/C10.v — massive mode is observationally the simple mode up to the order of roots.
   Partial: (1) concurrent layer, all schedules of the LTS: the text written under the
   spreader's mutex is a sequence of complete, contiguous per-root blocks, each root at most
   once; (2) the instances come from the generated inventory; (3) sequential layer
   (Conc/Splitter.v, tied to split and rootGeneratorPipeline by the msplit/mgen correspondence):
   the splitter's blocks concatenate to the input, and on every heading-free uniform spelling
   of a forest the roots the generate workers produce are the forest's tries whatever the
   interleaving of their calls to the one shared parser.  The hypotheses `sp_heading = false`
   and the single unit of `spells` are exactly what the known findings K1 and K2 violate;
   K1-K3 are discussed in DESIGN.md.  (4) C10_massive_text composes (1) and (3): on a nil return
   the text written is the rendering of a permutation of the forest's tries.  What remains
   outside the theorems: that the grow and spread stages compute render_root of each root in
   massive mode as in simple mode (same functions in the source; tied by the correspondence),
   and the Go runtime. *)
From Coq Require Import List Arith.
From Coq Require Import Permutation.
From GT Require Import Base.GoStr Md.Parser Tree.Tree Spec.Spec Spec.Classify Spec.Spelling Conc.Splitter Proofs.GenItems Proofs.SpelledTop
  Proofs.SplitSchedule Proofs.MassiveFront Proofs.MassiveText.
From GT Require Import Conc.Pipeline Conc.Instance Conc.InstanceCheck Proofs.PipeBlocks Proofs.PipeNoLeak Proofs.PipeComplete.
From GT Require Import Tree.Grower Out.Spreader Out.Walker Api.Simple Fs.FsModel Fs.Mkdir Fs.Verify Proofs.TreeInd Proofs.GrowRender Proofs.BuildTrie Proofs.Paths Proofs.Programmable Proofs.Walk Proofs.FsBasic Proofs.MkdirExact Proofs.VerifyExact Proofs.RootOrder.
Import ListNotations.

(* whatever the schedule: the log of the locking sink is a concatenation of complete blocks of
   pairwise distinct items (roots) followed by the prefix of the block being written by the
   one worker that holds the mutex *)
Theorem C10_blocks : forall p s d,
  reach p s -> NoDup (p_items p) -> sinkd p = Some d ->
  exists done cur,
    st_log s = flat_map (block d) done ++ cur /\ NoDup done /\ incl done (p_items p) /\
    ((cur = [] /\ no_crit (sink_pool p s)) \/
     (exists i k, In (WCrit i k) (sink_pool p s) /\ cur = partial i k /\ ~ In i done)).
Proof. exact log_is_blocks. Qed.
Print Assumptions C10_blocks.

(* when every goroutine has returned only complete blocks remain: the output is a permutation
   of a sub-multiset of the per-root blocks, each contiguous and intact *)
Theorem C10_blocks_final : forall p s d,
  reach p s -> quiescent s -> NoDup (p_items p) -> sinkd p = Some d ->
  exists done, st_log s = flat_map (block d) done /\ NoDup done /\ incl done (p_items p).
Proof. exact quiescent_log_blocks. Qed.
Print Assumptions C10_blocks_final.

(* mutual exclusion of the critical section, every schedule *)
Theorem C10_mutex : forall p s, reach p s -> forall n t, nth_error (st_stages s) n = Some t ->
  forall l1 i k l2, s_ws t = l1 ++ WCrit i k :: l2 -> no_crit l1 /\ no_crit l2.
Proof. exact at_most_one_crit. Qed.
Print Assumptions C10_mutex.

(* every item (root) is held by at most one goroutine and written at most once *)
Theorem C10_items_unique : forall p s, reach p s -> NoDup (p_items p) ->
  exists done, NoDup (st_pending s ++ held s ++ done) /\ incl (st_pending s ++ held s ++ done) (p_items p).
Proof. exact items_unique. Qed.
Print Assumptions C10_items_unique.

(* NOTHING IS LOST on a nil return, whatever the schedule: the text written is exactly one
   complete block per item (root), in some order; the call has returned nil only if no item
   fails at any stage and the source did not fail; and every goroutine has already finished *)
Theorem C10_nil_return_complete : forall p s d,
  reach p s -> st_main s = Some None -> sinkd p = Some d -> d_lock d = true ->
  exists done, st_log s = flat_map (block d) done /\ Permutation done (p_items p).
Proof. exact nil_return_log_complete. Qed.
Print Assumptions C10_nil_return_complete.

Theorem C10_nil_return_nothing_in_flight : forall p s, reach p s -> st_main s = Some None ->
  st_pending s = [] /\ held s = [] /\ errs s = [] /\ st_first_err s = None.
Proof. exact nil_return_all_items_through. Qed.
Print Assumptions C10_nil_return_nothing_in_flight.

Theorem C10_nil_return_no_failure : forall p s, reach p s -> st_main s = Some None ->
  forall n d i, nth_error (p_stages p) n = Some d -> In i (p_items p) -> d_fails d i = false.
Proof. exact nil_return_no_failure. Qed.
Print Assumptions C10_nil_return_no_failure.

(* error iff error: a returned error is justified by the scenario (the source's error, an item
   that fails at that stage, or the caller's cancellation), and a faultless uncancellable
   scenario can only return nil *)
Theorem C10_error_return_exact : forall p s e, reach p s -> st_main s = Some (Some e) ->
  match e with
  | ESrc => p_src_err p = true
  | EStage n i => fails_at p n i
  | ECtx => st_ucancel s = true /\ p_user_may_cancel p = true
  end.
Proof. exact error_return_exact. Qed.
Print Assumptions C10_error_return_exact.

Theorem C10_faultless_returns_nil : forall p s r,
  reach p s -> st_main s = Some r ->
  p_src_err p = false -> p_user_may_cancel p = false ->
  (forall n d i, nth_error (p_stages p) n = Some d -> In i (p_items p) -> d_fails d i = false) ->
  r = None.
Proof. exact faultless_returns_nil. Qed.
Print Assumptions C10_faultless_returns_nil.

(* the splitter loses, adds and reorders nothing: its blocks concatenate to the rows *)
Theorem C10_split_concat : forall rows, concat (split_rows rows) = rows.
Proof. exact split_concat. Qed.
Print Assumptions C10_split_concat.

(* blocks that each spell their own items in one common unit: the parse results every worker
   sees for its block do not depend on how the workers' calls to the shared parser interleave *)
Theorem C10_schedule_independent : forall u bs its,
  Forall2 (block_spelled u) bs its ->
  forall sched, interleave bs sched ->
  results_by_block (List.length bs) (run_sched p0 sched)
  = results_by_block (List.length bs) (run_sched p0 (seq_sched bs)).
Proof. exact results_schedule_independent. Qed.
Print Assumptions C10_schedule_independent.

(* down to the bytes: on any heading-free spelling of a forest the splitter sends split_rows of
   the rows, every worker cutting its block into lines gets its rows back, and under EVERY interleaving
   the roots are the forest's tries (in block order; as a multiset in any completion order),
   i.e. what simple mode produces for the same bytes (C01_text_rule) *)
Theorem C10_front_end : forall sp f,
  spells sp f -> sp_heading sp = false ->
  let rows := map fst (sp_rows sp) in
  split_doc (bytes_of sp) = (map block_bytes (split_rows rows), true) /\
  Forall (fun b => block_lines (block_bytes b) = b) (split_rows rows) /\
  forall sched, interleave (split_rows rows) sched ->
    roots_of (results_by_block (List.length (split_rows rows)) (run_sched p0 sched)) = map trie_of f /\
    forall order, Permutation order (seq 0 (List.length (split_rows rows))) ->
      Permutation (roots_of (map (fun j => block_result j (run_sched p0 sched)) order)) (map trie_of f).
Proof. exact massive_front_end. Qed.
Print Assumptions C10_front_end.

(* THE ORDER OF ROOTS IS IRRELEVANT to the sequential semantics of every operation: for every
   permutation of the roots (= every completion order of massive mode's per-root work), verify gives
   nil iff the sequential order does and otherwise reports exactly some differing root; mkdir (in the
   success case of C06) succeeds with the same file system as a finite map; the walk's per-root visit
   blocks and the text's per-root blocks are permutations of the sequential ones, each intact.
   (On a failing mkdir the partial result does depend on the order: RootOrder.mkdir_failure_depends_on_order;
   that is K3's territory.) *)
Theorem C10_root_order_irrelevant : forall bf exts tc ts ts' f,
  Permutation ts ts' ->
  let gs := map (grow_root bf) ts in
  let gs' := map (grow_root bf) ts' in
  (forall strict target fv,
     (verifier strict target fv gs' = Ok tt <-> verifier strict target fv gs = Ok tt) /\
     (forall e m, verifier strict target fv gs' = Err (EVerify e m) ->
        exists g, In g gs /\ verify_root strict target fv g = VFail e m) /\
     (verifier strict target fv gs' = Err EOs ->
        exists g, In g gs /\ verify_root strict target fv g = VErr)) /\
  (eok tc -> acc tc ->
   Forall (fun t => Forall name_ok (tnames t)) ts -> all_nodup ts -> NoDup (map tname ts) ->
   fs_ok f ->
   (forall t, In t ts -> stat f (tjoin (pth tc) (tname t)) = StNone) ->
   exists f1 f2,
     mkdirer exts (dir_of tc) f gs = (f1, Ok tt) /\
     mkdirer exts (dir_of tc) f gs' = (f2, Ok tt) /\
     (forall p, lookup p f1 = lookup p f2) /\
     (forall p, In p (map fst f1) <-> In p (map fst f2)) /\
     Permutation f1 f2 /\
     fs_ok f1 /\ fs_ok f2 /\
     (forall strict, verifier strict (pth tc) f2 gs = Ok tt) /\
     (forall strict, verifier strict (pth tc) f1 gs' = Ok tt)) /\
  (visits_of gs' = concat (map (fun g => visits_of [g]) gs') /\
   Permutation (map (fun g => visits_of [g]) gs') (map (fun g => visits_of [g]) gs)) /\
  (render bf ts' = concat (map (render_root bf) ts') /\
   Permutation (map (render_root bf) ts') (map (render_root bf) ts)).
Proof. exact root_order_irrelevant. Qed.
Print Assumptions C10_root_order_irrelevant.

(* THE TWO LAYERS COMPOSED, down to the text: for every heading-free spelling of a forest,
   every interleaving of the generate workers' parse calls, and every schedule of a pipeline
   whose items are the blocks that produced a root and whose locking sink writes the lines of
   the rendering of each root: when the call returns nil, the text written (the log, each entry
   read as that line of that root's rendering) is the rendering of a permutation of the
   forest's tries -- a permutation of the per-root blocks of simple mode's output for the same
   bytes (C01_text_rule), each block contiguous and intact, none missing, none twice *)
Theorem C10_massive_text : forall bf sp f sched p s d,
  spells sp f -> sp_heading sp = false ->
  let bs := split_rows (map fst (sp_rows sp)) in
  interleave bs sched ->
  let res := fun j => block_result j (run_sched p0 sched) in
  let txt := fun j => match res j with BRoot (Some t) => render_root bf t | _ => [] end in
  p_items p = filter (fun j => has_root (res j)) (seq 0 (List.length bs)) ->
  sinkd p = Some d -> d_lock d = true ->
  (forall j, d_lines d j = List.length (lines_of (txt j))) ->
  reach p s -> st_main s = Some None ->
  exists f', Permutation f' (map trie_of f) /\ log_text txt (st_log s) = render bf f'.
Proof. exact massive_text_is_block_permutation. Qed.
Print Assumptions C10_massive_text.

(* the hypotheses are satisfiable: a two-root heading-free spelling with a blank row, its blocks,
   the sequential schedule, and the text-output instance of the CURRENT source with these items *)
From Coq Require Import String.
Definition s10 (x : string) : str := list_ascii_of_string x.
Local Open Scope string_scope.
Definition f10 : list tree := [T (s10 "r") [T (s10 "a") []]; T (s10 "q") []].
Definition sp10 : spelling :=
  {| sp_unit := USp 1; sp_heading := false;
     sp_rows := [(s10 "- r", false); ([c_sp], true); (s10 "  * a", false); (s10 "+ q", false)];
     sp_final_newline := true |}.
Example C10_spells_nonvacuous :
  spells sp10 f10 /\
  split_rows (map fst (sp_rows sp10)) = [[s10 "- r"; [c_sp]; s10 "  * a"]; [s10 "+ q"]] /\
  interleave (split_rows (map fst (sp_rows sp10))) (seq_sched (split_rows (map fst (sp_rows sp10)))) /\
  filter (fun j => has_root (block_result j (run_sched p0 (seq_sched (split_rows (map fst (sp_rows sp10)))))))
         (seq 0 2) = [0; 1] /\
  match md_params SinkText false [0; 1] false false (fun _ => false) (fun _ => false) (fun _ => false) (fun j => 2 - j) with
  | Some p => p_items p = [0; 1] /\ exists d, sinkd p = Some d /\ d_lock d = true /\ d_lines d 0 = 2 /\ d_lines d 1 = 1
  | None => False
  end.
Proof.
  split; [|split; [|split; [|split]]].
  - unfold spells. split; [|split; [|split]].
    + repeat constructor; cbn; try discriminate; intros; try discriminate.
    + cbn [sp_rows sp_unit sp_heading map fst forest_items flat_map preorder_d f10 app tname].
      apply rows_item; [refine (row_item (USp 1) false 1 (s10 "r") c_hy eq_refl _ _); [repeat constructor|intros; discriminate]|].
      apply rows_blank; [reflexivity|].
      apply rows_item; [refine (row_item (USp 1) false 2 (s10 "a") c_as eq_refl _ _); [repeat constructor|intros; discriminate]|].
      apply rows_item; [refine (row_item (USp 1) false 1 (s10 "q") c_pl eq_refl _ _); [repeat constructor|intros; discriminate]|].
      apply rows_nil.
    + repeat constructor; cbn; try (intros [H|H]; try discriminate; repeat (destruct H as [H|H]; try discriminate); try contradiction); try discriminate; try reflexivity.
    + intros H. discriminate H.
  - vm_compute. reflexivity.
  - apply interleave_seq_sched.
  - vm_compute. reflexivity.
  - destruct (md_params SinkText false [0; 1] false false (fun _ => false) (fun _ => false) (fun _ => false) (fun j => 2 - j)) as [p|] eqn:E;
      [|vm_compute in E; discriminate].
    vm_compute in E. inversion E. subst p. split; [reflexivity|]. eexists. repeat split; reflexivity.
Qed.

Example C10_nonvacuous :
  match md_params SinkText false [0; 1; 2] false false (fun _ => false) (fun _ => false) (fun _ => false) (fun i => S i) with
  | Some p => (exists d, sinkd p = Some d /\ d_lock d = true) /\ NoDup (p_items p)
  | None => False
  end.
Proof.
  destruct (md_params SinkText false [0; 1; 2] false false (fun _ => false) (fun _ => false) (fun _ => false) (fun i => S i)) as [p|] eqn:E;
    [|vm_compute in E; discriminate].
  vm_compute in E. inversion E. subst p. split.
  - eexists. split; reflexivity.
  - repeat constructor; cbn; intuition discriminate.
Qed.
