(* Properties/C10.v — massive mode is observationally the simple mode up to the order of roots.
   Partial: (1) concurrent layer, all schedules of the LTS: the text written under the
   spreader's mutex is a sequence of complete, contiguous per-root blocks, each root at most
   once; (2) the instances come from the generated inventory.  The sequential layer (the
   splitter's blocks are the root blocks; the shared parser is schedule-insensitive on uniform
   heading-free documents) and the known findings K1-K3 are discussed in DESIGN.md. *)
From Coq Require Import List Arith.
From GT Require Import Conc.Pipeline Conc.Instance Conc.InstanceCheck Proofs.PipeBlocks Proofs.PipeNoLeak.
Import ListNotations.

(* whatever the schedule: the log of the locking sink is a concatenation of complete blocks of
   pairwise distinct items (roots) followed by the prefix of the block being written by the
   one worker that holds the mutex *)
Theorem C10_blocks : forall p s d,
  reach p s -> NoDup (p_items p) -> sinkd p = Some d ->
  exists done cur,
    st_log s = flat_map (block d) done ++ cur /\ NoDup done /\ incl done (p_items p) /\
    ((cur = [] /\ no_crit (sink_pool p s)) \/
     (exists i k, In (WCrit i k) (sink_pool p s) /\ cur = partial i k /\ ~ In i done)).
Proof. exact log_is_blocks. Qed.
Print Assumptions C10_blocks.

(* when every goroutine has returned only complete blocks remain: the output is a permutation
   of a sub-multiset of the per-root blocks, each contiguous and intact *)
Theorem C10_blocks_final : forall p s d,
  reach p s -> quiescent s -> NoDup (p_items p) -> sinkd p = Some d ->
  exists done, st_log s = flat_map (block d) done /\ NoDup done /\ incl done (p_items p).
Proof. exact quiescent_log_blocks. Qed.
Print Assumptions C10_blocks_final.

(* mutual exclusion of the critical section, every schedule *)
Theorem C10_mutex : forall p s, reach p s -> forall n t, nth_error (st_stages s) n = Some t ->
  forall l1 i k l2, s_ws t = l1 ++ WCrit i k :: l2 -> no_crit l1 /\ no_crit l2.
Proof. exact at_most_one_crit. Qed.
Print Assumptions C10_mutex.

(* every item (root) is held by at most one goroutine and written at most once *)
Theorem C10_items_unique : forall p s, reach p s -> NoDup (p_items p) ->
  exists done, NoDup (st_pending s ++ held s ++ done) /\ incl (st_pending s ++ held s ++ done) (p_items p).
Proof. exact items_unique. Qed.
Print Assumptions C10_items_unique.

Example C10_nonvacuous :
  match md_params SinkText false [0; 1; 2] false false (fun _ => false) (fun _ => false) (fun _ => false) (fun i => S i) with
  | Some p => (exists d, sinkd p = Some d /\ d_lock d = true) /\ NoDup (p_items p)
  | None => False
  end.
Proof.
  destruct (md_params SinkText false [0; 1; 2] false false (fun _ => false) (fun _ => false) (fun _ => false) (fun i => S i)) as [p|] eqn:E;
    [|vm_compute in E; discriminate].
  vm_compute in E. inversion E. subst p. split.
  - eexists. split; reflexivity.
  - repeat constructor; cbn; intuition discriminate.
Qed.
