(* Properties/C04.v — JSON/YAML/TOML outputs are isomorphic to the tree (structure part). *)
From Coq Require Import List Ascii String.
From GT Require Import Base.GoStr Tree.Tree Out.Formatted Spec.JsonParse Api.Simple Proofs.Formatted Proofs.NoPanic Proofs.JsonRoundTrip.
Import ListNotations.

(* the child-by-child copy into json/yaml/toml structs (setChild + positional getChild)
   never indexes out of range and yields the same names, child order and nesting, for
   every tree shape and every name *)
Theorem C04_structure : forall t, formatted t = Ok (fnode_of t).
Proof. exact formatted_ok. Qed.
Print Assumptions C04_structure.

(* one Encode call per root, in input order, on exactly that value (any encoder) *)
Theorem C04_stream : forall e gs, exists cs, enc_chunks e gs = Ok cs.
Proof. exact enc_chunks_ok. Qed.
Print Assumptions C04_stream.

(* JSON: the output parses under an RFC 8259 parser for this record shape (Spec/JsonParse.v:
   all escapes incl. \\uXXXX, null and [] both meaning "no children") back into exactly the
   forest, one value per line in input order, for all names that are valid UTF-8 *)
Theorem C04_json_roundtrip : forall fs, Forall names_utf8 fs ->
  parse_lines (List.concat (map json_line fs)) = Some fs.
Proof. exact json_lines_roundtrip. Qed.
Print Assumptions C04_json_roundtrip.

Theorem C04_json_string_roundtrip : forall n rest, utf8_valid n = true ->
  parse_string (json_str n ++ rest) = Some (n, rest).
Proof. exact json_string_roundtrip. Qed.
Print Assumptions C04_json_string_roundtrip.

(* YAML / TOML: the encoders (yaml.v3, go-toml) are opaque.  Under the hypothesis that a decoder
   inverts the encoder on these records, the stream handed to the encoder decodes to the forest *)
Section ThirdPartyEncoders.
  Variable enc : fnode -> str.
  Variable dec : str -> option fnode.
  Hypothesis dec_enc : forall f, dec (enc f) = Some f.
  Theorem C04_yaml_toml_partial : forall t, exists f, formatted t = Ok f /\ dec (enc f) = Some (fnode_of t).
  Proof. intros t. exists (fnode_of t). split; [apply formatted_ok|apply dec_enc]. Qed.
End ThirdPartyEncoders.
Print Assumptions C04_yaml_toml_partial.

Definition s (x : string) : str := list_ascii_of_string x.
Example C04_nonvacuous :
  formatted (T (s "r") [T (s "a: b") [T (s "#c") []]; T (s """q""") []]) =
  Ok (F (s "r") [F (s "a: b") [F (s "#c") []]; F (s """q""") []]) /\
  json_line (F (s "r") [F (s "<a>") []]) = s "{""value"":""r"",""children"":[{""value"":""\u003ca\u003e"",""children"":null}]}" ++ [c_lf].
Proof. split; vm_compute; reflexivity. Qed.
