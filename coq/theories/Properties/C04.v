(* Properties/C04.v — JSON/YAML/TOML outputs are isomorphic to the tree (structure part). *)
From Coq Require Import List Ascii String.
From GT Require Import Base.GoStr Tree.Tree Out.Formatted Api.Simple Proofs.Formatted Proofs.NoPanic.
Import ListNotations.

(* the child-by-child copy into json/yaml/toml structs (setChild + positional getChild)
   never indexes out of range and yields the same names, child order and nesting, for
   every tree shape and every name *)
Theorem C04_structure : forall t, formatted t = Ok (fnode_of t).
Proof. exact formatted_ok. Qed.
Print Assumptions C04_structure.

(* one Encode call per root, in input order, on exactly that value (any encoder) *)
Theorem C04_stream : forall e gs, exists cs, enc_chunks e gs = Ok cs.
Proof. exact enc_chunks_ok. Qed.
Print Assumptions C04_stream.

Definition s (x : string) : str := list_ascii_of_string x.
Example C04_nonvacuous :
  formatted (T (s "r") [T (s "a: b") [T (s "#c") []]; T (s """q""") []]) =
  Ok (F (s "r") [F (s "a: b") [F (s "#c") []]; F (s """q""") []]) /\
  json_line (F (s "r") [F (s "<a>") []]) = s "{""value"":""r"",""children"":[{""value"":""\u003ca\u003e"",""children"":null}]}" ++ [c_lf].
Proof. split; vm_compute; reflexivity. Qed.
