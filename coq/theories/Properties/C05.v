(* Properties/C05.v — walk visits the rendered tree: same nodes, same order, consistent facts. *)
From Coq Require Import List Ascii String.
From GT Require Import Base.GoStr Tree.Tree Tree.Grower Out.Spreader Out.Walker Spec.Spec Api.Simple Proofs.Paths Proofs.Walk Proofs.SpelledTop Proofs.Extras.
Import ListNotations.

(* every node once, in pre-order, with exactly the facts of the top-down specification
   (Branch, Row, Level, Path = names joined by '/', HasChild), for all forests whose names
   are single path elements and all four branch strings *)
Theorem C05_visits : forall bf ts, all_names_ok ts ->
  visits_of (map (grow_root bf) ts) = spec_visits bf ts.
Proof. exact visits_forest. Qed.
Print Assumptions C05_visits.

(* for ALL names: the Rows, each followed by a newline, are the text output *)
Theorem C05_rows_are_lines : forall g,
  text_of g = List.concat (map (fun v => v_row v ++ [c_lf]) (visits_of [g])).
Proof. exact rows_are_lines. Qed.
Print Assumptions C05_rows_are_lines.

Theorem C05_visit_facts : forall d g,
  v_name (visit_of d g) = gname g /\ v_level (visit_of d g) = d /\
  v_haschild (visit_of d g) = negb (is_nil (gkids g)) /\
  v_row (visit_of d g) = (if Nat.eqb d 1 then gname g else v_branch (visit_of d g) ++ [c_sp] ++ gname g).
Proof. exact visit_facts. Qed.
Print Assumptions C05_visit_facts.

(* the callback is an arbitrary function of the visit index: the walk makes exactly the
   visits up to and including the first failing one and returns that error; no failure:
   all nodes and nil *)
Theorem C05_first_error_stops : forall cb gs,
  walk cb gs =
  match first_fail cb 0 (List.length (visits_of gs)) with
  | Some k => (firstn (S k) (visits_of gs), Err (ECallback k))
  | None => (visits_of gs, Ok tt)
  end.
Proof. exact walk_prefix. Qed.
Print Assumptions C05_first_error_stops.

(* leaving the iterator after visit k: exactly visits 0..k (definitional in the model:
   walk_iter (Some k) g = firstn (k+1) of the same visit list) *)
Theorem C05_iter_break : forall k g, walk_iter (Some k) g = firstn (S k) (visits_of [g]).
Proof. reflexivity. Qed.
Print Assumptions C05_iter_break.

(* from the bytes: walking ANY spelling of a forest visits the specification's visit list of
   the forest's tries, up to and including the first visit whose callback fails *)
Theorem C05_walk_spelled : forall bf cb sp f,
  spells sp f -> all_names_ok (map trie_of f) ->
  walk_md (walk_cfg bf) cb (bytes_of sp) =
  match first_fail cb 0 (List.length (spec_visits bf (map trie_of f))) with
  | Some k => (firstn (S k) (spec_visits bf (map trie_of f)), Err (ECallback k))
  | None => (spec_visits bf (map trie_of f), Ok tt)
  end.
Proof. exact walk_spelled. Qed.
Print Assumptions C05_walk_spelled.

Definition s (x : string) : str := list_ascii_of_string x.
Definition t1 := T (s "r") [T (s "a") [T (s "x") []]; T (s "b") []].
Example C05_nonvacuous :
  all_names_ok [t1] /\
  map v_path (visits_of [grow_root default_bfmt t1]) = [s "r"; s "r/a"; s "r/a/x"; s "r/b"] /\
  walk (fun i => Nat.eqb i 2) [grow_root default_bfmt t1] =
    (firstn 3 (visits_of [grow_root default_bfmt t1]), Err (ECallback 2)).
Proof. repeat split; vm_compute; reflexivity. Qed.
