(* Properties/C03.v — programmatically built trees behave like the equivalent Markdown. *)
From Coq Require Import List Ascii String.
From GT Require Import Base.GoStr Md.Parser Tree.Tree Tree.Gen Tree.Grower Api.Simple Fs.FsModel Api.Programmable Spec.Spec
  Spec.Spelling Proofs.GenItems Proofs.Programmable Proofs.SpelledTop.
Import ListNotations.

(* every tree reachable through any sequence of NewRoot / Add (and any other operations in
   between) has pairwise distinct sibling names: Add never creates a duplicate *)
Theorem C03_add_never_duplicates : forall ops w, world_ok w ->
  forall t h, root_of (fold_left (fun w o => fst (pstep w o)) ops w) h = Ok t -> nodup_sib t.
Proof. exact world_ok_run. Qed.
Print Assumptions C03_add_never_duplicates.

(* adding a name that already exists under a parent returns the existing child, tree unchanged *)
Theorem C03_add_idempotent : forall pp nm t par i,
  get_at pp t = Some par -> find_idx nm (tkids par) = Some i -> attach pp nm t = Some (t, pp ++ [i]).
Proof. exact add_existing. Qed.
Print Assumptions C03_add_idempotent.

(* OutputFromRoot (text with any branch strings, JSON/YAML/TOML) = OutputFromMarkdown on any
   document whose rows read as the pre-order items of that tree, both routes: same writes
   (same Encode calls for the opaque encoders) and same returned value *)
Theorem C03_output : forall c input rows t st',
  c_dry c = false ->
  scan_lines input = (rows, ScanEOF) -> parses p0 rows (forest_items [t]) st' -> nodup_sib t ->
  output_md c input = output_root c t.
Proof. exact output_root_is_output_md. Qed.
Print Assumptions C03_output.

Theorem C03_walk : forall c cb input rows t st',
  c_dry c = false ->
  scan_lines input = (rows, ScanEOF) -> parses p0 rows (forest_items [t]) st' -> nodup_sib t ->
  walk_md c cb input = walk_root (c_bf c) cb t.
Proof. exact walk_root_is_walk_md. Qed.
Print Assumptions C03_walk.

(* mkdir (real and dry-run) and verify: same result, same printed report, same file system *)
Theorem C03_mkdir : forall w h c dir input rows t st',
  root_of w (Some h) = Ok t ->
  scan_lines input = (rows, ScanEOF) -> parses p0 rows (forest_items [t]) st' -> nodup_sib t ->
  pstep w (PMdMkdir c dir input) = pstep w (PMkdir (Some h) c dir).
Proof. exact mkdir_root_is_mkdir_md. Qed.
Print Assumptions C03_mkdir.

Theorem C03_verify : forall w h c strict dir input rows t st',
  root_of w (Some h) = Ok t ->
  scan_lines input = (rows, ScanEOF) -> parses p0 rows (forest_items [t]) st' -> nodup_sib t ->
  pstep w (PMdVerify c strict dir input) = pstep w (PVerify (Some h) c strict dir).
Proof. exact verify_root_is_verify_md. Qed.
Print Assumptions C03_verify.

(* THE EQUIVALENCE AT FULL STRENGTH: for ANY spelling (Spec/Spelling.v) of an Add-built tree *)
Theorem C03_equiv : forall sp t, spells sp [t] -> nodup_sib t ->
  (forall c, c_dry c = false -> output_md c (bytes_of sp) = output_root c t) /\
  (forall c cb, c_dry c = false -> walk_md c cb (bytes_of sp) = walk_root (c_bf c) cb t) /\
  (forall w h c d, root_of w (Some h) = Ok t -> pstep w (PMdMkdir c d (bytes_of sp)) = pstep w (PMkdir (Some h) c d)) /\
  (forall w h c s d, root_of w (Some h) = Ok t -> pstep w (PMdVerify c s d (bytes_of sp)) = pstep w (PVerify (Some h) c s d)).
Proof. exact root_equals_markdown. Qed.
Print Assumptions C03_equiv.

(* a nil node is rejected with ErrNilNode, a non-root node with ErrNotRoot; the world (trees,
   file system) is unchanged and nothing is written *)
Theorem C03_guard_nil : forall w o,
  (exists c, o = POutput None c) \/ (exists bf f, o = PWalk None bf f) \/ (exists bf b, o = PWalkIter None bf b) \/
  (exists c d, o = PMkdir None c d) \/ (exists c s d, o = PVerify None c s d) ->
  fst (pstep w o) = w /\
  (snd (pstep w o) = OOutput [] (Err ENilNode) \/ snd (pstep w o) = OWalk [] (Err ENilNode) \/
   snd (pstep w o) = OFs [] (Err ENilNode) (w_fs w)).
Proof. exact guards. Qed.
Print Assumptions C03_guard_nil.

Theorem C03_guard_not_root : forall w h tid p0' rest o,
  nth_error (w_handles w) h = Some (tid, p0' :: rest) ->
  (exists c, o = POutput (Some h) c) \/ (exists bf f, o = PWalk (Some h) bf f) \/ (exists bf b, o = PWalkIter (Some h) bf b) \/
  (exists c d, o = PMkdir (Some h) c d) \/ (exists c s d, o = PVerify (Some h) c s d) ->
  fst (pstep w o) = w /\
  (snd (pstep w o) = OOutput [] (Err ENotRoot) \/ snd (pstep w o) = OWalk [] (Err ENotRoot) \/
   snd (pstep w o) = OFs [] (Err ENotRoot) (w_fs w)).
Proof. exact guard_not_root. Qed.
Print Assumptions C03_guard_not_root.

(* deprecated aliases are the same functions in the model (their bodies are textually
   identical in tree_handler*.go); their identity is tied by the correspondence run only *)

Definition s (x : string) : str := list_ascii_of_string x.
Definition ops1 := [PNewRoot (s "r"); PAdd 0 (s "a"); PAdd 1 (s "x"); PAdd 0 (s "b"); PAdd 0 (s "a"); PAdd 4 (s "y")].
Definition doc1 : str := s "- r" ++ [c_lf] ++ s "  - a" ++ [c_lf] ++ s "    - x" ++ [c_lf] ++ s "    - y" ++ [c_lf] ++ s "  - b" ++ [c_lf].
Definition tc (e : encode) := {| c_bf := default_bfmt; c_enc := e; c_dry := false; c_exts := []; c_noiter := false |}.
Example C03_nonvacuous :
  let w := fold_left (fun w o => fst (pstep w o)) ops1 world0 in
  root_of w (Some 0) = Ok (T (s "r") [T (s "a") [T (s "x") []; T (s "y") []]; T (s "b") []]) /\
  snd (pstep w (POutput (Some 0) (tc EncDefault))) = OOutput (fst (output_md (tc EncDefault) doc1)) (Ok tt) /\
  snd (pstep w (POutput (Some 0) (tc EncJSON))) = OOutput (fst (output_md (tc EncJSON) doc1)) (Ok tt).
Proof. repeat split; vm_compute; reflexivity. Qed.
