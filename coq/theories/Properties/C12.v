(* Properties/C12.v — no input can crash the library.  The model returns Panic exactly
   where the Go code would (nil/dangling node, index out of range); these theorems say
   Panic is unreachable for EVERY byte string and EVERY option combination.  Termination
   is by construction: every model function is structurally recursive. *)
From Coq Require Import List Ascii String.
From GT Require Import Base.GoStr Md.Parser Tree.Tree Tree.Gen Api.Simple Api.Programmable Api.Faults Api.Wasm Proofs.NoPanic Proofs.Extras.
From GT Require Import Conc.Splitter Proofs.WorkerNoPanic.
Import ListNotations.

Theorem C12_no_panic_output : forall c input, snd (output_md c input) <> Panic.
Proof. exact output_md_no_panic. Qed.
Print Assumptions C12_no_panic_output.

(* also with a reader that fails after any number of bytes *)
Theorem C12_no_panic_output_faulty_reader : forall c input k, snd (output_md_r c input k) <> Panic.
Proof. exact output_md_r_no_panic. Qed.
Print Assumptions C12_no_panic_output_faulty_reader.

Theorem C12_no_panic_walk : forall c cb input, snd (walk_md c cb input) <> Panic.
Proof. exact walk_md_no_panic. Qed.
Print Assumptions C12_no_panic_walk.

Theorem C12_no_panic_wasm : forall c input, snd (wasm_output c input) <> Panic.
Proof. exact wasm_output_no_panic. Qed.
Print Assumptions C12_no_panic_wasm.

(* mkdir and verify from Markdown never panic either, in any file-system state *)
Theorem C12_no_panic_fs : forall w c strict dir doc,
  out_panics (snd (pstep w (PMdMkdir c dir doc))) = false /\
  out_panics (snd (pstep w (PMdVerify c strict dir doc))) = false.
Proof. exact md_fs_ops_no_panic. Qed.
Print Assumptions C12_no_panic_fs.

(* massive mode's generate worker (Conc/Splitter.v) never panics either: whatever the rows of its block, whatever
   the state of the shared parser and whatever the interleaving with the other workers *)
Theorem C12_no_panic_massive_worker : forall st sched j, block_result j (run_sched st sched) <> BPanic.
Proof. exact run_sched_no_panic. Qed.
Print Assumptions C12_no_panic_massive_worker.

Theorem C12_no_panic_massive_block : forall block, gen_block block <> BPanic.
Proof. exact gen_block_no_panic. Qed.
Print Assumptions C12_no_panic_massive_block.

(* empty or blank-only input: empty output and nil, every option combination *)
Theorem C12_blank : forall c input rows,
  scan_lines input = (rows, ScanEOF) ->
  Forall (fun r => all_space r = true) rows ->
  exists cs, output_md c input = (cs, Ok tt) /\ chunk_bytes cs = [].
Proof. exact blank_output. Qed.
Print Assumptions C12_blank.

(* an over-long line (or a failing reader) is an error, never nil *)
Theorem C12_scan_failure : forall c input k rows e,
  scan_lines_r input k = (rows, e) -> e <> ScanEOF ->
  exists er, snd (output_md_r c input k) = Err er.
Proof. exact scan_failure_reported. Qed.
Print Assumptions C12_scan_failure.

Definition s (x : string) : str := list_ascii_of_string x.
Example C12_nonvacuous :
  output_md {| c_bf := Tree.Grower.default_bfmt; c_enc := EncDefault; c_dry := false; c_exts := []; c_noiter := false |} [] = ([], Ok tt) /\
  snd (output_md {| c_bf := Tree.Grower.default_bfmt; c_enc := EncJSON; c_dry := false; c_exts := []; c_noiter := false |}
        (s "  - a")) = Err ENilStack /\
  fst (scan_lines (s " " ++ [c_lf] ++ [c_tab])) <> [].
Proof. repeat split; vm_compute; congruence. Qed.
