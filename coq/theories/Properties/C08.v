(* Properties/C08.v — verify reports exactly the differences. *)
From Coq Require Import List Ascii String.
From GT Require Import Base.GoStr Tree.Tree Tree.Grower Api.Simple Fs.FsModel Fs.Mkdir Fs.Verify Api.Programmable Spec.Spec
  Proofs.Paths Proofs.FsBasic Proofs.Programmable Proofs.MkdirExact Proofs.SpelledTop Proofs.VerifyExact.
Import ListNotations.

(* per root: nil iff every node path exists and, in strict mode, nothing else exists beneath it *)
Theorem C08_iff_root : forall strict target f g,
  stat f (tjoin target (gpath g)) = StDir \/ stat f (tjoin target (gpath g)) = StFile ->
  (verify_root strict target f g = VPass <->
   (forall p, In p (md_paths target g) -> In p (entries_under f (tjoin target (gpath g)))) /\
   (strict = true -> forall p, In p (entries_under f (tjoin target (gpath g))) -> In p (md_paths target g))).
Proof. exact verify_root_pass_iff. Qed.
Print Assumptions C08_iff_root.

(* every listed path is a true difference: missing ones are node paths that do not exist,
   extra ones (strict only) exist beneath the root and are no node path *)
Theorem C08_sound : forall strict target f g e m,
  verify_root strict target f g = VFail e m ->
  (forall p, In p m -> In p (md_paths target g) /\ ~ In p (entries_under f (tjoin target (gpath g)))
                       \/ stat f (tjoin target (gpath g)) = StNone) /\
  (forall p, In p e -> strict = true /\ In p (entries_under f (tjoin target (gpath g))) /\ ~ In p (md_paths target g)).
Proof. exact verify_root_lists. Qed.
Print Assumptions C08_sound.

(* EXACTLY the differences, for one root: the missing list is the node paths (pre-order) that are
   no entry beneath the root, the extra list (strict only) the entries beneath the root that are no
   node path, in walk order; for an absent root every node path is missing and nothing is extra *)
Theorem C08_root_exact : forall strict target f g e m,
  verify_root strict target f g = VFail e m <->
  (stat f (rootp target g) = StNone /\ e = [] /\ m = md_paths target g) \/
  (root_exists f (rootp target g) /\ m = missing_of target f g /\
   e = (if strict then extra_of target f g else []) /\ (m <> [] \/ e <> [])).
Proof. exact verify_root_fail_exact. Qed.
Print Assumptions C08_root_exact.

(* the forest: nil iff every root matches; otherwise the error is that of the FIRST root that
   differs, with exactly its lists (a Stat failure other than "does not exist" is an OS error) *)
Theorem C08_exact : forall strict target f gs,
  (verifier strict target f gs = Ok tt <-> forall g, In g gs -> root_matches strict target f g) /\
  (verifier strict target f gs <> Ok tt ->
   exists gs1 g gs2, gs = gs1 ++ g :: gs2 /\ (forall g', In g' gs1 -> root_matches strict target f g') /\
     ~ root_matches strict target f g /\
     verifier strict target f gs = match stat f (rootp target g) with
       | StErr => Err EOs
       | StNone => Err (EVerify [] (md_paths target g))
       | _ => Err (EVerify (if strict then extra_of target f g else []) (missing_of target f g)) end).
Proof. exact verifier_exact. Qed.
Print Assumptions C08_exact.

(* the entry points, From-Root and From-Markdown (every spelling of a forest): names are validated
   first, the world is unchanged, and the result is the specification above *)
Theorem C08_entry_points_exact : forall c strict dir f ts r,
  verify_trees c strict dir f ts = r <-> verify_spec c strict dir f ts r.
Proof. exact verify_trees_exact. Qed.
Print Assumptions C08_entry_points_exact.

Theorem C08_markdown_exact : forall sp fo w c strict dir, spells sp fo ->
  exists r, pstep w (PMdVerify c strict dir (bytes_of sp)) = (w, OFs [] r (w_fs w)) /\
            verify_spec c strict dir (w_fs w) (map trie_of fo) r.
Proof. exact pmdverify_spelled. Qed.
Print Assumptions C08_markdown_exact.

(* a tree just created by mkdir, with ANY extension list, verifies -- strictly and non-strictly *)
Theorem C08_after_mkdir : forall bf exts tc ts f,
  eok tc -> acc tc ->
  Forall (fun t => Forall name_ok (tnames t)) ts -> all_nodup ts -> NoDup (map tname ts) ->
  fs_ok f ->
  (forall t, In t ts -> stat f (tjoin (pth tc) (tname t)) = StNone) ->
  forall strict,
    verifier strict (pth tc) (fst (mkdirer exts (dir_of tc) f (map (grow_root bf) ts))) (map (grow_root bf) ts) = Ok tt.
Proof.
  intros bf exts tc ts f H1 H2 H3 H4 H5 H6 H7 strict.
  destruct (mkdir_exact bf exts tc ts f H1 H2 H3 H4 H5 H6 H7) as [Hm [_ [_ [_ [Hv _]]]]].
  rewrite Hm. apply Hv.
Qed.
Print Assumptions C08_after_mkdir.

(* verify never changes the file system: its model has no file-system result at all
   (verify_trees : ... -> res unit); the world of a history is unchanged by it *)
Theorem C08_readonly : forall w o, reads_only o -> fst (pstep w o) = w.
Proof. exact reads_leave_world. Qed.
Print Assumptions C08_readonly.

Definition s (x : string) : str := list_ascii_of_string x.
Definition g1 := grow_root default_bfmt (T (s "a") [T (s "b") []; T (s "c") []]).
Definition fs1 : fsmap := [(s "a", KDir); (s "a/b", KDir); (s "a/x", KFile false)].
Example C08_nonvacuous :
  verify_root true [c_dot] fs1 g1 = VFail [s "a/x"] [s "a/c"] /\
  verify_root false [c_dot] fs1 g1 = VFail [] [s "a/c"] /\
  verify_root false [c_dot] ((s "a/c", KFile true) :: fs1) g1 = VPass.
Proof. repeat split; vm_compute; reflexivity. Qed.
