(* Properties/C08.v — verify reports exactly the differences. *)
From Coq Require Import List Ascii String.
From GT Require Import Base.GoStr Tree.Tree Tree.Grower Api.Simple Fs.FsModel Fs.Mkdir Fs.Verify Api.Programmable Proofs.FsBasic Proofs.Programmable.
Import ListNotations.

(* per root: nil iff every node path exists and, in strict mode, nothing else exists beneath it *)
Theorem C08_iff_root : forall strict target f g,
  stat f (tjoin target (gpath g)) = StDir \/ stat f (tjoin target (gpath g)) = StFile ->
  (verify_root strict target f g = VPass <->
   (forall p, In p (md_paths target g) -> In p (entries_under f (tjoin target (gpath g)))) /\
   (strict = true -> forall p, In p (entries_under f (tjoin target (gpath g))) -> In p (md_paths target g))).
Proof. exact verify_root_pass_iff. Qed.
Print Assumptions C08_iff_root.

(* every listed path is a true difference: missing ones are node paths that do not exist,
   extra ones (strict only) exist beneath the root and are no node path *)
Theorem C08_sound : forall strict target f g e m,
  verify_root strict target f g = VFail e m ->
  (forall p, In p m -> In p (md_paths target g) /\ ~ In p (entries_under f (tjoin target (gpath g)))
                       \/ stat f (tjoin target (gpath g)) = StNone) /\
  (forall p, In p e -> strict = true /\ In p (entries_under f (tjoin target (gpath g))) /\ ~ In p (md_paths target g)).
Proof. exact verify_root_lists. Qed.
Print Assumptions C08_sound.

(* verify never changes the file system: its model has no file-system result at all
   (verify_trees : ... -> res unit); the world of a history is unchanged by it *)
Theorem C08_readonly : forall w o, reads_only o -> fst (pstep w o) = w.
Proof. exact reads_leave_world. Qed.
Print Assumptions C08_readonly.

Definition s (x : string) : str := list_ascii_of_string x.
Definition g1 := grow_root default_bfmt (T (s "a") [T (s "b") []; T (s "c") []]).
Definition fs1 : fsmap := [(s "a", KDir); (s "a/b", KDir); (s "a/x", KFile false)].
Example C08_nonvacuous :
  verify_root true [c_dot] fs1 g1 = VFail [s "a/x"] [s "a/c"] /\
  verify_root false [c_dot] fs1 g1 = VFail [] [s "a/c"] /\
  verify_root false [c_dot] ((s "a/c", KFile true) :: fs1) g1 = VPass.
Proof. repeat split; vm_compute; reflexivity. Qed.
