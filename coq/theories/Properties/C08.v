(* Properties/C08.v — verify reports exactly the differences. *)
From Coq Require Import List Ascii String.
From GT Require Import Base.GoStr Tree.Tree Tree.Grower Api.Simple Fs.FsModel Fs.Mkdir Fs.Verify Api.Programmable
  Proofs.Paths Proofs.FsBasic Proofs.Programmable Proofs.MkdirExact.
Import ListNotations.

(* per root: nil iff every node path exists and, in strict mode, nothing else exists beneath it *)
Theorem C08_iff_root : forall strict target f g,
  stat f (tjoin target (gpath g)) = StDir \/ stat f (tjoin target (gpath g)) = StFile ->
  (verify_root strict target f g = VPass <->
   (forall p, In p (md_paths target g) -> In p (entries_under f (tjoin target (gpath g)))) /\
   (strict = true -> forall p, In p (entries_under f (tjoin target (gpath g))) -> In p (md_paths target g))).
Proof. exact verify_root_pass_iff. Qed.
Print Assumptions C08_iff_root.

(* every listed path is a true difference: missing ones are node paths that do not exist,
   extra ones (strict only) exist beneath the root and are no node path *)
Theorem C08_sound : forall strict target f g e m,
  verify_root strict target f g = VFail e m ->
  (forall p, In p m -> In p (md_paths target g) /\ ~ In p (entries_under f (tjoin target (gpath g)))
                       \/ stat f (tjoin target (gpath g)) = StNone) /\
  (forall p, In p e -> strict = true /\ In p (entries_under f (tjoin target (gpath g))) /\ ~ In p (md_paths target g)).
Proof. exact verify_root_lists. Qed.
Print Assumptions C08_sound.

(* a tree just created by mkdir, with ANY extension list, verifies -- strictly and non-strictly *)
Theorem C08_after_mkdir : forall bf exts tc ts f,
  eok tc -> acc tc ->
  Forall (fun t => Forall name_ok (tnames t)) ts -> all_nodup ts -> NoDup (map tname ts) ->
  fs_ok f ->
  (forall t, In t ts -> stat f (tjoin (pth tc) (tname t)) = StNone) ->
  forall strict,
    verifier strict (pth tc) (fst (mkdirer exts (dir_of tc) f (map (grow_root bf) ts))) (map (grow_root bf) ts) = Ok tt.
Proof.
  intros bf exts tc ts f H1 H2 H3 H4 H5 H6 H7 strict.
  destruct (mkdir_exact bf exts tc ts f H1 H2 H3 H4 H5 H6 H7) as [Hm [_ [_ [_ [Hv _]]]]].
  rewrite Hm. apply Hv.
Qed.
Print Assumptions C08_after_mkdir.

(* verify never changes the file system: its model has no file-system result at all
   (verify_trees : ... -> res unit); the world of a history is unchanged by it *)
Theorem C08_readonly : forall w o, reads_only o -> fst (pstep w o) = w.
Proof. exact reads_leave_world. Qed.
Print Assumptions C08_readonly.

Definition s (x : string) : str := list_ascii_of_string x.
Definition g1 := grow_root default_bfmt (T (s "a") [T (s "b") []; T (s "c") []]).
Definition fs1 : fsmap := [(s "a", KDir); (s "a/b", KDir); (s "a/x", KFile false)].
Example C08_nonvacuous :
  verify_root true [c_dot] fs1 g1 = VFail [s "a/x"] [s "a/c"] /\
  verify_root false [c_dot] fs1 g1 = VFail [] [s "a/c"] /\
  verify_root false [c_dot] ((s "a/c", KFile true) :: fs1) g1 = VPass.
Proof. repeat split; vm_compute; reflexivity. Qed.
