(* Base/GoStr.v — byte strings and the Go standard-library string functions gtree uses.
   MODEL ONLY (no proofs here).  Go strings are byte sequences: str := list ascii.
   Each function names the Go function it stands for; the correspondence stream
   "gostr" of the harness runs these against the real Go functions. *)
From Coq Require Import List Ascii Arith Bool NArith.
Import ListNotations.

Definition str := list ascii.

(* linear-time reverse (List.rev is quadratic); frev l = rev l, see Proofs *)
Definition frev {A : Type} (l : list A) : list A := rev_append l [].

Definition b (c : ascii) : nat := nat_of_ascii c.
Definition ch (n : nat) : ascii := ascii_of_nat n.

Definition c_sp : ascii := " "%char.
Definition c_tab : ascii := ch 9.
Definition c_lf : ascii := ch 10.
Definition c_cr : ascii := ch 13.
Definition c_sharp : ascii := "#"%char.
Definition c_hy : ascii := "-"%char.
Definition c_as : ascii := "*"%char.
Definition c_pl : ascii := "+"%char.
Definition c_slash : ascii := "/"%char.
Definition c_dot : ascii := "."%char.

Fixpoint str_eqb (x y : str) : bool :=
  match x, y with
  | [], [] => true
  | c :: x', d :: y' => Ascii.eqb c d && str_eqb x' y'
  | _, _ => false
  end.

(* strings.Cut(s, sep) for a one-byte sep *)
Fixpoint cut (sep : ascii) (l : str) : option (str * str) :=
  match l with
  | [] => None
  | c :: r => if Ascii.eqb c sep then Some ([], r)
              else match cut sep r with
                   | Some (x, y) => Some (c :: x, y)
                   | None => None
                   end
  end.

(* strings.Count(s, sep) for a one-byte sep *)
Definition count (c : ascii) (l : str) : nat := List.length (filter (Ascii.eqb c) l).

(* strings.TrimLeft(s, cutset) for a one-byte cutset *)
Fixpoint trim_left (c : ascii) (l : str) : str :=
  match l with
  | x :: r => if Ascii.eqb x c then trim_left c r else l
  | [] => []
  end.
Definition trim_right (c : ascii) (l : str) : str := frev (trim_left c (frev l)).
(* strings.Trim(s, cutset) for a one-byte cutset *)
Definition trim (c : ascii) (l : str) : str := trim_right c (trim_left c l).
(* strings.TrimPrefix(s, p) for a one-byte p *)
Definition trim_prefix1 (c : ascii) (l : str) : str :=
  match l with x :: r => if Ascii.eqb x c then r else l | [] => [] end.

Fixpoint has_prefix (p s : str) : bool :=
  match p, s with
  | [], _ => true
  | c :: p', d :: s' => Ascii.eqb c d && has_prefix p' s'
  | _ :: _, [] => false
  end.
(* strings.HasSuffix *)
Definition has_suffix (s suf : str) : bool := has_prefix (frev suf) (frev s).
(* strings.TrimSuffix *)
Definition trim_suffix (s suf : str) : str :=
  if has_suffix s suf then firstn (List.length s - List.length suf) s else s.
(* strings.ContainsAny(s, "/") *)
Definition contains (c : ascii) (s : str) : bool := existsb (Ascii.eqb c) s.

(* strings.TrimSpace(row) == "" : every rune of row is unicode.IsSpace.  Greedy
   matching of the shortest-form UTF-8 encodings of the White_Space runes; any
   other byte (incl. invalid UTF-8, which decodes to U+FFFD) is not a space. *)
Fixpoint all_space (l : str) : bool :=
  match l with
  | [] => true
  | c :: r =>
      let n := b c in
      if ((9 <=? n) && (n <=? 13)) || (n =? 32) then all_space r
      else if n =? 194 then
        match r with
        | d :: r' => ((b d =? 133) || (b d =? 160)) && all_space r'
        | _ => false
        end
      else if n =? 225 then
        match r with
        | d1 :: d2 :: r' => (b d1 =? 154) && (b d2 =? 128) && all_space r'
        | _ => false
        end
      else if n =? 226 then
        match r with
        | d1 :: d2 :: r' =>
            (((b d1 =? 128) && (((128 <=? b d2) && (b d2 <=? 138)) || (b d2 =? 168) || (b d2 =? 169) || (b d2 =? 175)))
             || ((b d1 =? 129) && (b d2 =? 159))) && all_space r'
        | _ => false
        end
      else if n =? 227 then
        match r with
        | d1 :: d2 :: r' => (b d1 =? 128) && (b d2 =? 128) && all_space r'
        | _ => false
        end
      else false
  end.

(* ---- joining / splitting on a byte ---- *)
Fixpoint split_on (sep : ascii) (l : str) : list str :=
  match l with
  | [] => [[]]
  | c :: r =>
      if Ascii.eqb c sep then [] :: split_on sep r
      else match split_on sep r with
           | x :: xs => (c :: x) :: xs
           | [] => [[c]]
           end
  end.

Fixpoint join_with (sep : str) (ls : list str) : str :=
  match ls with
  | [] => []
  | [x] => x
  | x :: rest => x ++ sep ++ join_with sep rest
  end.

(* ---- utf8.ValidString ---- *)
Definition is_cont (c : ascii) : bool := (128 <=? b c) && (b c <=? 191).
Fixpoint utf8_valid (l : str) : bool :=
  match l with
  | [] => true
  | c :: r =>
      let n := b c in
      if n <? 128 then utf8_valid r
      else if (194 <=? n) && (n <=? 223) then
        match r with d :: r' => is_cont d && utf8_valid r' | _ => false end
      else if n =? 224 then
        match r with d1 :: d2 :: r' => (160 <=? b d1) && (b d1 <=? 191) && is_cont d2 && utf8_valid r' | _ => false end
      else if ((225 <=? n) && (n <=? 236)) || (n =? 238) || (n =? 239) then
        match r with d1 :: d2 :: r' => is_cont d1 && is_cont d2 && utf8_valid r' | _ => false end
      else if n =? 237 then
        match r with d1 :: d2 :: r' => (128 <=? b d1) && (b d1 <=? 159) && is_cont d2 && utf8_valid r' | _ => false end
      else if n =? 240 then
        match r with d1 :: d2 :: d3 :: r' => (144 <=? b d1) && (b d1 <=? 191) && is_cont d2 && is_cont d3 && utf8_valid r' | _ => false end
      else if (241 <=? n) && (n <=? 243) then
        match r with d1 :: d2 :: d3 :: r' => is_cont d1 && is_cont d2 && is_cont d3 && utf8_valid r' | _ => false end
      else if n =? 244 then
        match r with d1 :: d2 :: d3 :: r' => (128 <=? b d1) && (b d1 <=? 143) && is_cont d2 && is_cont d3 && utf8_valid r' | _ => false end
      else false
  end.

(* ---- path.Clean / path.Join / fs.ValidPath (Unix: filepath.* are the same) ---- *)
Definition dotdot : str := [c_dot; c_dot].
Definition is_dotdot (e : str) : bool := str_eqb e dotdot.
Definition is_dot (e : str) : bool := str_eqb e [c_dot].

(* the element stack is kept reversed (top first) *)
Fixpoint clean_elems (rooted : bool) (es : list str) (stk : list str) : list str :=
  match es with
  | [] => frev stk
  | e :: es' =>
      match e with
      | [] => clean_elems rooted es' stk
      | _ =>
        if is_dot e then clean_elems rooted es' stk
        else if is_dotdot e then
          match stk with
          | top :: stk' =>
              if is_dotdot top then clean_elems rooted es' (e :: stk)
              else clean_elems rooted es' stk'
          | [] => if rooted then clean_elems rooted es' stk
                  else clean_elems rooted es' (e :: stk)
          end
        else clean_elems rooted es' (e :: stk)
      end
  end.

Definition path_clean (p : str) : str :=
  match p with
  | [] => [c_dot]
  | c :: _ =>
      let rooted := Ascii.eqb c c_slash in
      let body := join_with [c_slash] (clean_elems rooted (split_on c_slash p) []) in
      if rooted then c_slash :: body
      else match body with [] => [c_dot] | _ => body end
  end.

Definition nonempty (s : str) : bool := match s with [] => false | _ => true end.

(* path.Join(elems...) *)
Definition path_join (elems : list str) : str :=
  match filter nonempty elems with
  | [] => []
  | es => path_clean (join_with [c_slash] es)
  end.

(* fs.ValidPath *)
Definition valid_elem (e : str) : bool :=
  nonempty e && negb (is_dot e) && negb (is_dotdot e).
Definition valid_path (p : str) : bool :=
  utf8_valid p &&
  (is_dot p || forallb valid_elem (split_on c_slash p)).

(* ---- bufio.Scanner with ScanLines ---- *)
Inductive scan_end := ScanEOF | ScanTooLong | ScanReaderErr.

Definition drop_cr (l : str) : str :=
  match frev l with
  | c :: r => if Ascii.eqb c c_cr then frev r else l
  | [] => []
  end.

Definition too_long (raw : str) : bool := (65536 <=? N.of_nat (List.length raw))%N.

(* lines delivered by successive Scan() calls and how scanning ended.
   [cur] is the raw line being accumulated, reversed. *)
Fixpoint scan_go (data : str) (cur : str) : list str * scan_end :=
  match data with
  | [] =>
      match cur with
      | [] => ([], ScanEOF)
      | _ => if too_long cur then ([], ScanTooLong) else ([drop_cr (frev cur)], ScanEOF)
      end
  | c :: r =>
      if Ascii.eqb c c_lf then
        if too_long cur then ([], ScanTooLong)
        else let '(ls, e) := scan_go r [] in (drop_cr (frev cur) :: ls, e)
      else scan_go r (c :: cur)
  end.

Definition scan_lines (data : str) : list str * scan_end := scan_go data [].

(* a reader that delivers the first k bytes and then fails: the scanner hands out the
   complete lines and the final partial line as tokens, then reports the error *)
Definition scan_lines_r (data : str) (k : option nat) : list str * scan_end :=
  match k with
  | None => scan_lines data
  | Some n =>
      let '(ls, e) := scan_go (firstn n data) [] in
      (ls, match e with ScanEOF => ScanReaderErr | x => x end)
  end.

(* fmt.Sprintln(l) for a string *)
Definition sprintln (l : str) : str := l ++ [c_lf].

(* decimal rendering of a nat (fmt %d) *)
Definition digit (n : nat) : ascii := ch (48 + n).
Fixpoint dec_go (fuel n : nat) (acc : str) : str :=
  match fuel with
  | 0 => acc
  | S f => if n <? 10 then digit n :: acc
           else dec_go f (n / 10) (digit (n mod 10) :: acc)
  end.
Definition dec (n : nat) : str := dec_go (S n) n [].
