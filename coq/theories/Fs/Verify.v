(* Fs/Verify.v — model of defaultVerifierSimple (simple_tree_verifier.go) after the
   repairs of D8 and D9, and of treeSimple.verify / verifyProgrammably.  MODEL ONLY. *)
From Coq Require Import List Ascii Arith Bool.
From GT Require Import Base.GoStr Tree.Tree Tree.Grower Api.Simple Fs.FsModel Fs.Mkdir.
Import ListNotations.

Fixpoint mem_str (p : str) (l : list str) : bool :=
  match l with [] => false | q :: r => str_eqb p q || mem_str p r end.

(* fillDirsMarkdown: join(target, path) of every node *)
Definition md_paths (target : str) (g : gtree) : list str :=
  map (fun dg => tjoin target (gpath (snd dg))) (gpre 1 g).

Inductive vres := VPass | VFail (extra missing : list str) | VErr.

(* verifyRoot + handleErr for one root *)
Definition verify_root (strict : bool) (target : str) (f : fsmap) (g : gtree) : vres :=
  let md := md_paths target g in
  let rootp := tjoin target (gpath g) in
  match stat f rootp with
  | StErr => VErr
  | StNone => VFail [] md
  | _ =>
      let seen := entries_under f rootp in
      let extra := filter (fun p => negb (mem_str p md)) seen in
      let missing := filter (fun p => negb (mem_str p seen)) md in
      if (strict && negb (is_nil extra)) || negb (is_nil missing)
      then VFail (if strict then extra else []) missing
      else VPass
  end.

Fixpoint verifier (strict : bool) (target : str) (f : fsmap) (gs : list gtree) : res unit :=
  match gs with
  | [] => Ok tt
  | g :: r =>
      match verify_root strict target f g with
      | VPass => verifier strict target f r
      | VFail e m => Err (EVerify e m)
      | VErr => Err EOs
      end
  end.

(* treeSimple.verify / verifyProgrammably: validation is always on *)
Definition verify_trees (c0 : cfg) (strict : bool) (dir : str) (f : fsmap) (ts : list tree) : res unit :=
  let c := no_enc c0 in
  match grow_all c true ts with
  | Err e => Err e
  | Panic => Panic
  | Ok gs => verifier strict (target_of dir) f gs
  end.
