(* Fs/FsModel.v — finite-map model of the part of the Linux file system gtree relies on
   (os.Stat, os.MkdirAll, os.Create, filepath.WalkDir).  MODEL ONLY.
   Keys are cleaned slash-separated paths relative to the process's working
   directory (the jail root "." always exists and is a directory).  No symlinks,
   permissions, quotas or concurrent modification. *)
From Coq Require Import List Ascii Arith Bool NArith.
From GT Require Import Base.GoStr.
Import ListNotations.

Inductive kind := KDir | KFile (empty : bool).
Definition fsmap := list (str * kind).

Fixpoint lookup (p : str) (f : fsmap) : option kind :=
  match f with
  | [] => None
  | (q, k) :: r => if str_eqb p q then Some k else lookup p r
  end.

(* the OS refuses a path component: longer than NAME_MAX or containing NUL *)
Definition os_refuses (comp : str) : bool :=
  (255 <? List.length comp) || contains (ch 0) comp.

Inductive st := StNone | StDir | StFile | StErr.

Definition is_dot_path (p : str) : bool := is_dot p.

Definition join2 (a b : str) : str :=
  if is_dot_path a then b else a ++ [c_slash] ++ b.

(* walk the components of a cleaned relative path from the directory [cur] *)
Fixpoint stat_from (f : fsmap) (cur : str) (comps : list str) : st :=
  match comps with
  | [] => StDir
  | c :: rest =>
      if os_refuses c then StErr
      else
        let p := join2 cur c in
        match lookup p f with
        | None => StNone
        | Some KDir => stat_from f p rest
        | Some (KFile _) => match rest with [] => StFile | _ => StErr end
        end
  end.

Definition comps_of (p : str) : list str :=
  if is_dot_path p then [] else split_on c_slash p.

(* os.Stat on a cleaned relative path.  Go rejects a path containing NUL before any system call
   (syscall.BytePtrFromString: EINVAL), whatever exists; an over-long component is refused by the
   kernel only when the walk reaches it *)
Definition stat (f : fsmap) (p : str) : st :=
  if contains (ch 0) p then StErr else stat_from f [c_dot] (comps_of p).

(* os.MkdirAll: create the missing directories top-down; a component that is a file
   or that the OS refuses stops it with an error after the ones above were made *)
Fixpoint mkdir_all_from (f : fsmap) (cur : str) (comps : list str) : fsmap * bool :=
  match comps with
  | [] => (f, true)
  | c :: rest =>
      let p := join2 cur c in
      if os_refuses c then (f, false)
      else match lookup p f with
           | Some KDir => mkdir_all_from f p rest
           | Some (KFile _) => (f, false)
           | None => mkdir_all_from (f ++ [(p, KDir)]) p rest
           end
  end.

Definition mkdir_all (f : fsmap) (p : str) : fsmap * bool :=
  mkdir_all_from f [c_dot] (comps_of p).

Fixpoint set_kind (p : str) (k : kind) (f : fsmap) : fsmap :=
  match f with
  | [] => [(p, k)]
  | (q, k') :: r => if str_eqb p q then (q, k) :: r else (q, k') :: set_kind p k r
  end.

Definition dirname (p : str) : str :=
  match frev (comps_of p) with
  | [] => [c_dot]
  | _ :: rest => match frev rest with [] => [c_dot] | l => join_with [c_slash] l end
  end.
Definition basename (p : str) : str :=
  match frev (comps_of p) with [] => [c_dot] | b :: _ => b end.

(* os.Create + Close: the parent must be a directory; an existing file is truncated *)
Definition create (f : fsmap) (p : str) : fsmap * bool :=
  match stat f (dirname p) with
  | StDir =>
      if os_refuses (basename p) then (f, false)
      else match lookup p f with
           | Some KDir => (f, false)
           | _ => (set_kind p (KFile true) f, true)
           end
  | _ => (f, false)
  end.

(* the entries at or below a path (filepath.WalkDir visits all of them) *)
Definition under (root : str) (p : str) : bool :=
  str_eqb p root || has_prefix (root ++ [c_slash]) p || is_dot_path root.
Definition entries_under (f : fsmap) (root : str) : list str :=
  map fst (filter (fun e => under root (fst e)) f).
