(* Fs/Mkdir.v — model of defaultMkdirerSimple (simple_tree_mkdirer.go) and of
   treeSimple.mkdir / mkdirProgrammably.  MODEL ONLY. *)
From Coq Require Import List Ascii Arith Bool.
From GT Require Import Base.GoStr Tree.Tree Tree.Grower Out.Spreader Api.Simple Fs.FsModel.
Import ListNotations.

(* filepath.Join(targetDir, p) *)
Definition tjoin (target p : str) : str := path_join [target; p].

(* isExistRoot: any Stat result other than "does not exist" counts as existing *)
Definition exists_root (f : fsmap) (target : str) (roots : list gtree) : bool :=
  existsb (fun g => match stat f (tjoin target (gpath g)) with StNone => false | _ => true end) roots.

(* makeDirectoriesAndFiles *)
Fixpoint make_node (exts : list str) (target : str) (f : fsmap) (g : gtree) {struct g} : fsmap * bool :=
  match g with
  | G n _ p ks =>
      if is_file exts g then
        let '(f1, ok) := mkdir_all f (tjoin target (trim_suffix p n)) in
        if ok then create f1 (tjoin target p) else (f1, false)
      else
        match ks with
        | [] => mkdir_all f (tjoin target p)
        | _ =>
            (fix go (l : list gtree) (f : fsmap) : fsmap * bool :=
               match l with
               | [] => (f, true)
               | k :: r => let '(f1, ok) := make_node exts target f k in
                           if ok then go r f1 else (f1, false)
               end) ks f
        end
  end.

Fixpoint make_roots (exts : list str) (target : str) (f : fsmap) (gs : list gtree) : fsmap * bool :=
  match gs with
  | [] => (f, true)
  | g :: r => let '(f1, ok) := make_node exts target f g in
              if ok then make_roots exts target f1 r else (f1, false)
  end.

Definition target_of (dir : str) : str := match dir with [] => [c_dot] | _ => dir end.

(* defaultMkdirerSimple.mkdir *)
Definition mkdirer (exts : list str) (dir : str) (f : fsmap) (gs : list gtree) : fsmap * res unit :=
  let target := target_of dir in
  if exists_root f target gs then (f, Err EExistPath)
  else let '(f1, ok) := make_roots exts target f gs in
       (f1, if ok then Ok tt else Err EOs).

(* treeSimple.mkdir / mkdirProgrammably after the repairs of D6 and D7: names are always
   validated; with dry-run the report is printed and nothing is created.
   Result: new file system, what is printed (dry-run report), returned value. *)
Definition mkdir_trees (c0 : cfg) (dir : str) (f : fsmap) (ts : list tree) : fsmap * list chunk * res unit :=
  let c := no_enc c0 in
  match grow_all c true ts with
  | Err e => (f, [], Err e)
  | Panic => (f, [], Panic)
  | Ok gs =>
      if c_dry c then
        match spread_all c gs with
        | Ok cs => (f, cs, Ok tt)
        | Err e => (f, [], Err e)
        | Panic => (f, [], Panic)
        end
      else let '(f1, r) := mkdirer (c_exts c) dir f gs in (f1, [], r)
  end.
