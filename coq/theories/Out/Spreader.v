(* Out/Spreader.v — model of defaultSpreaderSimple, colorizeSpreaderSimple (+ the
   fileConsiderer and counters), defaultGrowSpreaderSimple.  MODEL ONLY.
   Spreaders produce the list of writes handed to the io.Writer. *)
From Coq Require Import List Ascii Arith Bool.
From GT Require Import Base.GoStr Tree.Tree Tree.Grower.
Import ListNotations.

(* spreadBranch: one line per node *)
Definition line_of (d : nat) (g : gtree) : str :=
  if d =? 1 then gname g ++ [c_lf]
  else gbranch g ++ [c_sp] ++ gname g ++ [c_lf].

(* one Fprint per node, pre-order *)
Definition text_writes (g : gtree) : list str :=
  map (fun dg => line_of (fst dg) (snd dg)) (gpre 1 g).

Definition text_of (g : gtree) : str := concat (text_writes g).

(* fileConsiderer.isFile *)
Definition is_file (exts : list str) (g : gtree) : bool :=
  is_nil (gkids g) && existsb (has_suffix (gname g)) exts.

Definition count_files (exts : list str) (g : gtree) : nat :=
  List.length (filter (fun dg => is_file exts (snd dg)) (gpre 1 g)).
Definition count_dirs (exts : list str) (g : gtree) : nat :=
  List.length (filter (fun dg => negb (is_file exts (snd dg))) (gpre 1 g)).

Definition lit (s : list nat) : str := map ch s.
(* " directories, " and " files" *)
Definition s_directories : str := lit [32;100;105;114;101;99;116;111;114;105;101;115;44;32].
Definition s_files : str := lit [32;102;105;108;101;115].

Definition summary (exts : list str) (g : gtree) : str :=
  dec (count_dirs exts g) ++ s_directories ++ dec (count_files exts g) ++ s_files.

(* fmt.Sprintf("%s\n%s\n", spreadBranch(root), summary()) with colour off *)
Definition dry_block (exts : list str) (g : gtree) : str :=
  text_of g ++ [c_lf] ++ summary exts g ++ [c_lf].
