(* Out/Walker.v — model of defaultWalkerSimple.walk / walkIter and the WalkerNode
   accessors (simple_tree_walker.go).  MODEL ONLY. *)
From Coq Require Import List Ascii Arith Bool.
From GT Require Import Base.GoStr Tree.Tree Tree.Grower.
Import ListNotations.

Record visit := {
  v_name : str; v_branch : str; v_row : str; v_level : nat; v_path : str; v_haschild : bool
}.

Definition visit_of (d : nat) (g : gtree) : visit :=
  {| v_name := gname g;
     v_branch := gbranch g;
     v_row := if d =? 1 then gname g else gbranch g ++ [c_sp] ++ gname g;
     v_level := d;
     v_path := gpath g;
     v_haschild := negb (is_nil (gkids g)) |}.

Definition visits_of (gs : list gtree) : list visit :=
  flat_map (fun g => map (fun dg => visit_of (fst dg) (snd dg)) (gpre 1 g)) gs.

(* the callback is an oracle: [cb i] tells whether the i-th invocation (from 0)
   returns an error.  walkNode stops at the first error and returns it. *)
Fixpoint walk_go (cb : nat -> bool) (i : nat) (vs : list visit) : list visit * res unit :=
  match vs with
  | [] => ([], Ok tt)
  | v :: r =>
      if cb i then ([v], Err (ECallback i))
      else let '(seen, e) := walk_go cb (S i) r in (v :: seen, e)
  end.

Definition walk (cb : nat -> bool) (gs : list gtree) : list visit * res unit :=
  walk_go cb 0 (visits_of gs).

(* range-over-func consumer that breaks after receiving visit number k (from 0);
   None = never breaks *)
Definition walk_iter (brk : option nat) (g : gtree) : list visit :=
  match brk with
  | None => visits_of [g]
  | Some k => firstn (S k) (visits_of [g])
  end.
