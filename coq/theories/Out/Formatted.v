(* Out/Formatted.v — model of toFormattedNode, jsonNode/yamlNode/tomlNode
   (simple_tree_spreader.go) and of encoding/json for that struct.  MODEL ONLY. *)
From Coq Require Import List Ascii Arith Bool.
From GT Require Import Base.GoStr Tree.Tree.
Import ListNotations.

Inductive fnode := F (n : str) (ks : list fnode).
Definition fname (f : fnode) := match f with F n _ => n end.
Definition fkids (f : fnode) := match f with F _ ks => ks end.

(* setChild: append a fresh {Name: name} *)
Definition set_child (nm : str) (f : fnode) : fnode := F (fname f) (fkids f ++ [F nm []]).

Fixpoint replace_nth {A : Type} (i : nat) (x : A) (l : list A) : list A :=
  match l, i with
  | [], _ => []
  | _ :: r, 0 => x :: r
  | y :: r, S j => y :: replace_nth j x r
  end.

(* toFormattedNode(parent, fParent): for i := range children { fParent.setChild(name);
   toFormattedNode(child, fParent.getChild(i)) }.  getChild(i) indexes the slice:
   out of range is a Go panic. *)
Fixpoint to_fmt (t : tree) (fp : fnode) {struct t} : res fnode :=
  match t with
  | T _ ks =>
      (fix go (l : list tree) (i : nat) (fp : fnode) {struct l} : res fnode :=
         match l with
         | [] => Ok fp
         | k :: r =>
             let fp1 := set_child (tname k) fp in
             match nth_error (fkids fp1) i with
             | None => Panic
             | Some c =>
                 match to_fmt k c with
                 | Ok c' => go r (S i) (F (fname fp1) (replace_nth i c' (fkids fp1)))
                 | Err e => Err e
                 | Panic => Panic
                 end
             end
         end) ks 0 fp
  end.

Definition formatted (t : tree) : res fnode := to_fmt t (F (tname t) []).

(* the specification: same names, order, nesting *)
Fixpoint fnode_of (t : tree) : fnode :=
  match t with T n ks => F n (map fnode_of ks) end.

(* ---- encoding/json for jsonNode (SetEscapeHTML default = true) ---- *)

Definition hexd (n : nat) : ascii := if n <? 10 then ch (48 + n) else ch (87 + n).

(* length of the valid UTF-8 sequence at the head of l; 0 = invalid (RuneError,1) *)
Definition rune_len (l : str) : nat :=
  match l with
  | [] => 0
  | c :: r =>
      let n := b c in
      if n <? 128 then 1
      else if (194 <=? n) && (n <=? 223) then
        match r with d :: _ => if is_cont d then 2 else 0 | _ => 0 end
      else if n =? 224 then
        match r with d1 :: d2 :: _ => if (160 <=? b d1) && (b d1 <=? 191) && is_cont d2 then 3 else 0 | _ => 0 end
      else if ((225 <=? n) && (n <=? 236)) || (n =? 238) || (n =? 239) then
        match r with d1 :: d2 :: _ => if is_cont d1 && is_cont d2 then 3 else 0 | _ => 0 end
      else if n =? 237 then
        match r with d1 :: d2 :: _ => if (128 <=? b d1) && (b d1 <=? 159) && is_cont d2 then 3 else 0 | _ => 0 end
      else if n =? 240 then
        match r with d1 :: d2 :: d3 :: _ => if (144 <=? b d1) && (b d1 <=? 191) && is_cont d2 && is_cont d3 then 4 else 0 | _ => 0 end
      else if (241 <=? n) && (n <=? 243) then
        match r with d1 :: d2 :: d3 :: _ => if is_cont d1 && is_cont d2 && is_cont d3 then 4 else 0 | _ => 0 end
      else if n =? 244 then
        match r with d1 :: d2 :: d3 :: _ => if (128 <=? b d1) && (b d1 <=? 143) && is_cont d2 && is_cont d3 then 4 else 0 | _ => 0 end
      else 0
  end.

Definition bs : ascii := ch 92.
Definition dq : ascii := ch 34.
Definition u00 (n : nat) : str := [bs; ch 117; ch 48; ch 48; hexd (n / 16); hexd (n mod 16)].
Definition ufffd : str := [bs; ch 117; ch 102; ch 102; ch 102; ch 100].

(* body of appendString; fuel = length of the input (each step consumes >= 1 byte) *)
Fixpoint json_str_go (fuel : nat) (l : str) : str :=
  match fuel with
  | 0 => []
  | S f =>
    match l with
    | [] => []
    | c :: r =>
        let n := b c in
        if n <? 128 then
          (if (n =? 92) || (n =? 34) then [bs; c]
           else if n =? 8 then [bs; ch 98]
           else if n =? 12 then [bs; ch 102]
           else if n =? 10 then [bs; ch 110]
           else if n =? 13 then [bs; ch 114]
           else if n =? 9 then [bs; ch 116]
           else if (n <? 32) || (n =? 38) || (n =? 60) || (n =? 62) then u00 n
           else [c]) ++ json_str_go f r
        else
          match rune_len l with
          | 0 => ufffd ++ json_str_go f r
          | k =>
              (* U+2028 / U+2029 = E2 80 A8 / E2 80 A9 *)
              match l with
              | c1 :: c2 :: c3 :: r3 =>
                  if (k =? 3) && (b c1 =? 226) && (b c2 =? 128) && ((b c3 =? 168) || (b c3 =? 169))
                  then [bs; ch 117; ch 50; ch 48; ch 50; hexd (b c3 mod 16)] ++ json_str_go f r3
                  else firstn k l ++ json_str_go f (skipn k l)
              | _ => firstn k l ++ json_str_go f (skipn k l)
              end
          end
    end
  end.

Definition json_str (s : str) : str := [dq] ++ json_str_go (List.length s) s ++ [dq].

(* {"value":  ,"children":  null *)
Definition s_value : str := map ch [123;34;118;97;108;117;101;34;58].
Definition s_children : str := map ch [44;34;99;104;105;108;100;114;101;110;34;58].
Definition s_null : str := map ch [110;117;108;108].

Fixpoint json_enc (f : fnode) {struct f} : str :=
  match f with
  | F n ks =>
      s_value ++ json_str n ++ s_children ++
      (match ks with
       | [] => s_null
       | k0 :: r0 =>
           [ch 91] ++ json_enc k0 ++
           (fix go (l : list fnode) : str :=
              match l with
              | [] => []
              | k :: r => [ch 44] ++ json_enc k ++ go r
              end) r0 ++ [ch 93]
       end) ++ [ch 125]
  end.

(* Encoder.Encode: the value followed by a newline, in one Write *)
Definition json_line (f : fnode) : str := json_enc f ++ [c_lf].
