(* Extract/Extract.v — extraction of the executable model and specification to OCaml.
   ExtrOcamlBasic only; no Extract Constant / Extract Inductive of our own:
   nat, N, ascii stay the extracted inductives. *)
From Coq Require Import List Ascii Arith Bool.
From Coq Require Import ExtrOcamlBasic.
From GT Require Import Base.GoStr Md.Parser Tree.Tree Tree.Gen Tree.Grower
  Out.Spreader Out.Formatted Out.Walker Api.Simple Api.Programmable Api.Faults Api.Cli Api.Wasm Spec.Spec Spec.Classify Conc.Splitter.

Extraction "model.ml"
  parse_all p0 path_clean path_join valid_path utf8_valid all_space scan_lines
  output_md walk_md wasm_output default_bfmt
  render trie_of forest_of_items classify_rows spec_visits prun world0 output_faulty output_root_faulty output_faulty_kth output_root_faulty_kth run_cli split_doc gen_block.
