(* Conc/InstanceCheck.v — the pipeline instances of the massive entry points, built from the
   GENERATED inventory (Conc/Instance.v), and the static obligations on them:
   the inventory is complete (every function the instances name is present), it equals the
   expected synchronisation structure, and every instance satisfies safe_params. *)
From Coq Require Import List String Bool Arith.
From GT Require Import Conc.Pipeline Conc.Instance.
Import ListNotations.
Open Scope string_scope.

Definition inv_row := (string * nat * nat * bool * nat * bool * nat * bool * nat * string)%type.

Fixpoint find_fn (n : string) (l : list inv_row) : option inv_row :=
  match l with
  | [] => None
  | ((nm, a, b, c, d, e, f, g, h, i) as r) :: rest => if String.eqb n nm then Some r else find_fn n rest
  end.

Fixpoint find_const (n : string) (l : list (string * nat)) : option nat :=
  match l with
  | [] => None
  | (nm, v) :: rest => if String.eqb n nm then Some v else find_const n rest
  end.

(* a pool stage: [starter] is the goroutine that starts the workers (it names the worker-count
   constant), [worker] the worker body; a single-goroutine stage has starter = worker *)
Definition mk_stage (starter worker : string) (fails : item -> bool) (lines : item -> nat) : option sdesc :=
  match find_fn starter inventory, find_fn worker inventory with
  | Some (_, _, _, _, _, _, _, _, _, wc), Some (_, raw, guarded, exits, outs, outg, ins, ing, locks, _) =>
      let n := if String.eqb wc "" then Some 1 else find_const wc constants in
      match n with
      | None => None
      | Some k =>
          Some {| d_workers := k; d_fails := fails;
                  d_err_send := if Nat.eqb raw 0 then CtxGuarded else Blocking;
                  d_exits_on_err := exits;
                  d_out_guarded := outg; d_in_guarded := ing;
                  d_lock := negb (Nat.eqb locks 0); d_lines := lines |}
      end
  | _, _ => None
  end.

(* the goroutines a stage (or entry) function starts, itself or through helpers (generated table) *)
Fixpoint find_starts (n : string) (l : list (string * list string * list string)) : option (list string * list string) :=
  match l with
  | [] => None
  | (nm, lits, named) :: rest => if String.eqb n nm then Some (lits, named) else find_starts n rest
  end.

(* a stage function starts exactly one goroutine literal (the starter / closer) and at most one
   named worker body; without a worker body the literal is the stage's only goroutine *)
Definition stage_of (stagefn : string) (fails : item -> bool) (lines : item -> nat) : option sdesc :=
  match find_starts stagefn starts with
  | Some ([l], []) => mk_stage l l fails lines
  | Some ([l], [w]) => mk_stage l w fails lines
  | _ => None
  end.

(* the source goroutine of an entry point: the one goroutine literal it starts outside the stages *)
Definition source_of (entry : string) : option string :=
  match find_starts entry starts with
  | Some ([l], []) => Some l
  | _ => None
  end.

Fixpoint all_some {A : Type} (l : list (option A)) : option (list A) :=
  match l with
  | [] => Some []
  | Some x :: r => match all_some r with Some xs => Some (x :: xs) | None => None end
  | None :: _ => None
  end.

(* the source: the splitter (From-Markdown) or the goroutine feeding the single root (From-Root) *)
Definition src_guards (name : string) : option (bool * bool) :=
  match find_fn name inventory with
  | Some (_, raw, _, _, _, outg, _, _, _, _) => Some (outg, Nat.eqb raw 0)
  | None => None
  end.

Inductive sink := SinkText | SinkFormatted | SinkDry | SinkMkdir | SinkVerify | SinkWalk.

Definition sink_stage (k : sink) (fails : item -> bool) (lines : item -> nat) : option sdesc :=
  match k with
  | SinkText => stage_of "defaultSpreaderPipeline.spread" fails lines
  | SinkFormatted => stage_of "formattedSpreaderPipeline.spread" fails lines
  | SinkDry => stage_of "colorizeSpreaderPipeline.spread" fails lines
  | SinkMkdir => stage_of "defaultMkdirerPipeline.mkdir" fails lines
  | SinkVerify => stage_of "defaultVerifierPipeline.verify" fails lines
  | SinkWalk => stage_of "defaultWalkerPipeline.walk" fails lines
  end.

Definition md_entry (k : sink) : string :=
  match k with
  | SinkText | SinkFormatted => "treePipeline.output"
  | SinkDry | SinkMkdir => "treePipeline.mkdir"
  | SinkVerify => "treePipeline.verify"
  | SinkWalk => "treePipeline.walk"
  end.

(* From-Markdown: split -> generate -> grow (or the no-op grower) -> sink *)
Definition md_params (k : sink) (nopgrow : bool) (items : list item) (src_err cancel : bool)
    (f_gen f_grow f_sink : item -> bool) (lines : item -> nat) : option params :=
  match match source_of (md_entry k) with Some g => src_guards g | None => None end,
        all_some [stage_of "rootGeneratorPipeline.generate" f_gen lines;
                  (if nopgrow then stage_of "nopGrowerPipeline.grow" (fun _ => false) lines
                   else stage_of "defaultGrowerPipeline.grow" f_grow lines);
                  sink_stage k f_sink lines] with
  | Some (eg, rg), Some sts =>
      Some {| p_items := items; p_src_err := src_err; p_src_err_guarded := rg; p_src_emit_guarded := eg;
              p_stages := sts; p_user_may_cancel := cancel |}
  | _, _ => None
  end.

(* From-Root: feeder -> grow -> sink *)
Definition root_feeder (k : sink) : string :=
  match k with
  | SinkText | SinkFormatted => "treePipeline.outputProgrammably"
  | SinkDry | SinkMkdir => "treePipeline.mkdirProgrammably"
  | SinkVerify => "treePipeline.verifyProgrammably"
  | SinkWalk => "treePipeline.walkProgrammably"
  end.

Definition root_params (k : sink) (nopgrow : bool) (cancel : bool) (f_grow f_sink : item -> bool) (lines : item -> nat) : option params :=
  match match source_of (root_feeder k) with Some g => src_guards g | None => None end,
        all_some [(if nopgrow then stage_of "nopGrowerPipeline.grow" (fun _ => false) lines
                   else stage_of "defaultGrowerPipeline.grow" f_grow lines);
                  sink_stage k f_sink lines] with
  | Some (eg, rg), Some sts =>
      Some {| p_items := [0]; p_src_err := false; p_src_err_guarded := rg; p_src_emit_guarded := eg;
              p_stages := sts; p_user_may_cancel := cancel |}
  | _, _ => None
  end.

(* the decidable form of safe_params *)
Definition safe_stage_b (d : sdesc) : bool :=
  match d_err_send d with CtxGuarded => true | Blocking => false end && d_out_guarded d && d_in_guarded d.
Definition safe_params_b (p : params) : bool :=
  p_src_err_guarded p && p_src_emit_guarded p && forallb safe_stage_b (p_stages p).

Lemma safe_params_b_sound p : safe_params_b p = true -> safe_params p.
Proof.
  unfold safe_params_b, safe_params. intros H.
  apply andb_true_iff in H as [H H3]. apply andb_true_iff in H as [H1 H2].
  split; [exact H1|]. split; [exact H2|].
  intros d Hd. rewrite forallb_forall in H3. specialize (H3 d Hd). unfold safe_stage_b in H3.
  apply andb_true_iff in H3 as [H3 H5]. apply andb_true_iff in H3 as [H3 H4].
  destruct (d_err_send d); [discriminate|]. auto.
Qed.

Definition all_sinks : list sink := [SinkText; SinkFormatted; SinkDry; SinkMkdir; SinkVerify; SinkWalk].

(* THE STATIC OBLIGATION, re-checked on every run against the freshly generated inventory:
   every massive entry point (6 sinks x {default grower, no-op grower} x {From-Markdown,
   From-Root}) has an instance and it satisfies safe_params, whatever the scenario *)
Definition instance_ok (items : list item) (src_err cancel : bool) (f1 f2 f3 : item -> bool) (lines : item -> nat) : bool :=
  forallb (fun k => forallb (fun nop =>
    match md_params k nop items src_err cancel f1 f2 f3 lines, root_params k nop cancel f2 f3 lines with
    | Some p1, Some p2 => safe_params_b p1 && safe_params_b p2
    | _, _ => false
    end) [false; true]) all_sinks.

Theorem instances_safe : forall items src_err cancel f1 f2 f3 lines,
  instance_ok items src_err cancel f1 f2 f3 lines = true.
Proof. intros. vm_compute. reflexivity. Qed.

Corollary md_instance_safe : forall k nop items src_err cancel f1 f2 f3 lines p,
  md_params k nop items src_err cancel f1 f2 f3 lines = Some p -> safe_params p.
Proof.
  intros k nop items src_err cancel f1 f2 f3 lines p H. apply safe_params_b_sound.
  pose proof (instances_safe items src_err cancel f1 f2 f3 lines) as HI.
  unfold instance_ok in HI. rewrite forallb_forall in HI.
  assert (Hk : In k all_sinks) by (destruct k; cbn; tauto).
  specialize (HI k Hk). rewrite forallb_forall in HI.
  assert (Hn : In nop [false; true]) by (destruct nop; cbn; tauto).
  specialize (HI nop Hn). rewrite H in HI.
  destruct (root_params k nop cancel f2 f3 lines); [|discriminate].
  apply andb_true_iff in HI as [HI _]. exact HI.
Qed.

Corollary root_instance_safe : forall k nop cancel f2 f3 lines p,
  root_params k nop cancel f2 f3 lines = Some p -> safe_params p.
Proof.
  intros k nop cancel f2 f3 lines p H. apply safe_params_b_sound.
  pose proof (instances_safe [] false cancel (fun _ => false) f2 f3 lines) as HI.
  unfold instance_ok in HI. rewrite forallb_forall in HI.
  assert (Hk : In k all_sinks) by (destruct k; cbn; tauto).
  specialize (HI k Hk). rewrite forallb_forall in HI.
  assert (Hn : In nop [false; true]) by (destruct nop; cbn; tauto).
  specialize (HI nop Hn). rewrite H in HI.
  destruct (md_params k nop [] false cancel (fun _ => false) f2 f3 lines); [|discriminate].
  apply andb_true_iff in HI as [_ HI]. exact HI.
Qed.

(* what the LTS assumes about the numbers: every pool has at least one worker; every stage's
   error channel has capacity 1, the splitter's is unbuffered and so is the From-Root feeder's
   (which never carries a value: it is only closed) (the theorems do not depend on the worker
   counts themselves) *)
Example expected_constants :
  forallb (fun c => Nat.ltb 0 (snd c)) constants = true /\
  forallb (fun c => if String.eqb (fst c) "split" || String.eqb (fst c) "feedRoot" then Nat.eqb (snd c) 0 else Nat.eqb (snd c) 1) err_channel_capacity = true.
Proof. split; reflexivity. Qed.

(* what the LTS assumes about WHEN channels are closed and WHEN the call returns, re-checked on the
   generated tables: a goroutine literal closes channels only in deferred functions (so a stage's
   channels close when its starter returns -- for a pool, after wg.Wait(), the last statement of the
   starter: step_closer requires all workers done), and handlePipelineErr waits for the readers,
   then cancels, then drains every error channel, and only then returns (D24; Proofs/PipeStrictReturn.v) *)
Definition is_pool_starter (lit : string) : bool :=
  match find_fn lit inventory with
  | Some (_, _, _, _, _, _, _, _, _, wc) => negb (String.eqb wc "")
  | None => false
  end.

Definition closing_ok_b : bool :=
  forallb (fun c => match c with
                    | (lit, deferred, inline, waits_last) =>
                        Nat.ltb 0 deferred && Nat.eqb inline 0 && (negb (is_pool_starter lit) || waits_last)
                    end) closing
  && forallb (fun e => match e with (fnm, lits, _) =>
                forallb (fun l => existsb (fun c => match c with (lit, _, _, _) => String.eqb lit l end) closing) lits end) starts.

Theorem closing_discipline : closing_ok_b = true.
Proof. vm_compute. reflexivity. Qed.

Theorem main_waits_cancels_drains : main_facts = (true, true, true).
Proof. reflexivity. Qed.
