(* Conc/Splitter.v — model of massive mode's front end: the splitter (input_spliter.go:
   split, isRootBlockBeginning) that cuts the rows into root blocks, and the generate
   stage (root_generator.go: rootGeneratorPipeline.worker) in which 10 goroutines parse
   the blocks row by row through ONE shared markdown.Parser (every Parse call is atomic
   under the parser's mutex).  MODEL ONLY.

   The parser therefore sees an arbitrary interleaving of the blocks' row sequences;
   a schedule is that interleaving, every row tagged with the index of its block. *)
From Coq Require Import List Ascii Arith Bool.
From GT Require Import Base.GoStr Md.Parser Tree.Tree Spec.Classify.
Import ListNotations.

(* isRootBlockBeginning: md.IsSymbol(l[0:1]), the symbols being # - * + *)
Definition starts_block (row : str) : bool :=
  match row with
  | c :: _ => Ascii.eqb c c_sharp || is_bullet c
  | [] => false
  end.

(* the loop of split: [cur] is the current block, newest row first.  A row that starts a
   block sends the current block if it is not empty (a block is a string of "\n"
   terminated rows, so it is empty iff it has no row) and starts a new one; at the end
   of the input the current block is sent unconditionally. *)
Fixpoint split_go (cur : list str) (rows : list str) : list (list str) :=
  match rows with
  | [] => [rev cur]
  | r :: rs =>
      if starts_block r then
        match cur with
        | [] => split_go [r] rs
        | _ :: _ => rev cur :: split_go [r] rs
        end
      else split_go (r :: cur) rs
  end.

Definition split_rows (rows : list str) : list (list str) := split_go [] rows.

(* ---- schedules ---- *)

(* replace the j-th block *)
Fixpoint set_nth {A : Type} (l : list A) (j : nat) (v : A) : list A :=
  match l, j with
  | [], _ => []
  | _ :: t, 0 => v :: t
  | h :: t, S k => h :: set_nth t k v
  end.

(* [interleave blocks sched]: sched lists (block index, row); it is built by repeatedly
   taking the first remaining row of some block, until no block has a row left.  Hence
   for each j the rows tagged j are exactly block j's rows, in order
   (Proofs/SplitSchedule.v: interleave_iff). *)
Inductive interleave {A : Type} : list (list A) -> list (nat * A) -> Prop :=
| il_nil bs : Forall (fun b => b = []) bs -> interleave bs []
| il_step bs j x b sched :
    nth_error bs j = Some (x :: b) ->
    interleave (set_nth bs j b) sched ->
    interleave bs ((j, x) :: sched).

(* the entries tagged j *)
Definition proj {A : Type} (j : nat) (l : list (nat * A)) : list A :=
  map snd (filter (fun p => fst p =? j) l).

(* ONE parser state threaded through the schedule *)
Fixpoint run_sched (st : pstate) (sched : list (nat * str)) : list (nat * pres) :=
  match sched with
  | [] => []
  | (j, row) :: rest => let '(st', x) := parse st row in (j, x) :: run_sched st' rest
  end.

Definition results_of (j : nat) (tagged : list (nat * pres)) : list pres := proj j tagged.

(* the sequential schedule: block 0's rows, then block 1's ... (what simple mode does) *)
Fixpoint seq_from (k : nat) (bs : list (list str)) : list (nat * str) :=
  match bs with
  | [] => []
  | b :: rest => map (pair k) b ++ seq_from (S k) rest
  end.
Definition seq_sched (bs : list (list str)) : list (nat * str) := seq_from 0 bs.

(* ---- what a worker makes of its block ---- *)

(* the items among a block's parse results *)
Definition items_of (res : list pres) : list (nat * str) :=
  flat_map (fun r => match r with PItem d n => [(d, n)] | _ => [] end) res.

(* the worker's loop over the parse results of its block's rows (the same node / stack
   handling as rootGeneratorSimple, see Tree/Gen.v gen_step, but only the LAST root of the
   block is kept: `root = currentNode`).  [cur] is the pending root and its stack.
   BRoot r: the block is done, r is sent if it is Some (`if root == nil { continue }`);
   BErr: the worker reports an error;  BPanic: a dangling stack (never happens). *)
Inductive bres := BRoot (r : option tree) | BErr | BPanic.

Fixpoint worker (cur : option (tree * list nat)) (res : list pres) : bres :=
  match res with
  | [] => BRoot (match cur with Some (t, _) => Some t | None => None end)
  | PBlank :: rest => worker cur rest
  | PEmpty :: _ => BErr
  | PFormat :: _ => BErr
  | PItem h nm :: rest =>
      if h =? 1 then worker (Some (T nm [], [])) rest
      else match cur with
           | None => BErr
           | Some (t, cursor) =>
               if h - 2 <=? List.length cursor then
                 match attach (firstn (h - 2) cursor) nm t with
                 | Some st' => worker (Some st') rest
                 | None => BPanic
                 end
               else BErr
           end
  end.

Definition block_result (j : nat) (tagged : list (nat * pres)) : bres :=
  worker None (results_of j tagged).

(* what the workers produce, listed by block index *)
Definition results_by_block (n : nat) (tagged : list (nat * pres)) : list bres :=
  map (fun j => block_result j tagged) (seq 0 n).

(* the roots a list of worker results stands for *)
Definition roots_of (l : list bres) : list tree :=
  flat_map (fun r => match r with BRoot (Some t) => [t] | _ => [] end) l.

(* ---- the byte-level entry points the correspondence check runs (harness ops msplit, mgen) ---- *)

(* a block is the concatenation of its rows, each followed by "\n" (fmt.Sprintln) *)
Definition block_bytes (b : list str) : str := flat_map (fun r => r ++ [c_lf]) b.

(* split on a whole input: the blocks sent, and whether the scanner ended without an error
   (on a scanner error the block being collected is not sent) *)
Definition split_doc (input : str) : list str * bool :=
  let '(rows, e) := scan_lines input in
  match e with
  | ScanEOF => (map block_bytes (split_rows rows), true)
  | _ => (map block_bytes (removelast (split_rows rows)), false)
  end.

(* the lines of a block as the generate worker reads them (after D25: strings.Cut at every "\n", no
   line scanner, so no second dropCR): a last piece without "\n" is a line too, unless it is empty *)
Fixpoint block_lines_go (cur : str) (s : str) : list str :=
  match s with
  | [] => match cur with [] => [] | _ => [rev cur] end
  | c :: r => if Ascii.eqb c c_lf then rev cur :: block_lines_go [] r else block_lines_go (c :: cur) r
  end.
Definition block_lines (s : str) : list str := block_lines_go [] s.

(* one generate worker on one block through a fresh parser *)
Definition gen_block (block : str) : bres := worker None (parse_all p0 (block_lines block)).
