(* Conc/Pipeline.v — labelled transition system for gtree's massive mode
   (pipeline_tree*.go, input_spliter.go, root_generator.go pipeline part).  MODEL ONLY.

   A pipeline is a source (the splitter, or the goroutine feeding one root) followed by
   stages of workers connected by UNBUFFERED channels (a hand-over is one joint step of the
   sender and an idle receiver), one error channel of capacity 1 per stage (unbuffered for
   the splitter), one closer per stage (wg.Wait; close), one errgroup reader per error
   channel (handlePipelineErr), the caller's context (ucancel), the pipeline's own context
   cancelled by the deferred cancel() when the call returns (icancel) and the errgroup's
   context (ecancel).  Items are the root blocks, identified by numbers; a scenario says
   which item fails at which stage.  The last stage is the sink; a locking sink (the text
   spreader) writes an item's lines one by one inside a critical section.

   The descriptors say how each send / receive is written in the Go source (guarded by the
   context or not); Conc/Instance.v is generated from /repo's source by the inventory
   scanner and instantiates them. *)
From Coq Require Import List Arith Bool Lia.
Import ListNotations.

Definition item := nat.

(* how `errc <- err` is written *)
Inductive err_send_mode := Blocking | CtxGuarded.

Record sdesc := {
  d_workers : nat;                 (* number of worker goroutines of the stage *)
  d_fails : item -> bool;          (* scenario: the stage's work fails on this item *)
  d_err_send : err_send_mode;
  d_exits_on_err : bool;           (* `return` after reporting an error (otherwise the worker loops on) *)
  d_out_guarded : bool;            (* the hand-over to the next stage selects on ctx.Done() *)
  d_in_guarded : bool;             (* the receive selects on ctx.Done() *)
  d_lock : bool;                   (* sink only: items are written line by line under a mutex *)
  d_lines : item -> nat            (* locking sink: number of writes for the item *)
}.

Record params := {
  p_items : list item;             (* what the source emits, in order *)
  p_src_err : bool;                (* the source ends with an error (scanner / reader failure) *)
  p_src_err_guarded : bool;        (* ... sent with a select on ctx.Done() *)
  p_src_emit_guarded : bool;       (* source hand-over selects on ctx.Done() *)
  p_stages : list sdesc;
  p_user_may_cancel : bool         (* scenario: the caller's context can be cancelled *)
}.

(* worker states *)
Inductive wst :=
| WIdle                       (* at the top of its loop, in the select on its input *)
| WHold (i : item)            (* has received i, working on it *)
| WErr (i : item)             (* work on i failed, about to send the error *)
| WOut (i : item)             (* work on i done, in the select that hands it on *)
| WCrit (i : item) (k : nat)  (* locking sink: holds the mutex, k lines of i written *)
| WDone.                      (* returned (wg.Done) *)

Inductive errv := EStage (s : nat) (i : item) | ESrc | ECtx.

Record sst := {
  s_ws : list wst;
  s_closed : bool;              (* the closer has run: out and errc are closed *)
  s_ebuf : option item          (* the capacity-1 error buffer *)
}.

Inductive src_state := SRun | SDone.
Inductive rst := RWait | RDone (e : option errv).

Record state := {
  st_pending : list item;       (* items the source has not emitted yet *)
  st_src : src_state;           (* SDone: the source goroutine has returned (its channels are closed) *)
  st_src_err_pending : bool;    (* the source still has to report its error *)
  st_stages : list sst;
  st_readers : list rst;        (* reader 0 reads the source's error channel, reader s+1 stage s's *)
  st_main : option (option errv);   (* Some r: the call has returned r *)
  st_first_err : option errv;   (* errgroup: first non-nil error returned by a reader *)
  st_ucancel : bool;
  st_icancel : bool;
  st_ecancel : bool;
  st_log : list (item * nat)    (* locking sink: (item, line index) in write order *)
}.

Definition ctx_done (s : state) : bool := st_ucancel s || st_icancel s.
Definition ectx_done (s : state) : bool := st_ecancel s || ctx_done s.

Definition init_stage (d : sdesc) : sst :=
  {| s_ws := repeat WIdle (d_workers d); s_closed := false; s_ebuf := None |}.

Definition init (p : params) : state :=
  {| st_pending := p_items p; st_src := SRun; st_src_err_pending := p_src_err p;
     st_stages := map init_stage (p_stages p);
     st_readers := repeat RWait (S (List.length (p_stages p)));
     st_main := None; st_first_err := None;
     st_ucancel := false; st_icancel := false; st_ecancel := false; st_log := [] |}.

(* ---- list update helpers ---- *)
Fixpoint upd {A : Type} (n : nat) (f : A -> A) (l : list A) : list A :=
  match l, n with
  | [], _ => []
  | x :: r, 0 => f x :: r
  | x :: r, S m => x :: upd m f r
  end.

Definition set_ws (ws : list wst) (t : sst) : sst :=
  {| s_ws := ws; s_closed := s_closed t; s_ebuf := s_ebuf t |}.
Definition set_closed (t : sst) : sst :=
  {| s_ws := s_ws t; s_closed := true; s_ebuf := s_ebuf t |}.
Definition set_ebuf (e : option item) (t : sst) : sst :=
  {| s_ws := s_ws t; s_closed := s_closed t; s_ebuf := e |}.

Definition with_stages (s : state) (l : list sst) : state :=
  {| st_pending := st_pending s; st_src := st_src s; st_src_err_pending := st_src_err_pending s;
     st_stages := l; st_readers := st_readers s; st_main := st_main s; st_first_err := st_first_err s;
     st_ucancel := st_ucancel s; st_icancel := st_icancel s; st_ecancel := st_ecancel s; st_log := st_log s |}.

(* one worker of a pool changes from x to y *)
Definition pool_change (ws ws' : list wst) (x y : wst) : Prop :=
  exists l1 l2, ws = l1 ++ x :: l2 /\ ws' = l1 ++ y :: l2.

(* the input of stage n is closed: the source has returned (n = 0) or stage n-1's closer has run *)
Definition input_closed (s : state) (n : nat) : Prop :=
  match n with
  | 0 => st_src s = SDone
  | S m => exists t, nth_error (st_stages s) m = Some t /\ s_closed t = true
  end.

Definition is_last (p : params) (n : nat) : Prop := S n = List.length (p_stages p).

Definition no_crit (ws : list wst) : Prop := forall i k, ~ In (WCrit i k) ws.

(* after reporting (or dropping) an error the worker returns or loops on *)
Definition after_err (d : sdesc) : wst := if d_exits_on_err d then WDone else WIdle.

Definition all_done (ws : list wst) : Prop := forall w, In w ws -> w = WDone.

Definition record_err (s : state) (e : errv) : option errv :=
  match st_first_err s with Some x => Some x | None => Some e end.

(* ---- the steps ---- *)
Inductive step (p : params) : state -> state -> Prop :=

(* the source hands its next item to an idle worker of stage 0 (rendezvous) *)
| step_src_emit : forall s i rest t ws',
    st_src s = SRun -> st_pending s = i :: rest ->
    nth_error (st_stages s) 0 = Some t -> pool_change (s_ws t) ws' WIdle (WHold i) ->
    step p s {| st_pending := rest; st_src := SRun; st_src_err_pending := st_src_err_pending s;
                st_stages := upd 0 (set_ws ws') (st_stages s); st_readers := st_readers s;
                st_main := st_main s; st_first_err := st_first_err s;
                st_ucancel := st_ucancel s; st_icancel := st_icancel s; st_ecancel := st_ecancel s; st_log := st_log s |}

(* the source gives up on a done context (only if its sends are guarded) *)
| step_src_abort : forall s,
    st_src s = SRun -> ctx_done s = true ->
    (st_pending s <> [] -> p_src_emit_guarded p = true) ->
    (st_pending s = [] -> st_src_err_pending s = true -> p_src_err_guarded p = true) ->
    step p s {| st_pending := st_pending s; st_src := SDone; st_src_err_pending := false;
                st_stages := st_stages s; st_readers := st_readers s;
                st_main := st_main s; st_first_err := st_first_err s;
                st_ucancel := st_ucancel s; st_icancel := st_icancel s; st_ecancel := st_ecancel s; st_log := st_log s |}

(* everything emitted, no error to report: the source returns and closes its channels *)
| step_src_close : forall s,
    st_src s = SRun -> st_pending s = [] -> st_src_err_pending s = false ->
    step p s {| st_pending := []; st_src := SDone; st_src_err_pending := false;
                st_stages := st_stages s; st_readers := st_readers s;
                st_main := st_main s; st_first_err := st_first_err s;
                st_ucancel := st_ucancel s; st_icancel := st_icancel s; st_ecancel := st_ecancel s; st_log := st_log s |}

(* the source reports its error: its error channel is unbuffered, the send meets reader 0 *)
| step_src_err : forall s rs,
    st_src s = SRun -> st_pending s = [] -> st_src_err_pending s = true ->
    st_readers s = RWait :: rs ->
    step p s {| st_pending := []; st_src := SDone; st_src_err_pending := false;
                st_stages := st_stages s; st_readers := RDone (Some ESrc) :: rs;
                st_main := st_main s; st_first_err := record_err s ESrc;
                st_ucancel := st_ucancel s; st_icancel := st_icancel s; st_ecancel := true; st_log := st_log s |}

(* a worker finishes its work on an item successfully *)
| step_work_ok : forall s n d t i ws' next,
    nth_error (p_stages p) n = Some d -> nth_error (st_stages s) n = Some t ->
    d_fails d i = false ->
    (d_lock d = false \/ ~ is_last p n) ->
    next = (if Nat.eqb (S n) (List.length (p_stages p)) then WIdle else WOut i) ->
    pool_change (s_ws t) ws' (WHold i) next ->
    step p s (with_stages s (upd n (set_ws ws') (st_stages s)))

(* ... or fails on it *)
| step_work_fail : forall s n d t i ws',
    nth_error (p_stages p) n = Some d -> nth_error (st_stages s) n = Some t ->
    d_fails d i = true ->
    pool_change (s_ws t) ws' (WHold i) (WErr i) ->
    step p s (with_stages s (upd n (set_ws ws') (st_stages s)))

(* the error goes into the free slot of the stage's error buffer *)
| step_err_send : forall s n d t i ws',
    nth_error (p_stages p) n = Some d -> nth_error (st_stages s) n = Some t ->
    s_ebuf t = None ->
    pool_change (s_ws t) ws' (WErr i) (after_err d) ->
    step p s (with_stages s (upd n (fun t => set_ebuf (Some i) (set_ws ws' t)) (st_stages s)))

(* the buffer is taken and the context is done: a guarded send drops the error *)
| step_err_drop : forall s n d t i ws',
    nth_error (p_stages p) n = Some d -> nth_error (st_stages s) n = Some t ->
    d_err_send d = CtxGuarded -> ctx_done s = true ->
    pool_change (s_ws t) ws' (WErr i) (after_err d) ->
    step p s (with_stages s (upd n (set_ws ws') (st_stages s)))

(* hand-over between neighbouring stages (rendezvous with an idle worker of the next stage) *)
| step_handoff : forall s n t t2 i ws' ws2',
    nth_error (st_stages s) n = Some t -> nth_error (st_stages s) (S n) = Some t2 ->
    pool_change (s_ws t) ws' (WOut i) WIdle ->
    pool_change (s_ws t2) ws2' WIdle (WHold i) ->
    step p s (with_stages s (upd (S n) (set_ws ws2') (upd n (set_ws ws') (st_stages s))))

(* a guarded hand-over gives up on a done context: the worker returns *)
| step_handoff_abort : forall s n d t i ws',
    nth_error (p_stages p) n = Some d -> nth_error (st_stages s) n = Some t ->
    d_out_guarded d = true -> ctx_done s = true ->
    pool_change (s_ws t) ws' (WOut i) WDone ->
    step p s (with_stages s (upd n (set_ws ws') (st_stages s)))

(* an idle worker finds its input closed *)
| step_exit_closed : forall s n t ws',
    nth_error (st_stages s) n = Some t -> input_closed s n ->
    pool_change (s_ws t) ws' WIdle WDone ->
    step p s (with_stages s (upd n (set_ws ws') (st_stages s)))

(* an idle worker with a guarded receive sees the context done *)
| step_exit_ctx : forall s n d t ws',
    nth_error (p_stages p) n = Some d -> nth_error (st_stages s) n = Some t ->
    d_in_guarded d = true -> ctx_done s = true ->
    pool_change (s_ws t) ws' WIdle WDone ->
    step p s (with_stages s (upd n (set_ws ws') (st_stages s)))

(* locking sink: take the mutex (nobody holds it), write the lines, release *)
| step_lock : forall s n d t i ws',
    nth_error (p_stages p) n = Some d -> nth_error (st_stages s) n = Some t ->
    is_last p n -> d_lock d = true -> d_fails d i = false -> no_crit (s_ws t) ->
    pool_change (s_ws t) ws' (WHold i) (WCrit i 0) ->
    step p s (with_stages s (upd n (set_ws ws') (st_stages s)))
| step_write : forall s n d t i k ws',
    nth_error (p_stages p) n = Some d -> nth_error (st_stages s) n = Some t ->
    k < d_lines d i ->
    pool_change (s_ws t) ws' (WCrit i k) (WCrit i (S k)) ->
    step p s {| st_pending := st_pending s; st_src := st_src s; st_src_err_pending := st_src_err_pending s;
                st_stages := upd n (set_ws ws') (st_stages s); st_readers := st_readers s;
                st_main := st_main s; st_first_err := st_first_err s;
                st_ucancel := st_ucancel s; st_icancel := st_icancel s; st_ecancel := st_ecancel s;
                st_log := st_log s ++ [(i, k)] |}
| step_unlock : forall s n d t i ws',
    nth_error (p_stages p) n = Some d -> nth_error (st_stages s) n = Some t ->
    pool_change (s_ws t) ws' (WCrit i (d_lines d i)) WIdle ->
    step p s (with_stages s (upd n (set_ws ws') (st_stages s)))

(* the closer: all workers have returned *)
| step_closer : forall s n t,
    nth_error (st_stages s) n = Some t -> s_closed t = false -> all_done (s_ws t) ->
    step p s (with_stages s (upd n set_closed (st_stages s)))

(* handlePipelineErr's readers (reader S n reads stage n's error channel) *)
| step_reader_take : forall s n t i,
    nth_error (st_stages s) n = Some t -> s_ebuf t = Some i ->
    nth_error (st_readers s) (S n) = Some RWait ->
    step p s {| st_pending := st_pending s; st_src := st_src s; st_src_err_pending := st_src_err_pending s;
                st_stages := upd n (set_ebuf None) (st_stages s);
                st_readers := upd (S n) (fun _ => RDone (Some (EStage n i))) (st_readers s);
                st_main := st_main s; st_first_err := record_err s (EStage n i);
                st_ucancel := st_ucancel s; st_icancel := st_icancel s; st_ecancel := true; st_log := st_log s |}
| step_reader_closed : forall s n t,
    nth_error (st_stages s) n = Some t -> s_closed t = true -> s_ebuf t = None ->
    nth_error (st_readers s) (S n) = Some RWait ->
    step p s {| st_pending := st_pending s; st_src := st_src s; st_src_err_pending := st_src_err_pending s;
                st_stages := st_stages s;
                st_readers := upd (S n) (fun _ => RDone None) (st_readers s);
                st_main := st_main s; st_first_err := st_first_err s;
                st_ucancel := st_ucancel s; st_icancel := st_icancel s; st_ecancel := st_ecancel s; st_log := st_log s |}
| step_reader0_closed : forall s rs,
    st_src s = SDone -> st_readers s = RWait :: rs ->
    step p s {| st_pending := st_pending s; st_src := st_src s; st_src_err_pending := st_src_err_pending s;
                st_stages := st_stages s; st_readers := RDone None :: rs;
                st_main := st_main s; st_first_err := st_first_err s;
                st_ucancel := st_ucancel s; st_icancel := st_icancel s; st_ecancel := st_ecancel s; st_log := st_log s |}
| step_reader_ctx : forall s n,
    nth_error (st_readers s) n = Some RWait -> ectx_done s = true ->
    step p s {| st_pending := st_pending s; st_src := st_src s; st_src_err_pending := st_src_err_pending s;
                st_stages := st_stages s;
                st_readers := upd n (fun _ => RDone (Some ECtx)) (st_readers s);
                st_main := st_main s; st_first_err := record_err s ECtx;
                st_ucancel := st_ucancel s; st_icancel := st_icancel s; st_ecancel := true; st_log := st_log s |}

(* all readers have returned: the call returns the first error, or the context's error if the
   caller cancelled (D21 repair), or nil; the deferred cancel() runs *)
| step_main_return : forall s,
    st_main s = None -> (forall r, In r (st_readers s) -> r <> RWait) ->
    step p s {| st_pending := st_pending s; st_src := st_src s; st_src_err_pending := st_src_err_pending s;
                st_stages := st_stages s; st_readers := st_readers s;
                st_main := Some (match st_first_err s with
                                 | Some e => Some e
                                 | None => if st_ucancel s then Some ECtx else None
                                 end);
                st_first_err := st_first_err s;
                st_ucancel := st_ucancel s; st_icancel := true; st_ecancel := st_ecancel s; st_log := st_log s |}

(* the caller cancels its context *)
| step_user_cancel : forall s,
    p_user_may_cancel p = true -> st_ucancel s = false ->
    step p s {| st_pending := st_pending s; st_src := st_src s; st_src_err_pending := st_src_err_pending s;
                st_stages := st_stages s; st_readers := st_readers s;
                st_main := st_main s; st_first_err := st_first_err s;
                st_ucancel := true; st_icancel := st_icancel s; st_ecancel := st_ecancel s; st_log := st_log s |}.

(* reachability *)
Inductive reach (p : params) : state -> Prop :=
| reach_init : reach p (init p)
| reach_step : forall s s', reach p s -> step p s s' -> reach p s'.

(* every goroutine the call started has returned *)
Definition quiescent (s : state) : Prop :=
  st_src s = SDone /\
  (forall t, In t (st_stages s) -> all_done (s_ws t) /\ s_closed t = true) /\
  (forall r, In r (st_readers s) -> r <> RWait).

(* the parameters under which nothing can block forever: every send is guarded (the repaired code) *)
Definition safe_params (p : params) : Prop :=
  p_src_err_guarded p = true /\ p_src_emit_guarded p = true /\
  forall d, In d (p_stages p) ->
    d_err_send d = CtxGuarded /\ d_out_guarded d = true /\ d_in_guarded d = true.
