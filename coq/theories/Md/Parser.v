(* Md/Parser.v — model of markdown.Parser.Parse (markdown/parser.go).  MODEL ONLY.
   Step-faithful to: symbol order - * + ; `sep` assigned inside failing attempts;
   `sep` reset by every column-0 item; `spaces` learnt once; sticky isSharpRoot. *)
From Coq Require Import List Ascii Arith Bool.
From GT Require Import Base.GoStr.
Import ListNotations.

Record pstate := { sharp : bool; spaces : nat; sep : option ascii }.
Definition p0 := {| sharp := false; spaces := 0; sep := None |}.

Inductive pres := PBlank | PEmpty | PFormat | PItem (h : nat) (t : str).

(* validateSpaces *)
Definition validate (sp cnt : nat) : bool := (sp <=? 1) || (cnt mod sp =? 0).

(* one iteration of the loop in separateRow *)
Definition try_symbol (st : pstate) (row : str) (sym : ascii) : pstate * option (nat * str) :=
  match cut sym row with
  | None => (st, None)
  | Some (before, after) =>
      match before with
      | [] => ({| sharp := sharp st; spaces := spaces st; sep := None |}, Some (0, after))
      | c0 :: _ =>
          if Ascii.eqb c0 c_sp || Ascii.eqb c0 c_tab then
            let s := match sep st with Some s => s | None => c0 end in
            let st1 := {| sharp := sharp st; spaces := spaces st; sep := Some s |} in
            let cnt := count s before in
            if cnt =? List.length before then
              let st2 := if (0 <? cnt) && (spaces st1 =? 0)
                         then {| sharp := sharp st1; spaces := cnt; sep := sep st1 |} else st1 in
              if validate (spaces st2) cnt then (st2, Some (cnt, after)) else (st2, None)
            else (st1, None)
          else (st, None)
      end
  end.

Fixpoint separate (st : pstate) (row : str) (syms : list ascii) : pstate * option (nat * str) :=
  match syms with
  | [] => (st, None)
  | s :: rest => match try_symbol st row s with
                 | (st', Some r) => (st', Some r)
                 | (st', None) => separate st' row rest
                 end
  end.

(* calculateHierarchy *)
Definition hierarchy (st : pstate) (cnt : nat) : nat :=
  (match sep st with
   | None => cnt + 1
   | Some _ => if spaces st =? 0 then cnt + 1 else cnt / spaces st + 1
   end) + (if sharp st then 1 else 0).

Definition list_symbols : list ascii := [c_hy; c_as; c_pl].

Definition parse (st : pstate) (row : str) : pstate * pres :=
  if all_space row then (st, PBlank)
  else match row with
  | c :: after =>
      if Ascii.eqb c c_sharp then
        let st' := {| sharp := true; spaces := spaces st; sep := sep st |} in
        let text := trim c_sp (trim_left c_sharp after) in
        match text with [] => (st', PEmpty) | _ => (st', PItem 1 text) end
      else
        match separate st row list_symbols with
        | (st', None) => (st', PFormat)
        | (st', Some (cnt, after')) =>
            match trim_prefix1 c_sp after' with
            | [] => (st', PEmpty)
            | text => (st', PItem (hierarchy st' cnt) text)
            end
        end
  | [] => (st, PBlank)
  end.

Fixpoint parse_all (st : pstate) (rows : list str) : list pres :=
  match rows with
  | [] => []
  | r :: rs => let '(st', x) := parse st r in x :: parse_all st' rs
  end.
