(* Api/Cli.v — model of cmd/gtree (main.go, output.go, mkdir.go, verify.go, error.go,
   template.go) over an already parsed invocation.  urfave/cli's argument parsing is not
   modelled: the record says what it found (usage errors are a flag).  MODEL ONLY. *)
From Coq Require Import List Ascii Arith Bool.
From GT Require Import Base.GoStr Tree.Tree Tree.Gen Tree.Grower Out.Spreader Api.Simple Fs.FsModel Fs.Mkdir Fs.Verify Api.Faults.
Import ListNotations.

Inductive command := CmdOutput | CmdMkdir | CmdVerify | CmdTemplate.
Inductive input_src := InGiven | InMissingFile.

Record invocation := {
  i_cmd : command;
  i_usage_error : bool;              (* stray argument, unknown flag, flag without value, --massive-timeout <= 0 *)
  i_format : option (option encode); (* None: --format absent; Some None: unknown value *)
  i_input : input_src;               (* stdin / readable file, or a file that cannot be opened *)
  i_dry : bool;
  i_exts : list str;
  i_target : str;
  i_strict : bool
}.

(* exit codes of error.go; 1 is also what main returns for a plain error after the repair of D13 *)
Definition exit_usage := 1.
Definition exit_opts := 1.
Definition exit_open := 2.
Definition exit_output := 3.
Definition exit_mkdir := 4.
Definition exit_verify := 5.

Definition code_of (r : res unit) (code : nat) : nat := match r with Ok _ => 0 | _ => code end.

Definition cli_cfg (e : encode) (dry : bool) (exts : list str) : cfg :=
  {| c_bf := default_bfmt; c_enc := e; c_dry := dry; c_exts := exts; c_noiter := false |}.

(* the documented template (template.go: the text plus a newline) *)
Definition template_doc : str :=
  map ch [45;32;103;116;114;101;101;10;
          9;45;32;99;109;100;10;
          9;9;45;32;103;116;114;101;101;10;
          9;9;9;45;32;109;97;105;110;46;103;111;10;
          9;45;32;116;101;115;116;100;97;116;97;10;
          9;9;45;32;115;97;109;112;108;101;49;46;109;100;10;
          9;9;45;32;115;97;109;112;108;101;50;46;109;100;10;
          9;45;32;77;97;107;101;102;105;108;101;10;
          9;45;32;116;114;101;101;46;103;111;10].

(* stdout bytes, file system afterwards, exit status.  [budget]: byte budget of stdout
   (None = accepts everything). *)
Definition run_cli (iv : invocation) (doc : str) (f : fsmap) (budget : option nat) : str * fsmap * nat :=
  if i_usage_error iv then ([], f, exit_usage)
  else
    match i_cmd iv with
    | CmdTemplate =>
        match budget with
        | None => (template_doc, f, 0)
        | Some b => if List.length template_doc <=? b then (template_doc, f, 0) else (firstn b template_doc, f, exit_usage)
        end
    | CmdOutput =>
        match i_format iv with
        | Some None => ([], f, exit_opts)
        | fm =>
            match i_input iv with
            | InMissingFile => ([], f, exit_open)
            | InGiven =>
                let e := match fm with Some (Some e) => e | _ => EncDefault end in
                let '(out, r) := output_faulty (cli_cfg e false []) doc None budget in
                (out, f, code_of r exit_output)
            end
        end
    | CmdMkdir =>
        match i_input iv with
        | InMissingFile => ([], f, exit_open)
        | InGiven =>
            if i_dry iv then
              let '(out, r) := output_faulty (cli_cfg EncDefault true (i_exts iv)) doc None budget in
              (out, f, code_of r exit_output)
            else
              match gen_all doc with
              | Ok ts => let '(f', _, r) := mkdir_trees (cli_cfg EncDefault false (i_exts iv)) (i_target iv) f ts in
                         ([], f', code_of r exit_mkdir)
              | Err _ => ([], f, exit_mkdir)
              | Panic => ([], f, exit_mkdir)
              end
        end
    | CmdVerify =>
        match i_input iv with
        | InMissingFile => ([], f, exit_open)
        | InGiven =>
            match gen_all doc with
            | Ok ts => ([], f, code_of (verify_trees (cli_cfg EncDefault false []) (i_strict iv) (i_target iv) f ts) exit_verify)
            | Err _ => ([], f, exit_verify)
            | Panic => ([], f, exit_verify)
            end
        end
    end.
