(* Api/Wasm.v — model of the tinywasm variant (wasm_*.go): Output only.  MODEL ONLY.
   The wasm grower bakes " " + name + "\n" into the branch; the spreader
   concatenates branches and issues one buffered write. *)
From Coq Require Import List Ascii Arith Bool.
From GT Require Import Base.GoStr Tree.Tree Tree.Gen Tree.Grower
  Out.Spreader Out.Formatted Api.Simple.
Import ListNotations.

(* wasm assembleBranchFinally: branch := root ? name+"\n" : branch+" "+name+"\n" *)
Definition wasm_branch (d : nat) (g : gtree) : str := line_of d g.

(* [baked] = the default grower ran; with the nop grower (encoding options) every
   branch stays empty *)
Definition wasm_text (baked : bool) (g : gtree) : str :=
  if baked then concat (map (fun dg => wasm_branch (fst dg) (snd dg)) (gpre 1 g)) else [].

(* colorizeSpreader.spread: "%s\n%s" with summary ending in "\n" *)
Definition wasm_dry_block (baked : bool) (exts : list str) (g : gtree) : str :=
  wasm_text baked g ++ [c_lf] ++ (summary exts g ++ [c_lf]).

(* with an encoding option the wasm build installs the nop grower; only JSON has
   a spreader of its own, anything else falls back to the default spreader *)
Definition wasm_output (c : cfg) (input : str) : list chunk * res unit :=
  match gen_all input with
  | Err e => ([], Err e)
  | Panic => ([], Panic)
  | Ok ts =>
      match grow_all c false ts with
      | Err e => ([], Err e)
      | Panic => ([], Panic)
      | Ok gs =>
          if c_dry c then ([CText (concat (map (wasm_dry_block (is_default (c_enc c)) (c_exts c)) gs))], Ok tt)
          else match c_enc c with
               | EncJSON =>
                   match enc_chunks EncJSON gs with
                   | Ok cs => (cs, Ok tt)
                   | Err e => ([], Err e)
                   | Panic => ([], Panic)
                   end
               | EncDefault => ([CText (concat (map (wasm_text true) gs))], Ok tt)
               | _ => ([CText []], Ok tt)
               end
      end
  end.
