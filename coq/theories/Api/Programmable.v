(* Api/Programmable.v — model of NewRoot / Add and the From-Root entry points
   (tree_handler_programmably.go, treeSimple.*Programmably).  MODEL ONLY.
   A history is a list of operations on an arena of live trees; node handles are
   (tree id, position path).  Node.index and the package-level idxCounter are not
   modelled: after the repair of D5 no result depends on them (C13 is the theorem). *)
From Coq Require Import List Ascii Arith Bool.
From GT Require Import Base.GoStr Md.Parser Tree.Tree Tree.Gen Tree.Grower
  Out.Spreader Out.Formatted Out.Walker Api.Simple Fs.FsModel Fs.Mkdir Fs.Verify.
Import ListNotations.

Definition handle := (nat * list nat)%type.

Record world := {
  w_trees : list tree;        (* arena: tree id = position *)
  w_handles : list handle;    (* every NewRoot / Add call returns one, in call order *)
  w_fs : fsmap                (* the file system below the working directory *)
}.
Definition world0 := {| w_trees := []; w_handles := []; w_fs := [] |}.

Inductive pop :=
| PNewRoot (nm : str)
| PAdd (h : nat) (nm : str)
| POutput (h : option nat) (c : cfg)
| PWalk (h : option nat) (bf : bfmt) (fail : option nat)
| PWalkIter (h : option nat) (bf : bfmt) (brk : option nat)
| PMdOutput (c : cfg) (doc : str)
| PMdWalk (bf : bfmt) (fail : option nat) (doc : str)
| PFsInit (entries : fsmap)
| PMkdir (h : option nat) (c : cfg) (dir : str)
| PVerify (h : option nat) (c : cfg) (strict : bool) (dir : str)
| PMdMkdir (c : cfg) (dir : str) (doc : str)
| PMdVerify (c : cfg) (strict : bool) (dir : str) (doc : str).

Inductive pout :=
| OHandle (h : nat)
| OOutput (cs : list chunk) (r : res unit)
| OWalk (vs : list visit) (r : res unit)
| OFs (cs : list chunk) (r : res unit) (f : fsmap)
| OBad.

(* validateTreeRoot *)
Definition root_of (w : world) (h : option nat) : res tree :=
  match h with
  | None => Err ENilNode
  | Some i =>
      match nth_error (w_handles w) i with
      | None => Err ENilNode
      | Some (tid, path) =>
          match path with
          | _ :: _ => Err ENotRoot
          | [] => match nth_error (w_trees w) tid with
                  | Some t => Ok t
                  | None => Panic
                  end
          end
      end
  end.

(* treeSimple.outputProgrammably *)
Definition output_root (c : cfg) (t : tree) : list chunk * res unit :=
  if is_default (c_enc c) then
    (* growAndSpread: assemble and print fused; validation is off on this route *)
    (map CText (text_writes (grow_root (c_bf c) t)), Ok tt)
  else
    match spread_all c [nop_grow true t] with
    | Ok cs => (cs, Ok tt)
    | Err e => ([], Err e)
    | Panic => ([], Panic)
    end.

Definition walk_root (bf : bfmt) (cb : nat -> bool) (t : tree) : list visit * res unit :=
  walk cb [grow_root bf t].

Definition eqb_opt (o : option nat) (i : nat) : bool :=
  match o with Some k => k =? i | None => false end.

Definition pstep (w : world) (o : pop) : world * pout :=
  match o with
  | PNewRoot nm =>
      ({| w_trees := w_trees w ++ [T nm []];
          w_handles := w_handles w ++ [(List.length (w_trees w), [])]; w_fs := w_fs w |},
       OHandle (List.length (w_handles w)))
  | PAdd h nm =>
      match nth_error (w_handles w) h with
      | None => (w, OBad)
      | Some (tid, path) =>
          match nth_error (w_trees w) tid with
          | None => (w, OBad)
          | Some t =>
              match attach path nm t with
              | None => (w, OBad)
              | Some (t', path') =>
                  ({| w_trees := replace_nth tid t' (w_trees w);
                      w_handles := w_handles w ++ [(tid, path')]; w_fs := w_fs w |},
                   OHandle (List.length (w_handles w)))
              end
          end
      end
  | POutput h c =>
      match root_of w h with
      | Ok t => let '(cs, r) := output_root c t in (w, OOutput cs r)
      | Err e => (w, OOutput [] (Err e))
      | Panic => (w, OOutput [] Panic)
      end
  | PWalk h bf fail =>
      match root_of w h with
      | Ok t => let '(vs, r) := walk_root bf (eqb_opt fail) t in (w, OWalk vs r)
      | Err e => (w, OWalk [] (Err e))
      | Panic => (w, OWalk [] Panic)
      end
  | PWalkIter h bf brk =>
      match root_of w h with
      | Ok t => (w, OWalk (walk_iter brk (grow_root bf t)) (Ok tt))
      | Err e => (w, OWalk [] (Err e))
      | Panic => (w, OWalk [] Panic)
      end
  | PMdOutput c doc =>
      let '(cs, r) := output_md c doc in (w, OOutput cs r)
  | PMdWalk bf fail doc =>
      let '(vs, r) := walk_md {| c_bf := bf; c_enc := EncDefault; c_dry := false; c_exts := []; c_noiter := false |}
                              (eqb_opt fail) doc in (w, OWalk vs r)
  | PFsInit es =>
      let w' := {| w_trees := w_trees w; w_handles := w_handles w; w_fs := w_fs w ++ es |} in
      (w', OFs [] (Ok tt) (w_fs w'))
  | PMkdir h c dir =>
      match root_of w h with
      | Ok t =>
          let '(f', cs, r) := mkdir_trees c dir (w_fs w) [t] in
          ({| w_trees := w_trees w; w_handles := w_handles w; w_fs := f' |}, OFs cs r f')
      | Err e => (w, OFs [] (Err e) (w_fs w))
      | Panic => (w, OFs [] Panic (w_fs w))
      end
  | PVerify h c strict dir =>
      match root_of w h with
      | Ok t => (w, OFs [] (verify_trees c strict dir (w_fs w) [t]) (w_fs w))
      | Err e => (w, OFs [] (Err e) (w_fs w))
      | Panic => (w, OFs [] Panic (w_fs w))
      end
  | PMdMkdir c dir doc =>
      match gen_all doc with
      | Ok ts =>
          let '(f', cs, r) := mkdir_trees c dir (w_fs w) ts in
          ({| w_trees := w_trees w; w_handles := w_handles w; w_fs := f' |}, OFs cs r f')
      | Err e => (w, OFs [] (Err e) (w_fs w))
      | Panic => (w, OFs [] Panic (w_fs w))
      end
  | PMdVerify c strict dir doc =>
      match gen_all doc with
      | Ok ts => (w, OFs [] (verify_trees c strict dir (w_fs w) ts) (w_fs w))
      | Err e => (w, OFs [] (Err e) (w_fs w))
      | Panic => (w, OFs [] Panic (w_fs w))
      end
  end.

Fixpoint prun (w : world) (ops : list pop) : list pout :=
  match ops with
  | [] => []
  | o :: r => let '(w', out) := pstep w o in out :: prun w' r
  end.
