(* Api/Simple.v — model of treeSimple (simple_tree.go), newConfig/options
   (config.go) and the From-Markdown entry points (tree_handler.go) without the
   massive option.  MODEL ONLY. *)
From Coq Require Import List Ascii Arith Bool.
From GT Require Import Base.GoStr Md.Parser Tree.Tree Tree.Gen Tree.Grower
  Out.Spreader Out.Formatted Out.Walker.
Import ListNotations.

Inductive encode := EncDefault | EncJSON | EncYAML | EncTOML.

Record cfg := {
  c_bf : bfmt;
  c_enc : encode;
  c_dry : bool;
  c_exts : list str;
  c_noiter : bool
}.

Definition is_default (e : encode) : bool := match e with EncDefault => true | _ => false end.

(* what reaches the io.Writer: bytes that gtree itself determines, or one Encode
   call of a third-party encoder (yaml.v3 / go-toml) on a formatted tree *)
Inductive chunk :=
| CText (s : str)
| CEnc (e : encode) (f : fnode).

(* nopGrowerSimple: nothing is assembled; branch and path stay empty *)
Fixpoint nop_grow (root : bool) (t : tree) {struct t} : gtree :=
  match t with
  | T n ks => G n [] (if root then n else []) (map (nop_grow false) ks)
  end.

(* growerFactory + assemble + validation.  [force_validation] = enableValidation() *)
Definition grow_one (c : cfg) (force_validation : bool) (t : tree) : res gtree :=
  if is_default (c_enc c) then
    let g := grow_root (c_bf c) t in
    if c_dry c || force_validation then
      match validate_g g with Some e => Err e | None => Ok g end
    else Ok g
  else Ok (nop_grow true t).

Fixpoint grow_all (c : cfg) (fv : bool) (ts : list tree) : res (list gtree) :=
  match ts with
  | [] => Ok []
  | t :: r =>
      match grow_one c fv t with
      | Ok g => match grow_all c fv r with Ok gs => Ok (g :: gs) | Err e => Err e | Panic => Panic end
      | Err e => Err e
      | Panic => Panic
      end
  end.

(* tree of a grown node, for the formatted spreaders (they read names only) *)
Fixpoint tree_of_g (g : gtree) : tree :=
  match g with G n _ _ ks => T n (map tree_of_g ks) end.

Definition enc_chunk (e : encode) (g : gtree) : res chunk :=
  match formatted (tree_of_g g) with
  | Ok f => Ok (match e with EncJSON => CText (json_line f) | _ => CEnc e f end)
  | Err x => Err x
  | Panic => Panic
  end.

(* spreadIter: the writes made for one root *)
Definition spread_iter_one (c : cfg) (g : gtree) : res (list chunk) :=
  if c_dry c then Ok [CText (dry_block (c_exts c) g)]
  else if is_default (c_enc c) then Ok (map CText (text_writes g))
  else match enc_chunk (c_enc c) g with Ok ch => Ok [ch] | Err e => Err e | Panic => Panic end.

(* spread: the writes made for all roots *)
Fixpoint enc_chunks (e : encode) (gs : list gtree) : res (list chunk) :=
  match gs with
  | [] => Ok []
  | g :: r => match enc_chunk e g with
              | Ok ch => match enc_chunks e r with Ok cs => Ok (ch :: cs) | x => x end
              | Err x => Err x
              | Panic => Panic
              end
  end.

Definition spread_all (c : cfg) (gs : list gtree) : res (list chunk) :=
  if c_dry c then Ok [CText (concat (map (dry_block (c_exts c)) gs))]
  else if is_default (c_enc c) then Ok (map CText (flat_map text_writes gs))
  else enc_chunks (c_enc c) gs.

(* treeSimple.output through the iterators: root by root *)
Fixpoint output_iter_go (c : cfg) (ts : list tree) (fin : res unit) : list chunk * res unit :=
  match ts with
  | [] => ([], fin)
  | t :: r =>
      match grow_one c false t with
      | Err e => ([], Err e)
      | Panic => ([], Panic)
      | Ok g =>
          match spread_iter_one c g with
          | Err e => ([], Err e)
          | Panic => ([], Panic)
          | Ok ws => let '(ws', e) := output_iter_go c r fin in (ws ++ ws', e)
          end
      end
  end.

Definition output_md_r (c : cfg) (input : str) (k : option nat) : list chunk * res unit :=
  if c_noiter c then
    match gen_all_r input k with
    | Err e => ([], Err e)
    | Panic => ([], Panic)
    | Ok ts =>
        match grow_all c false ts with
        | Err e => ([], Err e)
        | Panic => ([], Panic)
        | Ok gs => match spread_all c gs with
                   | Ok ws => (ws, Ok tt)
                   | Err e => ([], Err e)
                   | Panic => ([], Panic)
                   end
        end
    end
  else
    let '(ts, fin) := gen_stream_r input k in output_iter_go c ts fin.

Definition output_md (c : cfg) (input : str) : list chunk * res unit := output_md_r c input None.

(* the encoding options only select an output format: every entry point other than Output*
   works with the default grower (after the repair of D23) *)
Definition no_enc (c : cfg) : cfg :=
  {| c_bf := c_bf c; c_enc := EncDefault; c_dry := c_dry c; c_exts := c_exts c; c_noiter := c_noiter c |}.

(* treeSimple.walk *)
Definition walk_md (c0 : cfg) (cb : nat -> bool) (input : str) : list visit * res unit :=
  let c := no_enc c0 in
  match gen_all input with
  | Err e => ([], Err e)
  | Panic => ([], Panic)
  | Ok ts =>
      match grow_all c false ts with
      | Err e => ([], Err e)
      | Panic => ([], Panic)
      | Ok gs => walk cb gs
      end
  end.
