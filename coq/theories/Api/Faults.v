(* Api/Faults.v — the outside world as oracles: a reader that fails after k bytes and a
   writer with a byte budget (it accepts bytes until the budget is used up and answers
   the write that crosses it with a partial count and an error).  MODEL ONLY.
   After the repair of D10 every write's error is checked by gtree. *)
From Coq Require Import List Ascii Arith Bool.
From GT Require Import Base.GoStr Tree.Tree Tree.Gen Tree.Grower Out.Formatted Api.Simple Api.Programmable.
Import ListNotations.

(* bytes accepted by the writer and whether every write succeeded; an Encode call of a
   third-party encoder is opaque (not modelled): reported as failure with nothing accepted *)
Fixpoint write_all (budget : nat) (cs : list chunk) : str * bool :=
  match cs with
  | [] => ([], true)
  | CText s :: r =>
      if List.length s <=? budget then
        let '(a, ok) := write_all (budget - List.length s) r in (s ++ a, ok)
      else (firstn budget s, false)
  | CEnc _ _ :: _ => ([], false)
  end.

Fixpoint chunk_bytes (cs : list chunk) : str :=
  match cs with
  | [] => []
  | CText s :: r => s ++ chunk_bytes r
  | CEnc _ _ :: r => chunk_bytes r
  end.

(* OutputFromMarkdown with a failing reader and/or a budgeted writer *)
Definition output_faulty (c : cfg) (input : str) (k : option nat) (budget : option nat) : str * res unit :=
  let '(cs, r) := output_md_r c input k in
  match budget with
  | None => (chunk_bytes cs, r)
  | Some b => let '(acc, ok) := write_all b cs in (acc, if ok then r else Err EWriter)
  end.

(* OutputFromRoot with a budgeted writer *)
Definition output_root_faulty (c : cfg) (t : tree) (budget : nat) : str * res unit :=
  let '(cs, r) := output_root c t in
  let '(acc, ok) := write_all budget cs in (acc, if ok then r else Err EWriter).

(* a writer that rejects exactly its k-th Write call (from 0) and accepts every other one:
   a transient failure.  Empty writes never reach the writer. *)
Fixpoint write_kth (k : nat) (cs : list chunk) : str * bool :=
  match cs with
  | [] => ([], true)
  | CText [] :: r => write_kth k r
  | CText s :: r =>
      match k with
      | 0 => ([], false)
      | S k' => let '(a, ok) := write_kth k' r in (s ++ a, ok)
      end
  | CEnc _ _ :: _ => ([], false)
  end.

Definition output_faulty_kth (c : cfg) (input : str) (k : nat) : str * res unit :=
  let '(cs, r) := output_md c input in
  let '(acc, ok) := write_kth k cs in (acc, if ok then r else Err EWriter).

Definition output_root_faulty_kth (c : cfg) (t : tree) (k : nat) : str * res unit :=
  let '(cs, r) := output_root c t in
  let '(acc, ok) := write_kth k cs in (acc, if ok then r else Err EWriter).
