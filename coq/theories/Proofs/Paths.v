(* Proofs/Paths.v — path.Join / path.Clean are plain joining on single valid path elements *)
From Coq Require Import List Ascii Arith Bool Lia.
From GT Require Import Base.GoStr Proofs.TreeInd.
Import ListNotations.

(* a single valid path element: non-empty, no '/', neither "." nor ".." *)
Definition elem_ok (e : str) : bool :=
  nonempty e && negb (is_dot e) && negb (is_dotdot e) && negb (contains c_slash e).

Definition join (es : list str) : str := join_with [c_slash] es.

Lemma split_on_noslash x : contains c_slash x = false -> split_on c_slash x = [x].
Proof.
  induction x as [|c x IH]; [reflexivity|]. intros H. unfold contains in H. cbn [existsb] in H.
  apply orb_false_iff in H as [H1 H2]. rewrite Ascii.eqb_sym in H1. cbn [split_on]. rewrite H1, (IH H2). reflexivity.
Qed.

Lemma split_on_app x rest :
  contains c_slash x = false -> split_on c_slash (x ++ c_slash :: rest) = x :: split_on c_slash rest.
Proof.
  induction x as [|c x IH]; intros H.
  - cbn [app split_on]. rewrite Ascii.eqb_refl. reflexivity.
  - unfold contains in H. cbn [existsb] in H. apply orb_false_iff in H as [H1 H2]. rewrite Ascii.eqb_sym in H1.
    cbn [app split_on]. rewrite H1, (IH H2). reflexivity.
Qed.

Lemma elem_ok_noslash e : elem_ok e = true -> contains c_slash e = false.
Proof. unfold elem_ok. intros H. apply andb_true_iff in H as [_ H]. apply negb_true_iff in H. exact H. Qed.

Lemma elem_ok_nonempty e : elem_ok e = true -> e <> [].
Proof. unfold elem_ok. destruct e; [cbn; discriminate|discriminate]. Qed.

Lemma split_join : forall es, es <> [] -> Forall (fun e => elem_ok e = true) es -> split_on c_slash (join es) = es.
Proof.
  induction es as [|e es IH]; intros Hne HF; [congruence|].
  inversion HF as [|? ? He Hes]; subst. destruct es as [|e2 es'].
  - cbn. apply split_on_noslash. apply elem_ok_noslash. exact He.
  - change (join (e :: e2 :: es')) with (e ++ [c_slash] ++ join (e2 :: es')). cbn [app].
    rewrite split_on_app by (apply elem_ok_noslash; exact He). f_equal. apply IH; [congruence|exact Hes].
Qed.

Lemma clean_elems_ok rooted : forall es stk,
  Forall (fun e => elem_ok e = true) es -> clean_elems rooted es stk = rev stk ++ es.
Proof.
  induction es as [|e es IH]; intros stk HF; cbn [clean_elems].
  - rewrite frev_rev, app_nil_r. reflexivity.
  - inversion HF as [|? ? He Hes]; subst. unfold elem_ok in He.
    apply andb_true_iff in He as [He H4]. apply andb_true_iff in He as [He H3]. apply andb_true_iff in He as [H1 H2].
    destruct e as [|c e']; [discriminate|].
    apply negb_true_iff in H2. apply negb_true_iff in H3. rewrite H2, H3.
    rewrite IH by exact Hes. cbn [rev]. rewrite <- app_assoc. reflexivity.
Qed.

Lemma join_nonempty es : es <> [] -> Forall (fun e => elem_ok e = true) es -> join es <> [].
Proof.
  intros Hne HF. destruct es as [|e es]; [congruence|]. inversion HF as [|? ? He _]; subst.
  pose proof (elem_ok_nonempty e He). destruct e; [congruence|]. destruct es; cbn; discriminate.
Qed.

Lemma join_head_not_slash es : es <> [] -> Forall (fun e => elem_ok e = true) es ->
  exists c r, join es = c :: r /\ Ascii.eqb c c_slash = false.
Proof.
  intros Hne HF. destruct es as [|e es]; [congruence|]. inversion HF as [|? ? He _]; subst.
  pose proof (elem_ok_noslash e He) as Hs. destruct e as [|c e']; [discriminate|].
  unfold contains in Hs. cbn [existsb] in Hs. apply orb_false_iff in Hs as [Hs _]. rewrite Ascii.eqb_sym in Hs.
  destruct es; cbn; eauto.
Qed.

Theorem clean_join es : es <> [] -> Forall (fun e => elem_ok e = true) es -> path_clean (join es) = join es.
Proof.
  intros Hne HF. unfold path_clean.
  destruct (join_head_not_slash es Hne HF) as [c [r [E Hc]]]. rewrite E, Hc. rewrite <- E.
  rewrite split_join by assumption. rewrite clean_elems_ok by assumption. cbn [rev app].
  fold (join es). rewrite E. reflexivity.
Qed.

Lemma nonempty_true e : e <> [] -> nonempty e = true.
Proof. destruct e; [congruence|reflexivity]. Qed.

Theorem path_join_cons x es :
  elem_ok x = true -> es <> [] -> Forall (fun e => elem_ok e = true) es ->
  path_join [x; join es] = join (x :: es).
Proof.
  intros Hx Hne HF. unfold path_join. cbn [filter].
  rewrite (nonempty_true x (elem_ok_nonempty x Hx)), (nonempty_true _ (join_nonempty es Hne HF)).
  change (join_with [c_slash] [x; join es]) with (x ++ [c_slash] ++ join es).
  assert (E : x ++ [c_slash] ++ join es = join (x :: es)) by (destruct es; [congruence|reflexivity]).
  rewrite E. apply clean_join; [discriminate|constructor; assumption].
Qed.

Theorem path_join_single x : elem_ok x = true -> path_join [x] = x.
Proof.
  intros Hx. unfold path_join. cbn [filter]. rewrite (nonempty_true x (elem_ok_nonempty x Hx)).
  cbn [join_with]. apply (clean_join [x]); [discriminate|constructor; [exact Hx|constructor]].
Qed.

Lemma join_snoc l n : l <> [] -> join (l ++ [n]) = join l ++ [c_slash] ++ n.
Proof.
  induction l as [|a l IH]; intros H; [congruence|]. destruct l as [|b l'].
  - reflexivity.
  - change (join ((a :: b :: l') ++ [n])) with (a ++ [c_slash] ++ join ((b :: l') ++ [n])).
    rewrite IH by discriminate. change (join (a :: b :: l')) with (a ++ [c_slash] ++ join (b :: l')).
    rewrite <- !app_assoc. reflexivity.
Qed.
