(* Proofs/Spelled.v — every well-formed spelling (Spec/Spelling.v) of a nested item
   listing is read back by the parser as exactly that listing; the pre-order listing
   of a forest is nested; rows written out as bytes are scanned back as the rows. *)
From Coq Require Import List Ascii Arith Bool NArith Lia.
From GT Require Import Base.GoStr Md.Parser Tree.Tree Spec.Classify Spec.Spelling
  Proofs.TreeInd Proofs.GenItems.
Import ListNotations.

(* ---------- characters ---------- *)

Lemma bullet_cases bl : is_bullet bl = true -> bl = c_hy \/ bl = c_as \/ bl = c_pl.
Proof.
  unfold is_bullet. intros H.
  apply orb_true_iff in H as [H|H]; [apply orb_true_iff in H as [H|H]|];
    apply Ascii.eqb_eq in H; auto.
Qed.

Lemma uchar_cases u : uchar u = c_sp \/ uchar u = c_tab.
Proof. destruct u; cbn [uchar]; auto. Qed.

Lemma ulen_pos u : ulen u <> 0.
Proof. destruct u; cbn [ulen]; lia. Qed.

Lemma uchar_indent u : Ascii.eqb (uchar u) c_sp || Ascii.eqb (uchar u) c_tab = true.
Proof. destruct u; reflexivity. Qed.

Lemma bullet_not_indent bl : is_bullet bl = true -> Ascii.eqb bl c_sp || Ascii.eqb bl c_tab = false.
Proof. intros H. destruct (bullet_cases bl H) as [E|[E|E]]; subst; reflexivity. Qed.

Lemma bullet_not_uchar u bl : is_bullet bl = true -> uchar u <> bl.
Proof.
  intros H E. destruct (bullet_cases bl H) as [F|[F|F]]; destruct (uchar_cases u) as [G|G];
    rewrite G, F in E; discriminate.
Qed.

Lemma bullet_not_sharp bl : is_bullet bl = true -> Ascii.eqb bl c_sharp = false.
Proof. intros H. destruct (bullet_cases bl H) as [E|[E|E]]; subst; reflexivity. Qed.

Lemma uchar_not_sharp u : Ascii.eqb (uchar u) c_sharp = false.
Proof. destruct u; reflexivity. Qed.

(* ---------- all_space ---------- *)

Lemma all_space_bullet bl r : is_bullet bl = true -> all_space (bl :: r) = false.
Proof. intros H. destruct (bullet_cases bl H) as [E|[E|E]]; subst; reflexivity. Qed.

Lemma all_space_sharp r : all_space (c_sharp :: r) = false.
Proof. reflexivity. Qed.

Lemma all_space_uchar u r : all_space (uchar u :: r) = all_space r.
Proof. destruct u; reflexivity. Qed.

Lemma all_space_row u m bl r : is_bullet bl = true -> all_space (repeat (uchar u) m ++ bl :: r) = false.
Proof.
  intros H. induction m as [|m IH]; cbn [repeat app].
  - apply all_space_bullet; exact H.
  - rewrite all_space_uchar. exact IH.
Qed.

(* ---------- cut / count / trim ---------- *)

Lemma cut_skip sym pre rest :
  Forall (fun c => c <> sym) pre ->
  cut sym (pre ++ rest) =
  match cut sym rest with Some (x, y) => Some (pre ++ x, y) | None => None end.
Proof.
  induction 1 as [|c pre Hc _ IH]; cbn [app cut].
  - destruct (cut sym rest) as [[x y]|]; reflexivity.
  - apply Ascii.eqb_neq in Hc. rewrite Hc, IH.
    destruct (cut sym rest) as [[x y]|]; reflexivity.
Qed.

Lemma repeat_neq (c sym : ascii) m : c <> sym -> Forall (fun x => x <> sym) (repeat c m).
Proof.
  intros H. apply Forall_forall. intros x Hx. apply repeat_spec in Hx. subst. exact H.
Qed.

Lemma count_le c l : count c l <= List.length l.
Proof.
  unfold count. induction l as [|x l IH]; cbn [filter List.length]; [lia|].
  destruct (Ascii.eqb c x); cbn [List.length]; lia.
Qed.

Lemma count_app c x y : count c (x ++ y) = count c x + count c y.
Proof. unfold count. rewrite filter_app, app_length. reflexivity. Qed.

Lemma count_repeat c n : count c (repeat c n) = n.
Proof.
  unfold count. induction n as [|n IH]; cbn [repeat filter]; [reflexivity|].
  rewrite Ascii.eqb_refl. cbn [List.length]. rewrite IH. reflexivity.
Qed.

Lemma count_cons_neq c x l : x <> c -> count c (x :: l) = count c l.
Proof.
  intros H. unfold count. cbn [filter].
  assert (E : Ascii.eqb c x = false) by (apply Ascii.eqb_neq; congruence).
  rewrite E. reflexivity.
Qed.

Lemma count_lt c m bl x : bl <> c -> count c (repeat c m ++ bl :: x) <> List.length (repeat c m ++ bl :: x).
Proof.
  intros H. rewrite count_app, app_length, count_repeat, repeat_length, count_cons_neq by exact H.
  cbn [List.length]. pose proof (count_le c x). lia.
Qed.

Lemma trim_left_id c l : first_not c l -> trim_left c l = l.
Proof.
  destruct l as [|x l]; cbn [first_not trim_left]; [reflexivity|].
  intros H. apply Ascii.eqb_neq in H. rewrite H. reflexivity.
Qed.

Lemma trim_left_repeat c k l : first_not c l -> trim_left c (repeat c k ++ l) = l.
Proof.
  intros H. induction k as [|k IH]; cbn [repeat app]; [apply trim_left_id; exact H|].
  cbn [trim_left]. rewrite Ascii.eqb_refl. exact IH.
Qed.

Lemma rev_repeat {A} (c : A) z : rev (repeat c z) = repeat c z.
Proof.
  induction z as [|z IH]; [reflexivity|].
  cbn [repeat rev]. rewrite IH. symmetry. apply repeat_cons.
Qed.

Lemma trim_right_repeat c z n : last_not c n -> trim_right c (n ++ repeat c z) = n.
Proof.
  intros H. unfold trim_right. rewrite !frev_rev, rev_app_distr, rev_repeat.
  rewrite trim_left_repeat.
  - apply rev_involutive.
  - unfold last_not in H. unfold first_not. exact H.
Qed.

(* ---------- the parser state along a spelled document ---------- *)

Definition inv (u : unit_t) (st : pstate) : Prop :=
  (sep st = None \/ sep st = Some (uchar u)) /\ (spaces st = 0 \/ spaces st = ulen u).

(* an attempt with a symbol other than the row's bullet fails; it can only set sep *)
Lemma try_fail u st m bl rest sym :
  inv u st -> is_bullet bl = true -> bl <> sym -> uchar u <> sym ->
  exists st1, try_symbol st (repeat (uchar u) m ++ bl :: rest) sym = (st1, None)
    /\ inv u st1 /\ sharp st1 = sharp st /\ spaces st1 = spaces st.
Proof.
  intros [Hsep Hsp] Hb Hne Hu. unfold try_symbol.
  rewrite cut_skip by (apply repeat_neq; exact Hu).
  cbn [cut]. apply Ascii.eqb_neq in Hne. rewrite Hne.
  destruct (cut sym rest) as [[x y]|].
  2:{ exists st. repeat split; auto. }
  destruct m as [|m]; cbn [repeat app].
  - rewrite (bullet_not_indent bl Hb). exists st. repeat split; auto.
  - rewrite uchar_indent.
    assert (Hs : match sep st with Some s => s | None => uchar u end = uchar u).
    { destruct Hsep as [E|E]; rewrite E; reflexivity. }
    rewrite Hs. cbn [sharp spaces sep].
    change (uchar u :: repeat (uchar u) m ++ bl :: x) with (repeat (uchar u) (S m) ++ bl :: x).
    assert (Hc : (count (uchar u) (repeat (uchar u) (S m) ++ bl :: x) =?
                  List.length (repeat (uchar u) (S m) ++ bl :: x)) = false).
    { apply Nat.eqb_neq. apply count_lt. intro E. symmetry in E. revert E. apply bullet_not_uchar. exact Hb. }
    rewrite Hc. eexists. split; [reflexivity|]. cbn [sharp spaces sep]. unfold inv. cbn [sharp spaces sep].
    repeat split; auto.
Qed.

(* the attempt with the row's own bullet succeeds with the whole indentation *)
Lemma try_ok u st levels bl rest :
  inv u st -> uchar u <> bl -> (spaces st = 0 -> levels <= 1) ->
  exists st', try_symbol st (indent u levels ++ bl :: rest) bl = (st', Some (levels * ulen u, rest))
    /\ inv u st' /\ sharp st' = sharp st /\ (spaces st' = 0 -> levels = 0)
    /\ hierarchy st' (levels * ulen u) = levels + 1 + (if sharp st then 1 else 0).
Proof.
  intros [Hsep Hsp] Hu Hlv. unfold try_symbol, indent.
  rewrite cut_skip by (apply repeat_neq; exact Hu).
  cbn [cut]. rewrite Ascii.eqb_refl, app_nil_r.
  destruct levels as [|l].
  - cbn [Nat.mul repeat]. eexists. split; [reflexivity|]. unfold inv, hierarchy. cbn [sharp spaces sep].
    repeat split; auto.
  - pose proof (ulen_pos u) as Hpos.
    destruct (S l * ulen u) as [|m] eqn:Em; [cbn [Nat.mul] in Em; lia|].
    cbn [repeat]. rewrite uchar_indent.
    assert (Hs : match sep st with Some s => s | None => uchar u end = uchar u).
    { destruct Hsep as [E|E]; rewrite E; reflexivity. }
    rewrite Hs. cbn [sharp spaces sep].
    change (uchar u :: repeat (uchar u) m) with (repeat (uchar u) (S m)).
    rewrite count_repeat, repeat_length, Nat.eqb_refl.
    change (0 <? S m) with true. cbn [andb].
    assert (Hst2 : (if spaces st =? 0
                    then {| sharp := sharp st; spaces := S m; sep := Some (uchar u) |}
                    else {| sharp := sharp st; spaces := spaces st; sep := Some (uchar u) |})
                   = {| sharp := sharp st; spaces := ulen u; sep := Some (uchar u) |}).
    { destruct Hsp as [E|E]; rewrite E.
      - cbn [Nat.eqb]. specialize (Hlv E). assert (l = 0) by lia. subst l.
        rewrite Nat.mul_1_l in Em. rewrite Em. reflexivity.
      - destruct (ulen u) eqn:Eu; [congruence|]. reflexivity. }
    rewrite Hst2. unfold validate. cbn [sharp spaces sep].
    rewrite <- Em. rewrite (Nat.mod_mul (S l) (ulen u) Hpos). cbn [Nat.eqb]. rewrite orb_true_r.
    eexists. split; [reflexivity|]. unfold inv, hierarchy. cbn [sharp spaces sep].
    repeat split; auto.
    + intros E. congruence.
    + apply Nat.eqb_neq in Hpos. rewrite Hpos. rewrite (Nat.div_mul (S l) (ulen u)); [reflexivity|].
      apply Nat.eqb_neq. exact Hpos.
Qed.

Lemma separate_row u st levels bl rest :
  inv u st -> is_bullet bl = true -> (spaces st = 0 -> levels <= 1) ->
  exists st', separate st (indent u levels ++ bl :: rest) list_symbols = (st', Some (levels * ulen u, rest))
    /\ inv u st' /\ sharp st' = sharp st /\ (spaces st' = 0 -> levels = 0)
    /\ hierarchy st' (levels * ulen u) = levels + 1 + (if sharp st then 1 else 0).
Proof.
  intros Hinv Hb Hlv. pose proof (bullet_not_uchar u bl Hb) as Hu.
  assert (Hhy : uchar u <> c_hy) by (apply bullet_not_uchar; reflexivity).
  assert (Has : uchar u <> c_as) by (apply bullet_not_uchar; reflexivity).
  unfold list_symbols.
  destruct (bullet_cases bl Hb) as [E|[E|E]]; subst bl.
  - destruct (try_ok u st levels c_hy rest Hinv Hu Hlv) as [st' [H1 H2]].
    exists st'. cbn [separate]. rewrite H1. exact (conj eq_refl H2).
  - destruct (try_fail u st (levels * ulen u) c_as rest c_hy Hinv Hb) as [st1 [F1 [I1 [S1 P1]]]];
      [discriminate|exact Hhy|].
    destruct (try_ok u st1 levels c_as rest I1 Hu) as [st' [H1 [H2 [H3 H4]]]]; [rewrite P1; exact Hlv|].
    exists st'. cbn [separate]. fold (indent u levels) in F1. rewrite F1, H1.
    rewrite S1 in H3, H4. auto.
  - destruct (try_fail u st (levels * ulen u) c_pl rest c_hy Hinv Hb) as [st1 [F1 [I1 [S1 P1]]]];
      [discriminate|exact Hhy|].
    destruct (try_fail u st1 (levels * ulen u) c_pl rest c_as I1 Hb) as [st2 [F2 [I2 [S2 P2]]]];
      [discriminate|exact Has|].
    destruct (try_ok u st2 levels c_pl rest I2 Hu) as [st' [H1 [H2 [H3 H4]]]]; [rewrite P2, P1; exact Hlv|].
    exists st'. cbn [separate]. fold (indent u levels) in F1, F2. rewrite F1, F2, H1.
    rewrite S2, S1 in H3, H4. auto.
Qed.

Lemma row_head (c : ascii) m bl r x after : repeat c m ++ bl :: r = x :: after -> x = c \/ x = bl.
Proof. destruct m; cbn [repeat app]; intros H; inversion H; auto. Qed.

Lemma parse_item u st levels bl n :
  inv u st -> is_bullet bl = true -> n <> [] -> (spaces st = 0 -> levels <= 1) ->
  exists st', parse st (indent u levels ++ bl :: c_sp :: n)
              = (st', PItem (levels + 1 + (if sharp st then 1 else 0)) n)
    /\ inv u st' /\ sharp st' = sharp st /\ (spaces st' = 0 -> levels = 0).
Proof.
  intros Hinv Hb Hn Hlv.
  destruct (separate_row u st levels bl (c_sp :: n) Hinv Hb Hlv) as [st' [H1 [H2 [H3 [H4 H5]]]]].
  exists st'. split; [|auto].
  unfold parse. unfold indent at 1. rewrite (all_space_row u _ bl _ Hb). fold (indent u levels).
  destruct (indent u levels ++ bl :: c_sp :: n) as [|c after] eqn:E.
  { destruct (indent u levels); discriminate. }
  assert (Hc : Ascii.eqb c c_sharp = false).
  { unfold indent in E. apply row_head in E as [E|E]; subst c;
      [apply uchar_not_sharp|apply bullet_not_sharp; exact Hb]. }
  rewrite Hc, H1. cbn [trim_prefix1]. rewrite Ascii.eqb_refl.
  destruct n as [|x n']; [congruence|]. rewrite H5. reflexivity.
Qed.

(* ---------- heading rows ---------- *)

Lemma parse_heading st k a z n :
  n <> [] -> first_not c_sharp n -> first_not c_sp n -> last_not c_sp n ->
  parse st (repeat c_sharp (S k) ++ repeat c_sp a ++ n ++ repeat c_sp z)
  = ({| sharp := true; spaces := spaces st; sep := sep st |}, PItem 1 n).
Proof.
  intros Hn Hsh Hsp Hl. cbn [repeat app]. unfold parse. rewrite all_space_sharp.
  rewrite Ascii.eqb_refl.
  rewrite trim_left_repeat.
  2:{ destruct a as [|a]; cbn [repeat app first_not].
      - destruct n as [|x n']; [congruence|]. exact Hsh.
      - discriminate. }
  unfold trim. rewrite trim_left_repeat.
  2:{ destruct n as [|x n']; [congruence|]. exact Hsp. }
  rewrite trim_right_repeat by exact Hl.
  destruct n as [|x n']; [congruence|]. reflexivity.
Qed.

(* ---------- (1) a spelled document parses to its items ---------- *)

Definition hdn (heading : bool) : nat := if heading then 1 else 0.

Lemma spelled_gen u heading : forall its rows,
  rows_of u heading its rows ->
  forall st prev,
    Forall (item_ok heading) its -> nested_from prev its -> inv u st ->
    (spaces st = 0 -> prev <= 1 + hdn heading) ->
    (heading = false -> sharp st = false) ->
    (heading = true -> sharp st = true \/ match its with (d, _) :: _ => d = 1 | [] => True end) ->
    exists st', parses st rows its st'.
Proof.
  induction 1 as [|its bl rows Hbl Hrows IH|it its r rows Hrow Hrows IH];
    intros st prev Hok Hnest Hinv Hsp Hnh Hh.
  - exists st. constructor.
  - destruct (IH st prev Hok Hnest Hinv Hsp Hnh Hh) as [st' H]. exists st'.
    apply parses_blank; [|exact H]. unfold parse. rewrite Hbl. reflexivity.
  - inversion Hok as [|? ? Hit Hok']; subst.
    inversion Hrow as [d n bl Hb Hd Hd2|n k a z Hhd]; subst.
    + cbn [nested_from] in Hnest. destruct Hnest as [_ [Hdp Hnest]].
      destruct Hit as [Hn _]. cbn [snd] in Hn.
      set (levels := d - (if heading then 2 else 1)) in *.
      assert (Hlv : spaces st = 0 -> levels <= 1).
      { intros E. specialize (Hsp E). unfold levels, hdn in *. destruct heading; lia. }
      destruct (parse_item u st levels bl n Hinv Hb Hn Hlv) as [st1 [P1 [I1 [S1 L1]]]].
      assert (Hdepth : levels + 1 + (if sharp st then 1 else 0) = d).
      { unfold levels. destruct heading.
        - specialize (Hd2 eq_refl). destruct (Hh eq_refl) as [E|E]; [rewrite E; lia|lia].
        - rewrite (Hnh eq_refl). lia. }
      rewrite Hdepth in P1.
      destruct (IH st1 d Hok' Hnest I1) as [st' H].
      * intros E. specialize (L1 E). unfold levels, hdn in *. destruct heading; lia.
      * intros E. rewrite S1. auto.
      * intros E. left. rewrite S1. destruct (Hh E) as [F|F]; [exact F|].
        specialize (Hd2 E). lia.
      * exists st'. eapply parses_item; eauto.
    + cbn [nested_from] in Hnest. destruct Hnest as [_ [_ Hnest]].
      destruct Hit as [Hn Hit]. cbn [fst snd] in Hn, Hit.
      destruct (Hit eq_refl eq_refl) as [F1 [F2 F3]].
      pose proof (parse_heading st k a z n Hn F1 F2 F3) as P1.
      destruct (IH {| sharp := true; spaces := spaces st; sep := sep st |} 1 Hok' Hnest) as [st' H].
      * exact Hinv.
      * intros _. cbn [hdn]. lia.
      * intros E. discriminate.
      * intros _. left. reflexivity.
      * exists st'. eapply parses_item; eauto.
Qed.

Theorem spelled_parses : forall u heading its rows,
  Forall (item_ok heading) its -> nested its ->
  (heading = true -> match its with (d, _) :: _ => d = 1 | [] => True end) ->
  rows_of u heading its rows -> exists st', parses p0 rows its st'.
Proof.
  intros u heading its rows Hok Hnest Hfirst Hrows.
  apply (spelled_gen u heading its rows Hrows p0 0 Hok Hnest).
  - unfold inv, p0. cbn [sep spaces]. auto.
  - intros _. lia.
  - intros _. reflexivity.
  - intros E. right. exact (Hfirst E).
Qed.

Corollary spelled_parses_noheading : forall u its rows,
  Forall (item_ok false) its -> nested its -> rows_of u false its rows ->
  exists st', parses p0 rows its st'.
Proof.
  intros u its rows Hok Hnest Hrows.
  apply (spelled_parses u false its rows Hok Hnest); [discriminate|exact Hrows].
Qed.

(* ---------- (2) the pre-order listing of a forest is nested ---------- *)

Lemma nested_from_mono : forall its e e', e <= e' -> nested_from e its -> nested_from e' its.
Proof.
  intros [|[d n] r] e e' Hle; cbn [nested_from]; [auto|].
  intros [H1 [H2 H3]]. repeat split; auto. lia.
Qed.

Lemma preorder_nested : forall t d prev rest,
  1 <= d -> d <= S prev -> nested_from d rest -> nested_from prev (preorder_d d t ++ rest).
Proof.
  induction t as [n ks IH] using tree_ind'; intros d prev rest H1 H2 Hrest.
  cbn [preorder_d app nested_from]. repeat split; auto.
  induction IH as [|k ks Hk _ IHks]; cbn [flat_map app]; [exact Hrest|].
  rewrite <- app_assoc. apply Hk; [lia|lia|].
  apply (nested_from_mono _ d (S d)); [lia|exact IHks].
Qed.

Lemma forest_items_nested_from : forall f prev, nested_from prev (forest_items f).
Proof.
  unfold forest_items. induction f as [|t f IH]; intros prev; cbn [flat_map]; [exact I|].
  apply preorder_nested; [lia|lia|apply IH].
Qed.

Lemma forest_items_nested : forall f, nested (forest_items f).
Proof. intros f. apply forest_items_nested_from. Qed.

(* ---------- (3) rows written as bytes are scanned back ---------- *)

Lemma scan_go_app r data cur :
  ~ In c_lf r -> scan_go (r ++ data) cur = scan_go data (rev r ++ cur).
Proof.
  revert cur. induction r as [|c r IH]; intros cur H; [reflexivity|].
  cbn [app rev scan_go].
  assert (E : Ascii.eqb c c_lf = false).
  { apply Ascii.eqb_neq. intro F. apply H. left. exact F. }
  rewrite E, IH by (intro F; apply H; right; exact F).
  rewrite <- app_assoc. reflexivity.
Qed.

Lemma drop_cr_crlf r : drop_cr (r ++ [c_cr]) = r.
Proof.
  unfold drop_cr. rewrite frev_rev, rev_app_distr. cbn [rev app].
  rewrite Ascii.eqb_refl, frev_rev. apply rev_involutive.
Qed.

Lemma drop_cr_id r : last_not c_cr r -> drop_cr r = r.
Proof.
  unfold drop_cr, last_not. rewrite frev_rev. destruct (rev r) as [|c l] eqn:E.
  - intros _. apply (f_equal (@rev ascii)) in E. rewrite rev_involutive in E. symmetry. exact E.
  - intros H. apply Ascii.eqb_neq in H. rewrite H. reflexivity.
Qed.

Lemma not_too_long_S (r : str) raw :
  (N.of_nat (List.length r) + 1 < 65536)%N -> List.length raw <= S (List.length r) ->
  too_long raw = false.
Proof.
  intros H Hl. unfold too_long. apply N.leb_gt.
  assert (N.of_nat (List.length raw) <= N.of_nat (S (List.length r)))%N by lia.
  rewrite Nat2N.inj_succ in *. lia.
Qed.

Definition line_end (crlf : bool) : str := if crlf then [c_cr; c_lf] else [c_lf].

Lemma scan_line r crlf data :
  row_bytes_ok r ->
  scan_go (r ++ line_end crlf ++ data) [] = let '(ls, e) := scan_go data [] in (r :: ls, e).
Proof.
  intros [Hlf [Hcr Hlen]]. rewrite scan_go_app by exact Hlf. rewrite app_nil_r.
  destruct crlf; cbn [line_end app scan_go].
  - change (Ascii.eqb c_cr c_lf) with false. cbn iota. rewrite Ascii.eqb_refl.
    rewrite (not_too_long_S r) by (auto; cbn [List.length]; rewrite rev_length; lia).
    rewrite frev_rev. cbn [rev]. rewrite rev_involutive, drop_cr_crlf. reflexivity.
  - rewrite Ascii.eqb_refl.
    rewrite (not_too_long_S r) by (auto; rewrite rev_length; lia).
    rewrite frev_rev, rev_involutive, drop_cr_id by exact Hcr. reflexivity.
Qed.

Lemma scan_last_nonl r :
  row_bytes_ok r -> r <> [] -> scan_go r [] = ([r], ScanEOF).
Proof.
  intros [Hlf [Hcr Hlen]] Hne.
  rewrite <- (app_nil_r r) at 1. rewrite scan_go_app by exact Hlf. rewrite app_nil_r.
  cbn [scan_go]. destruct (rev r) as [|c l] eqn:E.
  - apply (f_equal (@rev ascii)) in E. rewrite rev_involutive in E. cbn in E. congruence.
  - rewrite <- E. rewrite (not_too_long_S r) by (auto; rewrite rev_length; lia).
    rewrite frev_rev, rev_involutive, drop_cr_id by exact Hcr. reflexivity.
Qed.

Lemma last_cond_tail (x y : str * bool) l :
  match rev (x :: y :: l) with (r, _) :: _ => r <> [] | [] => True end ->
  match rev (y :: l) with (r, _) :: _ => r <> [] | [] => True end.
Proof.
  cbn [rev]. destruct (rev l ++ [y]) as [|p q] eqn:E.
  - destruct (rev l); discriminate.
  - cbn [app]. auto.
Qed.

Theorem scan_unscan : forall rows fnl,
  Forall (fun rc => row_bytes_ok (fst rc)) rows ->
  (fnl = false -> match rev rows with (r, _) :: _ => r <> [] | [] => True end) ->
  scan_lines (unscan rows fnl) = (map fst rows, ScanEOF).
Proof.
  unfold scan_lines.
  induction rows as [|[r crlf] rows IH]; intros fnl Hok Hlast; [reflexivity|].
  inversion Hok as [|? ? Hr Hok']; subst. cbn [fst] in Hr.
  destruct rows as [|[r2 c2] rest].
  - cbn [unscan map fst]. destruct fnl.
    + change (scan_go (r ++ line_end crlf) [] = ([r], ScanEOF)).
      rewrite <- (app_nil_r (line_end crlf)).
      rewrite scan_line by exact Hr. reflexivity.
    + cbn iota. rewrite app_nil_r. apply scan_last_nonl; [exact Hr|]. exact (Hlast eq_refl).
  - change (unscan ((r, crlf) :: (r2, c2) :: rest) fnl)
      with (r ++ line_end crlf ++ unscan ((r2, c2) :: rest) fnl).
    rewrite scan_line by exact Hr.
    rewrite (IH fnl Hok').
    + reflexivity.
    + intros E. apply (last_cond_tail (r, crlf)). exact (Hlast E).
Qed.

Print Assumptions spelled_parses.
Print Assumptions spelled_parses_noheading.
Print Assumptions forest_items_nested.
Print Assumptions scan_unscan.
