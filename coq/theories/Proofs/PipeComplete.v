(* Proofs/PipeComplete.v — completeness on a nil return, justification of an error return.

   When the call modelled by Conc/Pipeline.v returns nil (st_main s = Some None) nothing was
   lost: the source has emitted every item, no worker holds an item, no error waits in a
   buffer, no stage fails on any item, and the locking sink has written the complete block of
   every item exactly once (the log is the concatenation of the blocks of a permutation of
   p_items).  No hypothesis on the parameters is needed (no liveness, no guarded sends, no
   NoDup): the statements are about ALL reachable states of ALL parameter sets.

   The proof is a conservation law.  `fin` is the (ghost) list of the items completed by the
   last stage, in completion order.  As long as no reader has returned an error and no context
   is done (`live s`) every item of p_items is, with its multiplicity, in exactly one place:
   still pending at the source, held by a worker, in an error buffer, or in `fin`
   (conservation).  Without `live` the law is an inequality only (an error taken by a reader,
   a send dropped on a done context or an aborted hand-over lose the item: conservation_needs_
   no_error, conservation_needs_no_cancel).

   Conversely an error return is justified by the scenario: ESrc only if the source fails,
   EStage n i only if stage n fails on the item i of p_items, ECtx only if the caller
   cancelled.

   Main results (all for `reach p s`, no hypothesis on p):
     conservation                     the law above, with the same `fin`: no stage fails on an
                                      item of fin, log = blocks of fin ++ the block in progress
     nil_return_quiescent             st_main s = Some None -> quiescent s
     nil_return_all_items_through     ... -> pending = held = errs = [], no error recorded
     nil_return_all_finished          ... -> fin is a permutation of p_items
     nil_return_no_failure            ... -> no stage fails on any item of p_items
     nil_return_no_source_error       ... -> p_src_err p = false
     nil_return_log_complete          ... -> locking sink: log = flat_map block done,
                                      Permutation done p_items   (NoDup not needed)
     nil_return_every_block_written   every item's block is a contiguous part of the log
     error_return_exact / error_return_justified / ctx_return_justified / faultless_returns_nil
   Counterexamples (reachable states built step by step):
     log_complete_needs_locking_sink  a non-locking sink logs nothing
     conservation_needs_no_error      a reader that takes an error removes the item
     conservation_needs_no_cancel     an aborted hand-over removes the item
     error_return_ctx_not_a_failure   ECtx is returned by a faultless scenario *)
From Coq Require Import List Arith Bool Lia Permutation.
Import ListNotations.
From GT Require Import Conc.Pipeline.
From GT.Proofs Require Import PipeNoLeak PipeProgress PipeBlocks.

(* ------------------------------------------------------------------ *)
(* 1. the cancellation flags, the recorded error, the returned value    *)
(* ------------------------------------------------------------------ *)

Lemma record_err_some : forall s e, record_err s e <> None.
Proof. intros s e. unfold record_err. destruct (st_first_err s); discriminate. Qed.

Lemma record_err_keep : forall s e x, st_first_err s = Some x -> record_err s e = Some x.
Proof. intros s e x H. unfold record_err. rewrite H. reflexivity. Qed.

Lemma record_err_new : forall s e, st_first_err s = None -> record_err s e = Some e.
Proof. intros s e H. unfold record_err. rewrite H. reflexivity. Qed.

Lemma record_err_cases : forall s e x,
  record_err s e = Some x -> st_first_err s = Some x \/ (st_first_err s = None /\ x = e).
Proof.
  intros s e x H. unfold record_err in H. destruct (st_first_err s) as [y|].
  - left. exact H.
  - right. injection H as <-. split; reflexivity.
Qed.

Record flags (p : params) (s : state) : Prop := {
  (* the pipeline's own context is cancelled by the deferred cancel() only *)
  fl_ic : st_main s = None -> st_icancel s = false;
  (* the errgroup's context is cancelled by a reader that returns an error only *)
  fl_ec : st_first_err s = None -> st_ecancel s = false;
  (* a reader saw a done context first: the caller had cancelled *)
  fl_ctx : st_first_err s = Some ECtx -> st_ucancel s = true;
  fl_may : st_ucancel s = true -> p_user_may_cancel p = true;
  (* what the call returned *)
  fl_main : forall e, st_main s = Some (Some e) ->
            st_first_err s = Some e \/ (e = ECtx /\ st_ucancel s = true);
  fl_nil : st_main s = Some None -> st_first_err s = None
}.

Lemma flags_init : forall p, flags p (init p).
Proof.
  intros p. constructor; cbn [init st_main st_icancel st_first_err st_ecancel st_ucancel];
    try reflexivity; try discriminate.
Qed.

Lemma step_fl_ic : forall p s s', step p s s' ->
  (st_main s = None -> st_icancel s = false) -> (st_main s' = None -> st_icancel s' = false).
Proof.
  intros p s s' H IH. inversion H; subst; clear H; sproj; try exact IH.
  intros Hm. discriminate Hm.
Qed.

Lemma step_fl_ec : forall p s s', step p s s' ->
  (st_first_err s = None -> st_ecancel s = false) ->
  (st_first_err s' = None -> st_ecancel s' = false).
Proof.
  intros p s s' H IH. inversion H; subst; clear H; sproj; try exact IH;
    intros He; exfalso; exact (record_err_some _ _ He).
Qed.

(* a waiting reader: the call has not returned *)
Lemma waiting_main_none : forall p s n,
  inv p s -> nth_error (st_readers s) n = Some RWait -> st_main s = None.
Proof.
  intros p s n Hinv Hr. destruct (st_main s) as [r|] eqn:Hm; [|reflexivity].
  exfalso. destruct (inv_main _ _ Hinv) as [_ Hnw]; [rewrite Hm; discriminate|].
  exact (no_wait_nth _ _ Hnw Hr).
Qed.

Lemma step_fl_ctx : forall p s s', step p s s' -> inv p s ->
  (st_main s = None -> st_icancel s = false) ->
  (st_first_err s = None -> st_ecancel s = false) ->
  (st_first_err s = Some ECtx -> st_ucancel s = true) ->
  (st_first_err s' = Some ECtx -> st_ucancel s' = true).
Proof.
  intros p s s' H Hinv Hic Hec IH. inversion H; subst; clear H; sproj; try exact IH;
    try (intros He; apply record_err_cases in He; destruct He as [He | [_ He]];
         [exact (IH He) | discriminate He]; fail).
  - (* reader_ctx *)
    intros He. apply record_err_cases in He. destruct He as [He | [He _]]; [exact (IH He)|].
    match goal with Hr : nth_error (st_readers s) _ = Some RWait |- _ =>
      pose proof (waiting_main_none p s _ Hinv Hr) as Hm end.
    match goal with Hx : ectx_done s = true |- _ =>
      unfold ectx_done, ctx_done in Hx; rewrite (Hic Hm), (Hec He) in Hx;
      cbn [orb] in Hx; rewrite orb_false_r in Hx; exact Hx end.
  - (* user_cancel *)
    intros _. reflexivity.
Qed.

Lemma step_fl_may : forall p s s', step p s s' ->
  (st_ucancel s = true -> p_user_may_cancel p = true) ->
  (st_ucancel s' = true -> p_user_may_cancel p = true).
Proof.
  intros p s s' H IH. inversion H; subst; clear H; sproj; try exact IH.
  intros _. assumption.
Qed.

Lemma step_fl_main : forall p s s', step p s s' ->
  (forall e, st_main s = Some (Some e) ->
             st_first_err s = Some e \/ (e = ECtx /\ st_ucancel s = true)) ->
  (forall e, st_main s' = Some (Some e) ->
             st_first_err s' = Some e \/ (e = ECtx /\ st_ucancel s' = true)).
Proof.
  intros p s s' H IH.
  assert (Hrec : forall e x, st_main s = Some (Some e) ->
            record_err s x = Some e \/ (e = ECtx /\ st_ucancel s = true)).
  { intros e x Hm. destruct (IH e Hm) as [Hf | Hc]; [left|right; exact Hc].
    apply record_err_keep. exact Hf. }
  inversion H; subst; clear H; sproj; try exact IH;
    try (intros e Hm; exact (Hrec e _ Hm); fail).
  - (* main_return *)
    intros e Hm. destruct (st_first_err s) as [x|].
    + left. congruence.
    + destruct (st_ucancel s); [|discriminate Hm]. right. split; [congruence | reflexivity].
  - (* user_cancel *)
    intros e Hm. destruct (IH e Hm) as [Hf | [Hc _]]; [left; exact Hf | right; auto].
Qed.

Lemma step_fl_nil : forall p s s', step p s s' -> inv p s ->
  (st_main s = Some None -> st_first_err s = None) ->
  (st_main s' = Some None -> st_first_err s' = None).
Proof.
  intros p s s' H Hinv IH.
  assert (Hnw : forall n, nth_error (st_readers s) n = Some RWait -> st_main s = Some None -> False).
  { intros n Hr Hm. rewrite (waiting_main_none p s n Hinv Hr) in Hm. discriminate Hm. }
  inversion H; subst; clear H; sproj; try exact IH.
  - (* src_err *)
    intros Hm. exfalso. apply (Hnw 0); [|exact Hm].
    match goal with Hr : st_readers s = _ |- _ => rewrite Hr end. reflexivity.
  - intros Hm. exfalso. eapply Hnw; eassumption.
  - intros Hm. exfalso. eapply Hnw; eassumption.
  - (* main_return *)
    destruct (st_first_err s) as [x|]; [intros Hm; discriminate Hm | reflexivity].
Qed.

Lemma flags_step : forall p s s', step p s s' -> inv p s -> flags p s -> flags p s'.
Proof.
  intros p s s' Hstep Hinv [H1 H2 H3 H4 H5 H6]. constructor.
  - exact (step_fl_ic p s s' Hstep H1).
  - exact (step_fl_ec p s s' Hstep H2).
  - exact (step_fl_ctx p s s' Hstep Hinv H1 H2 H3).
  - exact (step_fl_may p s s' Hstep H4).
  - exact (step_fl_main p s s' Hstep H5).
  - exact (step_fl_nil p s s' Hstep Hinv H6).
Qed.

Theorem reach_flags : forall p s, reach p s -> flags p s.
Proof.
  intros p s H. induction H as [|s s' Hr IH Hstep].
  - apply flags_init.
  - exact (flags_step p s s' Hstep (PipeNoLeak.reach_inv p s Hr) IH).
Qed.

(* ------------------------------------------------------------------ *)
(* 2. the source; the state in which nil is returned is frozen          *)
(* ------------------------------------------------------------------ *)

(* the source returns with items left only by giving up on a done context *)
Lemma step_src_pending : forall p s s', step p s s' ->
  (ctx_done s = false -> st_src s = SDone -> st_pending s = []) ->
  (ctx_done s' = false -> st_src s' = SDone -> st_pending s' = []).
Proof.
  intros p s s' H IH. unfold ctx_done in IH |- *.
  inversion H; subst; clear H; sproj; try exact IH; try reflexivity.
  - (* src_emit *) intros _ Hs. discriminate Hs.
  - (* src_abort *) intros Hc. unfold ctx_done in *. congruence.
  - (* main_return *) intros Hc. rewrite orb_true_r in Hc. discriminate Hc.
  - (* user_cancel *) intros Hc. discriminate Hc.
Qed.

Lemma reach_src_pending : forall p s, reach p s ->
  ctx_done s = false -> st_src s = SDone -> st_pending s = [].
Proof.
  intros p s H. induction H as [|s s' _ IH Hstep].
  - intros _ Hs. discriminate Hs.
  - exact (step_src_pending p s s' Hstep IH).
Qed.

(* every worker has returned, every closer has run, every error buffer is empty *)
Definition allq (s : state) : Prop :=
  forall t, In t (st_stages s) -> all_done (s_ws t) /\ s_closed t = true /\ s_ebuf t = None.

Lemma allq_no_change : forall s n t ws' x y,
  allq s -> nth_error (st_stages s) n = Some t -> pool_change (s_ws t) ws' x y -> x = WDone.
Proof.
  intros s n t ws' x y Hq Hn Hpc. destruct (Hq t (nth_error_In _ _ Hn)) as (Ha & _).
  apply Ha. eapply pc_in_old. exact Hpc.
Qed.

(* in such a state, once nil has been returned, only the caller's flag can still change *)
Lemma frozen : forall p s s', step p s s' ->
  st_main s = Some None -> allq s -> st_pending s = [] ->
  st_stages s' = st_stages s /\ st_pending s' = [] /\ st_log s' = st_log s /\
  st_main s' = Some None.
Proof.
  intros p s s' H Hm Hq Hp.
  inversion H; subst; clear H; sproj;
    try (exfalso;
         match goal with
           Hn : nth_error (st_stages s) _ = Some ?t, Hpc : pool_change (s_ws ?t) _ ?x _ |- _ =>
           pose proof (allq_no_change s _ t _ x _ Hq Hn Hpc) as E; discriminate E
         end);
    try (repeat split; first [assumption | reflexivity]; fail).
  - (* closer *)
    exfalso. match goal with Hn : nth_error (st_stages s) _ = Some ?t |- _ =>
      destruct (Hq t (nth_error_In _ _ Hn)) as (_ & Hc & _) end. congruence.
  - (* reader_take *)
    exfalso. match goal with Hn : nth_error (st_stages s) _ = Some ?t |- _ =>
      destruct (Hq t (nth_error_In _ _ Hn)) as (_ & _ & Hb) end. congruence.
  - (* main_return *) congruence.
Qed.

Lemma step_main_keep : forall p s s' r, step p s s' -> st_main s = Some r -> st_main s' = Some r.
Proof.
  intros p s s' r H Hm. inversion H; subst; clear H; sproj; try exact Hm. congruence.
Qed.

(* the step that returns nil *)
Lemma nil_return_step_inv : forall p s s',
  step p s s' -> st_main s = None -> st_main s' = Some None ->
  (forall r, In r (st_readers s) -> r <> RWait) /\
  st_stages s' = st_stages s /\ st_pending s' = st_pending s /\ st_log s' = st_log s /\
  st_first_err s = None /\ st_ucancel s = false /\ st_first_err s' = None.
Proof.
  intros p s s' H Hm Hm'. inversion H; subst; clear H; sproj_in Hm'; try congruence. sproj.
  destruct (st_first_err s) as [e|]; [congruence|].
  destruct (st_ucancel s); [congruence|]. repeat split; assumption.
Qed.

(* just before nil is returned everything has finished *)
Lemma before_nil_return : forall p s,
  reach p s -> st_main s = None -> (forall r, In r (st_readers s) -> r <> RWait) ->
  st_first_err s = None -> st_ucancel s = false ->
  st_src s = SDone /\ st_pending s = [] /\ allq s.
Proof.
  intros p s Hr Hm Hnw Hfe Hu.
  pose proof (PipeNoLeak.reach_inv p s Hr) as Hinv.
  pose proof (reach_pinv p s Hr) as Hpinv.
  pose proof (reach_flags p s Hr) as Hfl.
  pose proof (fl_ic _ _ Hfl Hm) as Hic.
  pose proof (fl_ec _ _ Hfl Hfe) as Hec.
  assert (Hnil : forall n r, nth_error (st_readers s) n = Some r -> r = RDone None).
  { intros n r Hn. pose proof (nth_error_In _ _ Hn) as Hin.
    destruct (pi_readers _ _ Hpinv Hec r Hin) as [E | E]; [|exact E].
    exfalso. exact (Hnw r Hin E). }
  assert (Hsrc : st_src s = SDone).
  { destruct (nth_ex _ (st_readers s) 0) as [r0 Hr0]; [rewrite (inv_rlen _ _ Hinv); lia|].
    apply (pi_r0 _ _ Hpinv). rewrite Hr0, (Hnil 0 r0 Hr0). reflexivity. }
  split; [exact Hsrc|]. split.
  - apply (reach_src_pending p s Hr); [|exact Hsrc]. unfold ctx_done. rewrite Hu, Hic. reflexivity.
  - intros t Hin. apply In_nth_error in Hin. destruct Hin as [n Hn].
    destruct (nth_ex _ (st_readers s) (S n)) as [r Hrn].
    { rewrite (inv_rlen _ _ Hinv), <- (inv_len _ _ Hinv). pose proof (nth_lt _ _ _ _ Hn). lia. }
    rewrite (Hnil _ r Hrn) in Hrn.
    destruct (pi_rS _ _ Hpinv n Hrn) as (t' & Ht' & Hc & Hb).
    rewrite Hn in Ht'. injection Ht' as <-.
    split; [|split; assumption].
    exact (proj1 (inv_stages _ _ Hinv n t Hn) Hc).
Qed.

(* (ghost-free) what a nil return means for the pipeline *)
Definition retq (s : state) : Prop :=
  st_main s = Some None -> st_src s = SDone /\ st_pending s = [] /\ allq s.

Lemma step_src_done : forall p s s', step p s s' -> st_src s = SDone -> st_src s' = SDone.
Proof.
  intros p s s' H Hs. inversion H; subst; clear H; sproj; try exact Hs; try reflexivity; congruence.
Qed.

Lemma retq_step : forall p s s', step p s s' -> reach p s -> retq s -> retq s'.
Proof.
  intros p s s' Hstep Hr IH Hm'.
  destruct (st_main s) as [[e|]|] eqn:Hm.
  - rewrite (step_main_keep p s s' _ Hstep Hm) in Hm'. discriminate Hm'.
  - destruct (IH Hm) as (Hsrc & Hp & Hq).
    destruct (frozen p s s' Hstep Hm Hq Hp) as (E1 & E2 & _ & _).
    split; [exact (step_src_done p s s' Hstep Hsrc)|]. split; [exact E2|].
    unfold allq. rewrite E1. exact Hq.
  - destruct (nil_return_step_inv p s s' Hstep Hm Hm') as (Hnw & E1 & E2 & _ & Hfe & Hu & _).
    destruct (before_nil_return p s Hr Hm Hnw Hfe Hu) as (Hsrc & Hp & Hq).
    split; [exact (step_src_done p s s' Hstep Hsrc)|]. split; [congruence|].
    unfold allq. rewrite E1. exact Hq.
Qed.

Theorem reach_retq : forall p s, reach p s -> retq s.
Proof.
  intros p s H. induction H as [|s s' Hr IH Hstep].
  - intros Hm. discriminate Hm.
  - exact (retq_step p s s' Hstep Hr IH).
Qed.

(* ------------------------------------------------------------------ *)
(* 3. an item that got as far as stage n did not fail before            *)
(* ------------------------------------------------------------------ *)

(* no stage before stage m fails on item i *)
Definition passed (p : params) (i : item) (m : nat) : Prop :=
  forall k d, k < m -> nth_error (p_stages p) k = Some d -> d_fails d i = false.

Definition wpass (p : params) (n : nat) (w : wst) : Prop :=
  match w with
  | WHold i | WErr i => passed p i n
  | WOut i | WCrit i _ => passed p i (S n)
  | WIdle | WDone => True
  end.

Definition okh (p : params) (l : list sst) : Prop :=
  forall n t w, nth_error l n = Some t -> In w (s_ws t) -> wpass p n w.

Lemma passed_0 : forall p i, passed p i 0.
Proof. intros p i k d Hk. lia. Qed.

Lemma passed_S : forall p i n d,
  passed p i n -> nth_error (p_stages p) n = Some d -> d_fails d i = false -> passed p i (S n).
Proof.
  intros p i n d Hp Hd Hf k d' Hk Hd'. destruct (Nat.eq_dec k n) as [-> | NE].
  - congruence.
  - apply (Hp k d'); [lia | exact Hd'].
Qed.

Lemma okh_change : forall p l n t f ws' x y,
  okh p l -> nth_error l n = Some t -> pool_change (s_ws t) ws' x y -> s_ws (f t) = ws' ->
  (wpass p n x -> wpass p n y) -> okh p (upd n f l).
Proof.
  intros p l n t f ws' x y Hok Hn Hpc Hf Hy m t' w Hm Hin.
  apply nth_upd_cases in Hm. destruct Hm as [(-> & x0 & Hx0 & ->) | (_ & Hm)].
  - rewrite Hn in Hx0. injection Hx0 as <-. rewrite Hf in Hin.
    destruct (pc_in_new _ _ _ _ _ Hpc Hin) as [-> | Hold].
    + apply Hy. apply (Hok n t x Hn). eapply pc_in_old. exact Hpc.
    + exact (Hok n t w Hn Hold).
  - exact (Hok m t' w Hm Hin).
Qed.

Lemma okh_same : forall p l n f,
  okh p l -> (forall t, s_ws (f t) = s_ws t) -> okh p (upd n f l).
Proof.
  intros p l n f Hok Hf m t' w Hm Hin.
  apply nth_upd_cases in Hm. destruct Hm as [(-> & x0 & Hx0 & ->) | (_ & Hm)].
  - rewrite Hf in Hin. exact (Hok n x0 w Hx0 Hin).
  - exact (Hok m t' w Hm Hin).
Qed.

Lemma wpass_after_err : forall p n d, wpass p n (after_err d).
Proof. intros p n d. unfold after_err. destruct (d_exits_on_err d); exact I. Qed.

Ltac okh_chg :=
  eapply okh_change; [eassumption | eassumption | eassumption | reflexivity |].

Lemma step_okh : forall p s s', step p s s' -> okh p (st_stages s) -> okh p (st_stages s').
Proof.
  intros p s s' H Hok. inversion H; subst; clear H; sproj; try exact Hok.
  - (* src_emit *) okh_chg. intros _. apply passed_0.
  - (* work_ok *)
    okh_chg. cbn [wpass]. intros Hx. destruct (S n =? length (p_stages p)); [exact I|].
    cbn [wpass]. eapply passed_S; eassumption.
  - (* work_fail *) okh_chg. intros Hx. exact Hx.
  - (* err_send *) okh_chg. intros _. apply wpass_after_err.
  - (* err_drop *) okh_chg. intros _. apply wpass_after_err.
  - (* handoff *)
    eapply okh_change with (t := t2) (x := WIdle) (y := WHold i).
    + okh_chg. intros _. exact I.
    + rewrite PipeNoLeak.nth_error_upd_neq by lia. eassumption.
    + eassumption.
    + reflexivity.
    + intros _.
      match goal with Hn : nth_error (st_stages s) n = Some ?t, Hpc : pool_change (s_ws ?t) _ (WOut i) _ |- _ =>
        exact (Hok n t (WOut i) Hn (pc_in_old _ _ _ _ Hpc)) end.
  - (* handoff_abort *) okh_chg. intros _. exact I.
  - (* exit_closed *) okh_chg. intros _. exact I.
  - (* exit_ctx *) okh_chg. intros _. exact I.
  - (* lock *) okh_chg. cbn [wpass]. intros Hx. eapply passed_S; eassumption.
  - (* write *) okh_chg. intros Hx. exact Hx.
  - (* unlock *) okh_chg. intros _. exact I.
  - (* closer *) apply okh_same; [exact Hok | reflexivity].
  - (* reader_take *) apply okh_same; [exact Hok | reflexivity].
Qed.

Lemma okh_init : forall p, okh p (st_stages (init p)).
Proof.
  intros p n t w Hn Hin. cbn [init st_stages] in Hn.
  rewrite nth_error_map in Hn. destruct (nth_error (p_stages p) n) as [d|]; [|discriminate Hn].
  cbn [option_map] in Hn. injection Hn as <-. cbn [init_stage s_ws] in Hin.
  apply in_repeat_eq in Hin. subst w. exact I.
Qed.

Theorem reach_okh : forall p s, reach p s -> okh p (st_stages s).
Proof.
  intros p s H. induction H as [|s s' _ IH Hstep].
  - apply okh_init.
  - exact (step_okh p s s' Hstep IH).
Qed.

(* ------------------------------------------------------------------ *)
(* 4. conservation of the items                                         *)
(* ------------------------------------------------------------------ *)

(* the item in the error buffer of a stage *)
Definition ebl (t : sst) : list item := match s_ebuf t with Some i => [i] | None => [] end.
Definition errl (l : list sst) : list item := flat_map ebl l.
(* the items whose error waits in a buffer *)
Definition errs (s : state) : list item := errl (st_stages s).

(* no reader has returned an error, nobody has cancelled *)
Definition live (s : state) : Prop :=
  st_first_err s = None /\ st_ucancel s = false /\ st_icancel s = false.

(* where the copies of item x are: at the source, with a worker, in an error buffer, finished *)
Definition tot (x : item) (s : state) (fin : list item) : nat :=
  cnt x (st_pending s) + cnt x (held s) + cnt x (errs s) + cnt x fin.

(* the lines written so far by a worker inside the critical section *)
Definition pp (c : item * nat) : list (item * nat) := partial (fst c) (snd c).

(* the pool of the last stage, as a function of the stage list *)
Definition spool (p : params) (l : list sst) : list wst :=
  match nth_error l (pred (length (p_stages p))) with Some t => s_ws t | None => [] end.

Lemma sink_pool_spool : forall p s, sink_pool p s = spool p (st_stages s).
Proof. reflexivity. Qed.

Record core (p : params) (s : state) (fin : list item) : Prop := {
  co_le : forall x, tot x s fin <= cnt x (p_items p);
  co_eq : live s \/ st_main s = Some None -> forall x, tot x s fin = cnt x (p_items p);
  co_okf : forall i, In i fin -> passed p i (length (p_stages p));
  co_log : forall d, sinkd p = Some d -> d_lock d = true ->
           st_log s = flat_map (block d) fin ++ flat_map pp (crits (sink_pool p s))
}.

Lemma live_ctx : forall s, live s -> ctx_done s = false.
Proof. intros s (_ & Hu & Hi). unfold ctx_done. rewrite Hu, Hi. reflexivity. Qed.

Lemma step_live_mono : forall p s s', step p s s' -> live s' -> live s.
Proof.
  intros p s s' H. unfold live.
  inversion H; subst; clear H; sproj; intros (Hf & Hu & Hi);
    try (repeat split; assumption; fail);
    try (exfalso; exact (record_err_some _ _ Hf); fail);
    discriminate.
Qed.

(* if the conservation law is claimed after a step it could be claimed before: the step is
   none of those that record an error or cancel *)
Lemma pre_back : forall p s s',
  step p s s' -> flags p s -> st_main s <> Some None ->
  live s' \/ st_main s' = Some None -> live s /\ st_first_err s' = None.
Proof.
  intros p s s' Hstep Hfl Hnm [Hl | Hm'].
  - split; [exact (step_live_mono p s s' Hstep Hl) | exact (proj1 Hl)].
  - destruct (st_main s) as [[e|]|] eqn:Hm.
    + rewrite (step_main_keep p s s' _ Hstep Hm) in Hm'. discriminate Hm'.
    + exfalso. apply Hnm. reflexivity.
    + destruct (nil_return_step_inv p s s' Hstep Hm Hm') as (_ & _ & _ & _ & Hfe & Hu & Hfe').
      split; [|exact Hfe']. split; [exact Hfe|]. split; [exact Hu|]. exact (fl_ic _ _ Hfl Hm).
Qed.

Lemma errl_app : forall l1 l2, errl (l1 ++ l2) = errl l1 ++ errl l2.
Proof. intros. apply flat_map_app. Qed.

Lemma errl_upd_cnt : forall l n t f x,
  nth_error l n = Some t ->
  cnt x (errl (upd n f l)) + cnt x (ebl t) = cnt x (errl l) + cnt x (ebl (f t)).
Proof.
  intros l n t f x H. destruct (upd_split _ _ _ _ H) as (a & b & E1 & _ & E3).
  rewrite E3. rewrite E1 at 1. rewrite !errl_app. cbn [errl flat_map]. rewrite !cnt_app.
  fold (errl b). lia.
Qed.

(* stage n changes *)
Lemma inl_upd : forall l n t f x,
  nth_error l n = Some t ->
  cnt x (heldl (upd n f l)) + cnt x (errl (upd n f l)) + cnt x (items (s_ws t)) + cnt x (ebl t) =
  cnt x (heldl l) + cnt x (errl l) + cnt x (items (s_ws (f t))) + cnt x (ebl (f t)).
Proof.
  intros l n t f x H.
  pose proof (heldl_upd_cnt l n t f x H). pose proof (errl_upd_cnt l n t f x H). lia.
Qed.

(* one worker of stage n changes from a to b *)
Lemma inl_pool : forall l n t f ws' a b x,
  nth_error l n = Some t -> pool_change (s_ws t) ws' a b -> s_ws (f t) = ws' ->
  cnt x (heldl (upd n f l)) + cnt x (errl (upd n f l)) + cnt x (witem a) + cnt x (ebl t) =
  cnt x (heldl l) + cnt x (errl l) + cnt x (witem b) + cnt x (ebl (f t)).
Proof.
  intros l n t f ws' a b x Ht Hpc Hf.
  pose proof (inl_upd l n t f x Ht) as E1.
  pose proof (items_pool_cnt _ _ _ _ x Hpc) as E2. rewrite Hf in E1. lia.
Qed.

Lemma spool_upd_crits : forall p l n t f,
  nth_error l n = Some t -> crits (s_ws (f t)) = crits (s_ws t) ->
  crits (spool p (upd n f l)) = crits (spool p l).
Proof.
  intros p l n t f Ht Hc. unfold spool.
  destruct (Nat.eq_dec (pred (length (p_stages p))) n) as [E | NE].
  - rewrite E, PipeBlocks.nth_error_upd_eq, Ht. cbn [option_map]. exact Hc.
  - rewrite PipeBlocks.nth_error_upd_neq by exact NE. reflexivity.
Qed.

Lemma spool_last : forall p l n t, is_last p n -> nth_error l n = Some t -> spool p l = s_ws t.
Proof.
  intros p l n t Hl Ht. unfold spool. rewrite <- (is_last_pred p n Hl), Ht. reflexivity.
Qed.

Lemma spool_upd_last : forall p l n t f,
  is_last p n -> nth_error l n = Some t -> spool p (upd n f l) = s_ws (f t).
Proof.
  intros p l n t f Hl Ht. unfold spool.
  rewrite <- (is_last_pred p n Hl), PipeBlocks.nth_error_upd_eq, Ht. reflexivity.
Qed.

(* nothing the invariant talks about changes *)
Lemma core_same : forall p s s' fin,
  st_stages s' = st_stages s -> st_pending s' = st_pending s -> st_log s' = st_log s ->
  (live s' \/ st_main s' = Some None -> live s \/ st_main s = Some None) ->
  core p s fin -> core p s' fin.
Proof.
  intros p s s' fin E1 E2 E3 Hpre [Hle Heq Hok Hlog].
  assert (Et : forall x, tot x s' fin = tot x s fin).
  { intros x. unfold tot, held, errs. rewrite E1, E2. reflexivity. }
  constructor.
  - intros x. rewrite Et. apply Hle.
  - intros H x. rewrite Et. apply Heq. apply Hpre. exact H.
  - exact Hok.
  - intros d Hs Hk. rewrite E3, sink_pool_spool, E1. exact (Hlog d Hs Hk).
Qed.

Lemma core_intro : forall p s s' fin fin',
  core p s fin ->
  (live s' \/ st_main s' = Some None -> live s /\ st_first_err s' = None) ->
  (forall x, tot x s' fin' <= tot x s fin /\
             (live s -> st_first_err s' = None -> tot x s' fin' = tot x s fin)) ->
  (forall i, In i fin' -> In i fin \/ passed p i (length (p_stages p))) ->
  (forall d, sinkd p = Some d -> d_lock d = true ->
     st_log s = flat_map (block d) fin ++ flat_map pp (crits (sink_pool p s)) ->
     st_log s' = flat_map (block d) fin' ++ flat_map pp (crits (sink_pool p s'))) ->
  core p s' fin'.
Proof.
  intros p s s' fin fin' [Hle Heq Hok Hlog] Hback Hcnt Hfin Hl. constructor.
  - intros x. destruct (Hcnt x) as [H _]. specialize (Hle x). lia.
  - intros Hpre x. destruct (Hback Hpre) as [Hlv Hfe]. destruct (Hcnt x) as [_ H].
    rewrite (H Hlv Hfe). apply Heq. left. exact Hlv.
  - intros i Hi. destruct (Hfin i Hi) as [H | H]; [exact (Hok i H) | exact H].
  - intros d Hs Hk. exact (Hl d Hs Hk (Hlog d Hs Hk)).
Qed.

(* a change of stage n outside the critical section *)
Lemma log_plain : forall p s s' fin n t f,
  st_stages s' = upd n f (st_stages s) -> nth_error (st_stages s) n = Some t ->
  crits (s_ws (f t)) = crits (s_ws t) -> st_log s' = st_log s ->
  forall d : sdesc,
    st_log s = flat_map (block d) fin ++ flat_map pp (crits (sink_pool p s)) ->
    st_log s' = flat_map (block d) fin ++ flat_map pp (crits (sink_pool p s')).
Proof.
  intros p s s' fin n t f E1 Ht Hc E2 d Hlog.
  rewrite E2, (sink_pool_spool p s'), E1, (spool_upd_crits p _ n t f Ht Hc). exact Hlog.
Qed.

Lemma core_init : forall p, core p (init p) [].
Proof.
  intros p.
  assert (Et : forall x, tot x (init p) [] = cnt x (p_items p)).
  { intros x. unfold tot, held, errs. cbn [init st_pending st_stages]. rewrite heldl_init.
    assert (E : errl (map init_stage (p_stages p)) = []).
    { induction (p_stages p) as [|d l IH]; [reflexivity|]. cbn [map errl flat_map].
      fold (errl (map init_stage l)). rewrite IH. reflexivity. }
    rewrite E, !cnt_nil. lia. }
  constructor.
  - intros x. rewrite Et. lia.
  - intros _ x. apply Et.
  - intros i [].
  - intros d Hs Hk. cbn [init st_log flat_map]. unfold sink_pool. cbn [init st_stages].
    rewrite nth_error_map. destruct (nth_error (p_stages p) (pred (length (p_stages p)))) as [d'|];
      cbn [option_map]; [|reflexivity].
    cbn [init_stage s_ws]. rewrite crits_repeat_idle. reflexivity.
Qed.

Ltac keep_fin := let i0 := fresh "i0" in let Hi0 := fresh "Hi0" in intros i0 Hi0; left; exact Hi0.

(* the effect of a pool step on the counts; E is the equation of inl_pool / inl_upd *)
Ltac counts E :=
  unfold tot, held, errs; sproj;
  cbn [witem] in E; unfold ebl in E; cbn [set_ws set_ebuf set_closed s_ebuf s_ws] in E;
  rewrite ?witem_after_err, ?cnt_nil in E.

(* the log clause for a step of stage n outside the critical section *)
Ltac plain_log Ht Hpc :=
  intros ? _ _; eapply log_plain; [reflexivity | exact Ht | | reflexivity];
  cbn [set_ws set_ebuf s_ws]; apply (crits_pool_same _ _ _ _ Hpc);
  first [reflexivity | apply critw_after_err].

Lemma core_step : forall p s s' fin,
  step p s s' -> reach p s -> core p s fin -> exists fin', core p s' fin'.
Proof.
  intros p s s' fin Hstep Hr Hco.
  assert (Hdec : st_main s = Some None \/ st_main s <> Some None).
  { destruct (st_main s) as [[e|]|]; [right | left | right]; congruence. }
  destruct Hdec as [Hm | Hnm].
  { (* nil has been returned: nothing changes *)
    destruct (reach_retq p s Hr Hm) as (_ & Hp & Hq).
    destruct (frozen p s s' Hstep Hm Hq Hp) as (E1 & E2 & E3 & E4).
    exists fin. apply (core_same p s s' fin); try assumption; [congruence|].
    intros _. right. exact Hm. }
  pose proof (pre_back p s s' Hstep (reach_flags p s Hr) Hnm) as Hback.
  pose proof (reach_okh p s Hr) as Hokh.
  destruct (PipeBlocks.reach_inv p s Hr) as (done & Hsh & _).
  assert (Hsame : st_stages s' = st_stages s -> st_pending s' = st_pending s ->
                  st_log s' = st_log s -> exists fin', core p s' fin').
  { intros E1 E2 E3. exists fin. apply (core_same p s s' fin); try assumption.
    intros Hpre. left. exact (proj1 (Hback Hpre)). }
  destruct Hstep as
    [ s i rest t ws' Hsrc Hpend Ht Hpc
    | s Hsrc Hctx Hg1 Hg2
    | s Hsrc Hpend Herr
    | s rs Hsrc Hpend Herr Hrd
    | s n d t i ws' next Hd Ht Hf Hl Hnext Hpc
    | s n d t i ws' Hd Ht Hf Hpc
    | s n d t i ws' Hd Ht He Hpc
    | s n d t i ws' Hd Ht Hmd Hctx Hpc
    | s n t t2 i ws' ws2' Ht Ht2 Hpc Hpc2
    | s n d t i ws' Hd Ht Hg Hctx Hpc
    | s n t ws' Ht Hic Hpc
    | s n d t ws' Hd Ht Hg Hctx Hpc
    | s n d t i ws' Hd Ht Hlast Hlock Hf Hnc Hpc
    | s n d t i k ws' Hd Ht Hk Hpc
    | s n d t i ws' Hd Ht Hpc
    | s n t Ht Hcl Had
    | s n t i Ht He Hrd
    | s n t Ht Hcl He Hrd
    | s rs Hsrc Hrd
    | s n Hrd Hctx
    | s Hmn Hrd
    | s Hu Hcc ];
  try (apply Hsame; sproj; first [reflexivity | symmetry; assumption]; fail).
  - (* src_emit *)
    exists fin. apply (core_intro p s _ fin fin Hco Hback).
    + intros x. pose proof (inl_pool _ 0 t (set_ws ws') ws' _ _ x Ht Hpc eq_refl) as E.
      counts E. rewrite Hpend, (cnt_cons x i rest). split; [|intros _ _]; lia.
    + keep_fin.
    + plain_log Ht Hpc.
  - (* work_ok *)
    destruct (S n =? length (p_stages p)) eqn:Eq; subst next.
    + (* the last stage: the item is finished *)
      apply Nat.eqb_eq in Eq.
      exists (fin ++ [i]). apply (core_intro p s _ fin (fin ++ [i]) Hco Hback).
      * intros x. pose proof (inl_pool _ n t (set_ws ws') ws' _ _ x Ht Hpc eq_refl) as E.
        counts E. rewrite cnt_app. split; [|intros _ _]; lia.
      * intros i0 Hi0. apply in_app_or in Hi0. destruct Hi0 as [Hi0 | [<- | []]]; [left; exact Hi0|].
        right. rewrite <- Eq. eapply passed_S; [|exact Hd|exact Hf].
        exact (Hokh n t (WHold i) Ht (pc_in_old _ _ _ _ Hpc)).
      * intros d0 Hs Hk _. exfalso.
        rewrite (sinkd_last p n d Hd Eq) in Hs. injection Hs as <-.
        destruct Hl as [Hl | Hl]; [congruence | exact (Hl Eq)].
    + exists fin. apply (core_intro p s _ fin fin Hco Hback).
      * intros x. pose proof (inl_pool _ n t (set_ws ws') ws' _ _ x Ht Hpc eq_refl) as E.
        counts E. split; [|intros _ _]; lia.
      * keep_fin.
      * plain_log Ht Hpc.
  - (* work_fail *)
    exists fin. apply (core_intro p s _ fin fin Hco Hback).
    + intros x. pose proof (inl_pool _ n t (set_ws ws') ws' _ _ x Ht Hpc eq_refl) as E.
      counts E. split; [|intros _ _]; lia.
    + keep_fin.
    + plain_log Ht Hpc.
  - (* err_send: the item moves from the worker into the buffer *)
    exists fin. apply (core_intro p s _ fin fin Hco Hback).
    + intros x.
      pose proof (inl_pool _ n t (fun t => set_ebuf (Some i) (set_ws ws' t)) ws' _ _ x Ht Hpc eq_refl) as E.
      counts E. rewrite He in E. rewrite ?cnt_nil in E. split; [|intros _ _]; lia.
    + keep_fin.
    + plain_log Ht Hpc.
  - (* err_drop: the item is lost; the context is done *)
    exists fin. apply (core_intro p s _ fin fin Hco Hback).
    + intros x. pose proof (inl_pool _ n t (set_ws ws') ws' _ _ x Ht Hpc eq_refl) as E.
      counts E. split; [lia|]. intros Hlv _. apply live_ctx in Hlv. congruence.
    + keep_fin.
    + plain_log Ht Hpc.
  - (* handoff *)
    assert (Ht2' : nth_error (upd n (set_ws ws') (st_stages s)) (S n) = Some t2).
    { rewrite PipeBlocks.nth_error_upd_neq by lia. exact Ht2. }
    exists fin. apply (core_intro p s _ fin fin Hco Hback).
    + intros x. pose proof (inl_pool _ n t (set_ws ws') ws' _ _ x Ht Hpc eq_refl) as E1.
      pose proof (inl_pool _ (S n) t2 (set_ws ws2') ws2' _ _ x Ht2' Hpc2 eq_refl) as E2.
      counts E1. counts E2. split; [|intros _ _]; lia.
    + keep_fin.
    + intros d0 _ _ Hlog. sproj. rewrite sink_pool_spool. sproj.
      rewrite (spool_upd_crits p _ (S n) t2 (set_ws ws2') Ht2').
      2:{ cbn [set_ws s_ws]. apply (crits_pool_same _ _ _ _ Hpc2); reflexivity. }
      rewrite (spool_upd_crits p _ n t (set_ws ws') Ht).
      2:{ cbn [set_ws s_ws]. apply (crits_pool_same _ _ _ _ Hpc); reflexivity. }
      exact Hlog.
  - (* handoff_abort: the item is lost; the context is done *)
    exists fin. apply (core_intro p s _ fin fin Hco Hback).
    + intros x. pose proof (inl_pool _ n t (set_ws ws') ws' _ _ x Ht Hpc eq_refl) as E.
      counts E. split; [lia|]. intros Hlv _. apply live_ctx in Hlv. congruence.
    + keep_fin.
    + plain_log Ht Hpc.
  - (* exit_closed *)
    exists fin. apply (core_intro p s _ fin fin Hco Hback).
    + intros x. pose proof (inl_pool _ n t (set_ws ws') ws' _ _ x Ht Hpc eq_refl) as E.
      counts E. split; [|intros _ _]; lia.
    + keep_fin.
    + plain_log Ht Hpc.
  - (* exit_ctx *)
    exists fin. apply (core_intro p s _ fin fin Hco Hback).
    + intros x. pose proof (inl_pool _ n t (set_ws ws') ws' _ _ x Ht Hpc eq_refl) as E.
      counts E. split; [|intros _ _]; lia.
    + keep_fin.
    + plain_log Ht Hpc.
  - (* lock *)
    destruct (crits_pool_change _ _ _ _ Hpc) as (c1 & c2 & E1 & E2).
    apply crits_nil_iff in Hnc. rewrite Hnc in E1. cbn [critw app] in E1, E2.
    symmetry in E1. apply app_eq_nil in E1. destruct E1 as [-> ->]. cbn [app] in E2.
    exists fin. apply (core_intro p s _ fin fin Hco Hback).
    + intros x. pose proof (inl_pool _ n t (set_ws ws') ws' _ _ x Ht Hpc eq_refl) as E.
      counts E. split; [|intros _ _]; lia.
    + keep_fin.
    + intros d0 _ _ Hlog. sproj. rewrite sink_pool_spool in *. sproj.
      rewrite (spool_upd_last p _ n t (set_ws ws') Hlast Ht). cbn [set_ws s_ws]. rewrite E2.
      rewrite (spool_last p _ n t Hlast Ht), Hnc in Hlog. exact Hlog.
  - (* write *)
    destruct (crits_pool_change _ _ _ _ Hpc) as (c1 & c2 & E1 & E2). cbn [critw] in E1, E2.
    destruct (crit_here p s done n d t i k c1 c2 Hsh Hd Ht E1) as (Hlast & Hlock & -> & -> & Hle & _).
    cbn [app] in E1, E2.
    exists fin. apply (core_intro p s _ fin fin Hco Hback).
    + intros x. pose proof (inl_pool _ n t (set_ws ws') ws' _ _ x Ht Hpc eq_refl) as E.
      counts E. split; [|intros _ _]; lia.
    + keep_fin.
    + intros d0 _ _ Hlog. sproj. rewrite sink_pool_spool in *. sproj.
      rewrite (spool_upd_last p _ n t (set_ws ws') Hlast Ht). cbn [set_ws s_ws]. rewrite E2.
      rewrite (spool_last p _ n t Hlast Ht), E1 in Hlog. rewrite Hlog.
      cbn [flat_map]. unfold pp. cbn [fst snd]. rewrite !app_nil_r, partial_S, app_assoc. reflexivity.
  - (* unlock: the item is finished *)
    destruct (crits_pool_change _ _ _ _ Hpc) as (c1 & c2 & E1 & E2). cbn [critw] in E1, E2.
    destruct (crit_here p s done n d t i _ c1 c2 Hsh Hd Ht E1) as (Hlast & Hlock & -> & -> & Hle & _).
    cbn [app] in E1, E2.
    exists (fin ++ [i]). apply (core_intro p s _ fin (fin ++ [i]) Hco Hback).
    + intros x. pose proof (inl_pool _ n t (set_ws ws') ws' _ _ x Ht Hpc eq_refl) as E.
      counts E. rewrite cnt_app. split; [|intros _ _]; lia.
    + intros i0 Hi0. apply in_app_or in Hi0. destruct Hi0 as [Hi0 | [<- | []]]; [left; exact Hi0|].
      right. rewrite <- Hlast.
      exact (Hokh n t (WCrit i (d_lines d i)) Ht (pc_in_old _ _ _ _ Hpc)).
    + intros d0 Hs _ Hlog. sproj. rewrite sink_pool_spool in *. sproj.
      rewrite (sinkd_last p n d Hd Hlast) in Hs. injection Hs as <-.
      rewrite (spool_upd_last p _ n t (set_ws ws') Hlast Ht). cbn [set_ws s_ws]. rewrite E2.
      rewrite (spool_last p _ n t Hlast Ht), E1 in Hlog. rewrite Hlog.
      cbn [flat_map]. unfold pp. cbn [fst snd]. rewrite flat_map_app. cbn [flat_map].
      rewrite !app_nil_r, partial_full. reflexivity.
  - (* closer *)
    exists fin. apply (core_intro p s _ fin fin Hco Hback).
    + intros x. pose proof (inl_upd _ n t set_closed x Ht) as E.
      counts E. split; [|intros _ _]; lia.
    + keep_fin.
    + intros d0 _ _. eapply log_plain; [reflexivity | exact Ht | reflexivity | reflexivity].
  - (* reader_take: the item is lost; an error is recorded *)
    exists fin. apply (core_intro p s _ fin fin Hco Hback).
    + intros x. pose proof (inl_upd _ n t (set_ebuf None) x Ht) as E.
      counts E. rewrite He in E. split; [lia|]. intros _ Hfe. exfalso. exact (record_err_some _ _ Hfe).
    + keep_fin.
    + intros d0 _ _. eapply log_plain; [reflexivity | exact Ht | reflexivity | reflexivity].
Qed.

Theorem reach_core : forall p s, reach p s -> exists fin, core p s fin.
Proof.
  intros p s H. induction H as [|s s' Hr IH Hstep].
  - exists []. apply core_init.
  - destruct IH as (fin & Hco). exact (core_step p s s' fin Hstep Hr Hco).
Qed.

Lemma passed_all : forall p i, passed p i (length (p_stages p)) ->
  forall n d, nth_error (p_stages p) n = Some d -> d_fails d i = false.
Proof. intros p i H n d Hd. exact (H n d (nth_lt _ _ _ _ Hd) Hd). Qed.

(* THE CONSERVATION LAW.  In every reachable state there is a list `fin` of finished items
   (no stage fails on them; for a locking sink the log is exactly their blocks, in order,
   followed by the lines of the block being written) such that the copies of every item at the
   source, with the workers, in the error buffers and in `fin` are at most those of p_items,
   and EXACTLY those of p_items as long as no reader has returned an error and neither the
   caller nor the deferred cancel() has cancelled — or when nil has been returned. *)
Theorem conservation : forall p s, reach p s ->
  exists fin,
    (forall x, cnt x (st_pending s) + cnt x (held s) + cnt x (errs s) + cnt x fin
               <= cnt x (p_items p)) /\
    ((st_first_err s = None /\ st_ucancel s = false /\ st_icancel s = false) \/
     st_main s = Some None ->
     forall x, cnt x (p_items p) =
               cnt x (st_pending s) + cnt x (held s) + cnt x (errs s) + cnt x fin) /\
    (forall i, In i fin -> forall n d, nth_error (p_stages p) n = Some d -> d_fails d i = false) /\
    (forall d, sinkd p = Some d -> d_lock d = true ->
       st_log s = flat_map (block d) fin ++ flat_map pp (crits (sink_pool p s))).
Proof.
  intros p s Hr. destruct (reach_core p s Hr) as (fin & [Hle Heq Hok Hlog]).
  exists fin. split; [exact Hle|]. split; [|split].
  - intros Hpre x. symmetry. exact (Heq Hpre x).
  - intros i Hi. exact (passed_all p i (Hok i Hi)).
  - exact Hlog.
Qed.

(* ------------------------------------------------------------------ *)
(* 5. a nil return                                                      *)
(* ------------------------------------------------------------------ *)

Lemma all_done_items : forall ws, all_done ws -> items ws = [] /\ crits ws = [].
Proof.
  induction ws as [|w r IH]; intros H; [split; reflexivity|].
  destruct IH as [E1 E2]. { intros w' Hin. apply H. right. exact Hin. }
  rewrite (H w (or_introl eq_refl)). cbn [items crits flat_map witem critw app].
  split; assumption.
Qed.

Lemma allq_empty : forall s, allq s -> held s = [] /\ errs s = [].
Proof.
  intros s Hq. unfold held, errs, allq in *. induction (st_stages s) as [|t l IH]; [split; reflexivity|].
  destruct IH as [E1 E2]. { intros t' Hin. apply Hq. right. exact Hin. }
  destruct (Hq t (or_introl eq_refl)) as (Ha & _ & Hb).
  cbn [heldl errl flat_map]. fold (heldl l). fold (errl l). rewrite E1, E2.
  unfold ebl. rewrite Hb, (proj1 (all_done_items _ Ha)). split; reflexivity.
Qed.

(* a call that has returned nil has finished altogether *)
Theorem nil_return_quiescent : forall p s,
  reach p s -> st_main s = Some None -> quiescent s.
Proof.
  intros p s Hr Hm. destruct (reach_retq p s Hr Hm) as (Hsrc & _ & Hq).
  split; [exact Hsrc|]. split.
  - intros t Hin. destruct (Hq t Hin) as (Ha & Hc & _). split; assumption.
  - apply (reach_main p s Hr). rewrite Hm. discriminate.
Qed.

(* (1) nothing is left anywhere in the pipeline *)
Theorem nil_return_all_items_through : forall p s,
  reach p s -> st_main s = Some None ->
  st_pending s = [] /\ held s = [] /\ errs s = [] /\ st_first_err s = None.
Proof.
  intros p s Hr Hm. destruct (reach_retq p s Hr Hm) as (_ & Hp & Hq).
  destruct (allq_empty s Hq) as [E1 E2].
  repeat split; try assumption. exact (fl_nil _ _ (reach_flags p s Hr) Hm).
Qed.

(* ... and nothing was dropped: the finished items are exactly p_items, as multisets *)
Theorem nil_return_all_finished : forall p s,
  reach p s -> st_main s = Some None ->
  exists fin,
    Permutation fin (p_items p) /\
    (forall i, In i fin -> forall n d, nth_error (p_stages p) n = Some d -> d_fails d i = false) /\
    (forall d, sinkd p = Some d -> d_lock d = true -> st_log s = flat_map (block d) fin).
Proof.
  intros p s Hr Hm.
  destruct (nil_return_all_items_through p s Hr Hm) as (Hp & Hh & He & _).
  destruct (reach_core p s Hr) as (fin & [_ Heq Hok Hlog]).
  exists fin. split; [|split].
  - apply (Permutation_count_occ Nat.eq_dec). intros x.
    pose proof (Heq (or_intror Hm) x) as E. unfold tot in E. rewrite Hp, Hh, He, !cnt_nil in E.
    exact E.
  - intros i Hi. exact (passed_all p i (Hok i Hi)).
  - intros d Hs Hk. rewrite (Hlog d Hs Hk).
    pose proof (quiescent_no_crit p s (nil_return_quiescent p s Hr Hm)) as Hnc.
    apply crits_nil_iff in Hnc. rewrite Hnc. cbn [flat_map]. apply app_nil_r.
Qed.

(* no stage fails on any item of a run that returns nil *)
Theorem nil_return_no_failure : forall p s,
  reach p s -> st_main s = Some None ->
  forall n d i, nth_error (p_stages p) n = Some d -> In i (p_items p) -> d_fails d i = false.
Proof.
  intros p s Hr Hm n d i Hd Hi.
  destruct (nil_return_all_finished p s Hr Hm) as (fin & Hperm & Hok & _).
  apply (Hok i) with (n := n); [|exact Hd]. apply (Permutation_in i (Permutation_sym Hperm)). exact Hi.
Qed.

(* (2) MAIN THEOREM: the text written by the locking sink is complete — the log consists of the
   complete block of every item of p_items, each exactly as often as the item occurs *)
Theorem nil_return_log_complete : forall p s d,
  reach p s -> st_main s = Some None -> sinkd p = Some d -> d_lock d = true ->
  exists done, st_log s = flat_map (block d) done /\ Permutation done (p_items p).
Proof.
  intros p s d Hr Hm Hs Hk.
  destruct (nil_return_all_finished p s Hr Hm) as (fin & Hperm & _ & Hlog).
  exists fin. split; [exact (Hlog d Hs Hk) | exact Hperm].
Qed.

Corollary nil_return_log_complete_nodup : forall p s d,
  reach p s -> st_main s = Some None -> sinkd p = Some d -> d_lock d = true ->
  NoDup (p_items p) ->
  exists done, st_log s = flat_map (block d) done /\ Permutation done (p_items p) /\ NoDup done.
Proof.
  intros p s d Hr Hm Hs Hk Hnd.
  destruct (nil_return_log_complete p s d Hr Hm Hs Hk) as (done & H1 & H2).
  exists done. split; [exact H1|]. split; [exact H2|].
  exact (Permutation_NoDup (Permutation_sym H2) Hnd).
Qed.

(* every item's block is in the text, contiguous *)
Corollary nil_return_every_block_written : forall p s d i,
  reach p s -> st_main s = Some None -> sinkd p = Some d -> d_lock d = true ->
  In i (p_items p) -> exists l1 l2, st_log s = l1 ++ block d i ++ l2.
Proof.
  intros p s d i Hr Hm Hs Hk Hi.
  destruct (nil_return_log_complete p s d Hr Hm Hs Hk) as (done & H1 & H2).
  apply (Permutation_in i (Permutation_sym H2)) in Hi.
  destruct (in_split _ _ Hi) as (a & b & E). subst done.
  exists (flat_map (block d) a), (flat_map (block d) b).
  rewrite H1, flat_map_app. reflexivity.
Qed.

(* the source of a run that returns nil does not fail either *)
Definition srcinv (p : params) (s : state) : Prop :=
  (st_src s = SRun -> st_src_err_pending s = p_src_err p) /\
  (live s -> st_src s = SDone -> p_src_err p = false).

Lemma srcinv_step : forall p s s', step p s s' -> srcinv p s -> srcinv p s'.
Proof.
  intros p s s' Hstep [IH1 IH2]. split.
  - inversion Hstep; subst; clear Hstep; sproj; try exact IH1; intros E;
      first [discriminate E | apply IH1; assumption].
  - intros Hl'. pose proof (step_live_mono p s s' Hstep Hl') as Hl. specialize (IH2 Hl).
    destruct Hl' as (Hfe' & _ & _).
    inversion Hstep; subst; clear Hstep; sproj; sproj_in Hfe'; try exact IH2.
    + (* src_emit *) intros E. discriminate E.
    + (* src_abort *) intros _. apply live_ctx in Hl. congruence.
    + (* src_close *) intros _. rewrite <- IH1 by assumption. assumption.
    + (* src_err *) exfalso. exact (record_err_some _ _ Hfe').
Qed.

Lemma reach_srcinv : forall p s, reach p s -> srcinv p s.
Proof.
  intros p s H. induction H as [|s s' _ IH Hstep].
  - split; [reflexivity | intros _ E; discriminate E].
  - exact (srcinv_step p s s' Hstep IH).
Qed.

Theorem nil_return_no_source_error : forall p s,
  reach p s -> st_main s = Some None -> p_src_err p = false.
Proof.
  intros p s H. induction H as [|s s' Hr IH Hstep]; [intros Hm; discriminate Hm|].
  intros Hm'. destruct (st_main s) as [[e|]|] eqn:Hm.
  - rewrite (step_main_keep p s s' _ Hstep Hm) in Hm'. discriminate Hm'.
  - apply IH. reflexivity.
  - destruct (nil_return_step_inv p s s' Hstep Hm Hm') as (Hnw & _ & _ & _ & Hfe & Hu & _).
    destruct (before_nil_return p s Hr Hm Hnw Hfe Hu) as (Hsrc & _ & _).
    apply (proj2 (reach_srcinv p s Hr)); [|exact Hsrc].
    split; [exact Hfe|]. split; [exact Hu|]. exact (fl_ic _ _ (reach_flags p s Hr) Hm).
Qed.

(* ------------------------------------------------------------------ *)
(* 6. an error return is justified by the scenario                      *)
(* ------------------------------------------------------------------ *)

(* stage n fails on item i of p_items *)
Definition fails_at (p : params) (n : nat) (i : item) : Prop :=
  exists d, nth_error (p_stages p) n = Some d /\ d_fails d i = true /\ In i (p_items p).

Definition err_ok (p : params) (e : errv) : Prop :=
  match e with
  | ESrc => p_src_err p = true
  | EStage n i => fails_at p n i
  | ECtx => True
  end.

(* a worker about to report an error, an error in a buffer *)
Definition errok (p : params) (l : list sst) : Prop :=
  forall n t i, nth_error l n = Some t -> In (WErr i) (s_ws t) \/ s_ebuf t = Some i -> fails_at p n i.

Lemma held_in_items : forall p s i, reach p s -> In i (held s) -> In i (p_items p).
Proof.
  intros p s i Hr Hin. destruct (PipeBlocks.reach_inv p s Hr) as (done & _ & Hc).
  apply (count_occ_In Nat.eq_dec). apply (count_occ_In Nat.eq_dec) in Hin.
  specialize (Hc i). unfold cnt in Hc. unfold item in *. lia.
Qed.

Lemma errok_change : forall p l n t f ws' x y,
  errok p l -> nth_error l n = Some t -> pool_change (s_ws t) ws' x y -> s_ws (f t) = ws' ->
  (forall i, y = WErr i -> fails_at p n i) ->
  (forall i, s_ebuf (f t) = Some i -> s_ebuf t = Some i \/ fails_at p n i) ->
  errok p (upd n f l).
Proof.
  intros p l n t f ws' x y Hok Hn Hpc Hf Hy Hb m t' i Hm Hor.
  apply nth_upd_cases in Hm. destruct Hm as [(-> & x0 & Hx0 & ->) | (_ & Hm)].
  - rewrite Hn in Hx0. injection Hx0 as <-. destruct Hor as [Hin | He].
    + rewrite Hf in Hin. destruct (pc_in_new _ _ _ _ _ Hpc Hin) as [E | Hold].
      * apply Hy. symmetry. exact E.
      * exact (Hok n t i Hn (or_introl Hold)).
    + destruct (Hb i He) as [He' | Hfa]; [|exact Hfa]. exact (Hok n t i Hn (or_intror He')).
  - exact (Hok m t' i Hm Hor).
Qed.

Lemma errok_weak : forall p l n f,
  errok p l ->
  (forall t i, In (WErr i) (s_ws (f t)) -> In (WErr i) (s_ws t)) ->
  (forall t i, s_ebuf (f t) = Some i -> s_ebuf t = Some i) ->
  errok p (upd n f l).
Proof.
  intros p l n f Hok H1 H2 m t' i Hm Hor.
  apply nth_upd_cases in Hm. destruct Hm as [(-> & x0 & Hx0 & ->) | (_ & Hm)].
  - apply (Hok n x0 i Hx0). destruct Hor as [H | H]; [left; exact (H1 _ _ H) | right; exact (H2 _ _ H)].
  - exact (Hok m t' i Hm Hor).
Qed.

Ltac errok_chg :=
  eapply errok_change;
    [eassumption | eassumption | eassumption | reflexivity
    | try (intros ? E; discriminate E)
    | try (intros ? E; left; exact E)].

Lemma after_err_not_err : forall d i, after_err d <> WErr i.
Proof. intros d i. unfold after_err. destruct (d_exits_on_err d); discriminate. Qed.

Lemma step_errok : forall p s s', step p s s' -> reach p s ->
  errok p (st_stages s) -> errok p (st_stages s').
Proof.
  intros p s s' H Hr Hok. inversion H; subst; clear H; sproj; try exact Hok.
  - (* src_emit *) errok_chg.
  - (* work_ok *)
    errok_chg. intros i0 E. destruct (S n =? length (p_stages p)); discriminate E.
  - (* work_fail *)
    errok_chg. intros i0 E. injection E as <-. exists d. repeat split; try assumption.
    apply (held_in_items p s i Hr).
    match goal with Hn : nth_error (st_stages s) n = Some ?t, Hpc : pool_change (s_ws ?t) _ _ _ |- _ =>
      apply (held_in s n t (WHold i) i Hn (pc_in_old _ _ _ _ Hpc)) end.
    left. reflexivity.
  - (* err_send *)
    errok_chg.
    + intros i0 E. exfalso. exact (after_err_not_err _ _ E).
    + intros i0 E. cbn [set_ebuf s_ebuf] in E. injection E as <-. right.
      match goal with Hn : nth_error (st_stages s) n = Some ?t, Hpc : pool_change (s_ws ?t) _ _ _ |- _ =>
        exact (Hok n t i Hn (or_introl (pc_in_old _ _ _ _ Hpc))) end.
  - (* err_drop *)
    errok_chg. intros i0 E. exfalso. exact (after_err_not_err _ _ E).
  - (* handoff *)
    eapply errok_change with (t := t2) (x := WIdle) (y := WHold i).
    + errok_chg.
    + rewrite PipeNoLeak.nth_error_upd_neq by lia. eassumption.
    + eassumption.
    + reflexivity.
    + intros ? E. discriminate E.
    + intros ? E. left. exact E.
  - (* handoff_abort *) errok_chg.
  - (* exit_closed *) errok_chg.
  - (* exit_ctx *) errok_chg.
  - (* lock *) errok_chg.
  - (* write *) errok_chg.
  - (* unlock *) errok_chg.
  - (* closer *) apply errok_weak; [exact Hok | intros ? ? E; exact E | intros ? ? E; exact E].
  - (* reader_take *)
    apply errok_weak; [exact Hok | intros ? ? E; exact E | intros ? ? E; discriminate E].
Qed.

Lemma reach_errok : forall p s, reach p s -> errok p (st_stages s).
Proof.
  intros p s H. induction H as [|s s' Hr IH Hstep].
  - intros n t i Hn Hor. exfalso. cbn [init st_stages] in Hn.
    rewrite nth_error_map in Hn. destruct (nth_error (p_stages p) n) as [d|]; [|discriminate Hn].
    cbn [option_map] in Hn. injection Hn as <-. cbn [init_stage s_ws s_ebuf] in Hor.
    destruct Hor as [Hin | E]; [|discriminate E]. apply in_repeat_eq in Hin. discriminate Hin.
  - exact (step_errok p s s' Hstep Hr IH).
Qed.

Lemma step_src_errp : forall p s s', step p s s' ->
  (st_src_err_pending s = true -> p_src_err p = true) ->
  (st_src_err_pending s' = true -> p_src_err p = true).
Proof.
  intros p s s' H IH. inversion H; subst; clear H; sproj; try exact IH; intros E; discriminate E.
Qed.

Lemma reach_src_errp : forall p s, reach p s -> st_src_err_pending s = true -> p_src_err p = true.
Proof.
  intros p s H. induction H as [|s s' _ IH Hstep].
  - intros E. exact E.
  - exact (step_src_errp p s s' Hstep IH).
Qed.

(* the recorded error *)
Lemma step_first_ok : forall p s s', step p s s' -> reach p s ->
  (forall e, st_first_err s = Some e -> err_ok p e) ->
  (forall e, st_first_err s' = Some e -> err_ok p e).
Proof.
  intros p s s' H Hr IH. inversion H; subst; clear H; sproj; try exact IH;
    intros e He; apply record_err_cases in He; destruct He as [He | [_ ->]];
    try exact (IH e He); cbn [err_ok].
  - (* src_err *) apply (reach_src_errp p s Hr). assumption.
  - (* reader_take *) eapply (reach_errok p s Hr); [eassumption|]. right. assumption.
  - (* reader_ctx *) exact I.
Qed.

Lemma reach_first_ok : forall p s, reach p s -> forall e, st_first_err s = Some e -> err_ok p e.
Proof.
  intros p s H. induction H as [|s s' Hr IH Hstep].
  - intros e E. discriminate E.
  - exact (step_first_ok p s s' Hstep Hr IH).
Qed.

(* (3) the returned error names what went wrong: the source's error only if the source fails,
   the error of stage n on item i only if that stage fails on that item (an item of p_items),
   the context's error only if the caller cancelled *)
Theorem error_return_exact : forall p s e,
  reach p s -> st_main s = Some (Some e) ->
  match e with
  | ESrc => p_src_err p = true
  | EStage n i => fails_at p n i
  | ECtx => st_ucancel s = true /\ p_user_may_cancel p = true
  end.
Proof.
  intros p s e Hr Hm. pose proof (reach_flags p s Hr) as Hfl.
  destruct (fl_main _ _ Hfl e Hm) as [Hf | [-> Hu]].
  - pose proof (reach_first_ok p s Hr e Hf) as Hok. destruct e as [n i| |]; cbn [err_ok] in Hok;
      try exact Hok.
    pose proof (fl_ctx _ _ Hfl Hf) as Hu. split; [exact Hu | exact (fl_may _ _ Hfl Hu)].
  - split; [exact Hu | exact (fl_may _ _ Hfl Hu)].
Qed.

Theorem error_return_justified : forall p s e,
  reach p s -> st_main s = Some (Some e) -> e <> ECtx ->
  p_src_err p = true \/
  exists n d i, nth_error (p_stages p) n = Some d /\ In i (p_items p) /\ d_fails d i = true.
Proof.
  intros p s e Hr Hm Hne. pose proof (error_return_exact p s e Hr Hm) as H.
  destruct e as [n i| |].
  - right. destruct H as (d & Hd & Hf & Hi). exists n, d, i. auto.
  - left. exact H.
  - exfalso. apply Hne. reflexivity.
Qed.

Theorem ctx_return_justified : forall p s,
  reach p s -> st_main s = Some (Some ECtx) -> st_ucancel s = true /\ p_user_may_cancel p = true.
Proof. intros p s Hr Hm. exact (error_return_exact p s ECtx Hr Hm). Qed.

(* the three outcomes, seen from the scenario: a scenario without any failure in which the
   caller cannot cancel returns nil or not at all *)
Corollary faultless_returns_nil : forall p s r,
  reach p s -> st_main s = Some r ->
  p_src_err p = false -> p_user_may_cancel p = false ->
  (forall n d i, nth_error (p_stages p) n = Some d -> In i (p_items p) -> d_fails d i = false) ->
  r = None.
Proof.
  intros p s r Hr Hm Hsrc Hmay Hnf. destruct r as [e|]; [exfalso|reflexivity].
  pose proof (error_return_exact p s e Hr Hm) as H. destruct e as [n i| |].
  - destruct H as (d & Hd & Hf & Hi). rewrite (Hnf n d i Hd Hi) in Hf. discriminate Hf.
  - congruence.
  - destruct H as [_ H]. congruence.
Qed.

(* ------------------------------------------------------------------ *)
(* 7. the conditions are needed                                         *)
(* ------------------------------------------------------------------ *)

Definition St (pend : list item) (src : src_state) (stages : list sst) (rd : list rst)
              (mn : option (option errv)) (fe : option errv) (uc ic ec : bool) : state :=
  {| st_pending := pend; st_src := src; st_src_err_pending := false; st_stages := stages;
     st_readers := rd; st_main := mn; st_first_err := fe;
     st_ucancel := uc; st_icancel := ic; st_ecancel := ec; st_log := [] |}.

Ltac pc l1 l2 := exists l1, l2; split; reflexivity.

Definition d_plain : sdesc :=
  {| d_workers := 1; d_fails := fun _ => false; d_err_send := CtxGuarded; d_exits_on_err := true;
     d_out_guarded := true; d_in_guarded := true; d_lock := false; d_lines := fun _ => 1 |}.

(* --- (a) nil_return_log_complete needs the LOCKING sink: a sink that does not lock writes
       nothing into the log, so the log of a run that returns nil is not the items' blocks --- *)

Definition pA : params :=
  {| p_items := [0]; p_src_err := false; p_src_err_guarded := true; p_src_emit_guarded := true;
     p_stages := [d_plain]; p_user_may_cancel := false |}.

Definition rW := [RWait; RWait].
Definition a0 := St [0] SRun  [Build_sst [WIdle] false None]   rW None None false false false.
Definition a1 := St []  SRun  [Build_sst [WHold 0] false None] rW None None false false false.
Definition a2 := St []  SRun  [Build_sst [WIdle] false None]   rW None None false false false.
Definition a3 := St []  SDone [Build_sst [WIdle] false None]   rW None None false false false.
Definition a4 := St []  SDone [Build_sst [WDone] false None]   rW None None false false false.
Definition a5 := St []  SDone [Build_sst [WDone] true None]    rW None None false false false.
Definition a6 := St []  SDone [Build_sst [WDone] true None] [RDone None; RWait] None None false false false.
Definition a7 := St []  SDone [Build_sst [WDone] true None] [RDone None; RDone None] None None false false false.
Definition a8 := St []  SDone [Build_sst [WDone] true None] [RDone None; RDone None] (Some None) None false true false.

Lemma reach_a8 : reach pA a8.
Proof.
  assert (R0 : reach pA a0) by apply reach_init.
  assert (R1 : reach pA a1).
  { apply (reach_step pA a0 a1 R0).
    apply (step_src_emit pA a0 0 [] (Build_sst [WIdle] false None) [WHold 0]);
      [reflexivity | reflexivity | reflexivity | pc (@nil wst) (@nil wst)]. }
  assert (R2 : reach pA a2).
  { apply (reach_step pA a1 a2 R1).
    apply (step_work_ok pA a1 0 d_plain (Build_sst [WHold 0] false None) 0 [WIdle] WIdle);
      [reflexivity | reflexivity | reflexivity | left; reflexivity | reflexivity
      | pc (@nil wst) (@nil wst)]. }
  assert (R3 : reach pA a3).
  { apply (reach_step pA a2 a3 R2). apply (step_src_close pA a2); reflexivity. }
  assert (R4 : reach pA a4).
  { apply (reach_step pA a3 a4 R3).
    apply (step_exit_closed pA a3 0 (Build_sst [WIdle] false None) [WDone]);
      [reflexivity | reflexivity | pc (@nil wst) (@nil wst)]. }
  assert (R5 : reach pA a5).
  { apply (reach_step pA a4 a5 R4).
    apply (step_closer pA a4 0 (Build_sst [WDone] false None)); [reflexivity | reflexivity |].
    intros w [<- | []]. reflexivity. }
  assert (R6 : reach pA a6).
  { apply (reach_step pA a5 a6 R5). apply (step_reader0_closed pA a5 [RWait]); reflexivity. }
  assert (R7 : reach pA a7).
  { apply (reach_step pA a6 a7 R6).
    apply (step_reader_closed pA a6 0 (Build_sst [WDone] true None)); reflexivity. }
  apply (reach_step pA a7 a8 R7).
  apply (step_main_return pA a7); [reflexivity|].
  intros r [<- | [<- | []]]; discriminate.
Qed.

Example log_complete_needs_locking_sink :
  reach pA a8 /\ st_main a8 = Some None /\ sinkd pA = Some d_plain /\
  ~ exists done, st_log a8 = flat_map (block d_plain) done /\ Permutation done (p_items pA).
Proof.
  split; [exact reach_a8|]. split; [reflexivity|]. split; [reflexivity|].
  intros (done & H1 & H2). apply Permutation_sym in H2. apply Permutation_length_1_inv in H2.
  subst done. discriminate H1.
Qed.

(* --- (b) the conservation law needs "no reader has returned an error": the reader that takes
       the error out of the buffer takes the item out of the accounts --- *)

Definition d_failing : sdesc :=
  {| d_workers := 1; d_fails := fun _ => true; d_err_send := CtxGuarded; d_exits_on_err := true;
     d_out_guarded := true; d_in_guarded := true; d_lock := false; d_lines := fun _ => 1 |}.

Definition pB : params :=
  {| p_items := [0]; p_src_err := false; p_src_err_guarded := true; p_src_emit_guarded := true;
     p_stages := [d_failing]; p_user_may_cancel := false |}.

Definition b1 := St [] SRun [Build_sst [WHold 0] false None] rW None None false false false.
Definition b2 := St [] SRun [Build_sst [WErr 0] false None]  rW None None false false false.
Definition b3 := St [] SRun [Build_sst [WDone] false (Some 0)] rW None None false false false.
Definition b4 := St [] SRun [Build_sst [WDone] false None] [RWait; RDone (Some (EStage 0 0))]
                    None (Some (EStage 0 0)) false false true.

Lemma reach_b4 : reach pB b4.
Proof.
  assert (R0 : reach pB a0) by apply reach_init.
  assert (R1 : reach pB b1).
  { apply (reach_step pB a0 b1 R0).
    apply (step_src_emit pB a0 0 [] (Build_sst [WIdle] false None) [WHold 0]);
      [reflexivity | reflexivity | reflexivity | pc (@nil wst) (@nil wst)]. }
  assert (R2 : reach pB b2).
  { apply (reach_step pB b1 b2 R1).
    apply (step_work_fail pB b1 0 d_failing (Build_sst [WHold 0] false None) 0 [WErr 0]);
      [reflexivity | reflexivity | reflexivity | pc (@nil wst) (@nil wst)]. }
  assert (R3 : reach pB b3).
  { apply (reach_step pB b2 b3 R2).
    apply (step_err_send pB b2 0 d_failing (Build_sst [WErr 0] false None) 0 [WDone]);
      [reflexivity | reflexivity | reflexivity | pc (@nil wst) (@nil wst)]. }
  apply (reach_step pB b3 b4 R3).
  apply (step_reader_take pB b3 0 (Build_sst [WDone] false (Some 0)) 0); reflexivity.
Qed.

Example conservation_needs_no_error :
  reach pB b4 /\ st_ucancel b4 = false /\ st_icancel b4 = false /\ st_main b4 = None /\
  ~ exists fin,
      (forall i, In i fin -> forall n d, nth_error (p_stages pB) n = Some d -> d_fails d i = false) /\
      (forall x, cnt x (p_items pB) =
                 cnt x (st_pending b4) + cnt x (held b4) + cnt x (errs b4) + cnt x fin).
Proof.
  split; [exact reach_b4|]. repeat (split; [reflexivity|]).
  intros (fin & Hok & Heq). specialize (Heq 0). cbn in Heq.
  assert (Hin : In 0 fin).
  { apply (count_occ_In Nat.eq_dec). unfold cnt in Heq. lia. }
  specialize (Hok 0 Hin 0 d_failing eq_refl). discriminate Hok.
Qed.

(* --- (c) ... and "nobody has cancelled": a guarded hand-over that gives up on the cancelled
       context drops its item without any error being recorded --- *)

Definition d_sink : sdesc :=
  {| d_workers := 1; d_fails := fun _ => false; d_err_send := CtxGuarded; d_exits_on_err := true;
     d_out_guarded := true; d_in_guarded := true; d_lock := true; d_lines := fun _ => 1 |}.

Definition pC : params :=
  {| p_items := [0]; p_src_err := false; p_src_err_guarded := true; p_src_emit_guarded := true;
     p_stages := [d_plain; d_sink]; p_user_may_cancel := true |}.

Definition rW3 := [RWait; RWait; RWait].
Definition idle1 := Build_sst [WIdle] false None.
Definition c0 := St [0] SRun [idle1; idle1] rW3 None None false false false.
Definition c1 := St []  SRun [Build_sst [WHold 0] false None; idle1] rW3 None None false false false.
Definition c2 := St []  SRun [Build_sst [WOut 0] false None; idle1]  rW3 None None false false false.
Definition c3 := St []  SRun [Build_sst [WOut 0] false None; idle1]  rW3 None None true false false.
Definition c4 := St []  SRun [Build_sst [WDone] false None; idle1]   rW3 None None true false false.

Lemma reach_c4 : reach pC c4.
Proof.
  assert (R0 : reach pC c0) by apply reach_init.
  assert (R1 : reach pC c1).
  { apply (reach_step pC c0 c1 R0).
    apply (step_src_emit pC c0 0 [] idle1 [WHold 0]);
      [reflexivity | reflexivity | reflexivity | pc (@nil wst) (@nil wst)]. }
  assert (R2 : reach pC c2).
  { apply (reach_step pC c1 c2 R1).
    apply (step_work_ok pC c1 0 d_plain (Build_sst [WHold 0] false None) 0 [WOut 0] (WOut 0));
      [reflexivity | reflexivity | reflexivity | left; reflexivity | reflexivity
      | pc (@nil wst) (@nil wst)]. }
  assert (R3 : reach pC c3).
  { apply (reach_step pC c2 c3 R2). apply (step_user_cancel pC c2); reflexivity. }
  apply (reach_step pC c3 c4 R3).
  apply (step_handoff_abort pC c3 0 d_plain (Build_sst [WOut 0] false None) 0 [WDone]);
    [reflexivity | reflexivity | reflexivity | reflexivity | pc (@nil wst) (@nil wst)].
Qed.

Example conservation_needs_no_cancel :
  reach pC c4 /\ st_first_err c4 = None /\ st_main c4 = None /\ sinkd pC = Some d_sink /\
  ~ exists fin,
      st_log c4 = flat_map (block d_sink) fin ++ flat_map pp (crits (sink_pool pC c4)) /\
      (forall x, cnt x (p_items pC) =
                 cnt x (st_pending c4) + cnt x (held c4) + cnt x (errs c4) + cnt x fin).
Proof.
  split; [exact reach_c4|]. repeat (split; [reflexivity|]).
  intros (fin & Hlog & Heq). specialize (Heq 0). cbn in Heq.
  assert (Hin : In 0 fin).
  { apply (count_occ_In Nat.eq_dec). unfold cnt in Heq. lia. }
  cbn in Hlog. rewrite app_nil_r in Hlog.
  assert (H : In (0, 0) (flat_map (block d_sink) fin)).
  { apply in_flat_map. exists 0. split; [exact Hin | left; reflexivity]. }
  rewrite <- Hlog in H. exact H.
Qed.

(* --- (d) error_return_justified needs e <> ECtx: the caller's cancellation makes a faultless
       scenario return the context's error --- *)

Definition pD : params :=
  {| p_items := []; p_src_err := false; p_src_err_guarded := true; p_src_emit_guarded := true;
     p_stages := []; p_user_may_cancel := true |}.

Definition e0 := St [] SRun [] [RWait] None None false false false.
Definition e1 := St [] SRun [] [RWait] None None true false false.
Definition e2 := St [] SRun [] [RDone (Some ECtx)] None (Some ECtx) true false true.
Definition e3 := St [] SRun [] [RDone (Some ECtx)] (Some (Some ECtx)) (Some ECtx) true true true.

Lemma reach_e3 : reach pD e3.
Proof.
  assert (R0 : reach pD e0) by apply reach_init.
  assert (R1 : reach pD e1).
  { apply (reach_step pD e0 e1 R0). apply (step_user_cancel pD e0); reflexivity. }
  assert (R2 : reach pD e2).
  { apply (reach_step pD e1 e2 R1). apply (step_reader_ctx pD e1 0); reflexivity. }
  apply (reach_step pD e2 e3 R2).
  apply (step_main_return pD e2); [reflexivity|].
  intros r [<- | []]. discriminate.
Qed.

Example error_return_ctx_not_a_failure :
  reach pD e3 /\ st_main e3 = Some (Some ECtx) /\
  ~ (p_src_err pD = true \/
     exists n d i, nth_error (p_stages pD) n = Some d /\ In i (p_items pD) /\ d_fails d i = true).
Proof.
  split; [exact reach_e3|]. split; [reflexivity|].
  intros [H | (n & d & i & _ & Hi & _)]; [discriminate H | exact Hi].
Qed.

Print Assumptions conservation.
Print Assumptions nil_return_quiescent.
Print Assumptions nil_return_all_items_through.
Print Assumptions nil_return_all_finished.
Print Assumptions nil_return_no_failure.
Print Assumptions nil_return_no_source_error.
Print Assumptions nil_return_log_complete.
Print Assumptions nil_return_log_complete_nodup.
Print Assumptions nil_return_every_block_written.
Print Assumptions error_return_exact.
Print Assumptions error_return_justified.
Print Assumptions ctx_return_justified.
Print Assumptions faultless_returns_nil.
Print Assumptions log_complete_needs_locking_sink.
Print Assumptions conservation_needs_no_error.
Print Assumptions conservation_needs_no_cancel.
Print Assumptions error_return_ctx_not_a_failure.
