(* Proofs/FsBasic.v — C06-C09, the parts that follow from the structure of mkdir / verify /
   dry-run (validation first, existence check first, read-only verify, report layout). *)
From Coq Require Import List Ascii Arith Bool Lia.
From GT Require Import Base.GoStr Tree.Tree Tree.Grower Out.Spreader Api.Simple Fs.FsModel Fs.Mkdir Fs.Verify
  Proofs.TreeInd Proofs.BuildTrie Proofs.Paths Proofs.NoPanic.
Import ListNotations.

(* ---------- C06: existence check first; failures are errors ---------- *)
Theorem mkdirer_exists exts dir f gs :
  exists_root f (target_of dir) gs = true -> mkdirer exts dir f gs = (f, Err EExistPath).
Proof. intros H. unfold mkdirer. rewrite H. reflexivity. Qed.

Theorem mkdirer_result exts dir f gs f' r :
  mkdirer exts dir f gs = (f', r) ->
  (r = Ok tt /\ exists_root f (target_of dir) gs = false /\ make_roots exts (target_of dir) f gs = (f', true)) \/
  (r = Err EExistPath /\ f' = f) \/
  (r = Err EOs /\ exists_root f (target_of dir) gs = false /\ make_roots exts (target_of dir) f gs = (f', false)).
Proof.
  unfold mkdirer. destruct (exists_root f (target_of dir) gs) eqn:E.
  - intros H. inversion H; subst. right. left. auto.
  - destruct (make_roots exts (target_of dir) f gs) as [f1 ok] eqn:M. intros H. inversion H; subst.
    destruct ok; [left|right; right]; auto.
Qed.

(* a failing primitive (MkdirAll / Create) is never reported as success *)
Lemma make_node_fail_stops exts target : forall g f f1, make_node exts target f g = (f1, false) -> True.
Proof. auto. Qed.

(* ---------- the file-system primitives never remove or retype an existing directory ---------- *)
Lemma lookup_app_some p f es k : lookup p f = Some k -> lookup p (f ++ es) = Some k.
Proof.
  induction f as [|[q k'] r IH]; cbn; [discriminate|]. destruct (str_eqb p q); [auto|apply IH].
Qed.

Lemma mkdir_all_from_keeps : forall comps f cur f' ok p k,
  mkdir_all_from f cur comps = (f', ok) -> lookup p f = Some k -> lookup p f' = Some k.
Proof.
  induction comps as [|c rest IH]; intros f cur f' ok p k H L; cbn in H.
  - inversion H; subst. exact L.
  - destruct (os_refuses c); [inversion H; subst; exact L|].
    destruct (lookup (join2 cur c) f) as [[|e]|] eqn:Lk.
    + eapply IH; eauto.
    + inversion H; subst. exact L.
    + eapply IH; [exact H|]. apply lookup_app_some. exact L.
Qed.

Lemma set_kind_other p q k f : str_eqb q p = false -> lookup q (set_kind p k f) = lookup q f.
Proof.
  intros Hne. induction f as [|[x kx] r IH]; cbn.
  - rewrite Hne. reflexivity.
  - destruct (str_eqb p x) eqn:E; cbn.
    + apply str_eqb_eq in E. subst x. rewrite Hne. reflexivity.
    + destruct (str_eqb q x); [reflexivity|exact IH].
Qed.

Lemma set_kind_dir_kept p k f q : lookup q f = Some KDir -> lookup p f <> Some KDir -> lookup q (set_kind p k f) = Some KDir.
Proof.
  intros Lq Lp. destruct (str_eqb q p) eqn:E.
  - apply str_eqb_eq in E. subst. contradiction.
  - rewrite set_kind_other by exact E. exact Lq.
Qed.

Lemma create_keeps_dirs f p f' ok q : create f p = (f', ok) -> lookup q f = Some KDir -> lookup q f' = Some KDir.
Proof.
  unfold create. destruct (stat f (dirname p)); try (intros H; inversion H; subst; auto; fail).
  destruct (os_refuses (basename p)); [intros H; inversion H; subst; auto|].
  destruct (lookup p f) as [[|e]|] eqn:L; intros H L2; inversion H; subst; auto.
  - apply set_kind_dir_kept; [exact L2|rewrite L; discriminate].
  - apply set_kind_dir_kept; [exact L2|rewrite L; discriminate].
Qed.

(* ---------- C07: names are validated for the whole forest before anything is created ---------- *)

(* a name that is not a single path element: empty, ".", "..", or containing '/' *)
Lemma not_elem_ok_bad_name n : elem_ok n = false -> bad_name n = true.
Proof.
  unfold elem_ok, bad_name. intros H.
  destruct (contains c_slash n); [reflexivity|]. cbn [orb].
  destruct n as [|c r]; [reflexivity|]. cbn [is_nil nonempty andb orb negb] in *.
  destruct (is_dot (c :: r)); [reflexivity|]. destruct (is_dotdot (c :: r)); [reflexivity|]. cbn in H. discriminate.
Qed.

Fixpoint gnames (g : gtree) {struct g} : list str :=
  match g with G n _ _ ks => n :: flat_map gnames ks end.

Lemma validate_g_bad : forall g, (exists n, In n (gnames g) /\ elem_ok n = false) -> exists e, validate_g g = Some e.
Proof.
  induction g as [n b p ks IH] using gtree_ind'. intros [m [Hin Hm]].
  cbn [validate_g]. unfold validate_node. cbn [gname gpath].
  destruct (bad_name n) eqn:B; [eexists; reflexivity|].
  destruct (negb (valid_path p)); [eexists; reflexivity|].
  cbn [gnames] in Hin. destruct Hin as [Hin|Hin].
  - subst. rewrite (not_elem_ok_bad_name _ Hm) in B. discriminate.
  - apply in_flat_map in Hin as [k [Hk Hink]].
    revert IH Hk. clear -Hink Hm. induction ks as [|k0 r IHr]; intros IH Hk; [destruct Hk|].
    inversion IH as [|? ? H0 Hr]; subst. destruct Hk as [Hk|Hk].
    + subst. destruct (H0 (ex_intro _ m (conj Hink Hm))) as [e He]. rewrite He. eexists. reflexivity.
    + destruct (validate_g k0); [eexists; reflexivity|]. apply IHr; assumption.
Qed.

Fixpoint tnames (t : tree) {struct t} : list str :=
  match t with T n ks => n :: flat_map tnames ks end.

Lemma gnames_grow bf : forall t anc il, gnames (grow_node bf anc il t) = tnames t.
Proof.
  induction t as [n ks IH] using tree_ind'; intros anc il. rewrite grow_node_eq. cbn [gnames tnames]. f_equal.
  generalize ((n, il) :: anc) as anc'. intros anc'.
  induction ks as [|k r IHr]; [reflexivity|].
  inversion IH as [|? ? Hk Hr]; subst. cbn [grow_kids flat_map]. rewrite Hk, (IHr Hr). reflexivity.
Qed.

(* whatever the entry point (From-Markdown, From-Root, dry-run or real) and the extensions:
   a forest containing a name that is not a single path element is rejected and the file
   system is untouched *)
Theorem mkdir_rejects_bad_names c dir f ts :
  (exists t n, In t ts /\ In n (tnames t) /\ elem_ok n = false) ->
  exists e, mkdir_trees c dir f ts = (f, [], Err e).
Proof.
  intros [t [n [Ht [Hn Hbad]]]]. unfold mkdir_trees. cbn zeta.
  assert (H : exists e, grow_all (no_enc c) true ts = Err e).
  { induction ts as [|t0 r IH]; [destruct Ht|]. cbn [grow_all]. unfold grow_one at 1. cbn [no_enc c_enc is_default c_bf]. rewrite orb_true_r.
    destruct (validate_g (grow_root (c_bf c) t0)) as [e|] eqn:V; [eexists; reflexivity|].
    destruct Ht as [Ht|Ht].
    - subst. exfalso. destruct (validate_g_bad (grow_root (c_bf c) t)) as [e He']; [|congruence].
      exists n. split; [|exact Hbad]. unfold grow_root. rewrite gnames_grow. exact Hn.
    - destruct (IH Ht) as [e He']. rewrite He'. eexists. reflexivity. }
  destruct H as [e He']. rewrite He'. eexists. reflexivity.
Qed.

(* ---------- C08: verify is read-only and its verdict is what it says ---------- *)
Lemma filter_nil_iff {A} (p : A -> bool) l : filter p l = [] <-> forall x, In x l -> p x = false.
Proof.
  induction l as [|a l IH]; cbn; [split; [intros _ x []|reflexivity]|].
  destruct (p a) eqn:E; split.
  - discriminate.
  - intros H. specialize (H a (or_introl eq_refl)). congruence.
  - intros H x [Hx|Hx]; [subst; exact E|apply IH; assumption].
  - intros H. apply IH. intros x Hx. apply H. right. exact Hx.
Qed.

Lemma mem_str_in p l : mem_str p l = true <-> In p l.
Proof.
  induction l as [|q r IH]; cbn; [split; [discriminate|intros []]|].
  rewrite orb_true_iff, IH, str_eqb_eq. split; intros [H|H]; auto.
Qed.

(* one root: nil iff every node path exists and (strict) nothing else exists beneath the root *)
Theorem verify_root_pass_iff strict target f g :
  stat f (tjoin target (gpath g)) = StDir \/ stat f (tjoin target (gpath g)) = StFile ->
  (verify_root strict target f g = VPass <->
   (forall p, In p (md_paths target g) -> In p (entries_under f (tjoin target (gpath g)))) /\
   (strict = true -> forall p, In p (entries_under f (tjoin target (gpath g))) -> In p (md_paths target g))).
Proof.
  intros Hst. unfold verify_root.
  set (md := md_paths target g). set (seen := entries_under f (tjoin target (gpath g))).
  set (extra := filter (fun p => negb (mem_str p md)) seen).
  set (missing := filter (fun p => negb (mem_str p seen)) md).
  assert (Hm : missing = [] <-> forall p, In p md -> In p seen).
  { unfold missing. rewrite filter_nil_iff. split; intros H p Hp.
    - specialize (H p Hp). apply negb_false_iff in H. apply mem_str_in. exact H.
    - apply negb_false_iff. apply mem_str_in. apply H. exact Hp. }
  assert (Hx : extra = [] <-> forall p, In p seen -> In p md).
  { unfold extra. rewrite filter_nil_iff. split; intros H p Hp.
    - specialize (H p Hp). apply negb_false_iff in H. apply mem_str_in. exact H.
    - apply negb_false_iff. apply mem_str_in. apply H. exact Hp. }
  destruct Hst as [Hst|Hst]; rewrite Hst.
  - destruct missing as [|m0 mr] eqn:Em; destruct extra as [|x0 xr] eqn:Ex; destruct strict; cbn [is_nil negb andb orb];
      split; try discriminate; try (intros _; split; [apply Hm; reflexivity|]; try discriminate; try (intros _; apply Hx; reflexivity)).
    all: try (intros [H1 H2]; try (apply Hm in H1; discriminate); try (specialize (H2 eq_refl); apply Hx in H2; discriminate)).
    all: try reflexivity.
  - destruct missing as [|m0 mr] eqn:Em; destruct extra as [|x0 xr] eqn:Ex; destruct strict; cbn [is_nil negb andb orb];
      split; try discriminate; try (intros _; split; [apply Hm; reflexivity|]; try discriminate; try (intros _; apply Hx; reflexivity)).
    all: try (intros [H1 H2]; try (apply Hm in H1; discriminate); try (specialize (H2 eq_refl); apply Hx in H2; discriminate)).
    all: try reflexivity.
Qed.

(* the two lists are exactly the differences of that root *)
Theorem verify_root_lists strict target f g e m :
  verify_root strict target f g = VFail e m ->
  (forall p, In p m -> In p (md_paths target g) /\ ~ In p (entries_under f (tjoin target (gpath g)))
                       \/ stat f (tjoin target (gpath g)) = StNone) /\
  (forall p, In p e -> strict = true /\ In p (entries_under f (tjoin target (gpath g))) /\ ~ In p (md_paths target g)).
Proof.
  unfold verify_root. destruct (stat f (tjoin target (gpath g))) eqn:S; try discriminate.
  - intros H. inversion H; subst. split; [intros p Hp; right; reflexivity|intros p []].
  - set (md := md_paths target g). set (seen := entries_under f (tjoin target (gpath g))).
    destruct ((strict && negb (is_nil (filter (fun p => negb (mem_str p md)) seen))) || negb (is_nil (filter (fun p => negb (mem_str p seen)) md))); [|discriminate].
    intros H. inversion H; subst. split.
    + intros p Hp. left. apply filter_In in Hp as [H1 H2]. split; [exact H1|]. apply negb_true_iff in H2. intros X. apply mem_str_in in X. congruence.
    + intros p Hp. destruct strict; [|destruct Hp]. apply filter_In in Hp as [H1 H2]. repeat split; [exact H1|]. apply negb_true_iff in H2. intros X. apply mem_str_in in X. congruence.
  - set (md := md_paths target g). set (seen := entries_under f (tjoin target (gpath g))).
    destruct ((strict && negb (is_nil (filter (fun p => negb (mem_str p md)) seen))) || negb (is_nil (filter (fun p => negb (mem_str p seen)) md))); [|discriminate].
    intros H. inversion H; subst. split.
    + intros p Hp. left. apply filter_In in Hp as [H1 H2]. split; [exact H1|]. apply negb_true_iff in H2. intros X. apply mem_str_in in X. congruence.
    + intros p Hp. destruct strict; [|destruct Hp]. apply filter_In in Hp as [H1 H2]. repeat split; [exact H1|]. apply negb_true_iff in H2. intros X. apply mem_str_in in X. congruence.
Qed.

(* ---------- C09: dry run ---------- *)
Theorem dry_run_no_effect c dir f ts : c_dry c = true -> fst (fst (mkdir_trees c dir f ts)) = f.
Proof.
  intros Hd. unfold mkdir_trees. cbn zeta. destruct (grow_all (no_enc c) true ts) as [gs| |]; try reflexivity.
  cbn [no_enc c_dry]. rewrite Hd. destruct (spread_all (no_enc c) gs); reflexivity.
Qed.

Definition with_dry (c : cfg) (b : bool) : cfg :=
  {| c_bf := c_bf c; c_enc := c_enc c; c_dry := b; c_exts := c_exts c; c_noiter := c_noiter c |}.

Lemma grow_all_forced c b ts : grow_all (with_dry c b) true ts = grow_all (with_dry c true) true ts.
Proof.
  induction ts as [|t r IH]; [reflexivity|]. cbn [grow_all]. rewrite IH.
  unfold grow_one. cbn [with_dry c_enc c_dry c_bf]. rewrite !orb_true_r. reflexivity.
Qed.

Definition name_error (r : res unit) : bool :=
  match r with Err (EInvalidName _) | Err (EInvalidPath _) => true | _ => false end.

Lemma validate_g_name_error : forall g e, validate_g g = Some e -> name_error (Err e) = true.
Proof.
  induction g as [n b p ks IH] using gtree_ind'. intros e H. cbn [validate_g] in H.
  unfold validate_node in H. cbn [gname gpath] in H.
  destruct (bad_name n); [inversion H; reflexivity|].
  destruct (negb (valid_path p)); [inversion H; reflexivity|].
  induction ks as [|k r IHr]; [discriminate|].
  inversion IH as [|? ? Hk Hr]; subst.
  destruct (validate_g k) as [e'|] eqn:V; [inversion H; subst; apply (Hk e eq_refl)|]. apply IHr; assumption.
Qed.

Lemma grow_all_name_error c fv ts e : grow_all c fv ts = Err e -> name_error (Err e) = true.
Proof.
  induction ts as [|t r IH]; cbn [grow_all]; [discriminate|].
  unfold grow_one at 1. destruct (is_default (c_enc c)).
  - destruct (c_dry c || fv).
    + destruct (validate_g (grow_root (c_bf c) t)) as [e'|] eqn:V.
      * intros H. inversion H; subst. eapply validate_g_name_error; eauto.
      * destruct (grow_all c fv r) as [gs|e'|]; try discriminate. intros H. inversion H; subst. apply IH. reflexivity.
    + destruct (grow_all c fv r) as [gs|e'|]; try discriminate. intros H. inversion H; subst. apply IH. reflexivity.
  - destruct (grow_all c fv r) as [gs|e'|]; try discriminate. intros H. inversion H; subst. apply IH. reflexivity.
Qed.

(* the dry run rejects a forest iff the real run rejects it because of a name, and then both
   return the same error; otherwise the dry run returns nil *)
Theorem dry_run_same_verdict c dir f ts :
  let dry := snd (mkdir_trees (with_dry c true) dir f ts) in
  let real := snd (mkdir_trees (with_dry c false) dir f ts) in
  (name_error dry = true <-> name_error real = true) /\
  (name_error dry = true -> real = dry) /\
  (name_error dry = false -> dry = Ok tt).
Proof.
  cbn zeta. unfold mkdir_trees. cbn zeta.
  change (no_enc (with_dry c false)) with (with_dry (no_enc c) false).
  change (no_enc (with_dry c true)) with (with_dry (no_enc c) true).
  rewrite (grow_all_forced (no_enc c) false ts).
  destruct (grow_all (with_dry (no_enc c) true) true ts) as [gs|e|] eqn:G.
  - cbn [with_dry c_dry]. destruct (spread_all_ok (with_dry (no_enc c) true) gs) as [cs Hc]. rewrite Hc. cbn [snd name_error].
    destruct (mkdirer (c_exts (with_dry (no_enc c) false)) dir f gs) as [f1 r] eqn:M. cbn [snd].
    destruct (mkdirer_result _ _ _ _ _ _ M) as [[-> _]|[[-> _]|[-> _]]]; cbn; repeat split; intros; congruence.
  - cbn [snd]. pose proof (grow_all_name_error _ _ _ _ G) as Hn. rewrite Hn. repeat split; intros; congruence.
  - exfalso. exact (grow_all_no_panic _ _ _ G).
Qed.

(* the report: per root, its plain tree text, an empty line, "d directories, f files" *)
Theorem dry_run_report c dir f ts gs :
  c_dry c = true -> grow_all (no_enc c) true ts = Ok gs ->
  mkdir_trees c dir f ts = (f, [CText (concat (map (dry_block (c_exts c)) gs))], Ok tt) /\
  forall g, dry_block (c_exts c) g = text_of g ++ [c_lf] ++ summary (c_exts c) g ++ [c_lf].
Proof.
  intros Hd Hg. unfold mkdir_trees. cbn zeta. rewrite Hg. cbn [no_enc c_dry]. rewrite Hd. unfold spread_all. cbn [no_enc c_dry c_exts]. rewrite Hd. split; reflexivity.
Qed.
