(* Proofs/MassiveFront.v — massive mode's front end down to the bytes: the splitter run on the
   bytes of a heading-free spelling of a forest sends exactly the blocks `split_rows` of its
   rows, every worker that re-scans its block sees the block's rows again, and whatever the
   interleaving of the workers' parse calls the roots produced are the forest's tries. *)
From Coq Require Import List Ascii Arith Bool Lia NArith Permutation.
From GT Require Import Base.GoStr Md.Parser Tree.Tree Spec.Spec Spec.Classify Spec.Spelling Conc.Splitter
  Proofs.Spelled Proofs.SpelledTop Proofs.SplitSchedule.
Import ListNotations.

Lemma block_lines_go_row : forall r cur rest, ~ In c_lf r ->
  block_lines_go cur (r ++ c_lf :: rest) = (rev cur ++ r) :: block_lines_go [] rest.
Proof.
  induction r as [|c r IH]; intros cur rest Hn.
  - cbn [app block_lines_go]. rewrite Ascii.eqb_refl, app_nil_r. reflexivity.
  - cbn [app block_lines_go]. destruct (Ascii.eqb c c_lf) eqn:E.
    + apply Ascii.eqb_eq in E. subst c. exfalso. apply Hn. left. reflexivity.
    + rewrite IH by (intros H; apply Hn; right; exact H). cbn [rev]. rewrite <- app_assoc. reflexivity.
Qed.

(* a block of rows without line feeds is read back as its rows *)
Lemma rescan_block rows : Forall (fun r => ~ In c_lf r) rows -> block_lines (block_bytes rows) = rows.
Proof.
  unfold block_lines. induction rows as [|r rest IH]; intros H; [reflexivity|].
  inversion H as [|? ? Hr Hrest]; subst. cbn [block_bytes flat_map]. rewrite <- app_assoc. cbn [app].
  rewrite (block_lines_go_row r [] _ Hr). cbn [rev app]. f_equal. apply IH. exact Hrest.
Qed.

Lemma gen_block_rows rows : Forall (fun r => ~ In c_lf r) rows ->
  gen_block (block_bytes rows) = worker None (parse_all p0 rows).
Proof. intros H. unfold gen_block. rewrite (rescan_block rows H). reflexivity. Qed.

Lemma blocks_rows_ok rows : Forall row_bytes_ok rows -> Forall (Forall (fun r => ~ In c_lf r)) (split_rows rows).
Proof.
  intros H. rewrite Forall_forall. intros b Hb. rewrite Forall_forall. intros r Hr.
  rewrite Forall_forall in H. apply (H r). rewrite <- (split_concat rows). apply in_concat. exists b. auto.
Qed.

Theorem massive_front_end sp f :
  spells sp f -> sp_heading sp = false ->
  let rows := map fst (sp_rows sp) in
  split_doc (bytes_of sp) = (map block_bytes (split_rows rows), true) /\
  Forall (fun b => block_lines (block_bytes b) = b) (split_rows rows) /\
  forall sched, interleave (split_rows rows) sched ->
    roots_of (results_by_block (List.length (split_rows rows)) (run_sched p0 sched)) = map trie_of f /\
    forall order, Permutation order (seq 0 (List.length (split_rows rows))) ->
      Permutation (roots_of (map (fun j => block_result j (run_sched p0 sched)) order)) (map trie_of f).
Proof.
  intros Hs Hh rows. pose proof Hs as [Hi [Hr [Hb Hf]]]. rewrite Hh in Hi, Hr.
  destruct (spells_parses sp f Hs) as [Hscan _].
  assert (Hrb : Forall row_bytes_ok rows).
  { unfold rows. rewrite Forall_map. exact Hb. }
  split; [|split].
  - unfold split_doc. rewrite Hscan. reflexivity.
  - pose proof (blocks_rows_ok rows Hrb) as HB. rewrite Forall_forall in HB |- *.
    intros b Hin. apply rescan_block. apply HB. exact Hin.
  - intros sched Hil. split.
    + exact (proj1 (massive_forest (sp_unit sp) f rows Hi Hr sched Hil)).
    + intros order Hp. exact (massive_forest_multiset (sp_unit sp) f rows Hi Hr sched order Hil Hp).
Qed.

Print Assumptions massive_front_end.
