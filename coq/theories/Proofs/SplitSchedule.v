(* Proofs/SplitSchedule.v — massive mode's splitter and shared parser (Conc/Splitter.v):
   (A) the blocks of the splitter: their concatenation is the input, every block but the
       first starts with a block-starting row, only a sole first block can be empty, no
       other row of a block starts a block;
   (B) schedule independence: for a document spelled uniformly with one indentation unit
       and without heading roots, under EVERY interleaving of the blocks' rows through
       the one shared parser each block gets the results it gets when parsed alone;
   (C) hence the workers' results per block, and the multiset of roots handed to the
       next stage, do not depend on the schedule; for the spelling of a forest f they
       are the tries of f's trees. *)
From Coq Require Import List Ascii Arith Bool Lia Permutation.
From GT Require Import Base.GoStr Md.Parser Tree.Tree Spec.Spec Spec.Classify Spec.Spelling
  Conc.Splitter Proofs.TreeInd Proofs.BuildTrie Proofs.GenItems Proofs.Spelled.
Import ListNotations.

(* ====================================================================== *)
(* (A) the splitter                                                        *)
(* ====================================================================== *)

Definition nostart (r : str) : Prop := starts_block r = false.

(* a block as cut by the splitter after the first: a starting row, then non-starting rows *)
Definition block_ok (b : list str) : Prop :=
  exists r t, b = r :: t /\ starts_block r = true /\ Forall nostart t.

(* the first block: anything accumulated so far, then non-starting rows *)
Definition tail_ok (b : list str) : Prop :=
  match b with [] => True | _ :: t => Forall nostart t end.

Lemma tail_ok_snoc b r : tail_ok b -> b <> [] -> nostart r -> tail_ok (b ++ [r]).
Proof.
  destruct b as [|x t]; [congruence|]. cbn [tail_ok app]. intros H _ Hr.
  apply Forall_app. split; [exact H|]. constructor; [exact Hr|constructor].
Qed.

Lemma rev_nil_inv {A} (l : list A) : rev l = [] -> l = [].
Proof. intros E. apply (f_equal (@rev A)) in E. rewrite rev_involutive in E. exact E. Qed.

Lemma split_go_spec : forall rows cur,
  tail_ok (rev cur) ->
  exists b0 bs,
    split_go cur rows = b0 :: bs /\
    concat (b0 :: bs) = rev cur ++ rows /\
    tail_ok b0 /\ Forall block_ok bs /\
    (b0 = [] -> cur = [] /\ bs = [] /\ rows = []).
Proof.
  induction rows as [|r rs IH]; intros cur Hc.
  - exists (rev cur), []. cbn [split_go concat]. rewrite !app_nil_r.
    split; [reflexivity|]. split; [reflexivity|]. split; [exact Hc|]. split; [constructor|].
    intros E. apply rev_nil_inv in E. auto.
  - cbn [split_go]. destruct (starts_block r) eqn:Hr.
    + destruct (IH [r]) as [b0 [bs [E [Hcat [Ht [Hbs Hemp]]]]]]; [cbn [rev app tail_ok]; constructor|].
      cbn [rev app] in Hcat.
      assert (Hb0 : block_ok b0).
      { destruct b0 as [|x t].
        - destruct (Hemp eq_refl) as [F _]. discriminate.
        - cbn [concat app] in Hcat. inversion Hcat; subst x.
          exists r, t. cbn [tail_ok] in Ht. auto. }
      destruct cur as [|c cur'].
      * exists b0, bs. rewrite E. cbn [rev app].
        split; [reflexivity|]. split; [exact Hcat|]. split; [exact Ht|]. split; [exact Hbs|].
        intros F. destruct (Hemp F) as [G _]. discriminate.
      * exists (rev (c :: cur')), (b0 :: bs). rewrite E.
        split; [reflexivity|]. split; [cbn [concat] in *; rewrite Hcat; reflexivity|].
        split; [exact Hc|]. split; [constructor; assumption|].
        intros F. apply rev_nil_inv in F. discriminate.
    + destruct (IH (r :: cur)) as [b0 [bs [E [Hcat [Ht [Hbs Hemp]]]]]].
      { cbn [rev]. destruct cur as [|c cur'].
        - cbn [rev app tail_ok]. constructor.
        - apply tail_ok_snoc; [exact Hc| |exact Hr].
          cbn [rev]. destruct (rev cur'); discriminate. }
      exists b0, bs. rewrite E. cbn [rev] in Hcat. rewrite <- app_assoc in Hcat. cbn [app] in Hcat.
      split; [reflexivity|]. split; [exact Hcat|]. split; [exact Ht|]. split; [exact Hbs|].
      intros F. destruct (Hemp F) as [G _]. discriminate.
Qed.

(* A1: nothing is lost, duplicated or reordered *)
Theorem split_concat rows : concat (split_rows rows) = rows.
Proof.
  destruct (split_go_spec rows [] I) as [b0 [bs [E [Hcat _]]]].
  unfold split_rows. rewrite E. exact Hcat.
Qed.

(* A2: the shape of the block list *)
Theorem split_shape rows :
  exists b0 bs,
    split_rows rows = b0 :: bs /\ tail_ok b0 /\ Forall block_ok bs /\
    (b0 = [] -> bs = [] /\ rows = []).
Proof.
  destruct (split_go_spec rows [] I) as [b0 [bs [E [_ [Ht [Hbs Hemp]]]]]].
  exists b0, bs. unfold split_rows.
  split; [exact E|]. split; [exact Ht|]. split; [exact Hbs|].
  intros F. destruct (Hemp F) as [_ [G1 G2]]. auto.
Qed.

Corollary split_nonempty rows : split_rows rows <> [].
Proof. destruct (split_shape rows) as [b0 [bs [E _]]]. rewrite E. discriminate. Qed.

(* every block except possibly the first starts with a block-starting row *)
Corollary split_later_blocks rows i b :
  nth_error (split_rows rows) (S i) = Some b ->
  exists r t, b = r :: t /\ starts_block r = true.
Proof.
  destruct (split_shape rows) as [b0 [bs [E [_ [Hbs _]]]]]. rewrite E. cbn [nth_error].
  intros H. apply nth_error_In in H. rewrite Forall_forall in Hbs.
  destruct (Hbs b H) as [r [t [E1 [E2 _]]]]. exists r, t. auto.
Qed.

(* an empty block is the only block, and the input was empty *)
Corollary split_empty_block rows : In [] (split_rows rows) -> split_rows rows = [[]] /\ rows = [].
Proof.
  destruct (split_shape rows) as [b0 [bs [E [_ [Hbs Hemp]]]]]. rewrite E.
  intros [H|H].
  - destruct (Hemp H) as [G1 G2]. subst. auto.
  - rewrite Forall_forall in Hbs. destruct (Hbs [] H) as [r [t [F _]]]. discriminate.
Qed.

(* inside a block no row after the first starts a block *)
Corollary split_inner_rows rows b r t :
  In b (split_rows rows) -> b = r :: t -> Forall (fun x => starts_block x = false) t.
Proof.
  destruct (split_shape rows) as [b0 [bs [E [Ht [Hbs _]]]]]. rewrite E.
  intros [H|H] Eb; subst b.
  - subst b0. exact Ht.
  - rewrite Forall_forall in Hbs. destruct (Hbs _ H) as [r' [t' [F [_ G]]]].
    inversion F; subst. exact G.
Qed.

(* conversely, the splitter recovers any such decomposition *)
Lemma split_go_nostart : forall pre cur rest,
  Forall nostart pre -> split_go cur (pre ++ rest) = split_go (rev pre ++ cur) rest.
Proof.
  induction pre as [|r pre IH]; intros cur rest H; [reflexivity|].
  inversion H as [|? ? Hr Hp]; subst. cbn [app split_go rev]. unfold nostart in Hr. rewrite Hr.
  rewrite IH by exact Hp. rewrite <- app_assoc. reflexivity.
Qed.

Lemma split_go_blocks : forall bs cur,
  Forall block_ok bs ->
  split_go cur (concat bs) =
  match bs with
  | [] => [rev cur]
  | _ :: _ => match cur with [] => bs | _ :: _ => rev cur :: bs end
  end.
Proof.
  induction bs as [|b bs IH]; intros cur H; [reflexivity|].
  inversion H as [|? ? Hb Hbs]; subst. destruct Hb as [r [t [E [Hr Ht]]]]. subst b.
  assert (G : split_go [r] (t ++ concat bs) = (r :: t) :: bs).
  { rewrite split_go_nostart by exact Ht. rewrite IH by exact Hbs.
    destruct bs as [|b' bs'].
    - rewrite rev_app_distr, rev_involutive. reflexivity.
    - destruct (rev t ++ [r]) as [|y l] eqn:F.
      + destruct (rev t); discriminate.
      + rewrite <- F, rev_app_distr, rev_involutive. reflexivity. }
  cbn [concat app split_go]. rewrite Hr, G. destruct cur; reflexivity.
Qed.

Theorem split_rows_blocks pre bs :
  Forall nostart pre -> Forall block_ok bs ->
  split_rows (pre ++ concat bs) =
  match pre, bs with
  | [], _ :: _ => bs
  | _, _ => pre :: bs
  end.
Proof.
  intros Hp Hb. unfold split_rows. rewrite split_go_nostart by exact Hp.
  rewrite split_go_blocks by exact Hb. rewrite app_nil_r.
  destruct bs as [|b bs'].
  - rewrite rev_involutive. destruct pre; reflexivity.
  - destruct pre as [|p pre']; [reflexivity|].
    destruct (rev (p :: pre')) as [|y l] eqn:F.
    + apply (f_equal (@rev str)) in F. rewrite rev_involutive in F. discriminate.
    + rewrite <- F, rev_involutive. reflexivity.
Qed.

(* ====================================================================== *)
(* interleavings                                                            *)
(* ====================================================================== *)

Lemma set_nth_length {A} : forall (l : list A) j v, List.length (set_nth l j v) = List.length l.
Proof.
  induction l as [|h t IH]; intros [|j] v; cbn [set_nth List.length]; auto.
Qed.

Lemma nth_error_set_nth_eq {A} : forall (l : list A) j v x,
  nth_error l j = Some x -> nth_error (set_nth l j v) j = Some v.
Proof.
  induction l as [|h t IH]; intros [|j] v x; cbn [set_nth nth_error]; try discriminate; eauto.
Qed.

Lemma nth_error_set_nth_neq {A} : forall (l : list A) j k v,
  k <> j -> nth_error (set_nth l j v) k = nth_error l k.
Proof.
  induction l as [|h t IH]; intros [|j] [|k] v H; cbn [set_nth nth_error]; try reflexivity; try lia.
  apply IH. lia.
Qed.

Lemma proj_cons {A} j k (x : A) l :
  proj j ((k, x) :: l) = if k =? j then x :: proj j l else proj j l.
Proof. unfold proj. cbn [filter fst]. destruct (k =? j); reflexivity. Qed.

(* the rows tagged j are block j's rows in order, and every tag names a block *)
Lemma interleave_proj {A} (bs : list (list A)) sched :
  interleave bs sched ->
  Forall (fun p => fst p < List.length bs) sched /\
  forall j b, nth_error bs j = Some b -> proj j sched = b.
Proof.
  induction 1 as [bs H|bs j x b sched Hj _ [IH1 IH2]].
  - split; [constructor|]. intros j b Hb. apply nth_error_In in Hb.
    rewrite Forall_forall in H. rewrite (H b Hb). reflexivity.
  - split.
    + constructor.
      * cbn [fst]. apply nth_error_Some. congruence.
      * rewrite set_nth_length in IH1. exact IH1.
    + intros k bk Hk. rewrite proj_cons. destruct (j =? k) eqn:E.
      * apply Nat.eqb_eq in E. subst k. rewrite Hj in Hk. inversion Hk; subst bk. f_equal.
        apply IH2. eapply nth_error_set_nth_eq; eauto.
      * apply Nat.eqb_neq in E. apply IH2. rewrite nth_error_set_nth_neq by congruence. exact Hk.
Qed.

(* ... and that characterises interleavings *)
Lemma proj_interleave {A} : forall sched (bs : list (list A)),
  Forall (fun p => fst p < List.length bs) sched ->
  (forall j b, nth_error bs j = Some b -> proj j sched = b) ->
  interleave bs sched.
Proof.
  induction sched as [|[j x] sched IH]; intros bs Hlt Hp.
  - apply il_nil. apply Forall_forall. intros b Hb. apply In_nth_error in Hb as [j Hj].
    symmetry. exact (Hp j b Hj).
  - inversion Hlt as [|? ? Hj Hlt']; subst. cbn [fst] in Hj.
    destruct (nth_error bs j) as [bj|] eqn:Ej; [|apply nth_error_None in Ej; lia].
    pose proof (Hp j bj Ej) as Pj. rewrite proj_cons, Nat.eqb_refl in Pj.
    apply (il_step bs j x (proj j sched)); [rewrite Ej, <- Pj; reflexivity|].
    apply IH.
    + rewrite set_nth_length. exact Hlt'.
    + intros k b Hk. destruct (Nat.eq_dec k j) as [E|E].
      * subst k. rewrite (nth_error_set_nth_eq bs j _ bj Ej) in Hk. inversion Hk. reflexivity.
      * rewrite nth_error_set_nth_neq in Hk by exact E.
        pose proof (Hp k b Hk) as Pk. rewrite proj_cons in Pk.
        assert (F : (j =? k) = false) by (apply Nat.eqb_neq; congruence).
        rewrite F in Pk. exact Pk.
Qed.

Theorem interleave_iff {A} (bs : list (list A)) sched :
  interleave bs sched <->
  Forall (fun p => fst p < List.length bs) sched /\
  forall j b, nth_error bs j = Some b -> proj j sched = b.
Proof.
  split; [apply interleave_proj|]. intros [H1 H2]. apply proj_interleave; assumption.
Qed.

(* the sequential schedule is one of them *)
Lemma interleave_seq_from : forall (bs pre : list (list str)),
  Forall (fun b => b = []) pre ->
  interleave (pre ++ bs) (seq_from (List.length pre) bs).
Proof.
  induction bs as [|b bs IH]; intros pre Hpre.
  - rewrite app_nil_r. apply il_nil. exact Hpre.
  - cbn [seq_from]. induction b as [|x b IHb].
    + cbn [map app].
      replace (pre ++ [] :: bs) with ((pre ++ [[]]) ++ bs) by (rewrite <- app_assoc; reflexivity).
      replace (S (List.length pre)) with (List.length (pre ++ [[]])) by (rewrite app_length; cbn; lia).
      apply IH. apply Forall_app. split; [exact Hpre|]. constructor; [reflexivity|constructor].
    + cbn [map app]. apply (il_step _ _ x b).
      * rewrite nth_error_app2 by lia. rewrite Nat.sub_diag. reflexivity.
      * replace (set_nth (pre ++ (x :: b) :: bs) (List.length pre) b) with (pre ++ b :: bs); [exact IHb|].
        clear. induction pre as [|p pre IHp]; cbn [app List.length set_nth]; [reflexivity|].
        rewrite <- IHp. reflexivity.
Qed.

Theorem interleave_seq_sched bs : interleave bs (seq_sched bs).
Proof. apply (interleave_seq_from bs []). constructor. Qed.

(* ====================================================================== *)
(* (B) the shared parser                                                    *)
(* ====================================================================== *)

(* `spaces` is learnt once: no row whatsoever changes it once it is non-zero *)
Lemma try_symbol_spaces st row sym :
  spaces st <> 0 -> spaces (fst (try_symbol st row sym)) = spaces st.
Proof.
  intros H. unfold try_symbol.
  destruct (cut sym row) as [[[|c0 bf] af]|]; cbn [fst spaces]; try reflexivity.
  destruct (Ascii.eqb c0 c_sp || Ascii.eqb c0 c_tab); [|reflexivity].
  cbn [sharp spaces sep]. apply Nat.eqb_neq in H. rewrite H, andb_false_r.
  destruct (count _ _ =? _); [|reflexivity].
  cbn [sharp spaces sep]. destruct (validate _ _); reflexivity.
Qed.

Lemma separate_spaces : forall syms st row,
  spaces st <> 0 -> spaces (fst (separate st row syms)) = spaces st.
Proof.
  induction syms as [|s syms IH]; intros st row H; [reflexivity|].
  cbn [separate]. pose proof (try_symbol_spaces st row s H) as T.
  destruct (try_symbol st row s) as [st' [r|]]; cbn [fst] in *; [exact T|].
  rewrite IH by congruence. exact T.
Qed.

Lemma parse_spaces st row : spaces st <> 0 -> spaces (fst (parse st row)) = spaces st.
Proof.
  intros H. unfold parse. destruct (all_space row); [reflexivity|].
  destruct row as [|c after]; [reflexivity|].
  destruct (Ascii.eqb c c_sharp).
  - destruct (trim c_sp (trim_left c_sharp after)); reflexivity.
  - pose proof (separate_spaces list_symbols st (c :: after) H) as S.
    destruct (separate st (c :: after) list_symbols) as [st' [[cnt after']|]]; cbn [fst] in *; [|exact S].
    destruct (trim_prefix1 c_sp after'); exact S.
Qed.

(* the shared state along a uniform heading-free document *)
Definition sinv (u : unit_t) (st : pstate) : Prop := inv u st /\ sharp st = false.

Lemma sinv_p0 u : sinv u p0.
Proof. unfold sinv, inv, p0. cbn [sep spaces sharp]. auto. Qed.

(* Spelled.parse_item, for a state that may have been advanced by other blocks' rows *)
Lemma parse_item_shared u st d bl n :
  sinv u st -> is_bullet bl = true -> n <> [] -> 1 <= d ->
  (spaces st = 0 -> d <= 2) ->
  exists st', parse st (indent u (d - 1) ++ bl :: c_sp :: n) = (st', PItem d n)
    /\ sinv u st' /\ (spaces st' = 0 -> d = 1 /\ spaces st = 0).
Proof.
  intros [Hinv Hsh] Hb Hn Hd Hsp.
  destruct (parse_item u st (d - 1) bl n Hinv Hb Hn) as [st' [P [I [S L]]]]; [intros E; specialize (Hsp E); lia|].
  exists st'. rewrite Hsh in P. replace (d - 1 + 1 + 0) with d in P by lia.
  split; [exact P|]. split; [split; [exact I|congruence]|].
  intros E. split; [specialize (L E); lia|].
  destruct (Nat.eq_dec (spaces st) 0) as [Z|Z]; [exact Z|].
  pose proof (parse_spaces st (indent u (d - 1) ++ bl :: c_sp :: n) Z) as M.
  rewrite P in M. cbn [fst] in M. congruence.
Qed.

(* what block j is expected to get: PBlank for its blank rows, its items in order *)
Fixpoint expect (rows : list str) (its : list (nat * str)) : list pres :=
  match rows with
  | [] => []
  | r :: rs =>
      if all_space r then PBlank :: expect rs its
      else match its with
           | (d, n) :: its' => PItem d n :: expect rs its'
           | [] => PFormat :: expect rs []
           end
  end.

Lemma row_not_blank u it r : row_of u false it r -> all_space r = false.
Proof.
  intros H. inversion H as [d n bl Hb Hd Hd2|n k a z Hhd]; subst; [|discriminate].
  unfold indent. apply all_space_row. exact Hb.
Qed.

(* a block yet to be parsed: its remaining rows spell the remaining items, which may go
   at most one deeper than [prev]; as long as the unit has not been learnt, [prev] <= 1 *)
Definition good (u : unit_t) (st : pstate) (rows : list str) (its : list (nat * str)) (prev : nat) : Prop :=
  rows_of u false its rows /\ Forall (item_ok false) its /\ nested_from prev its /\
  (spaces st = 0 -> prev <= 1).

Definition fupd {B} (f : nat -> B) (j : nat) (v : B) : nat -> B :=
  fun k => if k =? j then v else f k.

Lemma run_sched_cons st j row rest :
  run_sched st ((j, row) :: rest) = (j, snd (parse st row)) :: run_sched (fst (parse st row)) rest.
Proof. cbn [run_sched]. destruct (parse st row); reflexivity. Qed.

Lemma sched_gen u : forall bs sched,
  interleave bs sched ->
  forall st (its : nat -> list (nat * str)) (prev : nat -> nat),
    sinv u st ->
    (forall j rows, nth_error bs j = Some rows -> good u st rows (its j) (prev j)) ->
    forall j rows, nth_error bs j = Some rows ->
      results_of j (run_sched st sched) = expect rows (its j).
Proof.
  induction 1 as [bs H|bs j0 x b sched Hj0 _ IH]; intros st its prev Hst Hgood j rows Hj.
  - apply nth_error_In in Hj. rewrite Forall_forall in H. rewrite (H rows Hj). reflexivity.
  - destruct (Hgood j0 _ Hj0) as [Hrows [Hok [Hnest Hprev]]].
    rewrite run_sched_cons. unfold results_of in *. rewrite proj_cons.
    inversion Hrows as [|its0 bl rows0 Hbl Hrows'|it its' r rows0 Hrow Hrows' Eits]; subst.
    + (* a blank row: the state is unchanged *)
      assert (P : parse st x = (st, PBlank)) by (unfold parse; rewrite Hbl; reflexivity).
      rewrite P. cbn [fst snd].
      assert (G : forall k rows', nth_error (set_nth bs j0 b) k = Some rows' ->
                  good u st rows' (its k) (prev k)).
      { intros k rows' Hk. destruct (Nat.eq_dec k j0) as [E|E].
        - subst k. rewrite (nth_error_set_nth_eq bs j0 b _ Hj0) in Hk. inversion Hk; subst rows'.
          unfold good. auto.
        - rewrite nth_error_set_nth_neq in Hk by exact E. apply Hgood. exact Hk. }
      destruct (j0 =? j) eqn:E.
      * apply Nat.eqb_eq in E. subst j. rewrite Hj0 in Hj. inversion Hj; subst rows.
        cbn [expect]. rewrite Hbl. f_equal.
        apply (IH st its prev Hst G). eapply nth_error_set_nth_eq; eauto.
      * apply Nat.eqb_neq in E. apply (IH st its prev Hst G).
        rewrite nth_error_set_nth_neq by congruence. exact Hj.
    + (* an item row *)
      pose proof (row_not_blank u it x Hrow) as Hnb.
      inversion Hrow as [d n bl Hb Hd Hd2|n k a z Hhd]; subst; [|discriminate].
      rewrite <- Eits in Hok, Hnest.
      inversion Hok as [|? ? Hit Hok']; subst. destruct Hit as [Hn _]. cbn [snd] in Hn.
      cbn [nested_from] in Hnest. destruct Hnest as [_ [Hdp Hnest']].
      destruct (parse_item_shared u st d bl n Hst Hb Hn Hd) as [st' [P [Hst' L]]];
        [intros Z; specialize (Hprev Z); lia|].
      rewrite P. cbn [fst snd].
      assert (G : forall k rows', nth_error (set_nth bs j0 b) k = Some rows' ->
                  good u st' rows' (fupd its j0 its' k) (fupd prev j0 d k)).
      { intros k rows' Hk. unfold fupd. destruct (Nat.eq_dec k j0) as [E|E].
        - subst k. rewrite Nat.eqb_refl.
          rewrite (nth_error_set_nth_eq bs j0 b _ Hj0) in Hk. inversion Hk; subst rows'.
          unfold good. repeat split; auto. intros Z. destruct (L Z) as [F _]. lia.
        - assert (F : (k =? j0) = false) by (apply Nat.eqb_neq; exact E). rewrite F.
          rewrite nth_error_set_nth_neq in Hk by exact E.
          destruct (Hgood k rows' Hk) as [G1 [G2 [G3 G4]]].
          unfold good. repeat split; auto. intros Z. destruct (L Z) as [_ F0]. auto. }
      destruct (j0 =? j) eqn:E.
      * apply Nat.eqb_eq in E. subst j. rewrite Hj0 in Hj. inversion Hj; subst rows.
        rewrite <- Eits. cbn [expect]. rewrite Hnb. f_equal.
        rewrite (IH st' _ _ Hst' G j0 b).
        -- unfold fupd. rewrite Nat.eqb_refl. reflexivity.
        -- eapply nth_error_set_nth_eq; eauto.
      * apply Nat.eqb_neq in E.
        rewrite (IH st' _ _ Hst' G j rows).
        -- unfold fupd. assert (F : (j =? j0) = false) by (apply Nat.eqb_neq; congruence).
           rewrite F. reflexivity.
        -- rewrite nth_error_set_nth_neq by congruence. exact Hj.
Qed.

(* block [rows] is a spelling with unit u, without heading roots, of the nested item
   listing [its] (nested: it starts with a root and never nests more than one deeper) *)
Definition block_spelled (u : unit_t) (rows : list str) (its : list (nat * str)) : Prop :=
  rows_of u false its rows /\ nested its /\ Forall (item_ok false) its.

Lemma nested_starts_with_root d n its : nested ((d, n) :: its) -> d = 1.
Proof. unfold nested. cbn [nested_from]. lia. Qed.

Lemma Forall2_nth_error {A B} (P : A -> B -> Prop) : forall l1 l2 j a,
  Forall2 P l1 l2 -> nth_error l1 j = Some a ->
  exists b, nth_error l2 j = Some b /\ P a b.
Proof.
  intros l1 l2 j a H. revert j. induction H as [|x y l1 l2 Hxy _ IH]; intros [|j] Hj;
    cbn [nth_error] in *; try discriminate.
  - inversion Hj; subst. exists y. auto.
  - apply IH. exact Hj.
Qed.

Lemma Forall2_len {A B} (P : A -> B -> Prop) l1 l2 : Forall2 P l1 l2 -> List.length l1 = List.length l2.
Proof. induction 1; cbn [List.length]; congruence. Qed.

(* B: whatever the schedule, block j gets its own blanks and items *)
Theorem schedule_independent u bs its :
  Forall2 (block_spelled u) bs its ->
  forall sched, interleave bs sched ->
  forall j rows itj, nth_error bs j = Some rows -> nth_error its j = Some itj ->
    results_of j (run_sched p0 sched) = expect rows itj.
Proof.
  intros HF sched Hil j rows itj Hj Hi.
  rewrite (sched_gen u bs sched Hil p0 (fun k => nth k its []) (fun _ => 0) (sinv_p0 u)) with (j := j) (rows := rows).
  - rewrite (nth_error_nth its j [] Hi). reflexivity.
  - intros k rk Hk. destruct (Forall2_nth_error _ _ _ k rk HF Hk) as [ik [E [H1 [H2 H3]]]].
    rewrite (nth_error_nth its k [] E). unfold good. repeat split; auto.
  - exact Hj.
Qed.

(* ... which is what it gets when it is parsed alone by a fresh parser *)
Lemma run_sched_tag j : forall rows st,
  run_sched st (map (pair j) rows) = map (pair j) (parse_all st rows).
Proof.
  induction rows as [|r rows IH]; intros st; [reflexivity|].
  cbn [map run_sched parse_all]. destruct (parse st r) as [st' x]. cbn [map]. rewrite IH. reflexivity.
Qed.

Lemma proj_tag {A} j (l : list A) : proj j (map (pair j) l) = l.
Proof.
  induction l as [|x l IH]; [reflexivity|]. cbn [map]. rewrite proj_cons, Nat.eqb_refl, IH. reflexivity.
Qed.

Theorem expect_alone u rows its : block_spelled u rows its -> parse_all p0 rows = expect rows its.
Proof.
  intros H.
  pose proof (schedule_independent u [rows] [its] (Forall2_cons _ _ H (Forall2_nil _))
                (seq_sched [rows]) (interleave_seq_sched [rows]) 0 rows its eq_refl eq_refl) as E.
  unfold seq_sched in E. cbn [seq_from] in E. rewrite app_nil_r, run_sched_tag in E.
  unfold results_of in E. rewrite proj_tag in E. exact E.
Qed.

Corollary schedule_independent_alone u bs its :
  Forall2 (block_spelled u) bs its ->
  forall sched, interleave bs sched ->
  forall j rows, nth_error bs j = Some rows ->
    results_of j (run_sched p0 sched) = parse_all p0 rows.
Proof.
  intros HF sched Hil j rows Hj.
  destruct (Forall2_nth_error _ _ _ j rows HF Hj) as [itj [E H]].
  rewrite (expect_alone u rows itj H). eapply schedule_independent; eauto.
Qed.

(* the expected results are the block's items, interspersed with blanks *)
Lemma items_of_expect u : forall its rows, rows_of u false its rows -> items_of (expect rows its) = its.
Proof.
  induction 1 as [|its bl rows Hbl _ IH|it its r rows Hrow _ IH].
  - reflexivity.
  - cbn [expect]. rewrite Hbl. exact IH.
  - cbn [expect]. rewrite (row_not_blank u it r Hrow). destruct it as [d n].
    unfold items_of in *. cbn [flat_map app]. rewrite IH. reflexivity.
Qed.

Corollary block_items_independent u bs its :
  Forall2 (block_spelled u) bs its ->
  forall sched, interleave bs sched ->
  forall j itj, nth_error its j = Some itj ->
    items_of (results_of j (run_sched p0 sched)) = itj.
Proof.
  intros HF sched Hil j itj Hi.
  destruct (nth_error bs j) as [rows|] eqn:Hj.
  - rewrite (schedule_independent u bs its HF sched Hil j rows itj Hj Hi).
    destruct (Forall2_nth_error _ _ _ j rows HF Hj) as [i2 [E [H _]]].
    rewrite Hi in E. inversion E; subst i2. apply (items_of_expect u). exact H.
  - apply nth_error_None in Hj. apply Forall2_len in HF.
    assert (nth_error its j <> None) by congruence. apply nth_error_Some in H. lia.
Qed.

(* ====================================================================== *)
(* (C) what the workers hand on does not depend on the schedule             *)
(* ====================================================================== *)

Lemma map_seq_combine {A B C} (G : A -> B -> C) : forall (l1 : list A) (l2 : list B) (F : nat -> C),
  List.length l1 = List.length l2 ->
  (forall j a b, nth_error l1 j = Some a -> nth_error l2 j = Some b -> F j = G a b) ->
  map F (seq 0 (List.length l1)) = map (fun p => G (fst p) (snd p)) (combine l1 l2).
Proof.
  induction l1 as [|a l1 IH]; intros [|b l2] F Hl HF; cbn [List.length] in Hl; try discriminate; [reflexivity|].
  cbn [List.length seq map combine fst snd]. f_equal.
  - apply (HF 0); reflexivity.
  - rewrite <- seq_shift, map_map. apply IH; [lia|].
    intros j a' b' H1 H2. apply (HF (S j)); assumption.
Qed.

(* the workers' results, by block: those of the blocks parsed alone *)
Theorem results_by_block_expect u bs its :
  Forall2 (block_spelled u) bs its ->
  forall sched, interleave bs sched ->
  results_by_block (List.length bs) (run_sched p0 sched)
  = map (fun p => worker None (expect (fst p) (snd p))) (combine bs its).
Proof.
  intros HF sched Hil. unfold results_by_block.
  apply (map_seq_combine (fun rows it => worker None (expect rows it))).
  - eapply Forall2_len; eauto.
  - intros j rows itj Hj Hi. unfold block_result.
    rewrite (schedule_independent u bs its HF sched Hil j rows itj Hj Hi). reflexivity.
Qed.

(* C1: under every schedule the workers produce, block by block, what they produce under
   the sequential schedule (block 0's rows, then block 1's, ...: simple mode's order) *)
Theorem results_schedule_independent u bs its :
  Forall2 (block_spelled u) bs its ->
  forall sched, interleave bs sched ->
  results_by_block (List.length bs) (run_sched p0 sched)
  = results_by_block (List.length bs) (run_sched p0 (seq_sched bs)).
Proof.
  intros HF sched Hil.
  rewrite (results_by_block_expect u bs its HF sched Hil).
  rewrite (results_by_block_expect u bs its HF _ (interleave_seq_sched bs)). reflexivity.
Qed.

(* the blocks complete in any order: the roots sent on are, as a multiset, those of the
   sequential schedule *)
Corollary roots_schedule_independent u bs its :
  Forall2 (block_spelled u) bs its ->
  forall sched order, interleave bs sched -> Permutation order (seq 0 (List.length bs)) ->
  Permutation (roots_of (map (fun j => block_result j (run_sched p0 sched)) order))
              (roots_of (results_by_block (List.length bs) (run_sched p0 (seq_sched bs)))).
Proof.
  intros HF sched order Hil Hp.
  rewrite <- (results_schedule_independent u bs its HF sched Hil).
  unfold roots_of, results_by_block. apply Permutation_flat_map. apply Permutation_map. exact Hp.
Qed.

(* ---- the worker on a spelled block ---- *)

Definition item_res (it : nat * str) : pres := PItem (fst it) (snd it).

Lemma worker_expect u : forall its rows, rows_of u false its rows ->
  forall cur, worker cur (expect rows its) = worker cur (map item_res its).
Proof.
  induction 1 as [|its bl rows Hbl _ IH|it its r rows Hrow _ IH]; intros cur.
  - reflexivity.
  - cbn [expect]. rewrite Hbl. cbn [worker]. apply IH.
  - cbn [expect]. rewrite (row_not_blank u it r Hrow). destruct it as [d n].
    cbn [map item_res fst snd worker].
    destruct (d =? 1); [apply IH|].
    destruct cur as [[t c]|]; [|reflexivity].
    destruct (d - 2 <=? List.length c); [|reflexivity].
    destruct (attach (firstn (d - 2) c) n t); [apply IH|reflexivity].
Qed.

(* the worker is the item-level generator of GenItems, keeping only the pending root *)
Lemma worker_irun : forall its done cur done' cur',
  irun (done, cur) its = Some (done', cur') ->
  worker cur (map item_res its) = BRoot (match cur' with Some (t, _) => Some t | None => None end).
Proof.
  induction its as [|[d n] its IH]; intros done cur done' cur' H.
  - cbn [irun] in H. inversion H; subst. reflexivity.
  - cbn [irun] in H. unfold istep in H at 1. cbn [fst snd] in H.
    cbn [map item_res fst snd worker].
    destruct (d =? 1).
    + eapply IH; eauto.
    + destruct cur as [[t c]|]; [|discriminate].
      unfold item_step in H. cbn [fst snd] in H.
      destruct (d - 2 <=? List.length c); [|discriminate].
      destruct (attach (firstn (d - 2) c) n t) as [st'|]; [|discriminate].
      eapply IH; eauto.
Qed.

Lemma worker_tree u t rows :
  rows_of u false (preorder_d 1 t) rows -> worker None (expect rows (preorder_d 1 t)) = BRoot (Some (trie_of t)).
Proof.
  intros H. rewrite (worker_expect u _ _ H).
  destruct (irun_root_block t [] None) as [c Hc].
  rewrite (worker_irun _ _ _ _ _ Hc). reflexivity.
Qed.

Lemma worker_blank u rows : rows_of u false [] rows -> worker None (expect rows []) = BRoot None.
Proof. intros H. rewrite (worker_expect u _ _ H). reflexivity. Qed.

(* ---- the blocks of the spelling of a forest ---- *)

Lemma blank_nostart r : all_space r = true -> nostart r.
Proof.
  unfold nostart, starts_block. destruct r as [|c r]; [reflexivity|]. intros H.
  destruct (Ascii.eqb c c_sharp) eqn:E1.
  - apply Ascii.eqb_eq in E1. subst c. rewrite all_space_sharp in H. discriminate.
  - destruct (is_bullet c) eqn:E2; [|reflexivity].
    rewrite (all_space_bullet c r E2) in H. discriminate.
Qed.

Lemma uchar_nostart u r : nostart (uchar u :: r).
Proof. unfold nostart, starts_block. destruct u; reflexivity. Qed.

Lemma root_row_starts u n r : row_of u false (1, n) r -> starts_block r = true.
Proof.
  intros H. inversion H as [d n' bl Hb Hd Hd2|n' k a z Hhd]; subst; [|discriminate].
  unfold indent. cbn [Nat.sub Nat.mul repeat app starts_block]. rewrite Hb. apply orb_true_r.
Qed.

Lemma deep_row_nostart u d n r : 2 <= d -> row_of u false (d, n) r -> nostart r.
Proof.
  intros Hd H. inversion H as [d' n' bl Hb Hd1 Hd2|n' k a z Hhd]; subst; [|discriminate].
  unfold indent. pose proof (ulen_pos u).
  destruct ((d - 1) * ulen u) as [|m] eqn:E; [nia|].
  cbn [repeat app]. apply uchar_nostart.
Qed.

Lemma deep_rows_nostart u : forall its rows,
  rows_of u false its rows -> Forall (fun it => 2 <= fst it) its -> Forall nostart rows.
Proof.
  induction 1 as [|its bl rows Hbl _ IH|it its r rows Hrow _ IH]; intros HF.
  - constructor.
  - constructor; [apply blank_nostart; exact Hbl|apply IH; exact HF].
  - inversion HF as [|? ? H2 HF']; subst. destruct it as [d n]. cbn [fst] in H2.
    constructor; [eapply deep_row_nostart; eauto|apply IH; exact HF'].
Qed.

(* the rows of a ++ it :: b: those of a (with the blank rows before it's row), it's row,
   those of b *)
Lemma rows_of_split u h : forall its rows,
  rows_of u h its rows ->
  forall a it b, its = a ++ it :: b ->
  exists r1 x r2, rows = r1 ++ x :: r2 /\ rows_of u h a r1 /\ row_of u h it x /\ rows_of u h b r2.
Proof.
  induction 1 as [|its bl rows Hbl Hrows IH|it0 its r rows Hrow Hrows IH]; intros a it b E.
  - destruct a; discriminate.
  - destruct (IH a it b E) as [r1 [x [r2 [E1 [H1 [H2 H3]]]]]].
    exists (bl :: r1), x, r2. subst rows. repeat split; auto. constructor; assumption.
  - destruct a as [|a0 a].
    + cbn [app] in E. inversion E; subst. exists [], r, rows. repeat split; auto. constructor.
    + cbn [app] in E. inversion E; subst.
      destruct (IH a it b eq_refl) as [r1 [x [r2 [E1 [H1 [H2 H3]]]]]].
      exists (r :: r1), x, r2. subst rows. repeat split; auto. apply rows_item; assumption.
Qed.

Lemma kids_deep ks : Forall (fun it => 2 <= fst it) (flat_map (preorder_d 2) ks).
Proof.
  apply Forall_forall. intros [h n] Hin. cbn [fst].
  apply in_flat_map in Hin as [k [_ Hin]]. apply preorder_d_ge in Hin. exact Hin.
Qed.

(* the rows of (items below the pending root) ++ (the items of the forest f): the rows of
   the former, then one block per tree of f *)
Lemma forest_blocks u : forall f kids rows,
  rows_of u false (kids ++ forest_items f) rows ->
  exists r1 blocks,
    rows = r1 ++ concat blocks /\ rows_of u false kids r1 /\
    Forall2 (fun t b => block_ok b /\ rows_of u false (preorder_d 1 t) b) f blocks.
Proof.
  induction f as [|[n ks] f IH]; intros kids rows H.
  - exists rows, []. unfold forest_items in H. cbn [flat_map concat] in *. rewrite app_nil_r in *.
    repeat split; auto.
  - unfold forest_items in H. cbn [flat_map preorder_d app] in H.
    destruct (rows_of_split u false _ _ H kids (1, n) _ eq_refl) as [r1 [x [r2 [E [H1 [H2 H3]]]]]].
    destruct (IH (flat_map (preorder_d 2) ks) r2 H3) as [r1' [blocks [E' [H1' HF]]]].
    exists r1, ((x :: r1') :: blocks). subst rows r2. cbn [concat app].
    split; [reflexivity|]. split; [exact H1|].
    constructor; [|exact HF]. split.
    + exists x, r1'. split; [reflexivity|]. split; [eapply root_row_starts; eauto|].
      eapply deep_rows_nostart; [exact H1'|apply kids_deep].
    + cbn [preorder_d]. apply rows_item; assumption.
Qed.

Lemma blank_rows_nostart u rows : rows_of u false [] rows -> Forall nostart rows.
Proof. intros H. eapply deep_rows_nostart; [exact H|constructor]. Qed.

Lemma tree_block_spelled u t b :
  Forall (item_ok false) (preorder_d 1 t) -> rows_of u false (preorder_d 1 t) b ->
  block_spelled u b (preorder_d 1 t).
Proof.
  intros Hok H. split; [exact H|]. split; [|exact Hok].
  unfold nested. rewrite <- (app_nil_r (preorder_d 1 t)). apply preorder_nested; [lia|lia|exact I].
Qed.

(* the roots of the worker results of a list of tree blocks *)
Lemma tree_blocks_roots u : forall f blocks,
  Forall2 (fun t b => block_ok b /\ rows_of u false (preorder_d 1 t) b) f blocks ->
  roots_of (map (fun p => worker None (expect (fst p) (snd p))) (combine blocks (map (preorder_d 1) f)))
  = map trie_of f /\
  Forall (fun r => exists t, r = BRoot (Some t))
         (map (fun p => worker None (expect (fst p) (snd p))) (combine blocks (map (preorder_d 1) f))).
Proof.
  induction 1 as [|t b f blocks [_ Hb] _ [IH1 IH2]]; [split; [reflexivity|constructor]|].
  cbn [map combine fst snd]. rewrite (worker_tree u t b Hb). split.
  - unfold roots_of in *. cbn [flat_map app]. rewrite IH1. reflexivity.
  - constructor; [eauto|exact IH2].
Qed.

Lemma tree_blocks_spelled u : forall f blocks,
  Forall (item_ok false) (forest_items f) ->
  Forall2 (fun t b => block_ok b /\ rows_of u false (preorder_d 1 t) b) f blocks ->
  Forall2 (block_spelled u) blocks (map (preorder_d 1) f).
Proof.
  intros f blocks Hok H. induction H as [|t b f blocks [_ Hb] _ IH]; [constructor|].
  unfold forest_items in Hok. cbn [flat_map] in Hok. apply Forall_app in Hok as [Hok1 Hok2].
  cbn [map]. constructor; [apply tree_block_spelled; assumption|apply IH; exact Hok2].
Qed.

(* C2: the document is a uniform heading-free spelling of the forest f.  Under every
   schedule no worker fails, and the roots handed to the next stage are, block by block,
   the tries of f's trees *)
Theorem massive_forest u f rows :
  Forall (item_ok false) (forest_items f) ->
  rows_of u false (forest_items f) rows ->
  forall sched, interleave (split_rows rows) sched ->
  let res := results_by_block (List.length (split_rows rows)) (run_sched p0 sched) in
  roots_of res = map trie_of f /\ Forall (fun r => exists o, r = BRoot o) res.
Proof.
  intros Hok Hrows sched Hil.
  destruct (forest_blocks u f [] rows Hrows) as [pre [blocks [E [Hpre HF]]]].
  assert (Hnp : Forall nostart pre) by (eapply blank_rows_nostart; eauto).
  assert (Hbo : Forall block_ok blocks).
  { clear - HF. induction HF as [|t b f blocks [Hb _] _ IH]; constructor; assumption. }
  pose proof (tree_blocks_spelled u f blocks Hok HF) as Hsp.
  destruct (tree_blocks_roots u f blocks HF) as [R1 R2].
  assert (Hpre_sp : block_spelled u pre []).
  { split; [exact Hpre|]. split; [exact I|constructor]. }
  assert (Cases : (split_rows rows = blocks /\ Forall2 (block_spelled u) blocks (map (preorder_d 1) f)) \/
                  (split_rows rows = pre :: blocks /\
                   Forall2 (block_spelled u) (pre :: blocks) ([] :: map (preorder_d 1) f))).
  { rewrite E, (split_rows_blocks pre blocks Hnp Hbo).
    destruct pre as [|p pre']; [destruct blocks as [|b0 blocks']|].
    - right. split; [reflexivity|]. constructor; assumption.
    - left. split; [reflexivity|exact Hsp].
    - right. split; [reflexivity|]. constructor; assumption. }
  cbv zeta. destruct Cases as [[Es HS]|[Es HS]]; rewrite Es in *.
  - rewrite (results_by_block_expect u _ _ HS sched Hil). split; [exact R1|].
    eapply Forall_impl; [|exact R2]. intros r [t Ht]. eauto.
  - rewrite (results_by_block_expect u _ _ HS sched Hil).
    cbn [combine map fst snd]. rewrite (worker_blank u pre Hpre). split.
    + unfold roots_of in *. cbn [flat_map app]. exact R1.
    + constructor; [eauto|]. eapply Forall_impl; [|exact R2]. intros r [t Ht]. eauto.
Qed.

(* the blocks complete in any order: the multiset of roots is that of the forest's tries,
   which is what simple mode produces (in order) for the same document *)
Corollary massive_forest_multiset u f rows :
  Forall (item_ok false) (forest_items f) ->
  rows_of u false (forest_items f) rows ->
  forall sched order, interleave (split_rows rows) sched ->
  Permutation order (seq 0 (List.length (split_rows rows))) ->
  Permutation (roots_of (map (fun j => block_result j (run_sched p0 sched)) order)) (map trie_of f).
Proof.
  intros Hok Hrows sched order Hil Hp.
  destruct (massive_forest u f rows Hok Hrows sched Hil) as [R _]. rewrite <- R.
  unfold roots_of, results_by_block. apply Permutation_flat_map. apply Permutation_map. exact Hp.
Qed.

Print Assumptions split_concat.
Print Assumptions split_shape.
Print Assumptions split_rows_blocks.
Print Assumptions interleave_iff.
Print Assumptions interleave_seq_sched.
Print Assumptions schedule_independent.
Print Assumptions schedule_independent_alone.
Print Assumptions block_items_independent.
Print Assumptions results_schedule_independent.
Print Assumptions roots_schedule_independent.
Print Assumptions massive_forest.
Print Assumptions massive_forest_multiset.
