(* Proofs/ParseClassify.v — C02: the declarative line classifier (Spec/Classify.v) and
   the imperative three-symbol parser loop (Md/Parser.v) agree, row by row and on
   whole documents (against the generator loop of Tree/Gen.v). *)
From Coq Require Import List Ascii Arith Bool Lia.
From GT Require Import Base.GoStr Md.Parser Tree.Tree Tree.Gen Spec.Spec Spec.Classify
  Proofs.TreeInd Proofs.BuildTrie Proofs.GenItems Proofs.NoPanic.
Import ListNotations.

(* ------------------------------------------------------------------ *)
(* the state correspondence                                            *)
(* ------------------------------------------------------------------ *)

Definition st_rel (cx : dctx) (st : pstate) : Prop :=
  sharp st = d_heading cx /\ spaces st = d_unit cx /\ sep st = d_char cx.

Lemma st_rel_0 : st_rel dctx0 p0.
Proof. repeat split. Qed.

(* ------------------------------------------------------------------ *)
(* strings: count, cut, span_indent                                    *)
(* ------------------------------------------------------------------ *)

Lemma count_le s l : count s l <= List.length l.
Proof.
  unfold count. induction l as [|x l IH]; [apply le_n|].
  cbn [filter]. destruct (Ascii.eqb s x); cbn [List.length]; lia.
Qed.

Lemma count_cons s x l :
  count s (x :: l) = if Ascii.eqb s x then S (count s l) else count s l.
Proof. unfold count. cbn [filter]. destruct (Ascii.eqb s x); reflexivity. Qed.

Lemma count_all s l : all_eq s l = true -> count s l = List.length l.
Proof.
  induction l as [|x l IH]; intros H; [reflexivity|].
  unfold all_eq in H. cbn [forallb] in H. apply andb_true_iff in H as [Hx Hl].
  rewrite count_cons, Hx. cbn [List.length]. f_equal. apply IH. exact Hl.
Qed.

Lemma count_not_all s l : all_eq s l = false -> count s l <> List.length l.
Proof.
  induction l as [|x l IH]; intros H; [discriminate|].
  unfold all_eq in H. cbn [forallb] in H. rewrite count_cons. cbn [List.length].
  destruct (Ascii.eqb s x).
  - cbn [andb] in H. specialize (IH H). lia.
  - pose proof (count_le s l). lia.
Qed.

(* a string that contains two different characters is not a run of one character *)
Lemma all_eq_two s l c d : In c l -> In d l -> c <> d -> all_eq s l = false.
Proof.
  intros Hc Hd Hne. destruct (all_eq s l) eqn:A; [|reflexivity]. exfalso.
  unfold all_eq in A. rewrite forallb_forall in A.
  apply Hne. pose proof (A c Hc) as H1. pose proof (A d Hd) as H2.
  apply Ascii.eqb_eq in H1. apply Ascii.eqb_eq in H2. congruence.
Qed.

Lemma cut_app_skip s a l :
  (forall c, In c a -> c <> s) ->
  cut s (a ++ l) = match cut s l with Some (x, y) => Some (a ++ x, y) | None => None end.
Proof.
  induction a as [|c a IH]; intros H.
  - cbn [app]. destruct (cut s l) as [[x y]|]; reflexivity.
  - cbn [app cut].
    assert (E : Ascii.eqb c s = false) by (apply Ascii.eqb_neq; apply H; left; reflexivity).
    rewrite E, IH by (intros; apply H; right; assumption).
    destruct (cut s l) as [[x y]|]; reflexivity.
Qed.

Lemma cut_none s l : (forall c, In c l -> c <> s) -> cut s l = None.
Proof.
  intros H. rewrite <- (app_nil_r l). rewrite cut_app_skip by exact H. reflexivity.
Qed.

Lemma indent_neq s l : forallb is_indent l = true -> is_indent s = false ->
  forall c, In c l -> c <> s.
Proof.
  intros Hl Hs c Hc E. subst c. rewrite forallb_forall in Hl. rewrite (Hl s Hc) in Hs. discriminate.
Qed.

(* the symbol that is the row's bullet cuts exactly at the indentation *)
Lemma cut_at indent bl after :
  forallb is_indent indent = true -> is_indent bl = false ->
  cut bl (indent ++ bl :: after) = Some (indent, after).
Proof.
  intros Hi Hb. rewrite cut_app_skip by (apply indent_neq; assumption).
  cbn [cut]. rewrite Ascii.eqb_refl, app_nil_r. reflexivity.
Qed.

(* any other non-indent symbol does not occur, or occurs after the bullet *)
Lemma cut_other s indent bl after :
  forallb is_indent indent = true -> is_indent s = false -> s <> bl ->
  cut s (indent ++ bl :: after) = None \/
  exists x y, cut s (indent ++ bl :: after) = Some (indent ++ bl :: x, y).
Proof.
  intros Hi Hs Hne. rewrite cut_app_skip by (apply indent_neq; assumption).
  cbn [cut]. assert (E : Ascii.eqb bl s = false) by (apply Ascii.eqb_neq; congruence). rewrite E.
  destruct (cut s after) as [[x y]|]; [right; eauto|left; reflexivity].
Qed.

Lemma span_indent_spec l :
  l = fst (span_indent l) ++ snd (span_indent l) /\
  forallb is_indent (fst (span_indent l)) = true /\
  match snd (span_indent l) with [] => True | c :: _ => is_indent c = false end.
Proof.
  induction l as [|c r IH].
  - cbn. auto.
  - cbn [span_indent]. destruct (is_indent c) eqn:E.
    + destruct (span_indent r) as [a b0]. cbn [fst snd] in *. destruct IH as [H1 [H2 H3]].
      repeat split.
      * cbn [app]. f_equal. exact H1.
      * cbn [forallb]. rewrite E, H2. reflexivity.
      * exact H3.
    + cbn [fst snd app forallb]. auto.
Qed.

(* ------------------------------------------------------------------ *)
(* one attempt of the symbol loop                                      *)
(* ------------------------------------------------------------------ *)

Definition blockc_of (o : option ascii) (ic : ascii) : ascii :=
  match o with Some x => x | None => ic end.

(* what failing attempts on an indented row may do to the state: nothing, or fix
   `sep` to the block character *)
Definition same_eff (ic : ascii) (st st' : pstate) : Prop :=
  sharp st' = sharp st /\ spaces st' = spaces st /\
  (sep st' = sep st \/ sep st' = Some (blockc_of (sep st) ic)).

Lemma same_eff_refl ic st : same_eff ic st st.
Proof. repeat split. left. reflexivity. Qed.

Lemma same_eff_blockc ic st st' : same_eff ic st st' ->
  blockc_of (sep st') ic = blockc_of (sep st) ic.
Proof. intros [_ [_ [H|H]]]; rewrite H; reflexivity. Qed.

Lemma same_eff_trans ic a b c : same_eff ic a b -> same_eff ic b c -> same_eff ic a c.
Proof.
  intros Hab Hbc. pose proof (same_eff_blockc _ _ _ Hab) as Hk.
  destruct Hab as [A1 [A2 A3]], Hbc as [B1 [B2 B3]].
  repeat split; try congruence.
  destruct B3 as [B3|B3].
  - rewrite B3. exact A3.
  - right. rewrite B3, Hk. reflexivity.
Qed.

(* column 0: an attempt with another symbol leaves the state alone *)
Lemma try_fail0 st bl after s :
  s <> bl -> is_indent bl = false -> try_symbol st (bl :: after) s = (st, None).
Proof.
  intros Hne Hb. unfold try_symbol. cbn [cut].
  assert (E : Ascii.eqb bl s = false) by (apply Ascii.eqb_neq; congruence). rewrite E.
  destruct (cut s after) as [[x y]|]; [|reflexivity].
  change (Ascii.eqb bl c_sp || Ascii.eqb bl c_tab) with (is_indent bl). rewrite Hb. reflexivity.
Qed.

(* indented row: an attempt with another symbol fails *)
Lemma try_fail_ind st ic ind bl after s :
  forallb is_indent (ic :: ind) = true -> is_indent bl = false ->
  is_indent s = false -> s <> bl ->
  exists st', try_symbol st ((ic :: ind) ++ bl :: after) s = (st', None) /\ same_eff ic st st'.
Proof.
  intros Hi Hb Hs Hne. unfold try_symbol.
  destruct (cut_other s (ic :: ind) bl after Hi Hs Hne) as [C|[x [y C]]]; rewrite C.
  - exists st. split; [reflexivity|apply same_eff_refl].
  - cbn [app]. cbv beta iota.
    assert (Hic : is_indent ic = true) by (cbn [forallb] in Hi; apply andb_true_iff in Hi; tauto).
    change (Ascii.eqb ic c_sp || Ascii.eqb ic c_tab) with (is_indent ic). rewrite Hic.
    cbv zeta. fold (blockc_of (sep st) ic).
    set (bc := blockc_of (sep st) ic).
    assert (A : all_eq bc (ic :: ind ++ bl :: x) = false).
    { apply (all_eq_two bc _ ic bl).
      - left. reflexivity.
      - right. apply in_or_app. right. left. reflexivity.
      - intros E. subst. congruence. }
    apply count_not_all in A. apply Nat.eqb_neq in A. rewrite A.
    eexists. split; [reflexivity|].
    repeat split. right. reflexivity.
Qed.

(* indented row: the attempt with the row's own bullet *)
Lemma try_at st ic ind bl after :
  forallb is_indent (ic :: ind) = true -> is_indent bl = false ->
  try_symbol st ((ic :: ind) ++ bl :: after) bl =
    if all_eq (blockc_of (sep st) ic) (ic :: ind) then
      (if validate (if spaces st =? 0 then List.length (ic :: ind) else spaces st) (List.length (ic :: ind))
       then ({| sharp := sharp st;
                spaces := if spaces st =? 0 then List.length (ic :: ind) else spaces st;
                sep := Some (blockc_of (sep st) ic) |}, Some (List.length (ic :: ind), after))
       else ({| sharp := sharp st;
                spaces := if spaces st =? 0 then List.length (ic :: ind) else spaces st;
                sep := Some (blockc_of (sep st) ic) |}, None))
    else ({| sharp := sharp st; spaces := spaces st; sep := Some (blockc_of (sep st) ic) |}, None).
Proof.
  intros Hi Hb. unfold try_symbol. rewrite (cut_at _ _ _ Hi Hb). cbv beta iota.
  assert (Hic : is_indent ic = true) by (cbn [forallb] in Hi; apply andb_true_iff in Hi; tauto).
  change (Ascii.eqb ic c_sp || Ascii.eqb ic c_tab) with (is_indent ic). rewrite Hic.
  cbv zeta. fold (blockc_of (sep st) ic).
  set (bc := blockc_of (sep st) ic).
  destruct (all_eq bc (ic :: ind)) eqn:A.
  - rewrite (count_all _ _ A), Nat.eqb_refl. cbn [spaces sharp sep].
    change (0 <? List.length (ic :: ind)) with true. cbn [andb].
    destruct (spaces st =? 0); cbn [spaces sharp sep];
      destruct (validate _ _); reflexivity.
  - apply count_not_all in A. apply Nat.eqb_neq in A. rewrite A. reflexivity.
Qed.

(* ------------------------------------------------------------------ *)
(* the symbol loop                                                     *)
(* ------------------------------------------------------------------ *)

Lemma separate_app st row pre rest st1 :
  separate st row pre = (st1, None) -> separate st row (pre ++ rest) = separate st1 row rest.
Proof.
  revert st. induction pre as [|s pre IH]; intros st H.
  - cbn in H. inversion H; subst. reflexivity.
  - cbn [app separate] in *. destruct (try_symbol st row s) as [st2 [r|]]; [discriminate|].
    apply IH. exact H.
Qed.

Lemma separate_none st row syms :
  (forall s, In s syms -> cut s row = None) -> separate st row syms = (st, None).
Proof.
  induction syms as [|s syms IH]; intros H; [reflexivity|].
  cbn [separate]. unfold try_symbol. rewrite (H s) by (left; reflexivity).
  apply IH. intros; apply H; right; assumption.
Qed.

Lemma separate_fail0 bl after syms : is_indent bl = false ->
  (forall s, In s syms -> s <> bl) ->
  forall st, separate st (bl :: after) syms = (st, None).
Proof.
  intros Hb. induction syms as [|s syms IH]; intros H st; [reflexivity|].
  cbn [separate]. rewrite try_fail0; [|apply H; left; reflexivity|exact Hb].
  apply IH. intros; apply H; right; assumption.
Qed.

Lemma separate_fail_ind ic ind bl after syms :
  forallb is_indent (ic :: ind) = true -> is_indent bl = false ->
  (forall s, In s syms -> is_indent s = false /\ s <> bl) ->
  forall st, exists st', separate st ((ic :: ind) ++ bl :: after) syms = (st', None) /\ same_eff ic st st'.
Proof.
  intros Hi Hb. induction syms as [|s syms IH]; intros H st.
  - exists st. split; [reflexivity|apply same_eff_refl].
  - destruct (H s (or_introl eq_refl)) as [Hs Hne].
    destruct (try_fail_ind st ic ind bl after s Hi Hb Hs Hne) as [st1 [T1 E1]].
    destruct (IH (fun s' Hin => H s' (or_intror Hin)) st1) as [st2 [T2 E2]].
    exists st2. split; [|eapply same_eff_trans; eauto].
    cbn [separate]. rewrite T1. exact T2.
Qed.

Lemma bullet_not_indent bl : is_bullet bl = true -> is_indent bl = false.
Proof.
  unfold is_bullet. intros H.
  apply orb_true_iff in H as [H|H]; [apply orb_true_iff in H as [H|H]|];
    apply Ascii.eqb_eq in H; subst; reflexivity.
Qed.

Lemma symbols_not_indent s : In s list_symbols -> is_indent s = false.
Proof. intros [<-|[<-|[<-|[]]]]; reflexivity. Qed.

Lemma nonbullet_neq bl s : is_bullet bl = false -> In s list_symbols -> s <> bl.
Proof.
  unfold is_bullet. intros H Hin E. subst s.
  apply orb_false_iff in H as [H H3]. apply orb_false_iff in H as [H1 H2].
  apply Ascii.eqb_neq in H1, H2, H3.
  destruct Hin as [X|[X|[X|[]]]]; congruence.
Qed.

(* the symbols tried before and after the row's bullet *)
Lemma bullet_split bl : is_bullet bl = true ->
  exists pre post, list_symbols = pre ++ bl :: post /\
    forall s, In s (pre ++ post) -> is_indent s = false /\ s <> bl.
Proof.
  unfold is_bullet. intros H.
  apply orb_true_iff in H as [H|H]; [apply orb_true_iff in H as [H|H]|];
    apply Ascii.eqb_eq in H; subst bl.
  - exists [], [c_as; c_pl]. split; [reflexivity|].
    intros s [<-|[<-|[]]]; (split; [reflexivity|discriminate]).
  - exists [c_hy], [c_pl]. split; [reflexivity|].
    intros s [<-|[<-|[]]]; (split; [reflexivity|discriminate]).
  - exists [c_hy; c_as], []. split; [reflexivity|].
    intros s [<-|[<-|[]]]; (split; [reflexivity|discriminate]).
Qed.

(* L1: rows without a bullet after the indentation: all three attempts fail *)
Lemma separate_blank_indent st indent :
  forallb is_indent indent = true ->
  separate st indent list_symbols = (st, None).
Proof.
  intros Hi. apply separate_none. intros s Hs. apply cut_none.
  apply indent_neq; [exact Hi|apply symbols_not_indent; exact Hs].
Qed.

Lemma separate_nobullet st indent bl after :
  forallb is_indent indent = true -> is_indent bl = false -> is_bullet bl = false ->
  exists st', separate st (indent ++ bl :: after) list_symbols = (st', None).
Proof.
  intros Hi Hb Hnb. destruct indent as [|ic ind].
  - exists st. apply separate_fail0; [exact Hb|]. intros s Hs. apply nonbullet_neq; assumption.
  - destruct (separate_fail_ind ic ind bl after list_symbols Hi Hb) with (st := st) as [st' [H _]].
    + intros s Hs. split; [apply symbols_not_indent; exact Hs|apply nonbullet_neq; assumption].
    + exists st'. exact H.
Qed.

(* L2: a bullet in column 0 *)
Lemma separate_col0 st bl after : is_bullet bl = true ->
  separate st (bl :: after) list_symbols =
    ({| sharp := sharp st; spaces := spaces st; sep := None |}, Some (0, after)).
Proof.
  intros Hbl. pose proof (bullet_not_indent _ Hbl) as Hb.
  destruct (bullet_split bl Hbl) as [pre [post [E H]]]. rewrite E.
  rewrite (separate_app _ _ pre _ st).
  - cbn [separate]. unfold try_symbol. cbn [cut]. rewrite Ascii.eqb_refl. reflexivity.
  - apply separate_fail0; [exact Hb|]. intros s Hs. apply H. apply in_or_app. left. exact Hs.
Qed.

(* L3: a bullet after a non-empty indentation *)
Lemma separate_ind_ok st ic ind bl after :
  forallb is_indent (ic :: ind) = true -> is_bullet bl = true ->
  all_eq (blockc_of (sep st) ic) (ic :: ind) = true ->
  validate (if spaces st =? 0 then List.length (ic :: ind) else spaces st) (List.length (ic :: ind)) = true ->
  separate st ((ic :: ind) ++ bl :: after) list_symbols =
    ({| sharp := sharp st;
        spaces := if spaces st =? 0 then List.length (ic :: ind) else spaces st;
        sep := Some (blockc_of (sep st) ic) |}, Some (List.length (ic :: ind), after)).
Proof.
  intros Hi Hbl Ha Hv. pose proof (bullet_not_indent _ Hbl) as Hb.
  destruct (bullet_split bl Hbl) as [pre [post [E H]]]. rewrite E.
  destruct (separate_fail_ind ic ind bl after pre Hi Hb) with (st := st) as [st1 [S1 E1]].
  { intros s Hs. apply H. apply in_or_app. left. exact Hs. }
  rewrite (separate_app _ _ pre _ st1 S1).
  cbn [separate]. rewrite (try_at st1 ic ind bl after Hi Hb).
  rewrite (same_eff_blockc _ _ _ E1). destruct E1 as [E1 [E2 _]]. rewrite E1, E2, Ha, Hv.
  reflexivity.
Qed.

Lemma separate_ind_bad st ic ind bl after :
  forallb is_indent (ic :: ind) = true -> is_bullet bl = true ->
  all_eq (blockc_of (sep st) ic) (ic :: ind) = false \/
  validate (if spaces st =? 0 then List.length (ic :: ind) else spaces st) (List.length (ic :: ind)) = false ->
  exists st', separate st ((ic :: ind) ++ bl :: after) list_symbols = (st', None).
Proof.
  intros Hi Hbl Hbad. pose proof (bullet_not_indent _ Hbl) as Hb.
  destruct (bullet_split bl Hbl) as [pre [post [E H]]]. rewrite E.
  destruct (separate_fail_ind ic ind bl after pre Hi Hb) with (st := st) as [st1 [S1 E1]].
  { intros s Hs. apply H. apply in_or_app. left. exact Hs. }
  rewrite (separate_app _ _ pre _ st1 S1).
  cbn [separate]. rewrite (try_at st1 ic ind bl after Hi Hb).
  rewrite (same_eff_blockc _ _ _ E1). destruct E1 as [E1 [E2 _]]. rewrite E1, E2.
  assert (Hpost : forall st2, exists st', separate st2 ((ic :: ind) ++ bl :: after) post = (st', None)).
  { intros st2. destruct (separate_fail_ind ic ind bl after post Hi Hb) with (st := st2) as [st' [S' _]].
    - intros s Hs. apply H. apply in_or_app. right. exact Hs.
    - exists st'. exact S'. }
  destruct (all_eq (blockc_of (sep st) ic) (ic :: ind)) eqn:A.
  - destruct Hbad as [X|X]; [discriminate|]. rewrite X. apply Hpost.
  - apply Hpost.
Qed.

(* ------------------------------------------------------------------ *)
(* the syntactic part of the classifier                                *)
(* ------------------------------------------------------------------ *)

Inductive sres := SBlank | SItem (d : nat) (n : str) | SBad (r : reason).

(* classify without the structural check: depth and name of an item line, and the
   context it leaves (d_prev untouched) *)
Definition classify_syn (cx : dctx) (row : str) : sres * dctx :=
  if all_space row then (SBlank, cx)
  else
    match row with
    | [] => (SBlank, cx)
    | c0 :: rest0 =>
        if Ascii.eqb c0 c_sharp then
          let cx' := {| d_unit := d_unit cx; d_char := d_char cx; d_heading := true; d_prev := d_prev cx |} in
          match trim c_sp (trim_left c_sharp rest0) with
          | [] => (SBad REmptyText, cx')
          | text => (SItem 1 text, cx')
          end
        else
          let '(indent, rest) := span_indent row in
          match rest with
          | [] => (SBad RNoBullet, cx)
          | bl :: after =>
              if negb (is_bullet bl) then (SBad RNoBullet, cx)
              else
                let hd := if d_heading cx then 1 else 0 in
                match indent with
                | [] =>
                    match trim_prefix1 c_sp after with
                    | [] => (SBad REmptyText, cx)
                    | text => (SItem (1 + hd) text,
                               {| d_unit := d_unit cx; d_char := None; d_heading := d_heading cx; d_prev := d_prev cx |})
                    end
                | ic :: _ =>
                    let blockc := match d_char cx with Some x => x | None => ic end in
                    if negb (all_eq blockc indent) then (SBad RMixed, cx)
                    else
                      let n := List.length indent in
                      let unit := if d_unit cx =? 0 then n else d_unit cx in
                      if (1 <? unit) && negb (n mod unit =? 0) then (SBad RNotMultiple, cx)
                      else
                        match trim_prefix1 c_sp after with
                        | [] => (SBad REmptyText, cx)
                        | text => (SItem (n / unit + 1 + hd) text,
                                   {| d_unit := unit; d_char := Some blockc; d_heading := d_heading cx; d_prev := d_prev cx |})
                        end
                end
          end
    end.

Definition with_prev (cx : dctx) (d : nat) : dctx :=
  {| d_unit := d_unit cx; d_char := d_char cx; d_heading := d_heading cx; d_prev := d |}.

(* classify = the structural check after classify_syn *)
Lemma classify_factor cx row :
  classify cx row =
    match classify_syn cx row with
    | (SBlank, _) => (LBlank, cx)
    | (SBad r, cx') => (LBad r, cx')
    | (SItem d n, cx') =>
        match structural cx d n with
        | LItem d' n' => (LItem d' n', with_prev cx' d')
        | bad => (bad, cx)
        end
    end.
Proof.
  unfold classify, classify_syn.
  destruct (all_space row); [reflexivity|].
  destruct row as [|c0 rest0]; [reflexivity|].
  destruct (Ascii.eqb c0 c_sharp).
  - destruct (trim c_sp (trim_left c_sharp rest0)); reflexivity.
  - destruct (span_indent (c0 :: rest0)) as [indent rest].
    destruct rest as [|bl after]; [reflexivity|].
    destruct (negb (is_bullet bl)); [reflexivity|].
    destruct indent as [|ic ind].
    + destruct (trim_prefix1 c_sp after) as [|t0 text]; [reflexivity|].
      destruct (structural cx _ _); reflexivity.
    + cbv zeta.
      destruct (negb (all_eq _ _)); [reflexivity|].
      destruct (_ && _); [reflexivity|].
      destruct (trim_prefix1 c_sp after) as [|t0 text]; [reflexivity|].
      destruct (structural cx _ _); reflexivity.
Qed.

Lemma validate_alt u n : validate u n = negb ((1 <? u) && negb (n mod u =? 0)).
Proof.
  unfold validate. rewrite Nat.ltb_antisym.
  destruct (u <=? 1), (n mod u =? 0); reflexivity.
Qed.

(* (A), syntactic half: parse computes what classify_syn says *)
Lemma parse_syn cx st row : st_rel cx st ->
  match classify_syn cx row with
  | (SBlank, cx') => cx' = cx /\ parse st row = (st, PBlank)
  | (SItem d n, cx') =>
      exists st', parse st row = (st', PItem d n) /\ st_rel cx' st' /\ 1 <= d /\ d_prev cx' = d_prev cx
  | (SBad REmptyText, _) => exists st', parse st row = (st', PEmpty)
  | (SBad RNoBullet, _) | (SBad RMixed, _) | (SBad RNotMultiple, _) =>
      exists st', parse st row = (st', PFormat)
  | (SBad RJump, _) | (SBad RNoRoot, _) => False
  end.
Proof.
  intros [R1 [R2 R3]]. unfold classify_syn, parse.
  destruct (all_space row); [split; reflexivity|].
  destruct row as [|c0 rest0]; [split; reflexivity|].
  destruct (Ascii.eqb c0 c_sharp).
  - destruct (trim c_sp (trim_left c_sharp rest0)) as [|t0 text].
    + eexists; reflexivity.
    + eexists. split; [reflexivity|]. repeat split; cbn; auto.
  - pose proof (span_indent_spec (c0 :: rest0)) as [Hrow [Hi Hr]].
    destruct (span_indent (c0 :: rest0)) as [indent rest]. cbn [fst snd] in *.
    rewrite Hrow. clear Hrow.
    destruct rest as [|bl after].
    { rewrite app_nil_r, separate_blank_indent by exact Hi. eexists; reflexivity. }
    destruct (is_bullet bl) eqn:Hbl; cbn [negb].
    2:{ destruct (separate_nobullet st indent bl after Hi Hr Hbl) as [st' S]. rewrite S.
        eexists; reflexivity. }
    destruct indent as [|ic ind].
    + cbn [app]. rewrite (separate_col0 st bl after Hbl).
      destruct (trim_prefix1 c_sp after) as [|t0 text]; [eexists; reflexivity|].
      eexists. split; [|split; [|split]].
      * unfold hierarchy. cbn [sep sharp]. rewrite R1. reflexivity.
      * repeat split; cbn; auto.
      * lia.
      * reflexivity.
    + cbv zeta. rewrite <- R1, <- R2, <- R3.
      fold (blockc_of (sep st) ic).
      destruct (all_eq (blockc_of (sep st) ic) (ic :: ind)) eqn:A; cbn [negb].
      2:{ destruct (separate_ind_bad st ic ind bl after Hi Hbl (or_introl A)) as [st' S]. rewrite S.
          eexists; reflexivity. }
      rewrite <- (negb_involutive (_ && _)), <- validate_alt.
      destruct (validate _ _) eqn:V; cbn [negb].
      2:{ destruct (separate_ind_bad st ic ind bl after Hi Hbl (or_intror V)) as [st' S]. rewrite S.
          eexists; reflexivity. }
      rewrite (separate_ind_ok st ic ind bl after Hi Hbl A V).
      destruct (trim_prefix1 c_sp after) as [|t0 text]; [eexists; reflexivity|].
      eexists. split; [|split; [|split]].
      * unfold hierarchy. cbn [sep sharp spaces].
        assert (Z : (if spaces st =? 0 then List.length (ic :: ind) else spaces st) =? 0 = false).
        { apply Nat.eqb_neq. destruct (spaces st =? 0) eqn:Z; [cbn [List.length]; lia|apply Nat.eqb_neq; exact Z]. }
        rewrite Z. reflexivity.
      * repeat split.
      * lia.
      * reflexivity.
Qed.

(* ------------------------------------------------------------------ *)
(* the structural part                                                 *)
(* ------------------------------------------------------------------ *)

Lemma structural_cases cx d n : 1 <= d ->
  match structural cx d n with
  | LItem d' n' => d' = d /\ n' = n /\ (d = 1 \/ (d_prev cx <> 0 /\ d <= d_prev cx + 1))
  | LBad RNoRoot => 2 <= d /\ d_prev cx = 0
  | LBad RJump => 2 <= d /\ d_prev cx <> 0 /\ d_prev cx + 1 < d
  | _ => False
  end.
Proof.
  intros Hd. unfold structural.
  destruct (d =? 1) eqn:E1.
  { apply Nat.eqb_eq in E1. auto. }
  apply Nat.eqb_neq in E1.
  destruct (d_prev cx =? 0) eqn:E2.
  { apply Nat.eqb_eq in E2. split; [lia|exact E2]. }
  apply Nat.eqb_neq in E2.
  destruct (d_prev cx + 1 <? d) eqn:E3.
  { apply Nat.ltb_lt in E3. repeat split; [lia|exact E2|exact E3]. }
  apply Nat.ltb_ge in E3. repeat split. right. split; [exact E2|exact E3].
Qed.

(* (A): one row, classifier against parser *)
Theorem parse_classify cx st row : st_rel cx st ->
  match classify cx row with
  | (LBlank, cx') => cx' = cx /\ parse st row = (st, PBlank)
  | (LItem d n, cx') =>
      exists st', parse st row = (st', PItem d n) /\ st_rel cx' st' /\ 1 <= d /\ d_prev cx' = d /\
                  (d = 1 \/ (d_prev cx <> 0 /\ d <= d_prev cx + 1))
  | (LBad REmptyText, _) => exists st', parse st row = (st', PEmpty)
  | (LBad RNoBullet, _) | (LBad RMixed, _) | (LBad RNotMultiple, _) =>
      exists st', parse st row = (st', PFormat)
  | (LBad RNoRoot, cx') =>
      cx' = cx /\
      exists st' d n cx2, classify_syn cx row = (SItem d n, cx2) /\
        parse st row = (st', PItem d n) /\ st_rel cx2 st' /\ 2 <= d /\ d_prev cx = 0
  | (LBad RJump, cx') =>
      cx' = cx /\
      exists st' d n cx2, classify_syn cx row = (SItem d n, cx2) /\
        parse st row = (st', PItem d n) /\ st_rel cx2 st' /\ 2 <= d /\ d_prev cx <> 0 /\ d_prev cx + 1 < d
  end.
Proof.
  intros R. pose proof (parse_syn cx st row R) as H. rewrite classify_factor.
  destruct (classify_syn cx row) as [[|d n|r] cx1].
  - destruct H as [_ H]. split; [reflexivity|exact H].
  - destruct H as [st' [P [R' [Hd Hp]]]].
    pose proof (structural_cases cx d n Hd) as S.
    destruct (structural cx d n) as [|d' n'|r]; [contradiction| |].
    + destruct S as [-> [-> S]]. exists st'. repeat split; try assumption; apply R'.
    + destruct r; try contradiction.
      * split; [reflexivity|]. exists st', d, n, cx1. tauto.
      * split; [reflexivity|]. exists st', d, n, cx1. tauto.
  - destruct r; try exact H; contradiction.
Qed.

(* converses: the parser's outcome determines the classifier's *)
Corollary parse_blank_iff cx st row : st_rel cx st ->
  (fst (classify cx row) = LBlank <-> exists st', parse st row = (st', PBlank)).
Proof.
  intros R. pose proof (parse_classify cx st row R) as H.
  destruct (classify cx row) as [[|d n|r] cx']; cbn [fst].
  - split; [intros _; exists st; apply H|reflexivity].
  - destruct H as [st1 [P _]]. split; [discriminate|]. intros [st' Q]. rewrite P in Q. discriminate.
  - split; [discriminate|]. intros [st' Q]. exfalso.
    destruct r; try (destruct H as [st1 P]; rewrite P in Q; discriminate);
      destruct H as [_ [st1 [d [n [cx2 [_ [P _]]]]]]]; rewrite P in Q; discriminate.
Qed.

Corollary parse_format_iff cx st row : st_rel cx st ->
  ((exists cx', classify cx row = (LBad RNoBullet, cx') \/ classify cx row = (LBad RMixed, cx') \/
                classify cx row = (LBad RNotMultiple, cx'))
   <-> exists st', parse st row = (st', PFormat)).
Proof.
  intros R. pose proof (parse_classify cx st row R) as H.
  destruct (classify cx row) as [[|d n|r] cx'].
  - destruct H as [_ P]. split.
    + intros [c [X|[X|X]]]; discriminate.
    + intros [st' Q]. rewrite P in Q. discriminate.
  - destruct H as [st1 [P _]]. split.
    + intros [c [X|[X|X]]]; discriminate.
    + intros [st' Q]. rewrite P in Q. discriminate.
  - destruct r.
    + split; [intros _; exact H|intros _; exists cx'; auto].
    + destruct H as [st1 P]. split; [intros [c [X|[X|X]]]; discriminate|].
      intros [st' Q]. rewrite P in Q. discriminate.
    + split; [intros _; exact H|intros _; exists cx'; auto].
    + split; [intros _; exact H|intros _; exists cx'; auto].
    + destruct H as [_ [st1 [d [n [cx2 [_ [P _]]]]]]]. split; [intros [c [X|[X|X]]]; discriminate|].
      intros [st' Q]. rewrite P in Q. discriminate.
    + destruct H as [_ [st1 [d [n [cx2 [_ [P _]]]]]]]. split; [intros [c [X|[X|X]]]; discriminate|].
      intros [st' Q]. rewrite P in Q. discriminate.
Qed.

Corollary parse_empty_iff cx st row : st_rel cx st ->
  ((exists cx', classify cx row = (LBad REmptyText, cx')) <-> exists st', parse st row = (st', PEmpty)).
Proof.
  intros R. pose proof (parse_classify cx st row R) as H.
  destruct (classify cx row) as [[|d n|r] cx'].
  - destruct H as [_ P]. split; [intros [c X]; discriminate|].
    intros [st' Q]. rewrite P in Q. discriminate.
  - destruct H as [st1 [P _]]. split; [intros [c X]; discriminate|].
    intros [st' Q]. rewrite P in Q. discriminate.
  - destruct r;
      try (destruct H as [st1 P]; split; [intros [c X]; discriminate|];
           intros [st' Q]; rewrite P in Q; discriminate);
      try (destruct H as [_ [st1 [d [n [cx2 [_ [P _]]]]]]]; split; [intros [c X]; discriminate|];
           intros [st' Q]; rewrite P in Q; discriminate).
    split; [intros _; exact H|intros _; exists cx'; reflexivity].
Qed.

(* ------------------------------------------------------------------ *)
(* the generator's stack against d_prev                                *)
(* ------------------------------------------------------------------ *)

(* d_prev = 0 iff there is no pending root; otherwise d_prev is the stack size *)
Definition stack_rel (p : nat) (cur : option (tree * list nat)) : Prop :=
  match cur with
  | None => p = 0
  | Some (t, c) => p = List.length c + 1 /\ exists x, get_at c t = Some x
  end.

Lemma attach_len pp nm t t' c' : attach pp nm t = Some (t', c') -> List.length c' = List.length pp + 1.
Proof.
  unfold attach. destruct (get_at pp t) as [par|]; [|discriminate].
  destruct (find_idx nm (tkids par)); intros H; inversion H; subst; rewrite app_length; reflexivity.
Qed.

Lemma istep_ok p d n done cur :
  stack_rel p cur -> 1 <= d -> (d = 1 \/ (p <> 0 /\ d <= p + 1)) ->
  exists s2, istep (done, cur) (d, n) = Some s2 /\ stack_rel d (snd s2).
Proof.
  intros S Hd Hc. unfold istep. cbn [fst snd].
  destruct (d =? 1) eqn:E.
  { apply Nat.eqb_eq in E. subst d. eexists. split; [reflexivity|].
    cbn [snd stack_rel List.length]. split; [reflexivity|]. exists (T n []). reflexivity. }
  apply Nat.eqb_neq in E. destruct Hc as [Hc|[Hp Hle]]; [contradiction|].
  destruct cur as [[t c]|]; cbn [stack_rel] in S; [|contradiction].
  destruct S as [Sp [x Hx]].
  unfold item_step. cbn [fst snd].
  assert (L : d - 2 <=? List.length c = true) by (apply Nat.leb_le; lia). rewrite L.
  destruct (get_at_firstn _ _ _ (d - 2) Hx) as [par Hpar].
  destruct (attach_valid _ n _ _ Hpar) as [t' [c' [y [A G]]]]. rewrite A.
  eexists. split; [reflexivity|]. cbn [snd stack_rel].
  split; [|exists y; exact G].
  rewrite (attach_len _ _ _ _ _ A), firstn_length. apply Nat.leb_le in L. lia.
Qed.

(* one generator step on an item row follows istep *)
Lemma gen_step_istep s row p' d n s2 :
  parse (g_p s) row = (p', PItem d n) -> istep (ist_of s) (d, n) = Some s2 ->
  gen_step s row = SCont {| g_p := p'; g_done := fst s2; g_cur := snd s2 |}.
Proof.
  intros P I. unfold gen_step. rewrite P. unfold istep, ist_of in I. cbn [fst snd] in I.
  destruct (d =? 1).
  - inversion I; subst. reflexivity.
  - destruct (g_cur s) as [[t c]|]; [|discriminate].
    unfold item_step in I. cbn [fst snd] in I.
    destruct (d - 2 <=? List.length c); [|discriminate].
    destruct (attach (firstn (d - 2) c) n t) as [[t' c']|]; [|discriminate].
    inversion I; subst. reflexivity.
Qed.

Definition link (cx : dctx) (s : gst) : Prop :=
  st_rel cx (g_p s) /\ stack_rel (d_prev cx) (g_cur s).

Lemma link_0 : link dctx0 g0.
Proof. split; [apply st_rel_0|reflexivity]. Qed.

Lemma link_cur_ok cx s : link cx s -> cur_ok s.
Proof.
  intros [_ S]. unfold cur_ok. destruct (g_cur s) as [[t c]|]; [|exact I]. apply S.
Qed.

(* one row, classifier against generator step *)
Theorem gen_step_classify cx s row : link cx s ->
  match classify cx row with
  | (LBlank, cx') =>
      exists s', gen_step s row = SCont s' /\ link cx' s' /\ g_done s' = g_done s /\ g_cur s' = g_cur s
  | (LItem d n, cx') =>
      exists s', gen_step s row = SCont s' /\ link cx' s' /\
                 istep (ist_of s) (d, n) = Some (ist_of s')
  | (LBad r, _) =>
      exists e, gen_step s row = SErr s e /\
        match r with
        | REmptyText => e = EEmptyText
        | RNoRoot => e = ENilStack
        | RNoBullet | RMixed | RNotMultiple | RJump => e = EFormat row
        end
  end.
Proof.
  intros [R S]. pose proof (parse_classify cx (g_p s) row R) as H.
  destruct (classify cx row) as [[|d n|r] cx'].
  - destruct H as [-> P]. unfold gen_step. rewrite P.
    eexists. split; [reflexivity|]. repeat split; try apply R. exact S.
  - destruct H as [st' [P [R' [Hd [Hp Hc]]]]].
    destruct (istep_ok (d_prev cx) d n (g_done s) (g_cur s) S Hd Hc) as [s2 [I S2]].
    exists {| g_p := st'; g_done := fst s2; g_cur := snd s2 |}.
    split; [apply (gen_step_istep s row st' d n s2 P I)|].
    split; [split; [exact R'|rewrite Hp; exact S2]|].
    unfold ist_of at 2. cbn [g_done g_cur]. rewrite <- surjective_pairing. exact I.
  - unfold gen_step. destruct r.
    + destruct H as [st' P]. rewrite P. eexists; split; reflexivity.
    + destruct H as [st' P]. rewrite P. eexists; split; reflexivity.
    + destruct H as [st' P]. rewrite P. eexists; split; reflexivity.
    + destruct H as [st' P]. rewrite P. eexists; split; reflexivity.
    + destruct H as [_ [st' [d [n [cx2 [_ [P [_ [Hd [Hp Hj]]]]]]]]]]. rewrite P.
      assert (E : d =? 1 = false) by (apply Nat.eqb_neq; lia). rewrite E.
      destruct (g_cur s) as [[t c]|]; cbn [stack_rel] in S; [|contradiction].
      destruct S as [Sp _].
      assert (L : d - 2 <=? List.length c = false) by (apply Nat.leb_gt; lia). rewrite L.
      eexists; split; reflexivity.
    + destruct H as [_ [st' [d [n [cx2 [_ [P [_ [Hd Hp]]]]]]]]]. rewrite P.
      assert (E : d =? 1 = false) by (apply Nat.eqb_neq; lia). rewrite E.
      destruct (g_cur s) as [[t c]|]; cbn [stack_rel] in S; [lia|].
      eexists; split; reflexivity.
Qed.

(* ------------------------------------------------------------------ *)
(* (B) whole documents                                                 *)
(* ------------------------------------------------------------------ *)

Lemma classify_doc_ok : forall rows cx i acc items s,
  classify_doc cx i rows acc = VOk items -> link cx s ->
  exists its st' s2,
    items = rev_append acc its /\ parses (g_p s) rows its st' /\ irun (ist_of s) its = Some s2.
Proof.
  induction rows as [|row rows IH]; intros cx i acc items s H L.
  - cbn in H. inversion H; subst. exists [], (g_p s), (ist_of s).
    split; [reflexivity|]. split; [constructor|reflexivity].
  - cbn [classify_doc] in H.
    pose proof (gen_step_classify cx s row L) as G.
    pose proof (parse_classify cx (g_p s) row (proj1 L)) as P.
    destruct (classify cx row) as [[|d n|r] cx'].
    + destruct G as [s' [Gs [L' [Gd Gc]]]]. destruct P as [_ P].
      assert (Hp : g_p s' = g_p s).
      { unfold gen_step in Gs. rewrite P in Gs. inversion Gs; subst. reflexivity. }
      destruct (IH _ _ _ _ s' H L') as [its [st' [s2 [E [Ps I]]]]].
      exists its, st', s2. split; [exact E|]. split.
      * apply parses_blank; [exact P|]. rewrite <- Hp. exact Ps.
      * unfold ist_of in *. rewrite <- Gd, <- Gc. exact I.
    + destruct G as [s' [Gs [L' I1]]]. destruct P as [st1 [P [_ [Hd _]]]].
      assert (Hp : g_p s' = st1).
      { rewrite (gen_step_istep s row st1 d n _ P I1) in Gs. inversion Gs; subst. reflexivity. }
      destruct (IH _ _ _ _ s' H L') as [its [st' [s2 [E [Ps I]]]]].
      exists ((d, n) :: its), st', s2. split; [exact E|]. split.
      * eapply parses_item; [exact P|exact Hd|]. rewrite <- Hp. exact Ps.
      * cbn [irun]. rewrite I1. exact I.
    + discriminate.
Qed.

Theorem classify_ok_parses : forall rows items,
  classify_rows rows = VOk items ->
  exists st', parses p0 rows items st' /\ exists s2, irun ([], None) items = Some s2.
Proof.
  intros rows items H. unfold classify_rows in H.
  destruct (classify_doc_ok rows dctx0 0 [] items g0 H link_0) as [its [st' [s2 [E [P I]]]]].
  cbn [rev_append] in E. subst its. exists st'. split; [exact P|]. exists s2. exact I.
Qed.

Lemma classify_doc_bad : forall rows cx i acc j r s,
  classify_doc cx i rows acc = VBad j r -> link cx s ->
  exists k s' e, j = i + k /\ gen_loop s rows = SErr s' e /\
                 (forall row, e = EFormat row -> nth_error rows k = Some row).
Proof.
  induction rows as [|row rows IH]; intros cx i acc j r s H L.
  - cbn in H. discriminate.
  - cbn [classify_doc] in H. cbn [gen_loop].
    pose proof (gen_step_classify cx s row L) as G.
    destruct (classify cx row) as [[|d n|r0] cx'].
    + destruct G as [s' [Gs [L' _]]]. rewrite Gs.
      destruct (IH _ _ _ _ _ s' H L') as [k [s2 [e [Ej [Gl Hn]]]]].
      exists (S k), s2, e. split; [lia|]. split; [exact Gl|]. exact Hn.
    + destruct G as [s' [Gs [L' _]]]. rewrite Gs.
      destruct (IH _ _ _ _ _ s' H L') as [k [s2 [e [Ej [Gl Hn]]]]].
      exists (S k), s2, e. split; [lia|]. split; [exact Gl|]. exact Hn.
    + inversion H; subst. destruct G as [e [Gs He]]. rewrite Gs.
      exists 0, s, e. split; [lia|]. split; [reflexivity|].
      intros row' Ee. cbn [nth_error]. subst e.
      destruct r; try discriminate; inversion He; reflexivity.
Qed.

Theorem classify_bad_rejected : forall rows i r,
  classify_rows rows = VBad i r ->
  exists s e, gen_loop g0 rows = SErr s e /\ (forall row, e = EFormat row -> nth_error rows i = Some row).
Proof.
  intros rows i r H. unfold classify_rows in H.
  destruct (classify_doc_bad rows dctx0 0 [] i r g0 H link_0) as [k [s [e [E [G Hn]]]]].
  cbn in E. subst k. exists s, e. split; assumption.
Qed.

Corollary gen_error_iff : forall rows,
  (exists s e, gen_loop g0 rows = SErr s e) <-> (exists i r, classify_rows rows = VBad i r).
Proof.
  intros rows. split.
  - intros [s [e G]]. destruct (classify_rows rows) as [items|i r] eqn:C; [|eauto].
    exfalso. destruct (classify_ok_parses rows items C) as [st' [P [s2 I]]].
    destruct (gen_loop_items rows p0 items st' g0 P eq_refl s2 I) as [s' [G' _]].
    rewrite G in G'. discriminate.
  - intros [i [r C]]. destruct (classify_bad_rejected rows i r C) as [s [e [G _]]]. eauto.
Qed.

(* the generator accepts exactly the documents the classifier accepts, never panics *)
Corollary gen_ok_iff : forall rows,
  (exists s, gen_loop g0 rows = SCont s) <-> (exists items, classify_rows rows = VOk items).
Proof.
  intros rows. split.
  - intros [s G]. destruct (classify_rows rows) as [items|i r] eqn:C; [eauto|].
    exfalso. destruct (classify_bad_rejected rows i r C) as [s' [e [G' _]]].
    rewrite G in G'. discriminate.
  - intros [items C]. destruct (classify_ok_parses rows items C) as [st' [P [s2 I]]].
    destruct (gen_loop_items rows p0 items st' g0 P eq_refl s2 I) as [s' [G' _]]. eauto.
Qed.
