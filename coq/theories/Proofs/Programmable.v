(* Proofs/Programmable.v — C13 / C03 / C15: results are functions of the tree alone;
   From-Root operations coincide with From-Markdown ones; spelling-independence. *)
From Coq Require Import List Ascii Arith Bool Lia.
From GT Require Import Base.GoStr Md.Parser Tree.Tree Tree.Gen Tree.Grower Out.Spreader Out.Formatted Out.Walker
  Api.Simple Fs.FsModel Fs.Mkdir Fs.Verify Api.Programmable Spec.Spec
  Proofs.TreeInd Proofs.BuildTrie Proofs.GenItems Proofs.OutputText Proofs.NoPanic.
Import ListNotations.

(* ================= sibling names of Add-built trees are distinct ================= *)

Fixpoint nodup_sib (t : tree) {struct t} : Prop :=
  match t with
  | T _ ks => NoDup (map tname ks) /\
              (fix all (l : list tree) : Prop := match l with [] => True | k :: r => nodup_sib k /\ all r end) ks
  end.

Fixpoint all_nodup (l : list tree) : Prop :=
  match l with [] => True | k :: r => nodup_sib k /\ all_nodup r end.

Lemma nodup_sib_eq n ks : nodup_sib (T n ks) <-> NoDup (map tname ks) /\ all_nodup ks.
Proof.
  cbn [nodup_sib].
  assert (E : (fix all (l : list tree) : Prop := match l with [] => True | k :: r => nodup_sib k /\ all r end) ks = all_nodup ks).
  { induction ks as [|k r IH]; [reflexivity|]. cbn [all_nodup]. rewrite <- IH. reflexivity. }
  rewrite E. tauto.
Qed.

Lemma find_idx_none_notin nm ks : find_idx nm ks = None -> ~ In nm (map tname ks).
Proof.
  induction ks as [|k r IH]; cbn; [intros _ []|].
  destruct (str_eqb nm (tname k)) eqn:E; [discriminate|].
  destruct (find_idx nm r) as [i|] eqn:F; [discriminate|].
  intros _ [H|H].
  - assert (X : str_eqb nm (tname k) = true) by (apply str_eqb_eq; congruence). congruence.
  - exact (IH eq_refl H).
Qed.

Lemma notin_find_idx_none nm ks : ~ In nm (map tname ks) -> find_idx nm ks = None.
Proof.
  induction ks as [|k r IH]; cbn; [reflexivity|]. intros H.
  destruct (str_eqb nm (tname k)) eqn:E.
  - apply str_eqb_eq in E. exfalso. apply H. left. congruence.
  - rewrite IH; [reflexivity|]. intros X. apply H. right. exact X.
Qed.

(* ================= trie_of is the identity on trees with distinct sibling names ============= *)

Lemma ins_under_last nm p n pre c :
  tname c = nm -> ~ In nm (map tname pre) ->
  ins (nm :: p) (T n (pre ++ [c])) = T n (pre ++ [ins p c]).
Proof.
  intros Hc Hn. rewrite ins_cons. cbn [tname tkids]. f_equal.
  induction pre as [|x pre IH]; cbn [app ins_kids].
  - rewrite Hc, str_eqb_refl. reflexivity.
  - destruct (str_eqb nm (tname x)) eqn:E.
    + apply str_eqb_eq in E. exfalso. apply Hn. left. congruence.
    + f_equal. apply IH. intros X. apply Hn. right. exact X.
Qed.

Lemma ins_all_under_last nm ps : forall n pre c,
  tname c = nm -> ~ In nm (map tname pre) ->
  ins_all [nm] ps (T n (pre ++ [c])) = T n (pre ++ [ins_all [] ps c]).
Proof.
  induction ps as [|p ps IH]; intros n pre c Hc Hn; [reflexivity|].
  unfold ins_all in *. cbn [fold_left app].
  rewrite (ins_under_last nm p n pre c Hc Hn).
  rewrite IH; [reflexivity|rewrite tname_ins; exact Hc|exact Hn].
Qed.

Lemma ins_all_nil ps t : ins_all [] ps t = fold_left (fun acc p => ins p acc) ps t.
Proof. reflexivity. Qed.

Lemma ins_all_kids : forall ks n pre,
  NoDup (map tname (pre ++ ks)) -> all_nodup ks ->
  (forall k, In k ks -> nodup_sib k -> ins_all [] (paths k) (T (tname k) []) = k) ->
  ins_all [] (flat_map PS ks) (T n pre) = T n (pre ++ ks).
Proof.
  induction ks as [|k r IH]; intros n pre Hnd Hall Hsub.
  - cbn. rewrite app_nil_r. reflexivity.
  - cbn [flat_map]. rewrite ins_all_app. destruct Hall as [Hk Hr].
    assert (Hnot : ~ In (tname k) (map tname pre)).
    { rewrite map_app in Hnd. cbn [map] in Hnd. apply NoDup_remove_2 in Hnd.
      intros X. apply Hnd. apply in_or_app. left. exact X. }
    (* the node k itself, then its descendants *)
    assert (Hk1 : ins_all [] (PS k) (T n pre) = T n (pre ++ [ins_all [] (paths k) (T (tname k) [])])).
    { unfold PS. unfold ins_all at 1. cbn [fold_left app].
      change (fold_left (fun (acc : tree) (p : list str) => ins ([] ++ p) acc) (map (cons (tname k)) (paths k)) (ins [tname k] (T n pre)))
        with (ins_all [] (map (cons (tname k)) (paths k)) (ins [tname k] (T n pre))).
      rewrite ins_cons. cbn [tname tkids]. rewrite (ins_kids_missing _ _ _ (notin_find_idx_none _ _ Hnot)). cbn [ins].
      rewrite <- ins_all_nil. rewrite ins_all_map_cons. cbn [app].
      apply (ins_all_under_last (tname k) (paths k) n pre (T (tname k) []) eq_refl Hnot). }
    rewrite Hk1.
    rewrite (Hsub k (or_introl eq_refl) Hk).
    replace (pre ++ k :: r) with ((pre ++ [k]) ++ r) by (rewrite <- app_assoc; reflexivity).
    apply IH.
    + rewrite <- app_assoc. exact Hnd.
    + exact Hr.
    + intros k' Hin. apply Hsub. right. exact Hin.
Qed.

Theorem trie_of_id : forall t, nodup_sib t -> trie_of t = t.
Proof.
  induction t as [n ks IH] using tree_ind'. intros H. apply nodup_sib_eq in H as [H1 H2].
  unfold trie_of. cbn [tname paths].
  change (fold_left (fun acc p => ins p acc) (flat_map (fun k => [tname k] :: map (cons (tname k)) (paths k)) ks) (T n []))
    with (ins_all [] (flat_map PS ks) (T n [])).
  rewrite (ins_all_kids ks n []); [reflexivity|exact H1|exact H2|].
  intros k Hin Hk. rewrite Forall_forall in IH. specialize (IH k Hin Hk).
  unfold trie_of in IH. destruct k as [kn kks]. cbn [tname paths] in *. exact IH.
Qed.

(* ================= C03: From-Root = From-Markdown ================= *)

Lemma gen_single input rows t st' :
  scan_lines input = (rows, ScanEOF) ->
  parses p0 rows (forest_items [t]) st' ->
  nodup_sib t ->
  gen_all input = Ok [t] /\ gen_stream input = ([t], Ok tt).
Proof.
  intros Hs Hp Hn. destruct (gen_run_forest input rows [t] st' Hs Hp) as [H1 H2].
  cbn [map] in *. rewrite (trie_of_id t Hn) in *. auto.
Qed.

Theorem output_root_is_output_md c input rows t st' :
  c_dry c = false ->
  scan_lines input = (rows, ScanEOF) -> parses p0 rows (forest_items [t]) st' -> nodup_sib t ->
  output_md c input = output_root c t.
Proof.
  intros Hd Hs Hp Hn. destruct (gen_single _ _ _ _ Hs Hp Hn) as [Ha Hst].
  unfold output_md, output_md_r, output_root. fold (gen_all input). fold (gen_stream input). rewrite Ha, Hst.
  assert (Hg : grow_one c false t = Ok (if is_default (c_enc c) then grow_root (c_bf c) t else nop_grow true t)).
  { unfold grow_one. rewrite Hd. destruct (is_default (c_enc c)); reflexivity. }
  destruct (c_noiter c).
  - cbn [grow_all]. rewrite Hg. unfold spread_all. rewrite Hd.
    destruct (is_default (c_enc c)) eqn:E.
    + cbn [flat_map]. rewrite app_nil_r. reflexivity.
    + reflexivity.
  - cbn [output_iter_go]. rewrite Hg. unfold spread_iter_one, spread_all. rewrite Hd.
    destruct (is_default (c_enc c)) eqn:E.
    + rewrite app_nil_r. reflexivity.
    + cbn [enc_chunks]. destruct (enc_chunk (c_enc c) (nop_grow true t)); reflexivity.
Qed.

Theorem walk_root_is_walk_md c cb input rows t st' :
  c_dry c = false ->
  scan_lines input = (rows, ScanEOF) -> parses p0 rows (forest_items [t]) st' -> nodup_sib t ->
  walk_md c cb input = walk_root (c_bf c) cb t.
Proof.
  intros Hd Hs Hp Hn. destruct (gen_single _ _ _ _ Hs Hp Hn) as [Ha _].
  unfold walk_md, walk_root. cbn zeta. rewrite Ha. cbn [grow_all]. unfold grow_one. cbn [no_enc c_enc c_dry c_bf is_default]. rewrite Hd. reflexivity.
Qed.

Theorem mkdir_root_is_mkdir_md w h c dir input rows t st' :
  root_of w (Some h) = Ok t ->
  scan_lines input = (rows, ScanEOF) -> parses p0 rows (forest_items [t]) st' -> nodup_sib t ->
  pstep w (PMdMkdir c dir input) = pstep w (PMkdir (Some h) c dir).
Proof.
  intros Hr Hs Hp Hn. destruct (gen_single _ _ _ _ Hs Hp Hn) as [Ha _].
  cbn [pstep]. rewrite Ha, Hr. reflexivity.
Qed.

Theorem verify_root_is_verify_md w h c strict dir input rows t st' :
  root_of w (Some h) = Ok t ->
  scan_lines input = (rows, ScanEOF) -> parses p0 rows (forest_items [t]) st' -> nodup_sib t ->
  pstep w (PMdVerify c strict dir input) = pstep w (PVerify (Some h) c strict dir).
Proof.
  intros Hr Hs Hp Hn. destruct (gen_single _ _ _ _ Hs Hp Hn) as [Ha _].
  cbn [pstep]. rewrite Ha, Hr. reflexivity.
Qed.

(* guards: a nil node / a node that is not a root is rejected and nothing is written or created *)
Theorem guards w o :
  (exists c, o = POutput None c) \/ (exists bf f, o = PWalk None bf f) \/ (exists bf b, o = PWalkIter None bf b) \/
  (exists c d, o = PMkdir None c d) \/ (exists c s d, o = PVerify None c s d) ->
  fst (pstep w o) = w /\
  (snd (pstep w o) = OOutput [] (Err ENilNode) \/ snd (pstep w o) = OWalk [] (Err ENilNode) \/
   snd (pstep w o) = OFs [] (Err ENilNode) (w_fs w)).
Proof.
  intros [[c H]|[[bf [f H]]|[[bf [b H]]|[[c [d H]]|[c [s [d H]]]]]]]; subst; cbn; auto.
Qed.

Theorem guard_not_root w h tid p0' rest o :
  nth_error (w_handles w) h = Some (tid, p0' :: rest) ->
  (exists c, o = POutput (Some h) c) \/ (exists bf f, o = PWalk (Some h) bf f) \/ (exists bf b, o = PWalkIter (Some h) bf b) \/
  (exists c d, o = PMkdir (Some h) c d) \/ (exists c s d, o = PVerify (Some h) c s d) ->
  fst (pstep w o) = w /\
  (snd (pstep w o) = OOutput [] (Err ENotRoot) \/ snd (pstep w o) = OWalk [] (Err ENotRoot) \/
   snd (pstep w o) = OFs [] (Err ENotRoot) (w_fs w)).
Proof.
  intros Hh [[c H]|[[bf [f H]]|[[bf [b H]]|[[c [d H]]|[c [s [d H]]]]]]]; subst; cbn; rewrite Hh; cbn; auto.
Qed.

(* Add of an existing name returns the existing child and leaves the tree unchanged *)
Theorem add_existing pp nm t par i :
  get_at pp t = Some par -> find_idx nm (tkids par) = Some i ->
  attach pp nm t = Some (t, pp ++ [i]).
Proof. intros H F. unfold attach. rewrite H, F. reflexivity. Qed.

(* ================= C13: results are functions of the tree (and of the file system) ========== *)

Definition reads_only (o : pop) : Prop :=
  match o with
  | POutput _ _ | PWalk _ _ _ | PWalkIter _ _ _ | PVerify _ _ _ _ | PMdOutput _ _ | PMdWalk _ _ _ | PMdVerify _ _ _ _ => True
  | _ => False
  end.

(* an operation that is not NewRoot / Add / mkdir / fs-init leaves the world as it was:
   repeating it repeats its result *)
Ltac dpairs := repeat match goal with
  | |- context [match ?x with (_, _) => _ end] => destruct x
  | |- context [match ?x with Ok _ => _ | Err _ => _ | Panic => _ end] => destruct x
  end.

Theorem reads_leave_world w o : reads_only o -> fst (pstep w o) = w.
Proof.
  destruct o; cbn [reads_only]; try contradiction; intros _; unfold pstep; dpairs; reflexivity.
Qed.

Corollary repeat_same w o : reads_only o -> snd (pstep (fst (pstep w o)) o) = snd (pstep w o).
Proof. intros H. rewrite (reads_leave_world w o H). reflexivity. Qed.

(* the result of a From-Root operation depends on the world only through the tree the
   handle designates (and the file system for mkdir / verify): whatever history produced
   the two worlds *)
Theorem result_function_of_tree w1 w2 h1 h2 :
  root_of w1 h1 = root_of w2 h2 ->
  (forall c, snd (pstep w1 (POutput h1 c)) = snd (pstep w2 (POutput h2 c))) /\
  (forall bf f, snd (pstep w1 (PWalk h1 bf f)) = snd (pstep w2 (PWalk h2 bf f))) /\
  (forall bf b, snd (pstep w1 (PWalkIter h1 bf b)) = snd (pstep w2 (PWalkIter h2 bf b))) /\
  (w_fs w1 = w_fs w2 ->
   (forall c d, snd (pstep w1 (PMkdir h1 c d)) = snd (pstep w2 (PMkdir h2 c d))) /\
   (forall c s d, snd (pstep w1 (PVerify h1 c s d)) = snd (pstep w2 (PVerify h2 c s d)))).
Proof.
  intros H. repeat split; intros; unfold pstep; rewrite H; try rewrite H0; dpairs; reflexivity.
Qed.

(* From-Markdown calls do not read the world at all *)
Theorem md_calls_independent w1 w2 c doc bf f :
  snd (pstep w1 (PMdOutput c doc)) = snd (pstep w2 (PMdOutput c doc)) /\
  snd (pstep w1 (PMdWalk bf f doc)) = snd (pstep w2 (PMdWalk bf f doc)).
Proof.
  split; unfold pstep; dpairs; reflexivity.
Qed.

(* building or extending one tree does not change what another handle's tree is *)
Lemma nth_error_replace_other {A} (l : list A) i j x : i <> j -> nth_error (replace_nth i x l) j = nth_error l j.
Proof.
  revert i j. induction l as [|y r IH]; intros [|i] [|j] H; cbn; try reflexivity; try congruence.
  apply IH. congruence.
Qed.

Theorem other_trees_untouched w o h tid path :
  nth_error (w_handles w) h = Some (tid, path) ->
  (exists nm, o = PNewRoot nm) \/ (exists h' nm tid' p', o = PAdd h' nm /\ nth_error (w_handles w) h' = Some (tid', p') /\ tid' <> tid) ->
  tid < List.length (w_trees w) ->
  root_of (fst (pstep w o)) (Some h) = root_of w (Some h).
Proof.
  intros Hh [[nm Ho]|[h' [nm [tid' [p' [Ho [Hh' Hne]]]]]]] Hlt; subst o; cbn [pstep].
  - cbn [fst root_of w_handles w_trees]. rewrite nth_error_app1 by (apply nth_error_Some; congruence).
    rewrite Hh. destruct path; [|reflexivity]. rewrite nth_error_app1 by exact Hlt. reflexivity.
  - rewrite Hh'. destruct (nth_error (w_trees w) tid') as [t|]; [|reflexivity].
    destruct (attach p' nm t) as [[t' c']|]; [|reflexivity].
    cbn [fst root_of w_handles w_trees]. rewrite nth_error_app1 by (apply nth_error_Some; congruence).
    rewrite Hh. destruct path; [|reflexivity]. rewrite nth_error_replace_other by exact Hne. reflexivity.
Qed.

(* ================= C15: spelling independence ================= *)

(* two documents whose rows the parser reads as the same forest give identical results
   for every operation and every option *)
Theorem same_items_same_results f input1 rows1 st1 input2 rows2 st2 :
  scan_lines input1 = (rows1, ScanEOF) -> parses p0 rows1 (forest_items f) st1 ->
  scan_lines input2 = (rows2, ScanEOF) -> parses p0 rows2 (forest_items f) st2 ->
  (forall c, output_md c input1 = output_md c input2) /\
  (forall c cb, walk_md c cb input1 = walk_md c cb input2) /\
  (forall w c d, pstep w (PMdMkdir c d input1) = pstep w (PMdMkdir c d input2)) /\
  (forall w c s d, pstep w (PMdVerify c s d input1) = pstep w (PMdVerify c s d input2)).
Proof.
  intros S1 P1 S2 P2.
  destruct (gen_run_forest _ _ _ _ S1 P1) as [A1 T1]. destruct (gen_run_forest _ _ _ _ S2 P2) as [A2 T2].
  repeat split; intros.
  - unfold output_md, output_md_r. fold (gen_all input1) (gen_all input2) (gen_stream input1) (gen_stream input2).
    rewrite A1, A2, T1, T2. reflexivity.
  - unfold walk_md. rewrite A1, A2. reflexivity.
  - cbn [pstep]. rewrite A1, A2. reflexivity.
  - cbn [pstep]. rewrite A1, A2. reflexivity.
Qed.

(* ================= every tree built with NewRoot / Add has distinct sibling names ============= *)

Lemma tname_upd_at p f t : (forall x, tname (f x) = tname x) -> tname (upd_at p f t) = tname t.
Proof. intros Hf. destruct p; cbn; [apply Hf|reflexivity]. Qed.

Lemma map_tname_upd_nth i f ks : (forall x, tname (f x) = tname x) -> map tname (upd_nth i f ks) = map tname ks.
Proof.
  intros Hf. revert i. induction ks as [|k r IH]; intros [|i]; cbn; try reflexivity.
  - rewrite Hf. reflexivity.
  - rewrite IH. reflexivity.
Qed.

Lemma all_nodup_upd_nth i f ks :
  all_nodup ks -> (forall k, nth_error ks i = Some k -> nodup_sib k -> nodup_sib (f k)) -> all_nodup (upd_nth i f ks).
Proof.
  revert i. induction ks as [|k r IH]; intros [|i] H Hf; cbn [upd_nth all_nodup nth_error] in *; auto.
  - destruct H as [Hk Hr]. split; [apply Hf; [reflexivity|exact Hk]|exact Hr].
  - destruct H as [Hk Hr]. split; [exact Hk|apply IH; [exact Hr|exact Hf]].
Qed.

Lemma nodup_upd_at : forall p t par nm,
  nodup_sib t -> get_at p t = Some par -> find_idx nm (tkids par) = None ->
  nodup_sib (upd_at p (add_child nm) t).
Proof.
  induction p as [|i p IH]; intros t par nm Hn Hg Hf.
  - cbn [get_at] in Hg. inversion Hg; subst. destruct par as [n ks]. cbn [upd_at]. unfold add_child. cbn [tname tkids] in *.
    destruct (proj1 (nodup_sib_eq _ _) Hn) as [H1 H2]. apply (proj2 (nodup_sib_eq _ _)). split.
    + rewrite map_app. cbn [map tname].
      apply NoDup_rev in H1. rewrite <- (rev_involutive (map tname ks ++ [nm])). apply NoDup_rev.
      rewrite rev_app_distr. cbn [rev app]. constructor; [|exact H1].
      rewrite <- in_rev. apply find_idx_none_notin. exact Hf.
    + clear H1 Hf Hg Hn. induction ks as [|k r IHr]; cbn [app all_nodup] in *.
      * split; [apply (proj2 (nodup_sib_eq _ _)); split; [constructor|exact I]|exact I].
      * destruct H2 as [Hk Hr]. split; [exact Hk|apply IHr; exact Hr].
  - destruct t as [n ks]. cbn [get_at upd_at tname tkids] in *.
    destruct (nth_error ks i) as [k|] eqn:N; [|discriminate].
    destruct (proj1 (nodup_sib_eq _ _) Hn) as [H1 H2]. apply (proj2 (nodup_sib_eq _ _)). split.
    + rewrite map_tname_upd_nth; [exact H1|]. intros x. apply tname_upd_at. reflexivity.
    + apply all_nodup_upd_nth; [exact H2|]. intros k' Hk' Hnk. rewrite N in Hk'. inversion Hk'; subst.
      eapply IH; eauto.
Qed.

Lemma attach_nodup pp nm t t' c' : nodup_sib t -> attach pp nm t = Some (t', c') -> nodup_sib t'.
Proof.
  intros Hn H. unfold attach in H. destruct (get_at pp t) as [par|] eqn:G; [|discriminate].
  destruct (find_idx nm (tkids par)) as [i|] eqn:F; inversion H; subst; [exact Hn|].
  eapply nodup_upd_at; eauto.
Qed.

Definition world_ok (w : world) : Prop := Forall nodup_sib (w_trees w).

Lemma Forall_replace_nth {A} (P : A -> Prop) i x l : Forall P l -> P x -> Forall P (replace_nth i x l).
Proof.
  revert i. induction l as [|y r IH]; intros [|i] H Hx; cbn; auto; inversion H; subst; constructor; auto.
Qed.

Theorem world_ok_step w o : world_ok w -> world_ok (fst (pstep w o)).
Proof.
  intros H. destruct o; try (rewrite reads_leave_world; [exact H|exact I]); unfold pstep.
  - cbn. unfold world_ok. cbn. apply Forall_app. split; [exact H|]. constructor; [|constructor].
    apply (proj2 (nodup_sib_eq _ _)). split; [constructor|exact I].
  - destruct (nth_error (w_handles w) h) as [[tid path]|]; [|exact H].
    destruct (nth_error (w_trees w) tid) as [t|] eqn:N; [|exact H].
    destruct (attach path nm t) as [[t' c']|] eqn:A; [|exact H].
    cbn. unfold world_ok. cbn. apply Forall_replace_nth; [exact H|].
    eapply attach_nodup; [|exact A]. unfold world_ok in H. rewrite Forall_forall in H. apply H. eapply nth_error_In; eauto.
  - cbn. exact H.
  - dpairs; cbn; exact H.
  - dpairs; cbn; exact H.
Qed.

Theorem world_ok_run : forall ops w, world_ok w ->
  forall t h, root_of (fold_left (fun w o => fst (pstep w o)) ops w) h = Ok t -> nodup_sib t.
Proof.
  induction ops as [|o ops IH]; intros w Hw t h Hr; cbn in Hr.
  - unfold root_of in Hr. destruct h as [i|]; [|discriminate].
    destruct (nth_error (w_handles w) i) as [[tid path]|]; [|discriminate].
    destruct path; [|discriminate]. destruct (nth_error (w_trees w) tid) as [t0|] eqn:N; [|discriminate].
    inversion Hr; subst. unfold world_ok in Hw. rewrite Forall_forall in Hw. apply Hw. eapply nth_error_In; eauto.
  - eapply IH; [|exact Hr]. apply world_ok_step. exact Hw.
Qed.
