(* Proofs/Complete.v — C02: a document is rendered completely or rejected. *)
From Coq Require Import List Ascii Arith Bool Lia.
From GT Require Import Base.GoStr Md.Parser Tree.Tree Tree.Gen Tree.Grower Out.Spreader Out.Formatted Api.Simple
  Spec.Spec Spec.Classify Proofs.TreeInd Proofs.GenItems Proofs.NoPanic Proofs.ParseClassify.
Import ListNotations.

Lemma grow_all_nodry c ts : c_dry c = false -> exists gs, grow_all c false ts = Ok gs.
Proof.
  intros Hd. induction ts as [|t r [gs IH]]; [eexists; reflexivity|].
  cbn [grow_all]. unfold grow_one at 1. rewrite Hd. cbn [orb].
  destruct (is_default (c_enc c)); rewrite IH; eexists; reflexivity.
Qed.

Lemma output_iter_nodry c fin : c_dry c = false -> forall ts, snd (output_iter_go c ts fin) = fin.
Proof.
  intros Hd. induction ts as [|t r IH]; [reflexivity|].
  cbn [output_iter_go]. unfold grow_one at 1. rewrite Hd. cbn [orb].
  destruct (is_default (c_enc c)).
  - destruct (spread_iter_one_ok c (grow_root (c_bf c) t)) as [ws Hw]. rewrite Hw.
    destruct (output_iter_go c r fin). cbn in *. exact IH.
  - destruct (spread_iter_one_ok c (nop_grow true t)) as [ws Hw]. rewrite Hw.
    destruct (output_iter_go c r fin). cbn in *. exact IH.
Qed.

(* the returned value of a non-dry-run output call is the generator's verdict *)
Lemma output_result_is_gen c input rows :
  c_dry c = false -> scan_lines input = (rows, ScanEOF) ->
  snd (output_md c input) =
  match gen_loop g0 rows with
  | SCont _ => Ok tt
  | SErr _ e => Err e
  | SPanic => Panic
  end.
Proof.
  intros Hd Hs. unfold output_md, output_md_r, gen_all_r, gen_stream_r, gen_run_r, scan_lines_r. rewrite Hs.
  destruct (gen_loop g0 rows) as [s|s e|]; cbn [gr_end gr_done gr_pending end_res].
  - destruct (c_noiter c).
    + destruct (grow_all_nodry c (frev (g_done s) ++ opt_list (match g_cur s with Some (t, _) => Some t | None => None end)) Hd) as [gs Hg].
      rewrite Hg. destruct (spread_all_ok c gs) as [cs Hc]. rewrite Hc. reflexivity.
    + apply output_iter_nodry. exact Hd.
  - destruct (c_noiter c); [reflexivity|]. apply output_iter_nodry. exact Hd.
  - destruct (c_noiter c); reflexivity.
Qed.

(* C02, first half: error iff some line is malformed (text / JSON / YAML / TOML, both routes) *)
Theorem error_iff_malformed c input rows :
  c_dry c = false -> scan_lines input = (rows, ScanEOF) ->
  ((exists e, snd (output_md c input) = Err e) <-> (exists i r, classify_rows rows = VBad i r)).
Proof.
  intros Hd Hs. rewrite (output_result_is_gen c input rows Hd Hs). rewrite <- gen_error_iff.
  destruct (gen_loop g0 rows) as [s|s e|]; split.
  - intros [e H]. discriminate.
  - intros [s' [e H]]. discriminate.
  - intros _. eauto.
  - intros _. eauto.
  - intros [e H]. discriminate.
  - intros [s' [e H]]. discriminate.
Qed.

(* a format error names the first malformed line *)
Theorem format_error_names_first_malformed c input rows row :
  c_dry c = false -> scan_lines input = (rows, ScanEOF) ->
  snd (output_md c input) = Err (EFormat row) ->
  exists i r, classify_rows rows = VBad i r /\ nth_error rows i = Some row.
Proof.
  intros Hd Hs H. rewrite (output_result_is_gen c input rows Hd Hs) in H.
  destruct (gen_loop g0 rows) as [s|s e|] eqn:G; try discriminate. inversion H; subst e.
  destruct (proj1 (gen_error_iff rows) (ex_intro _ s (ex_intro _ _ G))) as [i [r Hc]].
  exists i, r. split; [exact Hc|].
  destruct (classify_bad_rejected rows i r Hc) as [s' [e' [G' Hrow]]].
  rewrite G in G'. inversion G'; subst. apply Hrow. reflexivity.
Qed.

(* when nil is returned the classifier accepted every line, and what is rendered is built
   from exactly the items it read (nothing skipped) *)
Theorem accepted_items c input rows :
  c_dry c = false -> scan_lines input = (rows, ScanEOF) ->
  snd (output_md c input) = Ok tt ->
  exists items st', classify_rows rows = VOk items /\ parses p0 rows items st'.
Proof.
  intros Hd Hs H. rewrite (output_result_is_gen c input rows Hd Hs) in H.
  destruct (gen_loop g0 rows) as [s|s e|] eqn:G; try discriminate.
  destruct (proj1 (gen_ok_iff rows) (ex_intro _ s G)) as [items Hc].
  destruct (classify_ok_parses rows items Hc) as [st' [Hp _]]. eauto.
Qed.

From GT Require Import Spec.Spelling Proofs.NoLoss Proofs.OutputText.

(* C02, second half: when nil is returned, every non-blank line is represented by a node of
   the forest that is rendered: its path (names of the nearest preceding items of depth
   1..d-1, computed from the indentation alone, then its own name) exists in that forest *)
Theorem nothing_lost c input rows :
  c_dry c = false -> scan_lines input = (rows, ScanEOF) ->
  snd (output_md c input) = Ok tt ->
  exists items forest,
    classify_rows rows = VOk items /\ gen_all input = Ok forest /\
    forall p, In p (item_paths_from [] items) ->
      exists r rest t, p = r :: rest /\ In t forest /\ tname t = r /\ has_path rest t.
Proof.
  intros Hd Hs H. destruct (accepted_items c input rows Hd Hs H) as [items [st' [Hc Hp]]].
  destruct (classify_ok_parses rows items Hc) as [st2 [Hp2 [s2 Hrun]]].
  assert (Hge : Forall (fun it => 1 <= fst it) items).
  { clear -Hp. induction Hp; [constructor|assumption|constructor; [exact H0|assumption]]. }
  pose proof (irun_nested items s2 Hge Hrun) as Hn.
  exists items, (map trie_of (forest_of_items items [])). split; [exact Hc|]. split.
  - rewrite <- (forest_of_items_inverse items Hn) in Hp.
    destruct (gen_run_forest input rows (forest_of_items items []) st' Hs Hp) as [Ha _]. exact Ha.
  - intros p Hin. apply (no_loss items Hn p Hin).
Qed.
