(* Proofs/Formatted.v — C04 structure: the positional setChild/getChild copy yields the
   same names, order and nesting; getChild(i) is never out of range. *)
From Coq Require Import List Ascii Arith Bool Lia.
From GT Require Import Base.GoStr Tree.Tree Out.Formatted Proofs.TreeInd.
Import ListNotations.

Lemma replace_nth_last {A} (l : list A) x y : replace_nth (List.length l) y (l ++ [x]) = l ++ [y].
Proof. induction l as [|a l IH]; cbn; [reflexivity|]. f_equal. exact IH. Qed.

Lemma nth_error_last {A} (l : list A) x : nth_error (l ++ [x]) (List.length l) = Some x.
Proof. rewrite nth_error_app2 by lia. rewrite Nat.sub_diag. reflexivity. Qed.

(* named version of the loop of to_fmt *)
Fixpoint fmt_loop (l : list tree) (i : nat) (fp : fnode) : res fnode :=
  match l with
  | [] => Ok fp
  | k :: r =>
      let fp1 := set_child (tname k) fp in
      match nth_error (fkids fp1) i with
      | None => Panic
      | Some c =>
          match to_fmt k c with
          | Ok c' => fmt_loop r (S i) (F (fname fp1) (replace_nth i c' (fkids fp1)))
          | Err e => Err e
          | Panic => Panic
          end
      end
  end.

Lemma to_fmt_eq n ks fp : to_fmt (T n ks) fp = fmt_loop ks 0 fp.
Proof.
  cbn [to_fmt]. generalize 0 as i. revert fp.
  induction ks as [|k r IH]; intros fp i.
  - reflexivity.
  - cbn [fmt_loop].
    destruct (nth_error (fkids (set_child (tname k) fp)) i) as [c|]; [|reflexivity].
    destruct (to_fmt k c); try reflexivity.
Qed.

Lemma fnode_of_eq n ks : fnode_of (T n ks) = F n (map fnode_of ks).
Proof. reflexivity. Qed.

Lemma to_fmt_fresh : forall t nm, nm = tname t -> to_fmt t (F nm []) = Ok (fnode_of t).
Proof.
  induction t as [n ks IH] using tree_ind'; intros nm Hnm. cbn in Hnm. subst nm.
  rewrite to_fmt_eq, fnode_of_eq.
  assert (H : forall l, Forall (fun t => forall nm, nm = tname t -> to_fmt t (F nm []) = Ok (fnode_of t)) l ->
      forall fp, fmt_loop l (List.length (fkids fp)) fp = Ok (F (fname fp) (fkids fp ++ map fnode_of l))).
  { induction l as [|k r IHr]; intros HF fp.
    - cbn. rewrite app_nil_r. destruct fp; reflexivity.
    - inversion HF as [|? ? Hk Hr]; subst. cbn [fmt_loop set_child fkids fname].
      rewrite nth_error_last. rewrite (Hk (tname k) eq_refl).
      rewrite replace_nth_last.
      specialize (IHr Hr (F (fname fp) (fkids fp ++ [fnode_of k]))).
      cbn [fkids fname] in IHr. rewrite app_length in IHr. cbn [List.length] in IHr.
      replace (List.length (fkids fp) + 1) with (S (List.length (fkids fp))) in IHr by lia.
      rewrite IHr. cbn [map]. rewrite <- app_assoc. reflexivity. }
  specialize (H ks IH (F n [])). cbn [fkids fname List.length app] in H. exact H.
Qed.

Theorem formatted_ok t : formatted t = Ok (fnode_of t).
Proof. unfold formatted. apply to_fmt_fresh. reflexivity. Qed.
