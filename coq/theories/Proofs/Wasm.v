(* Proofs/Wasm.v — C17: the tinywasm variant of Output and the default build make the same
   accept/reject decision on every input and write the same bytes when they accept. *)
From Coq Require Import List Ascii Arith Bool Lia.
From GT Require Import Base.GoStr Md.Parser Tree.Tree Tree.Gen Tree.Grower Out.Spreader Out.Formatted
  Api.Simple Api.Faults Api.Wasm Proofs.NoPanic.
Import ListNotations.

Definition accepted (r : res unit) : bool := match r with Ok _ => true | _ => false end.

Lemma chunk_bytes_app a b : chunk_bytes (a ++ b) = chunk_bytes a ++ chunk_bytes b.
Proof.
  induction a as [|[s|e f] r IH]; cbn; [reflexivity| |exact IH].
  rewrite IH, app_assoc. reflexivity.
Qed.

Lemma chunk_bytes_ctext ws : chunk_bytes (map CText ws) = concat ws.
Proof. induction ws as [|w r IH]; cbn; [reflexivity|]. rewrite IH. reflexivity. Qed.

(* bytes written for one root through the iterator route = its share of the bulk route *)
Definition root_bytes (c : cfg) (g : gtree) : str :=
  match spread_iter_one c g with Ok cs => chunk_bytes cs | _ => [] end.

Lemma enc_chunks_bytes e : forall gs cs,
  enc_chunks e gs = Ok cs ->
  chunk_bytes cs = concat (map (fun g => match enc_chunk e g with Ok ch => chunk_bytes [ch] | _ => [] end) gs).
Proof.
  induction gs as [|g r IH]; intros cs H; cbn in H.
  - inversion H; reflexivity.
  - destruct (enc_chunk e g) as [ch| |] eqn:E; try discriminate.
    destruct (enc_chunks e r) as [cs'| |] eqn:R; try discriminate.
    inversion H; subst. cbn [map concat]. rewrite E, <- (IH cs' eq_refl).
    change (ch :: cs') with ([ch] ++ cs'). rewrite chunk_bytes_app. reflexivity.
Qed.

Lemma spread_all_bytes c gs cs :
  spread_all c gs = Ok cs -> chunk_bytes cs = concat (map (root_bytes c) gs).
Proof.
  unfold spread_all, root_bytes, spread_iter_one. destruct (c_dry c).
  - intros H. inversion H; subst. cbn. rewrite app_nil_r. f_equal. apply map_ext. intros g. cbn. rewrite app_nil_r. reflexivity.
  - destruct (is_default (c_enc c)).
    + intros H. inversion H; subst. rewrite chunk_bytes_ctext. clear H.
      induction gs as [|g r IH]; [reflexivity|]. cbn [flat_map map concat]. rewrite concat_app, chunk_bytes_ctext. f_equal. exact IH.
    + intros H. rewrite (enc_chunks_bytes _ _ _ H). f_equal. apply map_ext. intros g.
      destruct (enc_chunk (c_enc c) g); reflexivity.
Qed.

(* the iterator route and the bulk route of the default build agree whenever either accepts *)
Lemma iter_go_ok c : forall ts cs,
  output_iter_go c ts (Ok tt) = (cs, Ok tt) ->
  exists gs, grow_all c false ts = Ok gs /\ chunk_bytes cs = concat (map (root_bytes c) gs).
Proof.
  induction ts as [|t r IH]; intros cs H; cbn in H.
  - inversion H; subst. exists []. auto.
  - destruct (grow_one c false t) as [g| |] eqn:G; try (inversion H; fail).
    destruct (spread_iter_one c g) as [ws| |] eqn:W; try (inversion H; fail).
    destruct (output_iter_go c r (Ok tt)) as [ws' e] eqn:R. inversion H; subst.
    destruct (IH ws' eq_refl) as [gs [Hg Hb]].
    exists (g :: gs). cbn [grow_all]. rewrite G, Hg. split; [reflexivity|].
    rewrite chunk_bytes_app, Hb. cbn [map concat]. unfold root_bytes at 2. rewrite W. reflexivity.
Qed.

Lemma iter_go_of_grow c : forall ts gs,
  grow_all c false ts = Ok gs ->
  exists cs, output_iter_go c ts (Ok tt) = (cs, Ok tt).
Proof.
  induction ts as [|t r IH]; intros gs H; cbn in H |- *.
  - eexists. reflexivity.
  - destruct (grow_one c false t) as [g| |] eqn:G; try discriminate.
    destruct (grow_all c false r) as [gs'| |] eqn:R; try discriminate.
    destruct (spread_iter_one_ok c g) as [ws Hw]. rewrite Hw.
    destruct (IH gs' eq_refl) as [cs Hc]. rewrite Hc. eexists. reflexivity.
Qed.

Lemma iter_go_err_stays c e : forall ts, accepted (snd (output_iter_go c ts (Err e))) = false.
Proof.
  intros ts. destruct (output_iter_err c e ts) as [e' H]. rewrite H. reflexivity.
Qed.

Definition with_noiter (c : cfg) (b : bool) : cfg :=
  {| c_bf := c_bf c; c_enc := c_enc c; c_dry := c_dry c; c_exts := c_exts c; c_noiter := b |}.

Lemma grow_all_noiter c b fv ts : grow_all (with_noiter c b) fv ts = grow_all c fv ts.
Proof. induction ts as [|t r IH]; [reflexivity|]. cbn [grow_all]. rewrite IH. reflexivity. Qed.

(* what the bulk route returns *)
Lemma bulk_result c input :
  output_md (with_noiter c true) input =
  match gen_all input with
  | Ok ts => match grow_all c false ts with
             | Ok gs => match spread_all c gs with Ok ws => (ws, Ok tt) | Err e => ([], Err e) | Panic => ([], Panic) end
             | Err e => ([], Err e)
             | Panic => ([], Panic)
             end
  | Err e => ([], Err e)
  | Panic => ([], Panic)
  end.
Proof.
  unfold output_md, output_md_r. cbn [with_noiter c_noiter]. fold (gen_all input).
  destruct (gen_all input); try reflexivity. rewrite grow_all_noiter.
  destruct (grow_all c false a); reflexivity.
Qed.

Theorem routes_agree c input :
  accepted (snd (output_md (with_noiter c false) input)) = accepted (snd (output_md (with_noiter c true) input)) /\
  (accepted (snd (output_md (with_noiter c true) input)) = true ->
   chunk_bytes (fst (output_md (with_noiter c false) input)) = chunk_bytes (fst (output_md (with_noiter c true) input))).
Proof.
  rewrite bulk_result.
  unfold output_md, output_md_r. cbn [with_noiter c_noiter].
  unfold gen_all, gen_all_r, gen_stream_r.
  destruct (gr_end (gen_run_r input None)) as [[]|e|] eqn:E.
  - set (ts := gr_done (gen_run_r input None) ++ opt_list (gr_pending (gen_run_r input None))).
    assert (Hsame : forall l, output_iter_go (with_noiter c false) l (Ok tt) = output_iter_go c l (Ok tt)).
    { induction l as [|t r IH]; [reflexivity|]. cbn [output_iter_go]. rewrite IH. reflexivity. }
    rewrite Hsame.
    destruct (grow_all c false ts) as [gs|e|] eqn:G.
    + destruct (iter_go_of_grow c ts gs G) as [cs Hc]. rewrite Hc.
      destruct (spread_all_ok c gs) as [ws Hw]. rewrite Hw. cbn. split; [reflexivity|]. intros _.
      destruct (iter_go_ok c ts cs Hc) as [gs' [Hg Hb]]. rewrite G in Hg. inversion Hg; subst gs'.
      rewrite Hb. symmetry. apply spread_all_bytes. exact Hw.
    + destruct (output_iter_go c ts (Ok tt)) as [cs r] eqn:R. cbn. split; [|discriminate].
      destruct r as [[]| |]; try reflexivity. destruct (iter_go_ok c ts cs R) as [gs [Hg _]]. congruence.
    + exfalso. exact (grow_all_no_panic _ _ _ G).
  - cbn. split; [|discriminate].
    assert (Hsame : forall l, snd (output_iter_go (with_noiter c false) l (Err e)) = snd (output_iter_go c l (Err e))).
    { induction l as [|t r IH]; [reflexivity|]. cbn [output_iter_go].
      change (grow_one (with_noiter c false) false t) with (grow_one c false t).
      destruct (grow_one c false t) as [g| |]; try reflexivity.
      change (spread_iter_one (with_noiter c false) g) with (spread_iter_one c g).
      destruct (spread_iter_one c g); try reflexivity.
      destruct (output_iter_go (with_noiter c false) r (Err e)), (output_iter_go c r (Err e)). cbn in *. exact IH. }
    rewrite Hsame. apply iter_go_err_stays.
  - exfalso. exact (gen_run_r_no_panic _ _ E).
Qed.

(* the option sets C17 claims: text (any branch strings), JSON, dry-run + extensions *)
Definition claimed (c : cfg) : bool :=
  match c_enc c with
  | EncDefault => true
  | EncJSON => negb (c_dry c)
  | _ => false
  end.

Lemma concat_flat_map_writes gs :
  concat (flat_map text_writes gs) = concat (map (wasm_text true) gs).
Proof.
  induction gs as [|g r IH]; [reflexivity|].
  cbn [flat_map map concat]. rewrite concat_app, IH. reflexivity.
Qed.

Theorem wasm_vs_bulk c input :
  claimed c = true ->
  accepted (snd (wasm_output c input)) = accepted (snd (output_md (with_noiter c true) input)) /\
  (accepted (snd (wasm_output c input)) = true ->
   chunk_bytes (fst (wasm_output c input)) = chunk_bytes (fst (output_md (with_noiter c true) input))).
Proof.
  intros Hc. rewrite bulk_result. unfold wasm_output.
  destruct (gen_all input) as [ts|e|]; [|cbn; split; [reflexivity|discriminate]|cbn; split; [reflexivity|discriminate]].
  destruct (grow_all c false ts) as [gs|e|]; [|cbn; split; [reflexivity|discriminate]|cbn; split; [reflexivity|discriminate]].
  unfold claimed in Hc. unfold spread_all.
  destruct (c_enc c) eqn:E; try discriminate; cbn [is_default].
  - destruct (c_dry c).
    + cbn. split; [reflexivity|]. intros _. rewrite !app_nil_r. reflexivity.
    + cbn [fst snd accepted chunk_bytes]. split; [reflexivity|]. intros _.
      rewrite chunk_bytes_ctext, app_nil_r. symmetry. apply concat_flat_map_writes.
  - apply negb_true_iff in Hc. rewrite Hc.
    destruct (enc_chunks_ok EncJSON gs) as [cs Hcs]. rewrite Hcs. cbn. split; [reflexivity|reflexivity].
Qed.

(* C17: against both routes of the default build *)
Theorem wasm_equiv c input b :
  claimed c = true ->
  accepted (snd (wasm_output c input)) = accepted (snd (output_md (with_noiter c b) input)) /\
  (accepted (snd (wasm_output c input)) = true ->
   chunk_bytes (fst (wasm_output c input)) = chunk_bytes (fst (output_md (with_noiter c b) input))).
Proof.
  intros Hc. destruct (wasm_vs_bulk c input Hc) as [H1 H2].
  destruct b; [split; assumption|].
  destruct (routes_agree c input) as [R1 R2]. split.
  - rewrite H1, R1. reflexivity.
  - intros Ha. rewrite (H2 Ha). symmetry. apply R2. rewrite <- H1. exact Ha.
Qed.
