(* Proofs/MassiveText.v — the two layers of massive mode composed, down to the text written.

   Sequential layer (Proofs/SplitSchedule.v, Proofs/MassiveFront.v): on a heading-free spelling
   of a forest, whatever the interleaving of the generate workers' parse calls, the roots that
   come out of the blocks are the forest's tries.
   Concurrent layer (Proofs/PipeBlocks.v, Proofs/PipeComplete.v): whatever the schedule of the
   pipeline, when the call returns nil the sink's log is one complete block per item, in some
   order.

   Here the LTS's abstract log entries (item, line number) are interpreted as the lines of the
   rendering of the item's root; the interpreted log of a nil return is then the rendering of a
   permutation of the forest's tries, i.e. a permutation of the per-root blocks of what simple
   mode writes for the same bytes (Proofs/SpelledTop.v text_rule). *)
From Coq Require Import List Ascii Arith Bool Lia Permutation.
From GT Require Import Base.GoStr Md.Parser Tree.Tree Tree.Grower Spec.Spec Spec.Spelling Conc.Splitter Conc.Pipeline
  Proofs.SpelledTop Proofs.SplitSchedule Proofs.MassiveFront Proofs.PipeBlocks Proofs.PipeComplete.
Import ListNotations.

(* ---- a text as its lines, terminators kept ---- *)
Fixpoint split_keep (s cur : str) : list str :=
  match s with
  | [] => match cur with [] => [] | _ => [rev cur] end
  | c :: r => if Ascii.eqb c c_lf then rev (c :: cur) :: split_keep r [] else split_keep r (c :: cur)
  end.

Lemma concat_split_keep s : forall cur, concat (split_keep s cur) = rev cur ++ s.
Proof.
  induction s as [|c r IH]; intros cur; cbn [split_keep].
  - destruct cur as [|x cur']; [reflexivity|]. cbn [concat]. rewrite !app_nil_r. reflexivity.
  - destruct (Ascii.eqb c c_lf).
    + cbn [concat]. rewrite IH. cbn [rev app]. rewrite <- app_assoc. reflexivity.
    + rewrite IH. cbn [rev]. rewrite <- app_assoc. reflexivity.
Qed.

Definition lines_of (s : str) : list str := split_keep s [].

Lemma concat_lines_of s : concat (lines_of s) = s.
Proof. unfold lines_of. rewrite concat_split_keep. reflexivity. Qed.

(* ---- interpretation of the log ---- *)
Definition line_text (txt : item -> str) (e : item * nat) : str := nth (snd e) (lines_of (txt (fst e))) [].
Definition log_text (txt : item -> str) (log : list (item * nat)) : str := concat (map (line_text txt) log).

Lemma concat_nth_seq (l : list str) : forall k,
  concat (map (fun j => nth j l []) (seq k (List.length l - k))) = concat (skipn k l).
Proof.
  induction l as [|x l IH]; intros k.
  - destruct k; reflexivity.
  - destruct k as [|k].
    + cbn [List.length Nat.sub seq map nth concat skipn].
      f_equal. rewrite <- seq_shift, map_map. cbn [nth].
      specialize (IH 0). rewrite Nat.sub_0_r in IH. cbn [skipn] in IH. exact IH.
    + cbn [List.length Nat.sub skipn]. rewrite <- seq_shift, map_map. cbn [nth]. apply IH.
Qed.

Lemma block_text d txt i :
  d_lines d i = List.length (lines_of (txt i)) -> log_text txt (block d i) = txt i.
Proof.
  intros H. unfold log_text, block. rewrite map_map. unfold line_text. cbn [fst snd]. rewrite H.
  pose proof (concat_nth_seq (lines_of (txt i)) 0) as E. rewrite Nat.sub_0_r in E. cbn [skipn] in E.
  rewrite E. apply concat_lines_of.
Qed.

Lemma log_text_app txt a b : log_text txt (a ++ b) = log_text txt a ++ log_text txt b.
Proof. unfold log_text. rewrite map_app, concat_app. reflexivity. Qed.

Lemma blocks_text d txt :
  (forall i, d_lines d i = List.length (lines_of (txt i))) ->
  forall done, log_text txt (flat_map (block d) done) = concat (map txt done).
Proof.
  intros H done. induction done as [|i r IH]; [reflexivity|].
  cbn [flat_map map concat]. rewrite log_text_app, IH, (block_text d txt i (H i)). reflexivity.
Qed.

(* ---- from block indices to roots ---- *)
Definition root_list (r : bres) : list tree := match r with BRoot (Some t) => [t] | _ => [] end.
Definition has_root (r : bres) : bool := match r with BRoot (Some _) => true | _ => false end.

Lemma roots_filter (res : nat -> bres) l :
  flat_map (fun j => root_list (res j)) (filter (fun j => has_root (res j)) l) = flat_map (fun j => root_list (res j)) l.
Proof.
  induction l as [|j r IH]; [reflexivity|]. cbn [filter flat_map].
  destruct (res j) as [[t|]| |] eqn:E; cbn [has_root]; cbn [flat_map]; rewrite ?E; cbn [root_list app]; rewrite IH; reflexivity.
Qed.

Lemma render_roots bf (res : nat -> bres) done :
  render bf (flat_map (fun j => root_list (res j)) done)
  = concat (map (fun j => match res j with BRoot (Some t) => render_root bf t | _ => [] end) done).
Proof.
  unfold render. induction done as [|j r IH]; [reflexivity|].
  cbn [flat_map map concat]. rewrite map_app, concat_app, IH.
  destruct (res j) as [[t|]| |]; cbn [root_list map concat]; rewrite ?app_nil_r; reflexivity.
Qed.

Lemma flat_map_map_fn {A B C} (g : B -> list C) (h : A -> B) l :
  flat_map g (map h l) = flat_map (fun x => g (h x)) l.
Proof. induction l as [|x r IH]; [reflexivity|]. cbn [map flat_map]. rewrite IH. reflexivity. Qed.

(* THE COMPOSED STATEMENT.  [sched]: any interleaving of the generate workers' parse calls;
   [p]: a pipeline whose items are the indices of the blocks that produced a root and whose
   locking sink writes, for item j, the lines of the rendering of block j's root; [s]: any
   reachable state of it (any schedule of the goroutines) in which the call has returned nil. *)
Theorem massive_text_is_block_permutation bf sp f sched p s d :
  spells sp f -> sp_heading sp = false ->
  let bs := split_rows (map fst (sp_rows sp)) in
  interleave bs sched ->
  let res := fun j => block_result j (run_sched p0 sched) in
  let txt := fun j => match res j with BRoot (Some t) => render_root bf t | _ => [] end in
  p_items p = filter (fun j => has_root (res j)) (seq 0 (List.length bs)) ->
  sinkd p = Some d -> d_lock d = true ->
  (forall j, d_lines d j = List.length (lines_of (txt j))) ->
  reach p s -> st_main s = Some None ->
  exists f', Permutation f' (map trie_of f) /\ log_text txt (st_log s) = render bf f'.
Proof.
  intros Hs Hh bs Hil res txt Hitems Hsink Hlock Hlines Hreach Hnil.
  destruct (nil_return_log_complete p s d Hreach Hnil Hsink Hlock) as (done & Hlog & Hperm).
  exists (flat_map (fun j => root_list (res j)) done). split.
  - destruct (massive_front_end sp f Hs Hh) as (_ & _ & Hroots).
    destruct (Hroots sched Hil) as (Hall & _).
    fold bs in Hall. rewrite <- Hall.
    unfold roots_of, results_by_block. rewrite flat_map_map_fn.
    change (flat_map (fun j => root_list (res j)) done) with (flat_map (fun j => root_list (res j)) done).
    change (fun x : nat => match block_result x (run_sched p0 sched) with BRoot (Some t) => [t] | _ => [] end)
      with (fun j => root_list (res j)).
    rewrite <- (roots_filter res (seq 0 (List.length bs))).
    apply Permutation_flat_map. rewrite <- Hitems. exact Hperm.
  - rewrite Hlog, (blocks_text d txt Hlines done). rewrite render_roots. reflexivity.
Qed.

Print Assumptions massive_text_is_block_permutation.
