(* Proofs/PipeNoLeak.v — no goroutine is left behind once the call has returned.

   For parameters in which every send / receive / hand-over selects on the context
   (`safe_params`, the repaired Go code), a reachable state of Conc/Pipeline.v in which the
   call has returned is either quiescent (every goroutine has returned) or can take a step.
   Likewise a cancelled call that has not returned yet can always take a step. *)
From Coq Require Import List Arith Bool Lia.
Import ListNotations.
From GT Require Import Conc.Pipeline.

Ltac sproj :=
  cbn [with_stages st_pending st_src st_src_err_pending st_stages st_readers st_main
       st_first_err st_ucancel st_icancel st_ecancel st_log].

(* ------------------------------------------------------------------ *)
(* upd                                                                  *)
(* ------------------------------------------------------------------ *)

Lemma nth_error_upd_eq : forall (A : Type) (f : A -> A) (l : list A) (n : nat),
  nth_error (upd n f l) n = option_map f (nth_error l n).
Proof.
  intros A f l; induction l as [|x r IH]; intros [|n]; cbn; auto.
Qed.

Lemma nth_error_upd_neq : forall (A : Type) (f : A -> A) (l : list A) (n m : nat),
  n <> m -> nth_error (upd n f l) m = nth_error l m.
Proof.
  intros A f l; induction l as [|x r IH]; intros [|n] [|m] H; cbn; auto; try congruence.
Qed.

Lemma length_upd : forall (A : Type) (f : A -> A) (l : list A) (n : nat),
  length (upd n f l) = length l.
Proof.
  intros A f l; induction l as [|x r IH]; intros [|n]; cbn; auto.
Qed.

(* ------------------------------------------------------------------ *)
(* pool_change                                                          *)
(* ------------------------------------------------------------------ *)

Lemma pc_intro : forall (ws l1 l2 : list wst) (x y : wst),
  ws = l1 ++ x :: l2 -> pool_change ws (l1 ++ y :: l2) x y.
Proof.
  intros ws l1 l2 x y E. exists l1, l2. split; [exact E | reflexivity].
Qed.

Lemma pc_in_old : forall ws ws' x y, pool_change ws ws' x y -> In x ws.
Proof.
  intros ws ws' x y (l1 & l2 & E1 & _). rewrite E1. apply in_elt.
Qed.

Lemma pc_in_new : forall ws ws' x y w,
  pool_change ws ws' x y -> In w ws' -> w = y \/ In w ws.
Proof.
  intros ws ws' x y w (l1 & l2 & E1 & E2) Hin. subst ws ws'.
  apply in_app_or in Hin. destruct Hin as [Hin | [Hin | Hin]].
  - right. apply in_or_app. left. exact Hin.
  - left. symmetry. exact Hin.
  - right. apply in_or_app. right. right. exact Hin.
Qed.

(* ------------------------------------------------------------------ *)
(* the invariant                                                        *)
(* ------------------------------------------------------------------ *)

(* (I-crit) for one worker state WCrit i k of stage n *)
Definition crit_ok (p : params) (n : nat) (i : item) (k : nat) : Prop :=
  exists d, nth_error (p_stages p) n = Some d /\ is_last p n /\ d_lock d = true /\
            k <= d_lines d i.

(* (I-closed) and (I-crit) for stage n *)
Definition stage_ok (p : params) (n : nat) (t : sst) : Prop :=
  (s_closed t = true -> all_done (s_ws t)) /\
  (forall i k, In (WCrit i k) (s_ws t) -> crit_ok p n i k).

Definition stages_ok (p : params) (l : list sst) : Prop :=
  forall n t, nth_error l n = Some t -> stage_ok p n t.

Record inv (p : params) (s : state) : Prop := {
  inv_len : length (st_stages s) = length (p_stages p);
  inv_rlen : length (st_readers s) = S (length (p_stages p));
  inv_main : st_main s <> None ->
             st_icancel s = true /\ forall r, In r (st_readers s) -> r <> RWait;
  inv_stages : stages_ok p (st_stages s);
  inv_src : st_src s = SDone -> st_src_err_pending s = false
}.

Lemma stages_ok_upd : forall p l n f,
  stages_ok p l ->
  (forall t, nth_error l n = Some t -> stage_ok p n (f t)) ->
  stages_ok p (upd n f l).
Proof.
  intros p l n f Hl Hf m t' Hm.
  destruct (Nat.eq_dec n m) as [E | NE].
  - subst m. rewrite nth_error_upd_eq in Hm.
    destruct (nth_error l n) as [t|] eqn:Et; cbn [option_map] in Hm; [|discriminate].
    inversion Hm; subst t'. apply Hf. reflexivity.
  - rewrite nth_error_upd_neq in Hm by exact NE. apply Hl. exact Hm.
Qed.

Lemma stage_ok_change : forall p n t ws' x y,
  stage_ok p n t -> pool_change (s_ws t) ws' x y -> x <> WDone ->
  (forall i k, y = WCrit i k -> crit_ok p n i k) ->
  stage_ok p n (set_ws ws' t).
Proof.
  intros p n t ws' x y [Hc Hk] Hpc Hx Hy. split; cbn [set_ws s_closed s_ws].
  - intros Hcl. exfalso. apply Hx. apply (Hc Hcl). eapply pc_in_old. exact Hpc.
  - intros i k Hin. destruct (pc_in_new _ _ _ _ _ Hpc Hin) as [E | Hold].
    + apply Hy. symmetry. exact E.
    + apply Hk. exact Hold.
Qed.

Lemma stage_ok_ebuf : forall p n t e, stage_ok p n t -> stage_ok p n (set_ebuf e t).
Proof.
  intros p n t e [Hc Hk]. split; cbn [set_ebuf s_closed s_ws]; assumption.
Qed.

Lemma stage_ok_closed : forall p n t,
  stage_ok p n t -> all_done (s_ws t) -> stage_ok p n (set_closed t).
Proof.
  intros p n t [Hc Hk] Hd. split; cbn [set_closed s_closed s_ws]; auto.
Qed.

(* --- init --- *)

Lemma in_repeat_eq : forall (A : Type) (x y : A) (n : nat), In y (repeat x n) -> y = x.
Proof.
  intros A x y n H. apply repeat_spec in H. exact H.
Qed.

Lemma inv_init : forall p, inv p (init p).
Proof.
  intros p. constructor; cbn [init st_stages st_readers st_main st_icancel st_src st_src_err_pending].
  - apply map_length.
  - apply repeat_length.
  - intros H. exfalso. apply H. reflexivity.
  - intros n t Hn. apply nth_error_In in Hn. apply in_map_iff in Hn.
    destruct Hn as (d & Ed & _). subst t. split; cbn [init_stage s_closed s_ws].
    + discriminate.
    + intros i k Hin. apply in_repeat_eq in Hin. discriminate.
  - discriminate.
Qed.

(* --- preservation, field by field --- *)

Lemma step_len : forall p s s', step p s s' -> length (st_stages s') = length (st_stages s).
Proof.
  intros p s s' H. inversion H; subst; clear H; sproj; rewrite ?length_upd; reflexivity.
Qed.

Lemma step_rlen : forall p s s', step p s s' -> length (st_readers s') = length (st_readers s).
Proof.
  intros p s s' H. inversion H; subst; clear H; sproj; rewrite ?length_upd; try reflexivity;
    match goal with Hr : st_readers _ = _ |- _ => rewrite Hr; reflexivity end.
Qed.

Lemma no_wait_nth : forall (l : list rst) n,
  (forall r, In r l -> r <> RWait) -> nth_error l n = Some RWait -> False.
Proof.
  intros l n Hr Hn. apply (Hr RWait); [|reflexivity]. eapply nth_error_In. exact Hn.
Qed.

Lemma step_main : forall p s s', step p s s' ->
  (st_main s <> None -> st_icancel s = true /\ forall r, In r (st_readers s) -> r <> RWait) ->
  (st_main s' <> None -> st_icancel s' = true /\ forall r, In r (st_readers s') -> r <> RWait).
Proof.
  intros p s s' H Hmain. inversion H; subst; clear H; sproj; try exact Hmain.
  - (* src_err *)
    intros Hm. destruct (Hmain Hm) as [_ Hr]. exfalso. apply (Hr RWait); [|reflexivity].
    match goal with Hrs : st_readers _ = _ |- _ => rewrite Hrs end. left. reflexivity.
  - (* reader_take *)
    intros Hm. destruct (Hmain Hm) as [_ Hr]. exfalso. eapply no_wait_nth; eassumption.
  - (* reader_closed *)
    intros Hm. destruct (Hmain Hm) as [_ Hr]. exfalso. eapply no_wait_nth; eassumption.
  - (* reader0_closed *)
    intros Hm. destruct (Hmain Hm) as [_ Hr]. exfalso. apply (Hr RWait); [|reflexivity].
    match goal with Hrs : st_readers _ = _ |- _ => rewrite Hrs end. left. reflexivity.
  - (* reader_ctx *)
    intros Hm. destruct (Hmain Hm) as [_ Hr]. exfalso. eapply no_wait_nth; eassumption.
  - (* main_return *)
    intros _. split; [reflexivity | assumption].
Qed.

Lemma step_src_inv : forall p s s', step p s s' ->
  (st_src s = SDone -> st_src_err_pending s = false) ->
  (st_src s' = SDone -> st_src_err_pending s' = false).
Proof.
  intros p s s' H Hsrc. inversion H; subst; clear H; sproj; try exact Hsrc; try reflexivity.
  discriminate.
Qed.

(* one worker of stage n changes; the remaining goal is the obligation for a new WCrit *)
Ltac chg Hst :=
  apply stages_ok_upd; [exact Hst|];
  let t0 := fresh "t0" in let Ht0 := fresh "Ht0" in
  intros t0 Ht0;
  match goal with
  | Hn : nth_error (st_stages _) _ = Some _ |- _ =>
      rewrite Hn in Ht0; inversion Ht0; subst t0; clear Ht0
  end;
  eapply stage_ok_change;
    [apply Hst; eassumption | eassumption | discriminate | try (intros; discriminate)].

Lemma step_stages : forall p s s', step p s s' ->
  stages_ok p (st_stages s) -> stages_ok p (st_stages s').
Proof.
  intros p s s' H Hst. inversion H; subst; clear H; sproj; try exact Hst.
  - (* src_emit *) chg Hst.
  - (* work_ok *)
    chg Hst. intros i0 k0 E. destruct (S n =? length (p_stages p)); discriminate.
  - (* work_fail *) chg Hst.
  - (* err_send *)
    apply stages_ok_upd; [exact Hst|]. intros t0 Ht0.
    match goal with Hn : nth_error (st_stages _) _ = Some _ |- _ =>
      rewrite Hn in Ht0; inversion Ht0; subst t0; clear Ht0 end.
    apply stage_ok_ebuf. eapply stage_ok_change;
      [apply Hst; eassumption | eassumption | discriminate |].
    intros i0 k0 E. unfold after_err in E. destruct (d_exits_on_err d); discriminate.
  - (* err_drop *)
    chg Hst. intros i0 k0 E. unfold after_err in E. destruct (d_exits_on_err d); discriminate.
  - (* handoff *)
    apply stages_ok_upd.
    + chg Hst.
    + intros t0 Ht0. rewrite nth_error_upd_neq in Ht0 by lia.
      match goal with Hn : nth_error (st_stages _) (S _) = Some _ |- _ =>
        rewrite Hn in Ht0; inversion Ht0; subst t0; clear Ht0 end.
      eapply stage_ok_change;
        [apply Hst; eassumption | eassumption | discriminate | intros; discriminate].
  - (* handoff_abort *) chg Hst.
  - (* exit_closed *) chg Hst.
  - (* exit_ctx *) chg Hst.
  - (* lock *)
    chg Hst. intros i0 k0 E. inversion E; subst i0 k0.
    exists d. repeat split; try assumption. lia.
  - (* write *)
    chg Hst. intros i0 k0 E. inversion E; subst i0 k0.
    match goal with
    | Hn : nth_error (st_stages _) _ = Some ?t, Hpc : pool_change (s_ws ?t) _ _ _ |- _ =>
        destruct (Hst _ _ Hn) as [_ Hk]; destruct (Hk _ _ (pc_in_old _ _ _ _ Hpc))
          as (d' & Hd' & Hl' & Hlk' & _)
    end.
    match goal with Hd : nth_error (p_stages p) _ = Some d |- _ =>
      rewrite Hd in Hd'; inversion Hd'; subst d' end.
    exists d. repeat split; try assumption; lia.
  - (* unlock *) chg Hst.
  - (* closer *)
    apply stages_ok_upd; [exact Hst|]. intros t0 Ht0.
    match goal with Hn : nth_error (st_stages _) _ = Some _ |- _ =>
      rewrite Hn in Ht0; inversion Ht0; subst t0; clear Ht0 end.
    apply stage_ok_closed; [apply Hst; assumption | assumption].
  - (* reader_take *)
    apply stages_ok_upd; [exact Hst|]. intros t0 Ht0.
    apply stage_ok_ebuf. apply Hst. exact Ht0.
Qed.

Lemma inv_step : forall p s s', step p s s' -> inv p s -> inv p s'.
Proof.
  intros p s s' Hstep [Hlen Hrlen Hmain Hst Hsrc]. constructor.
  - rewrite (step_len _ _ _ Hstep). exact Hlen.
  - rewrite (step_rlen _ _ _ Hstep). exact Hrlen.
  - eapply step_main; eassumption.
  - eapply step_stages; eassumption.
  - eapply step_src_inv; eassumption.
Qed.

Theorem reach_inv : forall p s, reach p s -> inv p s.
Proof.
  intros p s H. induction H as [|s s' _ IH Hstep].
  - apply inv_init.
  - eapply inv_step; eassumption.
Qed.

(* the invariants in the form of the task statement *)
Corollary reach_main : forall p s, reach p s -> st_main s <> None ->
  st_icancel s = true /\ forall r, In r (st_readers s) -> r <> RWait.
Proof. intros p s H. exact (inv_main _ _ (reach_inv _ _ H)). Qed.

Corollary reach_closed : forall p s t, reach p s -> In t (st_stages s) ->
  s_closed t = true -> all_done (s_ws t).
Proof.
  intros p s t H Hin. apply In_nth_error in Hin. destruct Hin as [n Hn].
  exact (proj1 (inv_stages _ _ (reach_inv _ _ H) n t Hn)).
Qed.

Corollary reach_crit : forall p s n t i k, reach p s ->
  nth_error (st_stages s) n = Some t -> In (WCrit i k) (s_ws t) ->
  exists d, nth_error (p_stages p) n = Some d /\ is_last p n /\ d_lock d = true /\
            k <= d_lines d i.
Proof.
  intros p s n t i k H Hn Hin.
  exact (proj2 (inv_stages _ _ (reach_inv _ _ H) n t Hn) i k Hin).
Qed.

Corollary reach_src : forall p s, reach p s -> st_src s = SDone -> st_src_err_pending s = false.
Proof. intros p s H. exact (inv_src _ _ (reach_inv _ _ H)). Qed.

Corollary reach_lengths : forall p s, reach p s ->
  length (st_stages s) = length (p_stages p) /\
  length (st_readers s) = S (length (p_stages p)).
Proof.
  intros p s H. split; [exact (inv_len _ _ (reach_inv _ _ H)) | exact (inv_rlen _ _ (reach_inv _ _ H))].
Qed.

(* ------------------------------------------------------------------ *)
(* decidable case analysis over the finite lists                        *)
(* ------------------------------------------------------------------ *)

Lemma ws_dec : forall ws : list wst,
  all_done ws \/ exists l1 w l2, ws = l1 ++ w :: l2 /\ w <> WDone.
Proof.
  induction ws as [|w r IH].
  - left. intros w [].
  - assert (Hnd : w <> WDone -> all_done (w :: r) \/
                  exists l1 w0 l2, w :: r = l1 ++ w0 :: l2 /\ w0 <> WDone).
    { intros Hw. right. exists [], w, r. split; [reflexivity | exact Hw]. }
    destruct w; try (apply Hnd; discriminate).
    destruct IH as [Hall | (l1 & w & l2 & E & Hw)].
    + left. intros w [E | Hin]; [symmetry; exact E | apply Hall; exact Hin].
    + right. exists (WDone :: l1), w, l2. split; [rewrite E; reflexivity | exact Hw].
Qed.

Lemma crit_dec : forall ws : list wst,
  no_crit ws \/ exists i k l1 l2, ws = l1 ++ WCrit i k :: l2.
Proof.
  induction ws as [|w r IH].
  - left. intros i k [].
  - destruct IH as [Hno | (i & k & l1 & l2 & E)].
    + assert (Hnc : (forall i k, w <> WCrit i k) -> no_crit (w :: r) \/
                    exists i k l1 l2, w :: r = l1 ++ WCrit i k :: l2).
      { intros Hw. left. intros i k [E | Hin]; [exact (Hw i k E) | exact (Hno i k Hin)]. }
      destruct w; try (apply Hnc; intros; discriminate).
      right. exists i, k, [], r. reflexivity.
    + right. exists i, k, (w :: l1), l2. rewrite E. reflexivity.
Qed.

Lemma stages_dec : forall l : list sst,
  (forall t, In t l -> all_done (s_ws t) /\ s_closed t = true) \/
  exists n t, nth_error l n = Some t /\
    ((exists l1 w l2, s_ws t = l1 ++ w :: l2 /\ w <> WDone) \/
     (all_done (s_ws t) /\ s_closed t = false)).
Proof.
  induction l as [|t r IH].
  - left. intros t [].
  - destruct (ws_dec (s_ws t)) as [Hall | Hsome].
    + destruct (s_closed t) eqn:Ec.
      * destruct IH as [Hr | (n & t' & Hn & Hc)].
        -- left. intros t' [E | Hin]; [subst t'; split; assumption | apply Hr; exact Hin].
        -- right. exists (S n), t'. split; [exact Hn | exact Hc].
      * right. exists 0, t. split; [reflexivity|]. right. split; assumption.
    + right. exists 0, t. split; [reflexivity|]. left. exact Hsome.
Qed.

Lemma readers_dec : forall l : list rst,
  (forall r, In r l -> r <> RWait) \/ exists n, nth_error l n = Some RWait.
Proof.
  induction l as [|r l IH].
  - left. intros r [].
  - destruct r as [|e].
    + right. exists 0. reflexivity.
    + destruct IH as [Hall | (n & Hn)].
      * left. intros r [E | Hin]; [subst r; discriminate | apply Hall; exact Hin].
      * right. exists (S n). exact Hn.
Qed.

(* ------------------------------------------------------------------ *)
(* progress of a single goroutine under a done context                  *)
(* ------------------------------------------------------------------ *)

(* a worker inside the critical section writes its next line or releases the mutex *)
Lemma crit_can_step : forall p s n d t i k l1 l2,
  nth_error (p_stages p) n = Some d -> nth_error (st_stages s) n = Some t ->
  s_ws t = l1 ++ WCrit i k :: l2 -> k <= d_lines d i ->
  exists s', step p s s'.
Proof.
  intros p s n d t i k l1 l2 Hd Ht Hws Hk.
  destruct (Nat.eq_dec k (d_lines d i)) as [E | NE].
  - subst k. eexists. eapply step_unlock; [exact Hd | exact Ht |]. apply pc_intro. exact Hws.
  - eexists. eapply step_write with (i := i) (k := k); [exact Hd | exact Ht | lia |].
    apply pc_intro. exact Hws.
Qed.

Lemma worker_can_step : forall p s n d t l1 w l2,
  safe_params p -> stages_ok p (st_stages s) -> ctx_done s = true ->
  nth_error (p_stages p) n = Some d -> nth_error (st_stages s) n = Some t ->
  s_ws t = l1 ++ w :: l2 -> w <> WDone ->
  exists s', step p s s'.
Proof.
  intros p s n d t l1 w l2 (_ & _ & Hsafe) Hst Hctx Hd Ht Hws Hw.
  destruct (Hsafe d (nth_error_In _ _ Hd)) as (Herr & Hout & Hin).
  destruct w as [| i | i | i | i k |].
  - (* WIdle *)
    eexists. eapply step_exit_ctx; [exact Hd | exact Ht | exact Hin | exact Hctx |].
    apply pc_intro. exact Hws.
  - (* WHold *)
    destruct (d_fails d i) eqn:Hf.
    + eexists. eapply step_work_fail; [exact Hd | exact Ht | exact Hf |].
      apply pc_intro. exact Hws.
    + assert (Hok : (d_lock d = false \/ ~ is_last p n) -> exists s', step p s s').
      { intros Hor. eexists.
        eapply step_work_ok; [exact Hd | exact Ht | exact Hf | exact Hor | reflexivity |].
        apply pc_intro. exact Hws. }
      destruct (d_lock d) eqn:Hlock; [|apply Hok; left; reflexivity].
      destruct (Nat.eq_dec (S n) (length (p_stages p))) as [Hlast | Hnl];
        [|apply Hok; right; exact Hnl].
      destruct (crit_dec (s_ws t)) as [Hno | (i' & k' & l1' & l2' & Hws')].
      * eexists.
        eapply step_lock; [exact Hd | exact Ht | exact Hlast | exact Hlock | exact Hf | exact Hno |].
        apply pc_intro. exact Hws.
      * destruct (Hst n t Ht) as [_ Hk].
        destruct (Hk i' k') as (d' & Hd' & _ & _ & Hle).
        { rewrite Hws'. apply in_elt. }
        rewrite Hd in Hd'. inversion Hd'; subst d'.
        eapply crit_can_step; eassumption.
  - (* WErr *)
    destruct (s_ebuf t) eqn:Hbuf.
    + eexists. eapply step_err_drop; [exact Hd | exact Ht | exact Herr | exact Hctx |].
      apply pc_intro. exact Hws.
    + eexists. eapply step_err_send; [exact Hd | exact Ht | exact Hbuf |].
      apply pc_intro. exact Hws.
  - (* WOut *)
    eexists. eapply step_handoff_abort; [exact Hd | exact Ht | exact Hout | exact Hctx |].
    apply pc_intro. exact Hws.
  - (* WCrit *)
    destruct (Hst n t Ht) as [_ Hk].
    destruct (Hk i k) as (d' & Hd' & _ & _ & Hle).
    { rewrite Hws. apply in_elt. }
    rewrite Hd in Hd'. inversion Hd'; subst d'.
    eapply crit_can_step; eassumption.
  - (* WDone *)
    exfalso. apply Hw. reflexivity.
Qed.

(* ------------------------------------------------------------------ *)
(* after the call has returned                                          *)
(* ------------------------------------------------------------------ *)

Lemma returned_progress_or_quiescent : forall p s,
  safe_params p -> inv p s -> st_main s <> None ->
  (exists s', step p s s') \/ quiescent s.
Proof.
  intros p s Hsafe [Hlen _ Hmain Hst _] Hm.
  destruct (Hmain Hm) as [Hic Hr].
  assert (Hctx : ctx_done s = true).
  { unfold ctx_done. rewrite Hic. apply orb_true_r. }
  destruct (st_src s) eqn:Esrc.
  - (* the source is still running: it gives up on the done context *)
    left. eexists. apply step_src_abort; [exact Esrc | exact Hctx | |].
    + intros _. apply Hsafe.
    + intros _ _. apply Hsafe.
  - destruct (stages_dec (st_stages s)) as [Hall | (n & t & Hn & Hc)].
    + right. split; [exact Esrc|]. split; [exact Hall | exact Hr].
    + left.
      destruct (nth_error (p_stages p) n) as [d|] eqn:Hd.
      * destruct Hc as [(l1 & w & l2 & Hws & Hw) | [Hdone Hncl]].
        -- eapply worker_can_step; eassumption.
        -- eexists. eapply step_closer; eassumption.
      * exfalso. apply nth_error_None in Hd.
        assert (Hlt : n < length (st_stages s)).
        { apply nth_error_Some. rewrite Hn. discriminate. }
        lia.
Qed.

Theorem returned_not_stuck : forall p s,
  safe_params p -> reach p s -> st_main s <> None -> ~ quiescent s ->
  exists s', step p s s'.
Proof.
  intros p s Hsafe Hreach Hm Hnq.
  destruct (returned_progress_or_quiescent p s Hsafe (reach_inv _ _ Hreach) Hm) as [Hs | Hq].
  - exact Hs.
  - exfalso. exact (Hnq Hq).
Qed.

Corollary stuck_after_return_is_quiescent : forall p s,
  safe_params p -> reach p s -> st_main s <> None ->
  (forall s', ~ step p s s') -> quiescent s.
Proof.
  intros p s Hsafe Hreach Hm Hstuck.
  destruct (returned_progress_or_quiescent p s Hsafe (reach_inv _ _ Hreach) Hm)
    as [(s' & Hs) | Hq].
  - exfalso. exact (Hstuck s' Hs).
  - exact Hq.
Qed.

(* ------------------------------------------------------------------ *)
(* a cancelled call can always make progress towards returning          *)
(* ------------------------------------------------------------------ *)

Theorem cancelled_not_stuck : forall p s,
  safe_params p -> reach p s -> st_ucancel s = true -> st_main s = None ->
  exists s', step p s s'.
Proof.
  intros p s _ _ Hu Hm.
  destruct (readers_dec (st_readers s)) as [Hall | (n & Hn)].
  - eexists. apply step_main_return; assumption.
  - eexists. eapply step_reader_ctx; [exact Hn|].
    unfold ectx_done, ctx_done. rewrite Hu. cbn [orb]. apply orb_true_r.
Qed.

Print Assumptions reach_inv.
Print Assumptions returned_not_stuck.
Print Assumptions stuck_after_return_is_quiescent.
Print Assumptions cancelled_not_stuck.
