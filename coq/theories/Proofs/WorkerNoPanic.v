(* Proofs/WorkerNoPanic.v — the generate worker of massive mode (Conc/Splitter.v: worker)
   never reaches BPanic, whatever parse results it is fed: the cursor it keeps is always
   a valid position of the pending root, and so is every prefix of it, hence the
   `attach (firstn (h-2) cursor) nm t` of the PItem case never dangles.
   Consequently no schedule of the shared parser, and no block, makes a worker panic. *)
From Coq Require Import List Ascii Arith Bool Lia.
From GT Require Import Base.GoStr Md.Parser Tree.Tree Conc.Splitter Proofs.NoPanic.
Import ListNotations.

(* the invariant: the cursor designates a node of the pending root, and so does every
   prefix of the cursor *)
Definition wok (cur : option (tree * list nat)) : Prop :=
  match cur with
  | None => True
  | Some (t, cursor) =>
      get_at cursor t <> None /\ forall k, get_at (firstn k cursor) t <> None
  end.

(* validity of a position is inherited by its prefixes *)
Lemma valid_prefixes c t :
  get_at c t <> None -> forall k, get_at (firstn k c) t <> None.
Proof.
  intros Hc k. destruct (get_at c t) as [x|] eqn:G; [|congruence].
  destruct (get_at_firstn c t x k G) as [y Hy]. rewrite Hy. discriminate.
Qed.

Lemma wok_intro t c : get_at c t <> None -> wok (Some (t, c)).
Proof. intros Hc. split; [exact Hc|apply valid_prefixes; exact Hc]. Qed.

Lemma wok_none : wok None.
Proof. exact I. Qed.

Lemma wok_root nm : wok (Some (T nm [], [])).
Proof. apply wok_intro. cbn. discriminate. Qed.

(* attaching below a valid position succeeds and re-establishes the invariant *)
Lemma attach_wok pp nm t :
  get_at pp t <> None ->
  exists st', attach pp nm t = Some st' /\ wok (Some st').
Proof.
  intros Hp. destruct (get_at pp t) as [par|] eqn:G; [|congruence].
  destruct (attach_valid pp nm t par G) as [t' [c' [x [HA HG]]]].
  exists (t', c'). split; [exact HA|]. apply wok_intro. rewrite HG. discriminate.
Qed.

Theorem worker_no_panic : forall res cur, wok cur -> worker cur res <> BPanic.
Proof.
  induction res as [|r rest IH]; intros cur Hw.
  - cbn. discriminate.
  - destruct r as [| | |h nm]; cbn [worker].
    + apply IH. exact Hw.
    + discriminate.
    + discriminate.
    + destruct (h =? 1).
      * apply IH. apply wok_root.
      * destruct cur as [[t cursor]|]; [|discriminate].
        destruct (h - 2 <=? List.length cursor); [|discriminate].
        destruct Hw as [_ Hpre].
        destruct (attach_wok (firstn (h - 2) cursor) nm t (Hpre (h - 2))) as [st' [HA Hst]].
        rewrite HA. apply IH. exact Hst.
Qed.

Theorem block_result_no_panic : forall j tagged, block_result j tagged <> BPanic.
Proof. intros j tagged. unfold block_result. apply worker_no_panic. apply wok_none. Qed.

(* in particular: every parser state, every schedule, whatever the rows *)
Corollary run_sched_no_panic : forall st sched j, block_result j (run_sched st sched) <> BPanic.
Proof. intros st sched j. apply block_result_no_panic. Qed.

Corollary results_by_block_no_panic : forall n tagged, ~ In BPanic (results_by_block n tagged).
Proof.
  intros n tagged Hin. unfold results_by_block in Hin. apply in_map_iff in Hin.
  destruct Hin as [j [Hj _]]. exact (block_result_no_panic j tagged Hj).
Qed.

Theorem gen_block_no_panic : forall block, gen_block block <> BPanic.
Proof. intros block. unfold gen_block. apply worker_no_panic. apply wok_none. Qed.

Print Assumptions worker_no_panic.
Print Assumptions block_result_no_panic.
Print Assumptions gen_block_no_panic.
