(* Proofs/Walk.v — C05: a walk visits the rendered tree; node facts agree with the
   top-down specification. *)
From Coq Require Import List Ascii Arith Bool Lia.
From GT Require Import Base.GoStr Tree.Tree Tree.Grower Out.Spreader Out.Walker Spec.Spec
  Proofs.TreeInd Proofs.GrowRender Proofs.Paths.
Import ListNotations.

(* all names of a tree are single valid path elements *)
Fixpoint names_ok (t : tree) {struct t} : Prop :=
  match t with
  | T n ks => elem_ok n = true /\
              (fix all (l : list tree) : Prop := match l with [] => True | k :: r => names_ok k /\ all r end) ks
  end.
Fixpoint all_names_ok (l : list tree) : Prop :=
  match l with [] => True | k :: r => names_ok k /\ all_names_ok r end.

Lemma names_ok_eq n ks : names_ok (T n ks) <-> elem_ok n = true /\ all_names_ok ks.
Proof.
  cbn [names_ok].
  assert (E : (fix all (l : list tree) : Prop := match l with [] => True | k :: r => names_ok k /\ all r end) ks = all_names_ok ks).
  { induction ks as [|k r IH]; [reflexivity|]. cbn [all_names_ok]. rewrite <- IH. reflexivity. }
  rewrite E. tauto.
Qed.

(* named inner loops of the specification *)
Fixpoint sv_kids (bf : bfmt) (prefix ppath : str) (d : nat) (l : list tree) : list visit :=
  match l with
  | [] => []
  | k :: r => sv_sub bf prefix ppath d (is_nil r) k ++ sv_kids bf prefix ppath d r
  end.

Lemma sv_sub_eq bf prefix ppath d il n ks :
  sv_sub bf prefix ppath d il (T n ks) =
  {| v_name := n; v_branch := prefix ++ (if il then last_d bf else mid_d bf);
     v_row := (prefix ++ (if il then last_d bf else mid_d bf)) ++ [c_sp] ++ n; v_level := d;
     v_path := ppath ++ [c_slash] ++ n; v_haschild := negb (is_nil ks) |} ::
  sv_kids bf (prefix ++ (if il then last_i bf else mid_i bf)) (ppath ++ [c_slash] ++ n) (S d) ks.
Proof.
  cbn [sv_sub]. f_equal.
  induction ks as [|k r IH]; cbn [sv_kids]; [reflexivity|]. f_equal. exact IH.
Qed.

Lemma sv_root_eq bf n ks :
  sv_root bf (T n ks) =
  {| v_name := n; v_branch := []; v_row := n; v_level := 1; v_path := n; v_haschild := negb (is_nil ks) |} ::
  sv_kids bf [] n 2 ks.
Proof.
  cbn [sv_root]. f_equal.
  induction ks as [|k r IH]; cbn [sv_kids]; [reflexivity|]. f_equal. exact IH.
Qed.

Definition vis_d (d : nat) (g : gtree) : list visit :=
  map (fun dg => visit_of (fst dg) (snd dg)) (gpre d g).

Lemma vis_d_eq d n b p ks :
  vis_d d (G n b p ks) = visit_of d (G n b p ks) :: flat_map (vis_d (S d)) ks.
Proof.
  unfold vis_d. rewrite gpre_eq. cbn [map fst snd]. f_equal.
  induction ks as [|k r IH]; [reflexivity|]. cbn [flat_map]. rewrite map_app. f_equal. exact IH.
Qed.

(* the path accumulated bottom-up by the grower *)
Lemma climb_path bf : forall anc br es,
  anc <> [] ->
  Forall (fun e => elem_ok e = true) (map fst anc) -> es <> [] -> Forall (fun e => elem_ok e = true) es ->
  snd (climb bf anc br (join es)) = join (rev (map fst anc) ++ es).
Proof.
  induction anc as [|a anc IH]; intros br es Hne HF Hes HFe; [congruence|].
  destruct a as [an al]. cbn [map fst] in HF. inversion HF as [|? ? Ha Hanc]; subst.
  destruct anc as [|a2 anc'].
  - cbn [climb snd map rev app]. apply path_join_cons; assumption.
  - change (climb bf ((an, al) :: a2 :: anc') br (join es))
      with (climb bf (a2 :: anc') ((if al then last_i bf else mid_i bf) ++ br) (path_join [an; join es])).
    rewrite path_join_cons by assumption.
    rewrite (IH _ (an :: es)); [|discriminate|exact Hanc|discriminate|constructor; assumption].
    cbn [map fst rev]. rewrite <- !app_assoc. reflexivity.
Qed.

Lemma grow_sub_visits bf : forall t a anc il,
  names_ok t -> Forall (fun e => elem_ok e = true) (map fst (a :: anc)) ->
  vis_d (List.length (a :: anc) + 1) (grow_node bf (a :: anc) il t) =
  sv_sub bf (prefix_of bf (a :: anc)) (join (rev (map fst (a :: anc)))) (List.length (a :: anc) + 1) il t.
Proof.
  induction t as [n ks IH] using tree_ind'; intros a anc il Hn HF.
  destruct (proj1 (names_ok_eq _ _) Hn) as [Hname Hks].
  rewrite grow_node_eq, vis_d_eq, sv_sub_eq.
  assert (Hd : List.length (a :: anc) + 1 =? 1 = false) by (apply Nat.eqb_neq; cbn; lia).
  f_equal.
  - unfold visit_of. cbn [gname gbranch gpath gkids]. rewrite Hd.
    unfold node_bp. rewrite climb_branch.
    rewrite (path_join_single n Hname).
    change n with (join [n]) at 3.
    rewrite (climb_path bf (a :: anc) _ [n]); [|discriminate|exact HF|discriminate|constructor; [exact Hname|constructor]].
    assert (Hl : rev (map fst (a :: anc)) <> []).
    { intros X. apply (f_equal (@List.length str)) in X. rewrite rev_length in X. cbn in X. lia. }
    rewrite (join_snoc (rev (map fst (a :: anc))) n Hl).
    f_equal. destruct ks; reflexivity.
  - rewrite <- (prefix_of_cons bf n il a anc).
    assert (Hpath : join (rev (map fst (a :: anc))) ++ [c_slash] ++ n = join (rev (map fst ((n, il) :: a :: anc)))).
    { assert (Hl : rev (map fst (a :: anc)) <> []).
      { intros X. apply (f_equal (@List.length str)) in X. rewrite rev_length in X. cbn in X. lia. }
      change (map fst ((n, il) :: a :: anc)) with (n :: map fst (a :: anc)).
      change (rev (n :: map fst (a :: anc))) with (rev (map fst (a :: anc)) ++ [n]).
      rewrite (join_snoc _ n Hl). reflexivity. }
    rewrite Hpath.
    replace (S (List.length (a :: anc) + 1)) with (List.length ((n, il) :: a :: anc) + 1) by (cbn; lia).
    assert (HF' : Forall (fun e => elem_ok e = true) (map fst ((n, il) :: a :: anc))) by (constructor; assumption).
    clear Hn Hpath. induction ks as [|k r IHr]; [reflexivity|].
    inversion IH as [|? ? Hk Hr]; subst. destruct Hks as [Hkn Hrn].
    cbn [grow_kids flat_map sv_kids]. rewrite (Hk (n, il) (a :: anc) (is_nil r) Hkn HF'). f_equal. apply IHr; [exact Hr|exact Hrn].
Qed.

Theorem grow_root_visits bf t : names_ok t -> visits_of [grow_root bf t] = sv_root bf t.
Proof.
  intros Hn. destruct t as [n ks]. destruct (proj1 (names_ok_eq _ _) Hn) as [Hname Hks].
  unfold visits_of. cbn [flat_map]. rewrite app_nil_r. unfold grow_root.
  change (map (fun dg => visit_of (fst dg) (snd dg)) (gpre 1 (grow_node bf [] false (T n ks))))
    with (vis_d 1 (grow_node bf [] false (T n ks))).
  rewrite grow_node_eq, vis_d_eq, sv_root_eq. f_equal.
  - unfold visit_of. cbn. destruct ks; reflexivity.
  - clear Hn. induction ks as [|k r IH]; [reflexivity|]. destruct Hks as [Hk Hr].
    cbn [grow_kids flat_map sv_kids].
    pose proof (grow_sub_visits bf k (n, false) [] (is_nil r) Hk) as H.
    cbn [List.length Nat.add map fst rev app] in H. rewrite H by (constructor; [exact Hname|constructor]).
    f_equal. apply IH. exact Hr.
Qed.

Theorem visits_forest bf ts : all_names_ok ts ->
  visits_of (map (grow_root bf) ts) = spec_visits bf ts.
Proof.
  induction ts as [|t r IH]; intros H; [reflexivity|]. destruct H as [Ht Hr].
  unfold visits_of, spec_visits in *. cbn [map flat_map].
  rewrite <- (grow_root_visits bf t Ht). unfold visits_of. cbn [flat_map]. rewrite app_nil_r.
  f_equal. apply IH. exact Hr.
Qed.

(* Row is the corresponding line of the text output, for every tree and all names *)
Theorem rows_are_lines g :
  text_of g = concat (map (fun v => v_row v ++ [c_lf]) (visits_of [g])).
Proof.
  unfold text_of, text_writes, visits_of. cbn [flat_map]. rewrite app_nil_r, map_map. f_equal.
  apply map_ext. intros [d x]. unfold line_of, visit_of. cbn [fst snd v_row].
  destruct (d =? 1); rewrite <- ?app_assoc; reflexivity.
Qed.

(* Row = Branch + " " + Name (Name alone for a root), Level = depth, HasChild = has children *)
Theorem visit_facts d g :
  v_name (visit_of d g) = gname g /\ v_level (visit_of d g) = d /\
  v_haschild (visit_of d g) = negb (is_nil (gkids g)) /\
  v_row (visit_of d g) = (if d =? 1 then gname g else v_branch (visit_of d g) ++ [c_sp] ++ gname g).
Proof. unfold visit_of. cbn. auto. Qed.

(* the callback is an arbitrary oracle: the walk stops at its first error and returns it *)
Fixpoint first_fail (cb : nat -> bool) (i n : nat) : option nat :=
  match n with
  | 0 => None
  | S m => if cb i then Some i else first_fail cb (S i) m
  end.

Lemma walk_go_spec cb : forall vs i,
  walk_go cb i vs =
  match first_fail cb i (List.length vs) with
  | Some k => (firstn (S (k - i)) vs, Err (ECallback k))
  | None => (vs, Ok tt)
  end.
Proof.
  induction vs as [|v r IH]; intros i; [reflexivity|].
  cbn [walk_go List.length first_fail]. destruct (cb i) eqn:C.
  - rewrite Nat.sub_diag. reflexivity.
  - rewrite IH. destruct (first_fail cb (S i) (List.length r)) as [k|] eqn:F; [|reflexivity].
    assert (Hk : S i <= k).
    { clear -F. revert i F. generalize (List.length r) as n. induction n as [|n IHn]; intros i F; cbn in F; [discriminate|].
      destruct (cb (S i)); [inversion F; lia|]. specialize (IHn (S i) F). lia. }
    replace (S (k - i)) with (S (S (k - S i))) by lia. reflexivity.
Qed.

Theorem walk_prefix cb gs :
  walk cb gs =
  match first_fail cb 0 (List.length (visits_of gs)) with
  | Some k => (firstn (S k) (visits_of gs), Err (ECallback k))
  | None => (visits_of gs, Ok tt)
  end.
Proof.
  unfold walk. rewrite walk_go_spec.
  destruct (first_fail cb 0 (List.length (visits_of gs))); [rewrite Nat.sub_0_r|]; reflexivity.
Qed.
