(* Proofs/SpelledTop.v — the item-level theorems instantiated on the notation family:
   every well-formed spelling of a forest (Spec/Spelling.v), down to the bytes. *)
From Coq Require Import List Ascii Arith Bool Lia.
From GT Require Import Base.GoStr Md.Parser Tree.Tree Tree.Gen Tree.Grower Api.Simple Fs.FsModel Api.Programmable
  Spec.Spec Spec.Classify Spec.Spelling
  Proofs.GenItems Proofs.Spelled Proofs.OutputText Proofs.Programmable.
Import ListNotations.

(* a spelling of the forest f as bytes: unit, heading style, rows with per-row CRLF flag
   (blank rows anywhere), final newline or not *)
Record spelling := {
  sp_unit : unit_t;
  sp_heading : bool;
  sp_rows : list (str * bool);
  sp_final_newline : bool
}.

Definition spells (sp : spelling) (f : list tree) : Prop :=
  Forall (item_ok (sp_heading sp)) (forest_items f) /\
  rows_of (sp_unit sp) (sp_heading sp) (forest_items f) (map fst (sp_rows sp)) /\
  Forall (fun rc => row_bytes_ok (fst rc)) (sp_rows sp) /\
  (sp_final_newline sp = false -> match rev (sp_rows sp) with (r, _) :: _ => r <> [] | [] => True end).

Definition bytes_of (sp : spelling) : str := unscan (sp_rows sp) (sp_final_newline sp).

Lemma forest_items_head f : match forest_items f with (d, _) :: _ => d = 1 | [] => True end.
Proof. destruct f as [|[n ks] r]; [exact I|]. reflexivity. Qed.

Lemma spells_parses sp f : spells sp f ->
  scan_lines (bytes_of sp) = (map fst (sp_rows sp), ScanEOF) /\
  exists st', parses p0 (map fst (sp_rows sp)) (forest_items f) st'.
Proof.
  intros [Hi [Hr [Hb Hf]]]. split.
  - apply scan_unscan; assumption.
  - eapply spelled_parses; eauto.
    + apply forest_items_nested.
    + intros _. apply forest_items_head.
Qed.

(* C01 at full strength *)
Theorem text_rule bf ni sp f : spells sp f ->
  exists ws, output_md (text_cfg bf ni) (bytes_of sp) = (ws, Ok tt) /\
             chunks_text ws = Some (render bf (map trie_of f)).
Proof.
  intros H. destruct (spells_parses sp f H) as [Hs [st' Hp]].
  eapply output_text_forest; eauto.
Qed.

(* C15 at full strength *)
Theorem spelling_independent sp1 sp2 f : spells sp1 f -> spells sp2 f ->
  (forall c, output_md c (bytes_of sp1) = output_md c (bytes_of sp2)) /\
  (forall c cb, walk_md c cb (bytes_of sp1) = walk_md c cb (bytes_of sp2)) /\
  (forall w c d, pstep w (PMdMkdir c d (bytes_of sp1)) = pstep w (PMdMkdir c d (bytes_of sp2))) /\
  (forall w c s d, pstep w (PMdVerify c s d (bytes_of sp1)) = pstep w (PMdVerify c s d (bytes_of sp2))).
Proof.
  intros H1 H2. destruct (spells_parses sp1 f H1) as [S1 [st1 P1]]. destruct (spells_parses sp2 f H2) as [S2 [st2 P2]].
  eapply same_items_same_results; eauto.
Qed.

(* C03 at full strength: any spelling of an Add-built tree *)
Theorem root_equals_markdown sp t : spells sp [t] -> nodup_sib t ->
  (forall c, c_dry c = false -> output_md c (bytes_of sp) = output_root c t) /\
  (forall c cb, c_dry c = false -> walk_md c cb (bytes_of sp) = walk_root (c_bf c) cb t) /\
  (forall w h c d, root_of w (Some h) = Ok t -> pstep w (PMdMkdir c d (bytes_of sp)) = pstep w (PMkdir (Some h) c d)) /\
  (forall w h c s d, root_of w (Some h) = Ok t -> pstep w (PMdVerify c s d (bytes_of sp)) = pstep w (PVerify (Some h) c s d)).
Proof.
  intros H Hn. destruct (spells_parses sp [t] H) as [Hs [st' Hp]]. repeat split; intros.
  - eapply output_root_is_output_md; eauto.
  - eapply walk_root_is_walk_md; eauto.
  - eapply mkdir_root_is_mkdir_md; eauto.
  - eapply verify_root_is_verify_md; eauto.
Qed.
