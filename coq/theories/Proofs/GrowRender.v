(* Proofs/GrowRender.v — link (iv) of C01: the bottom-up branch assembly of the grower
   followed by the text spreader equals the top-down reference renderer. *)
From Coq Require Import List Ascii Arith Bool Lia.
From GT Require Import Base.GoStr Tree.Tree Tree.Grower Out.Spreader Spec.Spec Proofs.TreeInd.
Import ListNotations.

Definition ind (bf : bfmt) (a : str * bool) : str := if snd a then last_i bf else mid_i bf.

(* the prefix contributed by the ancestors strictly below the root, top-down *)
Definition prefix_of (bf : bfmt) (anc : list (str * bool)) : str :=
  concat (rev (map (ind bf) (removelast anc))).

Lemma climb_branch bf anc : forall br p,
  fst (climb bf anc br p) = prefix_of bf anc ++ br.
Proof.
  unfold prefix_of.
  induction anc as [|a anc IH]; intros br p; [reflexivity|].
  destruct anc as [|a2 anc'].
  - destruct a as [rn rl]. reflexivity.
  - destruct a as [an al].
    change (climb bf ((an, al) :: a2 :: anc') br p)
      with (climb bf (a2 :: anc') ((if al then last_i bf else mid_i bf) ++ br) (path_join [an; p])).
    rewrite IH.
    change (removelast ((an, al) :: a2 :: anc')) with ((an, al) :: removelast (a2 :: anc')).
    cbn [map rev]. rewrite concat_app. cbn [concat ind snd]. rewrite app_nil_r, <- app_assoc. reflexivity.
Qed.

Lemma prefix_of_cons bf n il a anc :
  prefix_of bf ((n, il) :: a :: anc) = prefix_of bf (a :: anc) ++ (if il then last_i bf else mid_i bf).
Proof.
  unfold prefix_of.
  change (removelast ((n, il) :: a :: anc)) with ((n, il) :: removelast (a :: anc)).
  cbn [map rev]. rewrite concat_app. cbn. rewrite app_nil_r. reflexivity.
Qed.

(* named versions of the inner loops of the renderer *)
Fixpoint render_kids (bf : bfmt) (prefix : str) (l : list tree) : str :=
  match l with
  | [] => []
  | k :: r => render_sub bf prefix (is_nil r) k ++ render_kids bf prefix r
  end.

Lemma render_sub_eq bf prefix il n ks :
  render_sub bf prefix il (T n ks) =
  prefix ++ (if il then last_d bf else mid_d bf) ++ [c_sp] ++ n ++ [c_lf] ++
  render_kids bf (prefix ++ (if il then last_i bf else mid_i bf)) ks.
Proof.
  cbn [render_sub]. do 5 f_equal.
  induction ks as [|k r IH]; cbn; [reflexivity|]. f_equal. exact IH.
Qed.

Lemma render_root_eq bf n ks :
  render_root bf (T n ks) = n ++ [c_lf] ++ render_kids bf [] ks.
Proof.
  cbn [render_root]. do 2 f_equal.
  induction ks as [|k r IH]; cbn; [reflexivity|]. f_equal. exact IH.
Qed.

Definition lines_d (d : nat) (g : gtree) : str :=
  concat (map (fun dg => line_of (fst dg) (snd dg)) (gpre d g)).

Lemma gpre_eq d n b p ks :
  gpre d (G n b p ks) = (d, G n b p ks) :: flat_map (gpre (S d)) ks.
Proof. reflexivity. Qed.

Lemma lines_d_eq d n b p ks :
  lines_d d (G n b p ks) = line_of d (G n b p ks) ++ concat (map (lines_d (S d)) ks).
Proof.
  unfold lines_d. rewrite gpre_eq. cbn [map concat fst snd]. f_equal.
  induction ks as [|k r IH]; [reflexivity|].
  cbn [flat_map map concat]. rewrite map_app, concat_app. f_equal. exact IH.
Qed.

(* a grown non-root subtree prints as the renderer says *)
Lemma grow_sub_render bf : forall t a anc il d,
  lines_d (S (S d)) (grow_node bf (a :: anc) il t) = render_sub bf (prefix_of bf (a :: anc)) il t.
Proof.
  induction t as [n ks IH] using tree_ind'; intros a anc il d.
  rewrite grow_node_eq, lines_d_eq, render_sub_eq.
  unfold line_of at 1. cbn [Nat.eqb gname gbranch].
  unfold node_bp. rewrite climb_branch. rewrite <- !app_assoc. do 5 f_equal.
  rewrite <- (prefix_of_cons bf n il a anc).
  assert (Hk : forall l, Forall (fun t => forall a anc il d,
        lines_d (S (S d)) (grow_node bf (a :: anc) il t) = render_sub bf (prefix_of bf (a :: anc)) il t) l ->
      forall pf', pf' = prefix_of bf ((n, il) :: a :: anc) ->
      concat (map (lines_d (S (S (S d)))) (grow_kids bf ((n, il) :: a :: anc) l)) = render_kids bf pf' l).
  { induction l as [|k r IHr]; intros HF pf' Hpf; [reflexivity|].
    inversion HF as [|? ? Hk Hr]; subst.
    cbn [grow_kids map concat render_kids]. rewrite Hk. f_equal. apply IHr; auto. }
  apply Hk; auto.
Qed.

Theorem grow_root_render bf t : text_of (grow_root bf t) = render_root bf t.
Proof.
  destruct t as [n ks]. unfold text_of, text_writes, grow_root.
  change (concat (map (fun dg => line_of (fst dg) (snd dg)) (gpre 1 (grow_node bf [] false (T n ks)))))
    with (lines_d 1 (grow_node bf [] false (T n ks))).
  rewrite grow_node_eq, lines_d_eq, render_root_eq.
  unfold line_of at 1. cbn [Nat.eqb gname]. rewrite <- app_assoc. do 2 f_equal.
  induction ks as [|k r IH]; [reflexivity|].
  cbn [grow_kids map concat render_kids].
  rewrite (grow_sub_render bf k (n, false) [] (is_nil r) 0). f_equal. exact IH.
Qed.

Theorem grow_render_forest bf ts :
  concat (map (fun t => text_of (grow_root bf t)) ts) = render bf ts.
Proof.
  unfold render. f_equal. apply map_ext. intros t. apply grow_root_render.
Qed.
