(* Proofs/Faults.v — C14: reader and writer failures are reported. *)
From Coq Require Import List Ascii Arith Bool Lia.
From GT Require Import Base.GoStr Md.Parser Tree.Tree Tree.Gen Tree.Grower Out.Formatted
  Api.Simple Api.Programmable Api.Faults Proofs.NoPanic.
Import ListNotations.

(* the writer model: success means every byte of every write was accepted *)
Lemma write_all_ok : forall cs b acc,
  write_all b cs = (acc, true) ->
  acc = chunk_bytes cs /\ List.length (chunk_bytes cs) <= b /\ (forall e f, ~ In (CEnc e f) cs).
Proof.
  induction cs as [|[s|e f] r IH]; intros b acc H; cbn in H.
  - inversion H; subst. cbn. split; [reflexivity|]. split; [lia|]. intros e f [].
  - destruct (List.length s <=? b) eqn:L; [|inversion H].
    destruct (write_all (b - List.length s) r) as [a ok] eqn:W. inversion H; subst.
    destruct (IH _ _ W) as [H1 [H2 H3]]. apply Nat.leb_le in L.
    cbn [chunk_bytes]. rewrite app_length. split; [rewrite H1; reflexivity|]. split; [lia|].
    intros e f [Hin|Hin]; [discriminate|]. exact (H3 e f Hin).
  - inversion H.
Qed.

Lemma write_all_fail_short : forall cs b acc,
  write_all b cs = (acc, false) -> (forall e f, ~ In (CEnc e f) cs) -> List.length acc <= b /\ b < List.length (chunk_bytes cs).
Proof.
  induction cs as [|[s|e f] r IH]; intros b acc H Hn; cbn in H.
  - inversion H.
  - destruct (List.length s <=? b) eqn:L.
    + destruct (write_all (b - List.length s) r) as [a ok] eqn:W. inversion H; subst.
      apply Nat.leb_le in L.
      destruct (IH _ _ W) as [H1 H2]; [intros e f Hin; apply (Hn e f); right; exact Hin|].
      cbn [chunk_bytes]. rewrite !app_length. lia.
    + inversion H; subst. apply Nat.leb_gt in L. cbn [chunk_bytes]. rewrite app_length, firstn_length. lia.
  - exfalso. apply (Hn e f). left. reflexivity.
Qed.

(* nil is returned only if the writer accepted every byte of the output *)
Theorem writer_failure_reported c input k b acc :
  output_faulty c input k (Some b) = (acc, Ok tt) ->
  acc = chunk_bytes (fst (output_md_r c input k)) /\ List.length acc <= b.
Proof.
  unfold output_faulty. destruct (output_md_r c input k) as [cs r] eqn:E.
  destruct (write_all b cs) as [a ok] eqn:W. intros H. destruct ok; [|inversion H].
  inversion H; subst. destruct (write_all_ok _ _ _ W) as [H1 [H2 _]]. cbn [fst]. split; [exact H1|]. rewrite H1. exact H2.
Qed.

Theorem writer_failure_reported_root c t b acc :
  output_root_faulty c t b = (acc, Ok tt) ->
  acc = chunk_bytes (fst (output_root c t)) /\ List.length acc <= b.
Proof.
  unfold output_root_faulty. destruct (output_root c t) as [cs r] eqn:E.
  destruct (write_all b cs) as [a ok] eqn:W. intros H. destruct ok; [|inversion H].
  inversion H; subst. destruct (write_all_ok _ _ _ W) as [H1 [H2 _]]. cbn [fst]. split; [exact H1|]. rewrite H1. exact H2.
Qed.

(* a budget below the size of the output is always reported (text / JSON / dry-run: no opaque encoder) *)
Theorem short_budget_is_error c input k b :
  (forall e f, ~ In (CEnc e f) (fst (output_md_r c input k))) ->
  b < List.length (chunk_bytes (fst (output_md_r c input k))) ->
  exists er, snd (output_faulty c input k (Some b)) = Err er.
Proof.
  intros Hn Hb. unfold output_faulty. destruct (output_md_r c input k) as [cs r] eqn:E. cbn [fst] in *.
  destruct (write_all b cs) as [a ok] eqn:W. destruct ok.
  - destruct (write_all_ok _ _ _ W) as [_ [H2 _]]. lia.
  - eexists. reflexivity.
Qed.

(* a failing reader: the call never returns nil ... *)
Theorem reader_failure_reported c input n budget :
  exists er, snd (output_faulty c input (Some n) budget) = Err er.
Proof.
  unfold output_faulty.
  destruct (scan_lines_r input (Some n)) as [rows e] eqn:Hs.
  assert (He : e <> ScanEOF).
  { unfold scan_lines_r in Hs. destruct (scan_go (firstn n input) []) as [ls e0]. inversion Hs; subst.
    destruct e0; discriminate. }
  destruct (scan_failure_reported c input (Some n) rows e Hs He) as [er Her].
  destruct (output_md_r c input (Some n)) as [cs r]. cbn [snd] in Her. subst r.
  destruct budget as [b|]; [|eexists; reflexivity].
  destruct (write_all b cs) as [a ok]. destruct ok; eexists; reflexivity.
Qed.

(* ... and it is the reader's error unless something delivered before the failure is itself rejected *)
Theorem reader_error_is_returned c input n rows s :
  c_noiter c = true ->
  scan_lines_r input (Some n) = (rows, ScanReaderErr) ->
  gen_loop g0 rows = SCont s ->
  snd (output_md_r c input (Some n)) = Err EReader.
Proof.
  intros Hc Hs Hl. unfold output_md_r, gen_all_r, gen_run_r. rewrite Hc, Hs, Hl. reflexivity.
Qed.
