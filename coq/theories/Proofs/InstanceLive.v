(* Proofs/InstanceLive.v — the instances built from the GENERATED inventory satisfy the
   liveness side-condition of Proofs/PipeProgress.v (at least one stage, every pool has at least
   one worker), so `every_maximal_run_returns` applies to every massive entry point. *)
From Coq Require Import List String Bool Arith Lia.
From GT Require Import Conc.Pipeline Conc.Instance Conc.InstanceCheck Proofs.PipeProgress.
Import ListNotations.

Definition live_params_b (p : params) : bool :=
  match p_stages p with [] => false | _ => true end && forallb (fun d => Nat.ltb 0 (d_workers d)) (p_stages p).

Lemma live_params_b_sound p : live_params_b p = true -> live_params p.
Proof.
  unfold live_params_b, live_params. intros H. apply andb_true_iff in H as [H1 H2]. split.
  - destruct (p_stages p); [discriminate|]. discriminate.
  - intros d Hd. rewrite forallb_forall in H2. specialize (H2 d Hd). apply Nat.ltb_lt in H2. exact H2.
Qed.

Definition instance_live (items : list item) (src_err cancel : bool) (f1 f2 f3 : item -> bool) (lines : item -> nat) : bool :=
  forallb (fun k => forallb (fun nop =>
    match md_params k nop items src_err cancel f1 f2 f3 lines, root_params k nop cancel f2 f3 lines with
    | Some p1, Some p2 => live_params_b p1 && live_params_b p2
    | _, _ => false
    end) [false; true]) all_sinks.

Theorem instances_live : forall items src_err cancel f1 f2 f3 lines,
  instance_live items src_err cancel f1 f2 f3 lines = true.
Proof. intros. vm_compute. reflexivity. Qed.

Corollary md_instance_live : forall k nop items src_err cancel f1 f2 f3 lines p,
  md_params k nop items src_err cancel f1 f2 f3 lines = Some p -> live_params p.
Proof.
  intros k nop items src_err cancel f1 f2 f3 lines p H. apply live_params_b_sound.
  pose proof (instances_live items src_err cancel f1 f2 f3 lines) as HI.
  unfold instance_live in HI. rewrite forallb_forall in HI.
  assert (Hk : In k all_sinks) by (destruct k; cbn; tauto).
  specialize (HI k Hk). rewrite forallb_forall in HI.
  assert (Hn : In nop [false; true]) by (destruct nop; cbn; tauto).
  specialize (HI nop Hn). rewrite H in HI.
  destruct (root_params k nop cancel f2 f3 lines); [|discriminate].
  apply andb_true_iff in HI as [HI _]. exact HI.
Qed.

Corollary root_instance_live : forall k nop cancel f2 f3 lines p,
  root_params k nop cancel f2 f3 lines = Some p -> live_params p.
Proof.
  intros k nop cancel f2 f3 lines p H. apply live_params_b_sound.
  pose proof (instances_live [] false cancel (fun _ => false) f2 f3 lines) as HI.
  unfold instance_live in HI. rewrite forallb_forall in HI.
  assert (Hk : In k all_sinks) by (destruct k; cbn; tauto).
  specialize (HI k Hk). rewrite forallb_forall in HI.
  assert (Hn : In nop [false; true]) by (destruct nop; cbn; tauto).
  specialize (HI nop Hn). rewrite H in HI.
  destruct (md_params k nop [] false cancel (fun _ => false) f2 f3 lines); [|discriminate].
  apply andb_true_iff in HI as [_ HI]. exact HI.
Qed.

(* the composed statement for the entry points of the current source: every maximal run of a
   From-Markdown massive call is finite and ends with the call returned and, if nothing more
   can happen, with every goroutine gone *)
Theorem md_call_returns_and_no_leak : forall k nop items src_err cancel f1 f2 f3 lines p l,
  md_params k nop items src_err cancel f1 f2 f3 lines = Some p ->
  PipeFinite.path p (init p) l -> (forall s', ~ step p (last l (init p)) s') ->
  List.length l <= PipeFinite.measure p (init p) /\ st_main (last l (init p)) <> None /\ quiescent (last l (init p)).
Proof.
  intros k nop items src_err cancel f1 f2 f3 lines p l H Hpath Hstuck.
  pose proof (md_instance_live _ _ _ _ _ _ _ _ _ _ H) as Hlive.
  pose proof (md_instance_safe _ _ _ _ _ _ _ _ _ _ H) as Hsafe.
  destruct (every_maximal_run_returns p (init p) l Hlive (reach_init p) Hpath Hstuck) as [Hlen Hret].
  split; [exact Hlen|]. split; [exact Hret|].
  apply (PipeNoLeak.stuck_after_return_is_quiescent p); auto.
  apply (path_reach p (init p) l Hpath (reach_init p)).
Qed.

Theorem root_call_returns_and_no_leak : forall k nop cancel f2 f3 lines p l,
  root_params k nop cancel f2 f3 lines = Some p ->
  PipeFinite.path p (init p) l -> (forall s', ~ step p (last l (init p)) s') ->
  List.length l <= PipeFinite.measure p (init p) /\ st_main (last l (init p)) <> None /\ quiescent (last l (init p)).
Proof.
  intros k nop cancel f2 f3 lines p l H Hpath Hstuck.
  pose proof (root_instance_live _ _ _ _ _ _ _ H) as Hlive.
  pose proof (root_instance_safe _ _ _ _ _ _ _ H) as Hsafe.
  destruct (every_maximal_run_returns p (init p) l Hlive (reach_init p) Hpath Hstuck) as [Hlen Hret].
  split; [exact Hlen|]. split; [exact Hret|].
  apply (PipeNoLeak.stuck_after_return_is_quiescent p); auto.
  apply (path_reach p (init p) l Hpath (reach_init p)).
Qed.
