(* Proofs/JsonRoundTrip.v — the JSON output of the encoder model (Out/Formatted.v)
   is decoded by the RFC 8259 subset decoder of Spec/JsonParse.v into the record tree
   it was produced from (null children and no children being the same thing). *)
From Coq Require Import List Ascii Arith Bool Lia.
From GT Require Import Base.GoStr Out.Formatted Spec.JsonParse Proofs.TreeInd.
Import ListNotations.

(* ================================================================== *)
(* Part 1: string literals                                             *)
(* ================================================================== *)

Lemma ch_b (c : ascii) : ch (b c) = c.
Proof. unfold ch, b. apply ascii_nat_embedding. Qed.

Lemma b_inj_const (c : ascii) (n : nat) : b c = n -> c = ch n.
Proof. intros <-. symmetry. apply ch_b. Qed.

(* what appendString emits for one byte below 0x80 *)
Definition esc1 (c : ascii) : str :=
  let n := b c in
  if (n =? 92) || (n =? 34) then [bs; c]
  else if n =? 8 then [bs; ch 98]
  else if n =? 12 then [bs; ch 102]
  else if n =? 10 then [bs; ch 110]
  else if n =? 13 then [bs; ch 114]
  else if n =? 9 then [bs; ch 116]
  else if (n <? 32) || (n =? 38) || (n =? 60) || (n =? 62) then u00 n
  else [c].

Lemma json_str_go_low k c r :
  (b c <? 128) = true ->
  json_str_go (S k) (c :: r) = esc1 c ++ json_str_go k r.
Proof. intros E. cbn [json_str_go]. rewrite E. reflexivity. Qed.

(* ---- per-byte facts about the decoder (sweeps over the 256 bytes) ---- *)

Lemma step_dq rest : str_step (dq :: rest) = Some (TEnd, rest).
Proof. reflexivity. Qed.

(* the escape of a byte below 0x80 decodes, in one lexical element, to that byte *)
Lemma step_esc1 c tail :
  (b c <? 128) = true -> str_step (esc1 c ++ tail) = Some (TBytes [c], tail).
Proof.
  destruct c as [[] [] [] [] [] [] [] []]; vm_compute; intros H;
    solve [discriminate H | reflexivity].
Qed.

Lemma esc1_len c : (1 <=? List.length (esc1 c)) = true.
Proof. destruct c as [[] [] [] [] [] [] [] []]; vm_compute; reflexivity. Qed.

(* a byte >= 0x80 is copied *)
Lemma step_high c tail :
  (128 <=? b c) = true -> str_step (c :: tail) = Some (TBytes [c], tail).
Proof.
  destruct c as [[] [] [] [] [] [] [] []]; vm_compute; intros H;
    solve [discriminate H | reflexivity].
Qed.

Lemma step_2028 tail :
  str_step ([bs; ch 117; ch 50; ch 48; ch 50; hexd (b (ch 168) mod 16)] ++ tail)
  = Some (TBytes [ch 226; ch 128; ch 168], tail).
Proof. vm_compute. reflexivity. Qed.

Lemma step_2029 tail :
  str_step ([bs; ch 117; ch 50; ch 48; ch 50; hexd (b (ch 169) mod 16)] ++ tail)
  = Some (TBytes [ch 226; ch 128; ch 169], tail).
Proof. vm_compute. reflexivity. Qed.

(* ---- parse_chars over chunks ---- *)

Lemma parse_chars_S f l :
  parse_chars (S f) l =
  match str_step l with
  | None => None
  | Some (TEnd, r) => Some ([], r)
  | Some (TBytes x, r) =>
      match parse_chars f r with
      | Some (s, rest) => Some (x ++ s, rest)
      | None => None
      end
  end.
Proof. reflexivity. Qed.

Definition hi (c : ascii) : Prop := (128 <=? b c) = true.

Lemma parse_chars_high c f tail s rest :
  hi c -> parse_chars f tail = Some (s, rest) ->
  parse_chars (S f) (c :: tail) = Some (c :: s, rest).
Proof.
  intros H E. rewrite parse_chars_S, (step_high _ _ H), E. reflexivity.
Qed.

(* ---- the multi-byte sequences of a valid UTF-8 string ---- *)

Ltac split_andb :=
  repeat match goal with
         | H : _ && _ = true |- _ => apply andb_prop in H; destruct H
         end.

Ltac hi_tac :=
  unfold hi, is_cont in *; split_andb;
  repeat match goal with
         | H : (_ <=? _) = true |- _ => apply Nat.leb_le in H
         | H : (_ =? _) = true |- _ => apply Nat.eqb_eq in H
         | H : (_ <? _) = false |- _ => apply Nat.ltb_ge in H
         end;
  apply Nat.leb_le; lia.

Ltac three Hv :=
  left;
  match goal with |- context [match ?r with [] => _ | _ => _ end] => 
    destruct r as [|? [|? ?]]; try discriminate end;
  apply andb_prop in Hv; destruct Hv as [Hc Hv]; rewrite Hc;
  do 3 eexists; (split; [reflexivity|]); repeat split; try assumption; hi_tac.
Ltac four Hv :=
  right;
  match goal with |- context [match ?r with [] => _ | _ => _ end] => 
    destruct r as [|? [|? [|? ?]]]; try discriminate end;
  apply andb_prop in Hv; destruct Hv as [Hc Hv]; rewrite Hc;
  do 4 eexists; (split; [reflexivity|]); repeat split; try assumption; hi_tac.

Lemma high_cases c r :
  (b c <? 128) = false -> utf8_valid (c :: r) = true ->
  hi c /\
  ((exists d r', r = d :: r' /\ rune_len (c :: r) = 2 /\ hi d /\ utf8_valid r' = true)
   \/ (exists d1 d2 r', r = d1 :: d2 :: r' /\ rune_len (c :: r) = 3 /\
         hi d1 /\ hi d2 /\ utf8_valid r' = true)
   \/ (exists d1 d2 d3 r', r = d1 :: d2 :: d3 :: r' /\ rune_len (c :: r) = 4 /\
         hi d1 /\ hi d2 /\ hi d3 /\ utf8_valid r' = true)).
Proof.
  intros E Hv. split; [hi_tac|].
  cbn [utf8_valid rune_len] in *. rewrite E in *.
  destruct ((194 <=? b c) && (b c <=? 223)) eqn:C1.
  { left. destruct r as [|d r']; [discriminate|].
    apply andb_prop in Hv. destruct Hv as [Hc Hv]. rewrite Hc.
    exists d, r'. repeat split; try assumption. hi_tac. }
  right.
  destruct (b c =? 224) eqn:C2; [three Hv|].
  destruct ((225 <=? b c) && (b c <=? 236) || (b c =? 238) || (b c =? 239)) eqn:C3; [three Hv|].
  destruct (b c =? 237) eqn:C4; [three Hv|].
  destruct (b c =? 240) eqn:C5; [four Hv|].
  destruct ((241 <=? b c) && (b c <=? 243)) eqn:C6; [four Hv|].
  destruct (b c =? 244) eqn:C7; [four Hv|].
  discriminate.
Qed.

(* ---- the string body ---- *)

Lemma json_str_go_parse :
  forall k s, List.length s <= k -> utf8_valid s = true ->
  forall fuel rest, List.length (json_str_go k s) < fuel ->
  parse_chars fuel (json_str_go k s ++ dq :: rest) = Some (s, rest).
Proof.
  induction k as [|k IH]; intros s Hk Hv fuel rest Hf.
  - destruct s; [|cbn in Hk; lia].
    destruct fuel; [cbn in Hf; lia|]. reflexivity.
  - destruct s as [|c r].
    { destruct fuel; [cbn in Hf; lia|]. reflexivity. }
    cbn [List.length] in Hk.
    destruct (b c <? 128) eqn:E.
    + rewrite (json_str_go_low _ _ _ E) in *.
      rewrite app_length in Hf. pose proof (esc1_len c) as HL. apply Nat.leb_le in HL.
      destruct fuel as [|f]; [lia|].
      rewrite <- app_assoc, parse_chars_S, (step_esc1 _ _ E).
      cbn [utf8_valid] in Hv. rewrite E in Hv.
      rewrite IH by (assumption || lia). reflexivity.
    + destruct (high_cases _ _ E Hv) as [Hc [H2|[H3|H4]]].
      * destruct H2 as (d & r' & -> & HR & Hd & Hv').
        cbn [List.length] in Hk.
        assert (EQ : json_str_go (S k) (c :: d :: r') = c :: d :: json_str_go k r').
        { cbn [json_str_go]. rewrite E, HR. destruct r'; reflexivity. }
        rewrite EQ in *. cbn [List.length] in Hf.
        destruct fuel as [|[|f]]; try lia.
        cbn [app].
        apply parse_chars_high; [assumption|].
        apply parse_chars_high; [assumption|].
        apply IH; (assumption || lia).
      * destruct H3 as (d1 & d2 & r' & -> & HR & Hd1 & Hd2 & Hv').
        cbn [List.length] in Hk.
        cbn [json_str_go] in *. rewrite E, HR in *.
        cbn [Nat.eqb andb firstn skipn] in *.
        destruct ((b c =? 226) && (b d1 =? 128) && ((b d2 =? 168) || (b d2 =? 169))) eqn:SP.
        -- apply andb_prop in SP. destruct SP as [SP S3].
           apply andb_prop in SP. destruct SP as [S1 S2].
           apply Nat.eqb_eq, b_inj_const in S1. apply Nat.eqb_eq, b_inj_const in S2.
           subst c d1.
           destruct fuel as [|f]; [lia|].
           apply orb_prop in S3.
           destruct S3 as [S3|S3]; apply Nat.eqb_eq, b_inj_const in S3; subst d2.
           ++ rewrite <- app_assoc, parse_chars_S, step_2028.
              rewrite app_length in Hf. cbn [List.length] in Hf.
              rewrite IH by (assumption || lia). reflexivity.
           ++ rewrite <- app_assoc, parse_chars_S, step_2029.
              rewrite app_length in Hf. cbn [List.length] in Hf.
              rewrite IH by (assumption || lia). reflexivity.
        -- cbn [List.length app] in *.
           destruct fuel as [|[|[|f]]]; try lia.
           do 3 (apply parse_chars_high; [assumption|]).
           apply IH; (assumption || lia).
      * destruct H4 as (d1 & d2 & d3 & r' & -> & HR & Hd1 & Hd2 & Hd3 & Hv').
        cbn [List.length] in Hk.
        cbn [json_str_go] in *. rewrite E, HR in *.
        cbn [Nat.eqb andb firstn skipn] in *.
        cbn [List.length app] in *.
        destruct fuel as [|[|[|[|f]]]]; try lia.
        do 4 (apply parse_chars_high; [assumption|]).
        apply IH; (assumption || lia).
Qed.

Theorem json_string_roundtrip :
  forall s rest, utf8_valid s = true ->
  parse_string (json_str s ++ rest) = Some (s, rest).
Proof.
  intros s rest Hv. unfold json_str, parse_string.
  cbn [app]. change (b dq =? 34) with true. cbv iota.
  rewrite <- app_assoc. cbn [app].
  apply json_str_go_parse; [apply Nat.le_refl|assumption|].
  rewrite app_length. cbn [List.length]. lia.
Qed.

(* the same with the decoder's fuel made explicit: any fuel above the length of the
   encoded body is enough *)
Theorem json_string_roundtrip_fuel :
  forall s rest fuel, utf8_valid s = true ->
  List.length (json_str_go (List.length s) s) < fuel ->
  parse_chars fuel (json_str_go (List.length s) s ++ dq :: rest) = Some (s, rest).
Proof. intros. apply json_str_go_parse; auto. Qed.

(* ================================================================== *)
(* Part 2: record trees                                                *)
(* ================================================================== *)

Fixpoint enc_tail (l : list fnode) : str :=
  match l with
  | [] => []
  | k :: r => [ch 44] ++ json_enc k ++ enc_tail r
  end.

Definition enc_kids (ks : list fnode) : str :=
  match ks with
  | [] => s_null
  | k0 :: r0 => [ch 91] ++ json_enc k0 ++ enc_tail r0 ++ [ch 93]
  end.

Lemma json_enc_eq n ks :
  json_enc (F n ks) = s_value ++ json_str n ++ s_children ++ enc_kids ks ++ [ch 125].
Proof.
  destruct ks; reflexivity.
Qed.

Lemma str_eqb_refl s : str_eqb s s = true.
Proof. induction s as [|c s IH]; [reflexivity|]. cbn [str_eqb]. rewrite Ascii.eqb_refl. exact IH. Qed.

Lemma parse_key_ok key Y :
  utf8_valid key = true ->
  parse_key key (json_str key ++ ":"%char :: Y) = Some Y.
Proof.
  intros H. unfold parse_key. rewrite (json_string_roundtrip _ _ H), str_eqb_refl.
  reflexivity.
Qed.

Lemma s_value_eq Y : s_value ++ Y = "{"%char :: json_str key_value ++ ":"%char :: Y.
Proof. reflexivity. Qed.

Lemma s_children_eq Y : s_children ++ Y = ","%char :: json_str key_children ++ ":"%char :: Y.
Proof. reflexivity. Qed.

Definition value_ok (f : fnode) : Prop :=
  forall fuel rest, List.length (json_enc f) <= fuel ->
  parse_value fuel (json_enc f ++ rest) = Some (f, rest).

Lemma parse_elems_S f l :
  parse_elems (S f) l =
  match parse_value f l with
  | None => None
  | Some (v, l1) =>
      match expect [","%char] l1 with
      | Some l2 =>
          match parse_elems f l2 with
          | Some (vs, l3) => Some (v :: vs, l3)
          | None => None
          end
      | None =>
          match expect ["]"%char] l1 with
          | Some l2 => Some ([v], l2)
          | None => None
          end
      end
  end.
Proof. reflexivity. Qed.

Lemma elems_ok :
  forall r0 k0, Forall value_ok (k0 :: r0) ->
  forall fuel rest, List.length (json_enc k0 ++ enc_tail r0 ++ [ch 93]) <= fuel ->
  parse_elems fuel (json_enc k0 ++ enc_tail r0 ++ [ch 93] ++ rest) = Some (k0 :: r0, rest).
Proof.
  induction r0 as [|k1 r1 IH]; intros k0 HF fuel rest Hf.
  - inversion HF as [|? ? H0 _]; subst.
    rewrite app_length in Hf. cbn [enc_tail app List.length] in *.
    destruct fuel as [|f]; [lia|].
    rewrite parse_elems_S, H0 by lia. reflexivity.
  - inversion HF as [|? ? H0 HF']; subst.
    rewrite app_length in Hf. cbn [enc_tail app List.length] in *.
    destruct fuel as [|f]; [lia|].
    rewrite parse_elems_S, H0 by lia.
    change (expect [","%char] (ch 44 :: (json_enc k1 ++ enc_tail r1) ++ ch 93 :: rest))
      with (Some ((json_enc k1 ++ enc_tail r1) ++ ch 93 :: rest)).
    cbv iota. rewrite <- app_assoc.
    rewrite (IH k1 HF' f rest); [reflexivity|].
    rewrite <- app_assoc in Hf. lia.
Qed.

Lemma expect1 c Y : expect [c] (c :: Y) = Some Y.
Proof. cbn [expect]. rewrite Ascii.eqb_refl. reflexivity. Qed.

Lemma parse_value_S f l :
  parse_value (S f) l =
      match expect ["{"%char] l with None => None | Some l1 =>
      match parse_key key_value l1 with None => None | Some l2 =>
      match parse_string l2 with None => None | Some (name, l3) =>
      match expect [","%char] l3 with None => None | Some l4 =>
      match parse_key key_children l4 with None => None | Some l5 =>
      match
        match expect lit_null l5 with
        | Some l6 => Some ([], l6)
        | None =>
            match expect ["["%char] l5 with
            | None => None
            | Some l6 =>
                match expect ["]"%char] l6 with
                | Some l7 => Some ([], l7)
                | None => parse_elems f l6
                end
            end
        end
      with
      | None => None
      | Some (ks, l8) =>
          match expect ["}"%char] l8 with
          | Some l9 => Some (F name ks, l9)
          | None => None
          end
      end end end end end end.
Proof. reflexivity. Qed.

Lemma json_enc_cons f : exists t, json_enc f = "{"%char :: t.
Proof. destruct f as [n ks]. rewrite json_enc_eq, s_value_eq. eexists. reflexivity. Qed.

Lemma value_ok_all : forall f, names_utf8 f -> value_ok f.
Proof.
  induction f as [n ks IHks] using fnode_ind'. intros Hn.
  inversion Hn as [? ? Hv Hks]; subst.
  assert (OK : Forall value_ok ks).
  { clear Hn Hv. induction ks as [|k r IHr]; [constructor|].
    inversion IHks; subst. inversion Hks; subst. constructor; auto. }
  clear IHks Hks Hn.
  intros fuel rest Hf. rewrite json_enc_eq in *.
  destruct fuel as [|f]; [rewrite app_length in Hf; cbn in Hf; lia|].
  rewrite parse_value_S.
  repeat rewrite <- app_assoc.
  rewrite s_value_eq, expect1, (parse_key_ok key_value) by reflexivity.
  rewrite (json_string_roundtrip _ _ Hv).
  rewrite s_children_eq, expect1, (parse_key_ok key_children) by reflexivity.
  destruct ks as [|k0 r0].
  - reflexivity.
  - unfold enc_kids. repeat rewrite <- app_assoc.
    change (expect lit_null ([ch 91] ++ json_enc k0 ++ enc_tail r0 ++ [ch 93] ++ [ch 125] ++ rest))
      with (@None str).
    cbv iota.
    change ([ch 91] ++ json_enc k0 ++ enc_tail r0 ++ [ch 93] ++ [ch 125] ++ rest)
      with ("["%char :: json_enc k0 ++ enc_tail r0 ++ [ch 93] ++ (ch 125 :: rest)).
    rewrite expect1.
    destruct (json_enc_cons k0) as [t Ht].
    assert (NB : expect ["]"%char] (json_enc k0 ++ enc_tail r0 ++ [ch 93] ++ ch 125 :: rest) = None).
    { rewrite Ht. reflexivity. }
    rewrite NB.
    rewrite (elems_ok r0 k0 OK).
    + reflexivity.
    + unfold enc_kids in Hf. rewrite !app_length in Hf. cbn [List.length] in Hf.
      rewrite !app_length. cbn [List.length]. lia.
Qed.

Theorem json_roundtrip_fuel :
  forall f rest fuel, names_utf8 f -> List.length (json_enc f) <= fuel ->
  parse_value fuel (json_enc f ++ rest) = Some (f, rest).
Proof. intros f rest fuel H Hf. apply value_ok_all; assumption. Qed.

Theorem json_roundtrip :
  forall f rest, names_utf8 f ->
  exists fuel, parse_value fuel (json_enc f ++ rest) = Some (f, rest).
Proof. intros f rest H. exists (List.length (json_enc f)). apply json_roundtrip_fuel; auto. Qed.

Theorem json_roundtrip_top :
  forall f rest, names_utf8 f -> parse_value_top (json_enc f ++ rest) = Some (f, rest).
Proof.
  intros f rest H. unfold parse_value_top. apply json_roundtrip_fuel; [assumption|].
  rewrite app_length. lia.
Qed.

(* ================================================================== *)
(* Part 3: the stream                                                  *)
(* ================================================================== *)

Lemma parse_lines_go_S f l :
  l <> [] ->
  parse_lines_go (S f) l =
  match parse_value_top l with
  | None => None
  | Some (v, l1) =>
      match expect [c_lf] l1 with
      | None => None
      | Some l2 =>
          match parse_lines_go f l2 with
          | Some vs => Some (v :: vs)
          | None => None
          end
      end
  end.
Proof. destruct l; [congruence|reflexivity]. Qed.

Lemma lines_ok :
  forall fs, Forall names_utf8 fs ->
  forall fuel, List.length fs <= fuel ->
  parse_lines_go fuel (concat (map json_line fs)) = Some fs.
Proof.
  induction fs as [|f fs IH]; intros HF fuel Hf.
  - destruct fuel; reflexivity.
  - inversion HF as [|? ? Hn HF']; subst.
    cbn [List.length] in Hf. destruct fuel as [|fuel]; [lia|].
    cbn [map concat]. unfold json_line at 1. rewrite <- app_assoc. cbn [app].
    rewrite parse_lines_go_S.
    + rewrite (json_roundtrip_top _ _ Hn), expect1, IH by (assumption || lia). reflexivity.
    + destruct (json_enc_cons f) as [t ->]. discriminate.
Qed.

Lemma lines_len fs : List.length fs <= List.length (concat (map json_line fs)).
Proof.
  induction fs as [|f fs IH]; [apply Nat.le_refl|].
  cbn [map concat List.length]. unfold json_line at 1.
  rewrite !app_length. cbn [List.length]. lia.
Qed.

Theorem json_lines_roundtrip :
  forall fs, Forall names_utf8 fs ->
  parse_lines (concat (map json_line fs)) = Some fs.
Proof. intros fs H. unfold parse_lines. apply lines_ok; [assumption|apply lines_len]. Qed.


(* the encoding determines the record tree *)
Corollary json_enc_injective :
  forall f g, names_utf8 f -> names_utf8 g -> json_enc f = json_enc g -> f = g.
Proof.
  intros f g Hf Hg E.
  pose proof (json_roundtrip_top f [] Hf) as A.
  pose proof (json_roundtrip_top g [] Hg) as B.
  rewrite E in A. rewrite A in B. congruence.
Qed.

Print Assumptions json_string_roundtrip.
Print Assumptions json_string_roundtrip_fuel.
Print Assumptions json_roundtrip.
Print Assumptions json_roundtrip_fuel.
Print Assumptions json_roundtrip_top.
Print Assumptions json_lines_roundtrip.
Print Assumptions json_enc_injective.

(* ================================================================== *)
(* Examples (computed): the decoder on concrete encoder output, and    *)
(* the decoder's behaviour on inputs the encoder never produces        *)
(* ================================================================== *)
Module Examples.
Import String.
Definition s (x : string) : str := list_ascii_of_string x.

(* quote, backslash, < > &, /, control characters (named and \u00XX escapes), DEL,
   U+2028, U+2029, U+202A, 2-, 3- and 4-byte sequences, U+D7FF, U+FFFD *)
Definition nm1 : str :=
  s "a""\<>&/" ++
  map ch [1; 8; 9; 10; 12; 13; 31; 127; 226;128;168; 226;128;169; 226;128;170;
          195;169; 240;159;152;128; 237;159;191; 239;191;189].
Definition t1 : fnode :=
  F nm1 [F [] []; F nm1 [F (map ch [206;187]) []; F (s "x y") []]; F (s "A") []].

Example ex_name_valid : utf8_valid nm1 = true.
Proof. vm_compute. reflexivity. Qed.

Example ex_encoded_name :
  json_str nm1 =
  s """a\""\\\u003c\u003e\u0026/\u0001\b\t\n\f\r\u001f" ++ [ch 127] ++
  s "\u2028\u2029" ++
  map ch [226;128;170; 195;169; 240;159;152;128; 237;159;191; 239;191;189] ++ s """".
Proof. vm_compute. reflexivity. Qed.

Example ex_string : parse_string (json_str nm1 ++ s "tail") = Some (nm1, s "tail").
Proof. vm_compute. reflexivity. Qed.

Example ex_value : parse_value_top (json_enc t1 ++ s "tail") = Some (t1, s "tail").
Proof. vm_compute. reflexivity. Qed.

Example ex_lines :
  parse_lines (json_line t1 ++ json_line (F [] []) ++ json_line t1) = Some [t1; F [] []; t1].
Proof. vm_compute. reflexivity. Qed.

Example ex_names_utf8 : names_utf8 t1.
Proof. repeat (constructor; try (vm_compute; reflexivity)). Qed.

(* null and the empty array are the same record; \/ and upper-case hex are decoded;
   a \u escape above 0x7F is decoded to UTF-8 *)
Example ex_empty_array :
  parse_value_top (s "{""value"":""a"",""children"":[]}") = Some (F (s "a") [], []).
Proof. vm_compute. reflexivity. Qed.
Example ex_null :
  parse_value_top (s "{""value"":""a"",""children"":null}") = Some (F (s "a") [], []).
Proof. vm_compute. reflexivity. Qed.
Example ex_escapes :
  parse_string (s """\/\u003C\u00e9\u20AC""") = Some (s "/<" ++ map ch [195;169; 226;130;172], []).
Proof. vm_compute. reflexivity. Qed.

(* rejected: raw control character, unknown escape, surrogate, unterminated literal,
   whitespace between tokens, members in the other order, missing LF *)
Example ex_reject_ctl : parse_string (dq :: ch 9 :: [dq]) = None.
Proof. vm_compute. reflexivity. Qed.
Example ex_reject_escape : parse_string (s """\x""") = None.
Proof. vm_compute. reflexivity. Qed.
Example ex_reject_surrogate : parse_string (s """\ud83d\ude00""") = None.
Proof. vm_compute. reflexivity. Qed.
Example ex_reject_open : parse_string (s """abc") = None.
Proof. vm_compute. reflexivity. Qed.
Example ex_reject_space :
  parse_value_top (s "{""value"": ""a"",""children"":null}") = None.
Proof. vm_compute. reflexivity. Qed.
Example ex_reject_order :
  parse_value_top (s "{""children"":null,""value"":""a""}") = None.
Proof. vm_compute. reflexivity. Qed.
Example ex_reject_no_lf : parse_lines (json_enc t1) = None.
Proof. vm_compute. reflexivity. Qed.
End Examples.
