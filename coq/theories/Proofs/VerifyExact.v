(* Proofs/VerifyExact.v — C08 at full strength: COMPLETENESS and ORDER of the two lists of a
   verify error, the forest level (nil iff every root passes; the error is that of the FIRST
   root that differs), and the entry points (verify_trees, PVerify, PMdVerify on every
   spelling of a forest).  Soundness of the lists and the per-root pass-iff are in
   Proofs/FsBasic.v; here the lists are shown to be EXACTLY the differences, as [filter]s. *)
From Coq Require Import List Ascii String Arith Bool Lia.
From GT Require Import Base.GoStr Md.Parser Tree.Tree Tree.Gen Tree.Grower Out.Spreader Api.Simple
  Fs.FsModel Fs.Mkdir Fs.Verify Api.Programmable
  Spec.Spec Spec.Classify Spec.Spelling
  Proofs.TreeInd Proofs.BuildTrie Proofs.Paths Proofs.NoPanic Proofs.OutputText
  Proofs.FsBasic Proofs.MkdirExact Proofs.MkdirConfined Proofs.Programmable Proofs.SpelledTop.
Import ListNotations.

(* ================= Stage 0: vocabulary ================= *)

(* the path verify stats and walks for one root *)
Definition rootp (target : str) (g : gtree) : str := tjoin target (gpath g).

(* os.Stat found something there (a directory or a file) *)
Definition root_exists (f : fsmap) (p : str) : Prop := stat f p = StDir \/ stat f p = StFile.

(* the node paths that are no entry at or below the root: md_paths (pre-order of the tree) filtered *)
Definition missing_of (target : str) (f : fsmap) (g : gtree) : list str :=
  filter (fun p => negb (mem_str p (entries_under f (rootp target g)))) (md_paths target g).

(* the entries at or below the root that are no node path: entries_under (the order of the
   file-system model, i.e. of the walk) filtered *)
Definition extra_of (target : str) (f : fsmap) (g : gtree) : list str :=
  filter (fun p => negb (mem_str p (md_paths target g))) (entries_under f (rootp target g)).

(* mem_str is list membership (re-proved here; FsBasic.mem_str_in is the same statement) *)
Lemma mem_str_In p l : mem_str p l = true <-> In p l.
Proof.
  induction l as [|q r IH]; cbn [mem_str In]; [split; [discriminate|intros []]|].
  rewrite orb_true_iff, IH, str_eqb_eq. split; intros [H|H]; auto.
Qed.

Lemma mem_str_not_In p l : negb (mem_str p l) = true <-> ~ In p l.
Proof.
  rewrite negb_true_iff. split.
  - intros H X. apply mem_str_In in X. congruence.
  - intros H. destruct (mem_str p l) eqn:E; [|reflexivity]. exfalso. apply H. apply mem_str_In. exact E.
Qed.

Lemma In_missing_of target f g p :
  In p (missing_of target f g) <-> In p (md_paths target g) /\ ~ In p (entries_under f (rootp target g)).
Proof. unfold missing_of. rewrite filter_In, mem_str_not_In. reflexivity. Qed.

Lemma In_extra_of target f g p :
  In p (extra_of target f g) <-> In p (entries_under f (rootp target g)) /\ ~ In p (md_paths target g).
Proof. unfold extra_of. rewrite filter_In, mem_str_not_In. reflexivity. Qed.

Lemma missing_of_nil target f g :
  missing_of target f g = [] <-> forall p, In p (md_paths target g) -> In p (entries_under f (rootp target g)).
Proof.
  unfold missing_of. rewrite filter_nil_iff. split; intros H p Hp.
  - specialize (H p Hp). apply negb_false_iff in H. apply mem_str_In. exact H.
  - apply negb_false_iff. apply mem_str_In. apply H. exact Hp.
Qed.

Lemma extra_of_nil target f g :
  extra_of target f g = [] <-> forall p, In p (entries_under f (rootp target g)) -> In p (md_paths target g).
Proof.
  unfold extra_of. rewrite filter_nil_iff. split; intros H p Hp.
  - specialize (H p Hp). apply negb_false_iff in H. apply mem_str_In. exact H.
  - apply negb_false_iff. apply mem_str_In. apply H. exact Hp.
Qed.

(* the root's own path is the first node path: a tree always has at least one node path *)
Lemma md_paths_head target g : exists r, md_paths target g = rootp target g :: r.
Proof. destruct g as [n b p ks]. unfold md_paths, rootp. cbn [gpre map snd gpath]. eexists. reflexivity. Qed.

Lemma md_paths_not_nil target g : md_paths target g <> [].
Proof. destruct (md_paths_head target g) as [r E]. rewrite E. discriminate. Qed.

Lemma is_nil_true {A} (l : list A) : is_nil l = true <-> l = [].
Proof. destruct l; cbn; split; congruence. Qed.

Lemma is_nil_false {A} (l : list A) : negb (is_nil l) = true <-> l <> [].
Proof. destruct l; cbn; split; congruence. Qed.

(* ================= Stage 1: one root ================= *)

(* what the model does, by the result of os.Stat on the root path (this is the definition,
   with the two filters named) *)
Lemma verify_root_unfold strict target f g :
  verify_root strict target f g =
  match stat f (rootp target g) with
  | StErr => VErr
  | StNone => VFail [] (md_paths target g)
  | _ => if (strict && negb (is_nil (extra_of target f g))) || negb (is_nil (missing_of target f g))
         then VFail (if strict then extra_of target f g else []) (missing_of target f g)
         else VPass
  end.
Proof. reflexivity. Qed.

(* os.Stat fails (a NUL byte, an over-long component reached by the walk, a file in the way):
   the only way to the OS error *)
Theorem verify_root_err_iff strict target f g :
  verify_root strict target f g = VErr <-> stat f (rootp target g) = StErr.
Proof.
  rewrite verify_root_unfold. destruct (stat f (rootp target g)); split; try discriminate; try reflexivity.
  all: destruct ((strict && negb (is_nil (extra_of target f g))) || negb (is_nil (missing_of target f g))); discriminate.
Qed.

(* PASS: the root exists, no node path is missing and (strict) there is no other entry *)
Theorem verify_root_pass_exact strict target f g :
  verify_root strict target f g = VPass <->
  root_exists f (rootp target g) /\ missing_of target f g = [] /\ (strict = true -> extra_of target f g = []).
Proof.
  rewrite verify_root_unfold. unfold root_exists.
  destruct (stat f (rootp target g)) eqn:S.
  - split; [discriminate|]. intros [[H|H] _]; discriminate.
  - destruct (missing_of target f g) as [|m0 mr]; destruct (extra_of target f g) as [|x0 xr]; destruct strict;
      cbn [is_nil negb andb orb]; split; try discriminate; try (intros _; repeat split; auto; discriminate).
    all: intros [_ [H1 H2]]; try discriminate; specialize (H2 eq_refl); discriminate.
  - destruct (missing_of target f g) as [|m0 mr]; destruct (extra_of target f g) as [|x0 xr]; destruct strict;
      cbn [is_nil negb andb orb]; split; try discriminate; try (intros _; repeat split; auto; discriminate).
    all: intros [_ [H1 H2]]; try discriminate; specialize (H2 eq_refl); discriminate.
  - split; [discriminate|]. intros [[H|H] _]; discriminate.
Qed.

(* FAIL, both directions: the lists are literally the filters, in the stated order *)
Theorem verify_root_fail_exact strict target f g e m :
  verify_root strict target f g = VFail e m <->
  (stat f (rootp target g) = StNone /\ e = [] /\ m = md_paths target g) \/
  (root_exists f (rootp target g) /\
   m = missing_of target f g /\
   e = (if strict then extra_of target f g else []) /\
   (m <> [] \/ e <> [])).
Proof.
  rewrite verify_root_unfold. unfold root_exists.
  destruct (stat f (rootp target g)) eqn:S.
  - split.
    + intros H. inversion H; subst. left. auto.
    + intros [[_ [-> ->]]|[[H|H] _]]; [reflexivity|discriminate|discriminate].
  - split.
    + intros H. right. split; [left; reflexivity|].
      destruct (missing_of target f g) as [|m0 mr]; destruct (extra_of target f g) as [|x0 xr]; destruct strict;
        cbn [is_nil negb andb orb] in H; try discriminate; inversion H; subst; repeat split; auto;
        try (left; discriminate); try (right; discriminate).
    + intros [[H _]|[_ [-> [-> Hne]]]]; [discriminate|].
      destruct (missing_of target f g) as [|m0 mr]; destruct (extra_of target f g) as [|x0 xr]; destruct strict;
        cbn [is_nil negb andb orb]; try reflexivity; destruct Hne as [Hne|Hne]; congruence.
  - split.
    + intros H. right. split; [right; reflexivity|].
      destruct (missing_of target f g) as [|m0 mr]; destruct (extra_of target f g) as [|x0 xr]; destruct strict;
        cbn [is_nil negb andb orb] in H; try discriminate; inversion H; subst; repeat split; auto;
        try (left; discriminate); try (right; discriminate).
    + intros [[H _]|[_ [-> [-> Hne]]]]; [discriminate|].
      destruct (missing_of target f g) as [|m0 mr]; destruct (extra_of target f g) as [|x0 xr]; destruct strict;
        cbn [is_nil negb andb orb]; try reflexivity; destruct Hne as [Hne|Hne]; congruence.
  - split; [discriminate|]. intros [[H _]|[[H|H] _]]; discriminate.
Qed.

(* a failure always lists at least one path *)
Corollary verify_root_fail_nonempty strict target f g e m :
  verify_root strict target f g = VFail e m -> m <> [] \/ e <> [].
Proof.
  intros H. apply verify_root_fail_exact in H as [[_ [_ ->]]|[_ [_ [_ H]]]]; [|exact H].
  left. apply md_paths_not_nil.
Qed.

(* (1a) COMPLETENESS when the root exists: every missing node path is listed; in strict mode
   every other entry is listed; in non-strict mode no extra entry is ever listed *)
Theorem verify_root_complete strict target f g e m :
  verify_root strict target f g = VFail e m ->
  root_exists f (rootp target g) ->
  m = missing_of target f g /\
  e = (if strict then extra_of target f g else []) /\
  (forall p, In p (md_paths target g) -> ~ In p (entries_under f (rootp target g)) -> In p m) /\
  (strict = true -> forall p, In p (entries_under f (rootp target g)) -> ~ In p (md_paths target g) -> In p e) /\
  (strict = false -> e = []).
Proof.
  intros H Hex. apply verify_root_fail_exact in H as [[Hn _]|[_ [Hm [He _]]]].
  - destruct Hex as [X|X]; rewrite Hn in X; discriminate.
  - subst m e. repeat split.
    + intros p H1 H2. apply In_missing_of. split; assumption.
    + intros -> p H1 H2. apply In_extra_of. split; assumption.
    + intros ->. reflexivity.
Qed.

(* (1b) the root does not exist: no extra entry, and EVERY node path is reported missing,
   in pre-order *)
Theorem verify_root_absent strict target f g :
  stat f (rootp target g) = StNone ->
  verify_root strict target f g = VFail [] (md_paths target g).
Proof. intros H. rewrite verify_root_unfold, H. reflexivity. Qed.

Corollary verify_root_absent_lists strict target f g e m :
  verify_root strict target f g = VFail e m -> stat f (rootp target g) = StNone ->
  e = [] /\ m = md_paths target g.
Proof. intros H Hn. rewrite (verify_root_absent strict target f g Hn) in H. inversion H; subst. auto. Qed.

(* exactness as one iff per list, whatever the state of the root: a path is listed iff it is
   a difference (for an absent root, "difference" is: every node path) *)
Corollary verify_root_listed_iff strict target f g e m :
  verify_root strict target f g = VFail e m ->
  (forall p, In p m <->
     In p (md_paths target g) /\
     (stat f (rootp target g) = StNone \/ ~ In p (entries_under f (rootp target g)))) /\
  (forall p, In p e <->
     strict = true /\ root_exists f (rootp target g) /\
     In p (entries_under f (rootp target g)) /\ ~ In p (md_paths target g)).
Proof.
  intros H. apply verify_root_fail_exact in H as [[Hn [-> ->]]|[Hex [-> [-> _]]]].
  - split; intros p; split.
    + intros Hp. split; [exact Hp|left; exact Hn].
    + intros [Hp _]. exact Hp.
    + intros [].
    + intros [_ [[X|X] _]]; rewrite Hn in X; discriminate.
  - split; intros p; split.
    + intros Hp. apply In_missing_of in Hp as [H1 H2]. split; [exact H1|right; exact H2].
    + intros [H1 [H2|H2]].
      * destruct Hex as [X|X]; rewrite H2 in X; discriminate.
      * apply In_missing_of. split; assumption.
    + destruct strict; [|intros []]. intros Hp. apply In_extra_of in Hp as [H1 H2]. auto.
    + intros [-> [_ [H1 H2]]]. apply In_extra_of. split; assumption.
Qed.

(* ================= Stage 2: the forest ================= *)

(* the verifier returns nil, a verify error, or the OS error; nothing else *)
Lemma verifier_range strict target f gs :
  verifier strict target f gs = Ok tt \/
  (exists e m, verifier strict target f gs = Err (EVerify e m)) \/
  verifier strict target f gs = Err EOs.
Proof.
  induction gs as [|g r IH]; cbn [verifier]; [left; reflexivity|].
  destruct (verify_root strict target f g) as [|e m|]; [exact IH| |].
  - right. left. eexists. eexists. reflexivity.
  - right. right. reflexivity.
Qed.

Theorem verifier_ok_iff strict target f gs :
  verifier strict target f gs = Ok tt <-> forall g, In g gs -> verify_root strict target f g = VPass.
Proof.
  induction gs as [|g r IH]; cbn [verifier].
  - split; [intros _ g []|reflexivity].
  - destruct (verify_root strict target f g) as [|e m|] eqn:V.
    + rewrite IH. split.
      * intros H g' [<-|Hg]; [exact V|apply H; exact Hg].
      * intros H g' Hg. apply H. right. exact Hg.
    + split; [discriminate|]. intros H. specialize (H g (or_introl eq_refl)). congruence.
    + split; [discriminate|]. intros H. specialize (H g (or_introl eq_refl)). congruence.
Qed.

(* the first root that does not pass decides the error: generic form *)
Lemma verifier_first strict target f gs :
  verifier strict target f gs = Ok tt \/
  exists gs1 g gs2, gs = gs1 ++ g :: gs2 /\
    (forall g', In g' gs1 -> verify_root strict target f g' = VPass) /\
    verify_root strict target f g <> VPass /\
    verifier strict target f gs =
      match verify_root strict target f g with
      | VPass => Ok tt | VFail e m => Err (EVerify e m) | VErr => Err EOs
      end.
Proof.
  induction gs as [|g r IH]; cbn [verifier]; [left; reflexivity|].
  destruct (verify_root strict target f g) as [|e m|] eqn:V.
  - destruct IH as [IH|[gs1 [g1 [gs2 [E [Hp [Hn Hv]]]]]]]; [left; exact IH|right].
    exists (g :: gs1), g1, gs2. subst r. split; [reflexivity|]. split; [|split; assumption].
    intros g' [<-|Hg]; [exact V|apply Hp; exact Hg].
  - right. exists [], g, r. rewrite V. repeat split; [intros g' []|discriminate].
  - right. exists [], g, r. rewrite V. repeat split; [intros g' []|discriminate].
Qed.

Lemma verifier_app_pass strict target f gs1 gs2 :
  (forall g', In g' gs1 -> verify_root strict target f g' = VPass) ->
  verifier strict target f (gs1 ++ gs2) = verifier strict target f gs2.
Proof.
  induction gs1 as [|g r IH]; intros H; [reflexivity|]. cbn [app verifier].
  rewrite (H g (or_introl eq_refl)). apply IH. intros g' Hg. apply H. right. exact Hg.
Qed.

(* the verify error is the pair of lists of the FIRST root that differs *)
Theorem verifier_fail_iff strict target f gs e m :
  verifier strict target f gs = Err (EVerify e m) <->
  exists gs1 g gs2, gs = gs1 ++ g :: gs2 /\
    (forall g', In g' gs1 -> verify_root strict target f g' = VPass) /\
    verify_root strict target f g = VFail e m.
Proof.
  split.
  - intros H. destruct (verifier_first strict target f gs) as [X|[gs1 [g [gs2 [E [Hp [Hn Hv]]]]]]]; [congruence|].
    exists gs1, g, gs2. split; [exact E|]. split; [exact Hp|].
    rewrite H in Hv. destruct (verify_root strict target f g) as [|e' m'|]; [congruence| |discriminate].
    inversion Hv; subst. reflexivity.
  - intros [gs1 [g [gs2 [-> [Hp Hv]]]]]. rewrite (verifier_app_pass _ _ _ _ _ Hp). cbn [verifier]. rewrite Hv. reflexivity.
Qed.

(* the OS error is that of the first root that does not pass, when os.Stat fails on it *)
Theorem verifier_os_iff strict target f gs :
  verifier strict target f gs = Err EOs <->
  exists gs1 g gs2, gs = gs1 ++ g :: gs2 /\
    (forall g', In g' gs1 -> verify_root strict target f g' = VPass) /\
    verify_root strict target f g = VErr.
Proof.
  split.
  - intros H. destruct (verifier_first strict target f gs) as [X|[gs1 [g [gs2 [E [Hp [Hn Hv]]]]]]]; [congruence|].
    exists gs1, g, gs2. split; [exact E|]. split; [exact Hp|].
    rewrite H in Hv. destruct (verify_root strict target f g) as [|e' m'|]; [congruence|discriminate|reflexivity].
  - intros [gs1 [g [gs2 [-> [Hp Hv]]]]]. rewrite (verifier_app_pass _ _ _ _ _ Hp). cbn [verifier]. rewrite Hv. reflexivity.
Qed.

(* what "passes" means for one root, in words of the file system *)
Definition root_matches (strict : bool) (target : str) (f : fsmap) (g : gtree) : Prop :=
  root_exists f (rootp target g) /\
  (forall p, In p (md_paths target g) -> In p (entries_under f (rootp target g))) /\
  (strict = true -> forall p, In p (entries_under f (rootp target g)) -> In p (md_paths target g)).

Lemma verify_root_pass_matches strict target f g :
  verify_root strict target f g = VPass <-> root_matches strict target f g.
Proof.
  rewrite verify_root_pass_exact. unfold root_matches. rewrite missing_of_nil, extra_of_nil. reflexivity.
Qed.

(* THE PROPERTY SENTENCE at the level of the verifier.
   (i)  nil iff for every root: os.Stat finds the root path (as a directory OR as a file),
        every node path is an entry at or below it and, in strict mode, every entry at or
        below it is a node path;
   (ii) otherwise the forest splits at the first root that does not match; the roots before it
        match; and by the result of os.Stat on that root's path:
          StErr  -> the error is the OS error (no lists);
          StNone -> the error lists no extra entry and ALL node paths of that root, in pre-order;
          else   -> the error lists exactly the missing node paths of that root (md_paths
                    filtered, pre-order) and, strict only, exactly its extra entries
                    (entries_under filtered, walk order); non-strict: no extra entry. *)
Theorem verifier_exact strict target f gs :
  (verifier strict target f gs = Ok tt <-> forall g, In g gs -> root_matches strict target f g) /\
  (verifier strict target f gs <> Ok tt ->
   exists gs1 g gs2, gs = gs1 ++ g :: gs2 /\
     (forall g', In g' gs1 -> root_matches strict target f g') /\
     ~ root_matches strict target f g /\
     verifier strict target f gs =
       match stat f (rootp target g) with
       | StErr => Err EOs
       | StNone => Err (EVerify [] (md_paths target g))
       | _ => Err (EVerify (if strict then extra_of target f g else []) (missing_of target f g))
       end).
Proof.
  split.
  - rewrite verifier_ok_iff. split; intros H g Hg; apply verify_root_pass_matches; apply H; exact Hg.
  - intros Hne. destruct (verifier_first strict target f gs) as [X|[gs1 [g [gs2 [E [Hp [Hn Hv]]]]]]]; [contradiction|].
    exists gs1, g, gs2. split; [exact E|]. split; [|split].
    + intros g' Hg. apply verify_root_pass_matches. apply Hp. exact Hg.
    + intros X. apply Hn. apply verify_root_pass_matches. exact X.
    + rewrite Hv. rewrite verify_root_unfold in Hn |- *.
      destruct (stat f (rootp target g)); try reflexivity.
      all: destruct ((strict && negb (is_nil (extra_of target f g))) || negb (is_nil (missing_of target f g)));
        [reflexivity|congruence].
Qed.

Corollary verifier_nil_iff strict target f gs :
  verifier strict target f gs = Ok tt <-> forall g, In g gs -> root_matches strict target f g.
Proof. exact (proj1 (verifier_exact strict target f gs)). Qed.

(* ================= Stage 2b: "missing" and "exists as a file" are true statements about a
   well-formed file system =================
   [verify_root] trusts os.Stat: StNone means "report every node path as missing" without
   walking.  On a file system whose entries have their parent directories (fs_closed, implied
   by fs_ok) and for validated names this is a TRUE difference: nothing exists at or below a
   path that os.Stat does not find.  (Without the hypothesis an orphan entry "a/b" with no "a"
   is under "a" although os.Stat "a" says it does not exist.) *)

Lemma in_lookup_some : forall (f : fsmap) p k, In (p, k) f -> exists k', lookup p f = Some k'.
Proof.
  induction f as [|[q kq] r IH]; intros p k H; [destruct H|]. cbn [lookup].
  destruct (str_eqb p q) eqn:E; [eexists; reflexivity|].
  destruct H as [H|H]; [|eapply IH; exact H].
  inversion H; subst. rewrite str_eqb_refl in E. discriminate.
Qed.

Lemma entries_under_in f root p :
  In p (entries_under f root) <-> under root p = true /\ exists k, In (p, k) f.
Proof.
  unfold entries_under. rewrite in_map_iff. split.
  - intros [[q k] [E H]]. cbn [fst] in E. subst q. apply filter_In in H as [H1 H2]. cbn [fst] in H2. split; [exact H2|exists k; exact H1].
  - intros [U [k H]]. exists (p, k). split; [reflexivity|]. apply filter_In. split; [exact H|exact U].
Qed.

Theorem absent_root_nothing_under f x :
  fs_closed f -> eok x -> x <> [] -> stat f (pth x) = StNone -> entries_under f (pth x) = [].
Proof.
  intros Hc Hx Hne Hs.
  pose proof (stat_none_below f x (fs_closed_parents f Hc) Hx Hs) as Hb.
  destruct (entries_under f (pth x)) as [|p r] eqn:E; [reflexivity|exfalso].
  assert (Hin : In p (entries_under f (pth x))) by (rewrite E; left; reflexivity).
  apply entries_under_in in Hin as [U [k Hk]].
  destruct (in_lookup_some f p k Hk) as [k' L].
  destruct (Hc p k' L) as [[es [Hes [Heok Ep]]] _].
  rewrite <- (pth_join es Hes) in Ep. subst p.
  destruct (under_inv x es Hx Hne Heok U) as [m Em]. subst es.
  rewrite Hb in L; [discriminate|]. apply eok_app in Heok. tauto.
Qed.

(* for a validated root below a well-formed target: the root path is pth (tc ++ [name]) *)
Corollary absent_root_true_difference strict tc f g :
  fs_closed f -> eok tc -> wfw [] g ->
  stat f (rootp (pth tc) g) = StNone ->
  verify_root strict (pth tc) f g = VFail [] (md_paths (pth tc) g) /\
  entries_under f (rootp (pth tc) g) = [] /\
  (forall p, In p (md_paths (pth tc) g) -> ~ In p (entries_under f (rootp (pth tc) g))).
Proof.
  intros Hc Htc Hw Hs. split; [apply verify_root_absent; exact Hs|].
  assert (E : entries_under f (rootp (pth tc) g) = []).
  { unfold rootp in *. rewrite (wfw_root_tjoin tc g Htc Hw) in *.
    apply absent_root_nothing_under; [exact Hc| |destruct tc; discriminate|exact Hs].
    apply eok_app. split; [exact Htc|]. apply eok1. eapply wfw_name. exact Hw. }
  split; [exact E|]. intros p _ X. rewrite E in X. destruct X.
Qed.

(* a root path that exists as a regular FILE: the walk visits that one entry.  Hence a
   single-node tree whose root is a file passes (strict or not), and for a tree with
   children every child path is missing (they are node paths that are not [rootp]). *)
Lemma stat_from_file_inv : forall cs f pre,
  eok (pre ++ cs) -> stat_from f (pth pre) cs = StFile ->
  cs <> [] /\ exists e, lookup (pth (pre ++ cs)) f = Some (KFile e).
Proof.
  induction cs as [|c rest IH]; intros f pre He H; [discriminate|].
  assert (Hp : eok pre) by (apply eok_app in He; tauto).
  split; [discriminate|]. cbn [stat_from] in H. rewrite join2_pth in H by exact Hp.
  destruct (os_refuses c); [discriminate|].
  destruct (lookup (pth (pre ++ [c])) f) as [[|e]|] eqn:L; [| |discriminate].
  - assert (He' : eok ((pre ++ [c]) ++ rest)) by (rewrite <- app_assoc; exact He).
    destruct (IH f (pre ++ [c]) He' H) as [_ [e E]]. rewrite <- app_assoc in E. exists e. exact E.
  - destruct rest; [|discriminate]. exists e. exact L.
Qed.

(* nothing exists strictly below a file *)
Lemma nothing_below_file f x e :
  fs_closed f -> eok x -> x <> [] -> lookup (pth x) f = Some (KFile e) ->
  forall m, m <> [] -> eok m -> lookup (pth (x ++ m)) f = None.
Proof.
  intros Hc Hx Hne L m. induction m as [|c m' IH] using rev_ind; intros Hm He; [congruence|].
  destruct (lookup (pth (x ++ m' ++ [c])) f) as [k|] eqn:E; [|reflexivity]. exfalso.
  assert (He' : eok ((x ++ m') ++ [c])) by (rewrite <- app_assoc; apply eok_app; split; assumption).
  assert (Hm' : eok m') by (apply eok_app in He; tauto).
  rewrite app_assoc in E.
  destruct (Hc _ _ E) as [_ [D|D]]; rewrite dirname_pth in D by exact He'.
  - assert (Hxm : eok (x ++ m')) by (apply eok_app; split; assumption).
    pose proof (join_not_dot (x ++ m') Hxm ltac:(destruct x; [congruence|discriminate])) as N.
    rewrite <- pth_join in N by (destruct x; [congruence|discriminate]). rewrite D in N. discriminate.
  - destruct m' as [|c' m''].
    + rewrite app_nil_r in D. congruence.
    + rewrite IH in D; [discriminate|discriminate|exact Hm'].
Qed.

Lemma filter_keys_single : forall (f : fsmap) (P : str * kind -> bool) p,
  NoDup (map fst f) ->
  (forall e, In e f -> P e = true -> fst e = p) ->
  (exists k, In (p, k) f /\ P (p, k) = true) ->
  map fst (filter P f) = [p].
Proof.
  induction f as [|[a ka] r IH]; intros P p Hnd Hall [k [Hin HP]]; [destruct Hin|].
  cbn [map fst] in Hnd. inversion Hnd as [|? ? Hna Hnd']; subst.
  cbn [filter]. destruct (P (a, ka)) eqn:Pa.
  - pose proof (Hall (a, ka) (or_introl eq_refl) Pa) as Ea. cbn [fst] in Ea. subst a.
    cbn [map fst]. f_equal.
    assert (Hnone : filter P r = []).
    { apply filter_nil_iff. intros [b kb] Hb. destruct (P (b, kb)) eqn:Pb; [|reflexivity]. exfalso.
      pose proof (Hall (b, kb) (or_intror Hb) Pb) as Eb. cbn [fst] in Eb. subst b.
      apply Hna. apply in_map_iff. exists (p, kb). split; [reflexivity|exact Hb]. }
    rewrite Hnone. reflexivity.
  - destruct Hin as [Hin|Hin]; [inversion Hin; subst; congruence|].
    apply (IH P p Hnd'); [|exists k; split; assumption].
    intros e He. apply Hall. right. exact He.
Qed.

Theorem file_root_entries f x :
  fs_ok f -> eok x -> x <> [] -> stat f (pth x) = StFile -> entries_under f (pth x) = [pth x].
Proof.
  intros [Hnd Hc] Hx Hne Hs. apply stat_inv in Hs; [|discriminate]. rewrite comps_pth in Hs by exact Hx.
  change [c_dot] with (pth []) in Hs.
  destruct (stat_from_file_inv x f [] Hx Hs) as [_ [e L]]. cbn [app] in L.
  unfold entries_under. apply filter_keys_single; [exact Hnd| |].
  - intros [p k] Hin U. cbn [fst] in *.
    destruct (in_lookup_some f p k Hin) as [k' Lp].
    destruct (Hc p k' Lp) as [[es [Hes [Heok Ep]]] _].
    rewrite <- (pth_join es Hes) in Ep. subst p.
    destruct (under_inv x es Hx Hne Heok U) as [m Em]. subst es.
    destruct m as [|c m']; [rewrite app_nil_r; reflexivity|]. exfalso.
    rewrite (nothing_below_file f x e Hc Hx Hne L (c :: m')) in Lp; [discriminate|discriminate|].
    apply eok_app in Heok. tauto.
  - exists (KFile e). split; [apply lookup_in; exact L|]. cbn [fst].
    rewrite <- (app_nil_r x) at 2. apply under_ext; [rewrite app_nil_r; exact Hx|exact Hne].
Qed.

Corollary file_root_verdict strict tc f g :
  fs_ok f -> eok tc -> wfw [] g -> stat f (rootp (pth tc) g) = StFile ->
  entries_under f (rootp (pth tc) g) = [rootp (pth tc) g] /\
  extra_of (pth tc) f g = [] /\
  missing_of (pth tc) f g = filter (fun p => negb (str_eqb p (rootp (pth tc) g))) (md_paths (pth tc) g) /\
  (gkids g = [] -> verify_root strict (pth tc) f g = VPass).
Proof.
  intros Hok Htc Hw Hs.
  assert (E : entries_under f (rootp (pth tc) g) = [rootp (pth tc) g]).
  { unfold rootp in *. rewrite (wfw_root_tjoin tc g Htc Hw) in *.
    apply file_root_entries; [exact Hok| |destruct tc; discriminate|exact Hs].
    apply eok_app. split; [exact Htc|]. apply eok1. eapply wfw_name. exact Hw. }
  assert (Ex : extra_of (pth tc) f g = []).
  { unfold extra_of. rewrite E. destruct (md_paths_head (pth tc) g) as [r Er]. rewrite Er.
    cbn [filter mem_str]. rewrite str_eqb_refl. reflexivity. }
  assert (Em : missing_of (pth tc) f g = filter (fun p => negb (str_eqb p (rootp (pth tc) g))) (md_paths (pth tc) g)).
  { unfold missing_of. rewrite E. apply filter_ext. intros p. cbn [mem_str]. rewrite orb_false_r. reflexivity. }
  split; [exact E|]. split; [exact Ex|]. split; [exact Em|].
  intros Hk. apply verify_root_pass_exact. split; [right; exact Hs|]. split; [|intros _; exact Ex].
  rewrite Em. destruct g as [n b p ks]. cbn [gkids] in Hk. subst ks.
  unfold md_paths, rootp. cbn [gpre flat_map map snd gpath filter]. rewrite str_eqb_refl. reflexivity.
Qed.

(* ================= Stage 3: the entry points ================= *)

(* names first: either validation rejects the forest — with a name error that does not depend
   on the file system, the mode or the directory: no file-system access happens — or the
   grown forest is verified *)
Theorem verify_trees_cases c ts :
  (exists e, grow_all (no_enc c) true ts = Err e /\ name_error (Err e) = true /\
             forall strict dir f, verify_trees c strict dir f ts = Err e) \/
  (grow_all (no_enc c) true ts = Ok (map (grow_root (c_bf c)) ts) /\
   Forall (fun t => eok (tnames t)) ts /\
   forall strict dir f, verify_trees c strict dir f ts =
                        verifier strict (target_of dir) f (map (grow_root (c_bf c)) ts)).
Proof.
  destruct (grow_all (no_enc c) true ts) as [gs|e|] eqn:G.
  - right. destruct (grow_all_validated c ts gs G) as [-> Hn]. split; [reflexivity|]. split; [exact Hn|].
    intros strict dir f. unfold verify_trees. cbn zeta. rewrite G. reflexivity.
  - left. exists e. split; [reflexivity|]. split; [eapply grow_all_name_error; exact G|].
    intros strict dir f. unfold verify_trees. cbn zeta. rewrite G. reflexivity.
  - exfalso. exact (grow_all_no_panic _ _ _ G).
Qed.

(* a name that is not a single path element anywhere in the forest: a name error, whatever
   the file system *)
Theorem verify_trees_bad_name c ts :
  (exists t n, In t ts /\ In n (tnames t) /\ elem_ok n = false) ->
  exists e, name_error (Err e) = true /\ forall strict dir f, verify_trees c strict dir f ts = Err e.
Proof.
  intros [t [n [Ht [Hn Hbad]]]].
  destruct (verify_trees_cases c ts) as [[e [_ [He Hv]]]|[_ [HF _]]].
  - exists e. split; assumption.
  - exfalso. rewrite Forall_forall in HF. specialize (HF t Ht). unfold eok in HF. rewrite Forall_forall in HF.
    specialize (HF n Hn). congruence.
Qed.

(* the error of the first root that does not match *)
Definition first_difference (strict : bool) (target : str) (f : fsmap) (gs : list gtree) (e : err) : Prop :=
  exists gs1 g gs2, gs = gs1 ++ g :: gs2 /\
    (forall g', In g' gs1 -> root_matches strict target f g') /\
    ~ root_matches strict target f g /\
    e = match stat f (rootp target g) with
        | StErr => EOs
        | StNone => EVerify [] (md_paths target g)
        | _ => EVerify (if strict then extra_of target f g else []) (missing_of target f g)
        end.

Lemma first_difference_verifier strict target f gs e :
  first_difference strict target f gs e <-> verifier strict target f gs = Err e.
Proof.
  split.
  - intros [gs1 [g [gs2 [-> [Hp [Hn ->]]]]]].
    rewrite verifier_app_pass by (intros g' Hg; apply verify_root_pass_matches; apply Hp; exact Hg).
    cbn [verifier]. rewrite <- verify_root_pass_matches in Hn. rewrite verify_root_unfold in Hn |- *.
    destruct (stat f (rootp target g)); try reflexivity.
    all: destruct ((strict && negb (is_nil (extra_of target f g))) || negb (is_nil (missing_of target f g)));
      [reflexivity|congruence].
  - intros H. destruct (verifier_exact strict target f gs) as [_ X].
    destruct X as [gs1 [g [gs2 [E [Hp [Hn Hv]]]]]]; [congruence|].
    exists gs1, g, gs2. split; [exact E|]. split; [exact Hp|]. split; [exact Hn|].
    rewrite H in Hv. destruct (stat f (rootp target g)); inversion Hv; reflexivity.
Qed.

(* the complete specification of a verify call on a forest of trees *)
Definition verify_spec (c : cfg) (strict : bool) (dir : str) (f : fsmap) (ts : list tree) (r : res unit) : Prop :=
  match grow_all (no_enc c) true ts with
  | Err e => r = Err e /\ name_error r = true
  | Panic => False
  | Ok gs =>
      gs = map (grow_root (c_bf c)) ts /\ Forall (fun t => eok (tnames t)) ts /\
      ((r = Ok tt /\ forall t, In t ts -> root_matches strict (target_of dir) f (grow_root (c_bf c) t)) \/
       (exists e, r = Err e /\ first_difference strict (target_of dir) f gs e))
  end.

(* verify_trees meets the specification, and the specification determines the result *)
Theorem verify_trees_exact c strict dir f ts r :
  verify_trees c strict dir f ts = r <-> verify_spec c strict dir f ts r.
Proof.
  unfold verify_spec, verify_trees. cbn zeta.
  destruct (grow_all (no_enc c) true ts) as [gs|e|] eqn:G.
  - destruct (grow_all_validated c ts gs G) as [-> Hn]. split.
    + intros <-. split; [reflexivity|]. split; [exact Hn|].
      destruct (verifier_range strict (target_of dir) f (map (grow_root (c_bf c)) ts)) as [H|[[e [m H]]|H]].
      * left. split; [exact H|]. intros t Ht. rewrite verifier_nil_iff in H. apply H. apply in_map. exact Ht.
      * right. exists (EVerify e m). split; [exact H|]. apply first_difference_verifier. exact H.
      * right. exists EOs. split; [exact H|]. apply first_difference_verifier. exact H.
    + intros [_ [_ [[-> H]|[e [-> H]]]]].
      * apply verifier_nil_iff. intros g Hg. apply in_map_iff in Hg as [t [<- Ht]]. apply H. exact Ht.
      * apply first_difference_verifier. exact H.
  - split.
    + intros <-. split; [reflexivity|]. eapply grow_all_name_error. exact G.
    + intros [-> _]. reflexivity.
  - exfalso. exact (grow_all_no_panic _ _ _ G).
Qed.

(* From-Root: the world is unchanged, the output carries no text and the unchanged file
   system, and the result is that of verify_trees on the designated tree *)
Theorem pverify_step w h c strict dir :
  pstep w (PVerify h c strict dir) =
  (w, OFs [] (match root_of w h with
              | Ok t => verify_trees c strict dir (w_fs w) [t]
              | Err e => Err e
              | Panic => Panic
              end) (w_fs w)).
Proof. cbn [pstep]. destruct (root_of w h); reflexivity. Qed.

Theorem pverify_exact w h t c strict dir :
  root_of w h = Ok t ->
  exists r, pstep w (PVerify h c strict dir) = (w, OFs [] r (w_fs w)) /\
            verify_spec c strict dir (w_fs w) [t] r.
Proof.
  intros H. exists (verify_trees c strict dir (w_fs w) [t]). split.
  - rewrite pverify_step, H. reflexivity.
  - apply verify_trees_exact. reflexivity.
Qed.

(* From-Markdown *)
Theorem pmdverify_step w c strict dir doc :
  pstep w (PMdVerify c strict dir doc) =
  (w, OFs [] (match gen_all doc with
              | Ok ts => verify_trees c strict dir (w_fs w) ts
              | Err e => Err e
              | Panic => Panic
              end) (w_fs w)).
Proof. cbn [pstep]. destruct (gen_all doc); reflexivity. Qed.

Theorem pmdverify_exact w ts c strict dir doc :
  gen_all doc = Ok ts ->
  exists r, pstep w (PMdVerify c strict dir doc) = (w, OFs [] r (w_fs w)) /\
            verify_spec c strict dir (w_fs w) ts r.
Proof.
  intros H. exists (verify_trees c strict dir (w_fs w) ts). split.
  - rewrite pmdverify_step, H. reflexivity.
  - apply verify_trees_exact. reflexivity.
Qed.

(* every spelling of a forest (unit, heading style, blank rows, CRLF, final newline): the
   trees verified are the tries of the forest *)
Theorem pmdverify_spelled sp fo w c strict dir :
  spells sp fo ->
  exists r, pstep w (PMdVerify c strict dir (bytes_of sp)) = (w, OFs [] r (w_fs w)) /\
            verify_spec c strict dir (w_fs w) (map trie_of fo) r.
Proof.
  intros H. destruct (spells_parses sp fo H) as [Hs [st' Hp]].
  destruct (gen_run_forest (bytes_of sp) _ fo st' Hs Hp) as [Hg _].
  apply pmdverify_exact. exact Hg.
Qed.

(* ================= Stage 4: a concrete instance ================= *)

Definition xs (x : string) : str := list_ascii_of_string x.
Definition x_nl : string := String (ascii_of_nat 10) EmptyString.

(* two roots: a { b }   and   r { x, y { z } } *)
Definition ex_ts : list tree :=
  [T (xs "a") [T (xs "b") []]; T (xs "r") [T (xs "x") []; T (xs "y") [T (xs "z") []]]].
Definition ex_doc : str :=
  xs ("- a" ++ x_nl ++ "  - b" ++ x_nl ++ "- r" ++ x_nl ++ "  - x" ++ x_nl ++ "  - y" ++ x_nl ++ "    - z" ++ x_nl).
Definition ex_cfg : cfg :=
  {| c_bf := default_bfmt; c_enc := EncDefault; c_dry := false; c_exts := []; c_noiter := false |}.
(* the file system, in walk order: under "a" exactly a, a/b; under "r": r, r/x, r/y and the
   two entries r/e1, r/y/e2 that no node names; r/y/z does not exist *)
Definition ex_fs : fsmap :=
  [(xs "r/e1", KFile false); (xs "a", KDir); (xs "a/b", KFile true); (xs "r", KDir);
   (xs "r/y", KDir); (xs "r/x", KDir); (xs "r/y/e2", KFile true)].
Definition ex_w : world := {| w_trees := []; w_handles := []; w_fs := ex_fs |}.
Definition ex_ga := grow_root default_bfmt (T (xs "a") [T (xs "b") []]).
Definition ex_gr := grow_root default_bfmt (T (xs "r") [T (xs "x") []; T (xs "y") [T (xs "z") []]]).

Example verify_exact_instance :
  (* the document spells the forest *)
  gen_all ex_doc = Ok ex_ts /\
  (* the first root passes, strictly *)
  verify_root true [c_dot] ex_fs ex_ga = VPass /\
  (* the second: the node paths in pre-order, the entries in walk order, and the two filters *)
  md_paths [c_dot] ex_gr = [xs "r"; xs "r/x"; xs "r/y"; xs "r/y/z"] /\
  entries_under ex_fs (rootp [c_dot] ex_gr) = [xs "r/e1"; xs "r"; xs "r/y"; xs "r/x"; xs "r/y/e2"] /\
  missing_of [c_dot] ex_fs ex_gr = [xs "r/y/z"] /\
  extra_of [c_dot] ex_fs ex_gr = [xs "r/e1"; xs "r/y/e2"] /\
  verify_root true [c_dot] ex_fs ex_gr = VFail [xs "r/e1"; xs "r/y/e2"] [xs "r/y/z"] /\
  verify_root false [c_dot] ex_fs ex_gr = VFail [] [xs "r/y/z"] /\
  (* the entry points: world unchanged, no text, the file system as it was, exactly those lists *)
  pstep ex_w (PMdVerify ex_cfg true [] ex_doc) =
    (ex_w, OFs [] (Err (EVerify [xs "r/e1"; xs "r/y/e2"] [xs "r/y/z"])) ex_fs) /\
  pstep ex_w (PMdVerify ex_cfg false [] ex_doc) =
    (ex_w, OFs [] (Err (EVerify [] [xs "r/y/z"])) ex_fs) /\
  (* once the differences are repaired the same call returns nil, strictly *)
  verify_trees ex_cfg true []
    [(xs "a", KDir); (xs "a/b", KFile true); (xs "r", KDir); (xs "r/y", KDir); (xs "r/x", KDir); (xs "r/y/z", KDir)]
    ex_ts = Ok tt.
Proof. repeat split; vm_compute; reflexivity. Qed.

(* the three special states of a root path *)
Example verify_special_roots :
  (* absent root: every node path, in pre-order, no extra entry — even in strict mode *)
  verify_trees ex_cfg true [] ex_fs [T (xs "q") [T (xs "k") []; T (xs "l") []]]
    = Err (EVerify [] [xs "q"; xs "q/k"; xs "q/l"]) /\
  (* a root that exists as a regular FILE: a single-node tree passes, strictly *)
  verify_trees ex_cfg true (xs "a") ex_fs [T (xs "b") []] = Ok tt /\
  (* ... and with children, the children are missing *)
  verify_trees ex_cfg true (xs "a") ex_fs [T (xs "b") [T (xs "c") []]] = Err (EVerify [] [xs "a/b/c"]) /\
  (* os.Stat fails (a file in the way of the root path): the OS error, no lists *)
  verify_trees ex_cfg true (xs "a/b") ex_fs [T (xs "c") []] = Err EOs /\
  (* a name that is not a path element: rejected before the file system is looked at *)
  (forall strict dir f, verify_trees ex_cfg strict dir f [T (xs "a") [T (xs "b/c") []]] = Err (EInvalidName (xs "b/c"))).
Proof. repeat split; vm_compute; reflexivity. Qed.

(* [fs_closed] cannot be dropped from [absent_root_nothing_under]: with an orphan entry
   os.Stat says the root does not exist although an entry lies under its path *)
Example orphan_needs_closed :
  let f := [(xs "a/b", KFile true)] in
  eok [xs "a"] /\ stat f (pth [xs "a"]) = StNone /\ entries_under f (pth [xs "a"]) = [xs "a/b"] /\ ~ fs_closed f.
Proof.
  cbn zeta. split; [repeat constructor|]. split; [vm_compute; reflexivity|]. split; [vm_compute; reflexivity|].
  intros H. destruct (H (xs "a/b") (KFile true) eq_refl) as [_ [D|D]]; vm_compute in D; discriminate.
Qed.

Print Assumptions mem_str_In.
Print Assumptions verify_root_err_iff.
Print Assumptions verify_root_pass_exact.
Print Assumptions verify_root_fail_exact.
Print Assumptions verify_root_complete.
Print Assumptions verify_root_absent_lists.
Print Assumptions verify_root_listed_iff.
Print Assumptions verifier_ok_iff.
Print Assumptions verifier_fail_iff.
Print Assumptions verifier_os_iff.
Print Assumptions verifier_exact.
Print Assumptions absent_root_true_difference.
Print Assumptions file_root_verdict.
Print Assumptions verify_trees_cases.
Print Assumptions verify_trees_bad_name.
Print Assumptions verify_trees_exact.
Print Assumptions pverify_exact.
Print Assumptions pmdverify_exact.
Print Assumptions pmdverify_spelled.
Print Assumptions verify_exact_instance.
Print Assumptions verify_special_roots.
Print Assumptions orphan_needs_closed.
