(* Proofs/PipeFinite.v — every run of the pipeline LTS (Conc/Pipeline.v) is finite.

   wf p s            : well-formedness invariant of reachable states
   measure p s       : a termination measure computable from the parameters and the state
   step_decreases    : every step strictly decreases the measure (on well-formed states)
   runs_are_finite   : a step chain starting in a reachable state s has at most measure p s steps
   no_infinite_run   : there is no infinite run from the initial state *)
From Coq Require Import List Arith Bool Lia.
Import ListNotations.
From GT.Conc Require Import Pipeline.

(* ------------------------------------------------------------------ *)
(* sums over lists, upd                                                 *)
(* ------------------------------------------------------------------ *)
Section Sums.
Context {A : Type}.

Fixpoint sumf (f : A -> nat) (l : list A) : nat :=
  match l with
  | [] => 0
  | x :: r => f x + sumf f r
  end.

Lemma sumf_app : forall (f : A -> nat) (l1 l2 : list A),
  sumf f (l1 ++ l2) = sumf f l1 + sumf f l2.
Proof.
  intros f l1 l2. induction l1 as [|x l1 IH]; cbn [app sumf].
  - reflexivity.
  - rewrite IH. lia.
Qed.

(* sum with the position of the element *)
Fixpoint isum (f : nat -> A -> nat) (idx : nat) (l : list A) : nat :=
  match l with
  | [] => 0
  | x :: r => f idx x + isum f (S idx) r
  end.

Lemma nth_error_upd_same : forall (g : A -> A) (l : list A) (n : nat),
  nth_error (upd n g l) n = option_map g (nth_error l n).
Proof.
  intros g l. induction l as [|x l IH]; intros n.
  - destruct n; reflexivity.
  - destruct n as [|n]; cbn [upd nth_error option_map].
    + reflexivity.
    + apply IH.
Qed.

Lemma nth_error_upd_other : forall (g : A -> A) (l : list A) (n m : nat),
  m <> n -> nth_error (upd n g l) m = nth_error l m.
Proof.
  intros g l. induction l as [|x l IH]; intros n m Hne.
  - destruct n; reflexivity.
  - destruct n as [|n]; destruct m as [|m]; cbn [upd nth_error]; try reflexivity.
    + congruence.
    + apply IH. congruence.
Qed.

Lemma length_upd : forall (g : A -> A) (l : list A) (n : nat),
  length (upd n g l) = length l.
Proof.
  intros g l. induction l as [|x l IH]; intros n.
  - destruct n; reflexivity.
  - destruct n as [|n]; cbn [upd length].
    + reflexivity.
    + rewrite IH. reflexivity.
Qed.

Lemma sumf_upd : forall (f : A -> nat) (g : A -> A) (l : list A) (n : nat) (x : A),
  nth_error l n = Some x ->
  sumf f (upd n g l) + f x = sumf f l + f (g x).
Proof.
  intros f g l. induction l as [|y l IH]; intros n x Hn.
  - destruct n; discriminate Hn.
  - destruct n as [|n]; cbn [upd sumf nth_error] in *.
    + injection Hn as ->. lia.
    + specialize (IH n x Hn). lia.
Qed.

Lemma isum_upd : forall (f : nat -> A -> nat) (g : A -> A) (l : list A) (n idx : nat) (x : A),
  nth_error l n = Some x ->
  isum f idx (upd n g l) + f (idx + n) x = isum f idx l + f (idx + n) (g x).
Proof.
  intros f g l. induction l as [|y l IH]; intros n idx x Hn.
  - destruct n; discriminate Hn.
  - destruct n as [|n]; cbn [upd isum nth_error] in *.
    + injection Hn as ->. rewrite Nat.add_0_r. lia.
    + specialize (IH n (S idx) x Hn).
      replace (idx + S n) with (S idx + n) by lia. lia.
Qed.

Lemma nth_error_Some_lt : forall (l : list A) (n : nat) (x : A),
  nth_error l n = Some x -> n < length l.
Proof.
  intros l n x H. apply nth_error_Some. rewrite H. discriminate.
Qed.

End Sums.

(* ------------------------------------------------------------------ *)
(* pool_change                                                          *)
(* ------------------------------------------------------------------ *)
Lemma pool_change_sum : forall (f : wst -> nat) ws ws' x y,
  pool_change ws ws' x y -> sumf f ws' + f x = sumf f ws + f y.
Proof.
  intros f ws ws' x y (l1 & l2 & -> & ->).
  rewrite !sumf_app. cbn [sumf]. lia.
Qed.

Lemma pool_change_length : forall ws ws' x y,
  pool_change ws ws' x y -> length ws' = length ws.
Proof.
  intros ws ws' x y (l1 & l2 & -> & ->).
  rewrite !app_length. reflexivity.
Qed.

Lemma pool_change_in_new : forall ws ws' x y w,
  pool_change ws ws' x y -> In w ws' -> w = y \/ In w ws.
Proof.
  intros ws ws' x y w (l1 & l2 & -> & ->) Hin.
  apply in_app_or in Hin. destruct Hin as [Hin | [Hin | Hin]].
  - right. apply in_or_app. left. exact Hin.
  - left. symmetry. exact Hin.
  - right. apply in_or_app. right. right. exact Hin.
Qed.

Lemma pool_change_in_old : forall ws ws' x y,
  pool_change ws ws' x y -> In x ws.
Proof.
  intros ws ws' x y (l1 & l2 & -> & ->).
  apply in_or_app. right. left. reflexivity.
Qed.

(* ------------------------------------------------------------------ *)
(* (1) well-formedness                                                  *)
(* ------------------------------------------------------------------ *)

(* stage n (descriptor d, state t): the pool has d_workers d workers; a worker is inside the
   critical section only in a locking last stage, having written at most d_lines d i lines *)
Definition stage_ok (p : params) (n : nat) (d : sdesc) (t : sst) : Prop :=
  length (s_ws t) = d_workers d /\
  forall i k, In (WCrit i k) (s_ws t) ->
    is_last p n /\ d_lock d = true /\ k <= d_lines d i.

Definition stages_ok (p : params) (l : list sst) : Prop :=
  length l = length (p_stages p) /\
  forall n d t, nth_error (p_stages p) n = Some d -> nth_error l n = Some t ->
    stage_ok p n d t.

Definition wf (p : params) (s : state) : Prop :=
  stages_ok p (st_stages s) /\
  length (st_readers s) = S (length (p_stages p)).

Lemma wf_stages_length : forall p s,
  wf p s -> length (st_stages s) = length (p_stages p).
Proof. intros p s [[H _] _]. exact H. Qed.

Lemma wf_readers_length : forall p s,
  wf p s -> length (st_readers s) = S (length (p_stages p)).
Proof. intros p s [_ H]. exact H. Qed.

Lemma wf_crit : forall p s n d t i k,
  wf p s -> nth_error (p_stages p) n = Some d -> nth_error (st_stages s) n = Some t ->
  In (WCrit i k) (s_ws t) ->
  is_last p n /\ d_lock d = true /\ k <= d_lines d i.
Proof.
  intros p s n d t i k [[_ H] _] Hd Ht Hin.
  destruct (H n d t Hd Ht) as [_ Hc]. exact (Hc i k Hin).
Qed.

Lemma wf_pool_length : forall p s n d t,
  wf p s -> nth_error (p_stages p) n = Some d -> nth_error (st_stages s) n = Some t ->
  length (s_ws t) = d_workers d.
Proof.
  intros p s n d t [[_ H] _] Hd Ht.
  destruct (H n d t Hd Ht) as [Hl _]. exact Hl.
Qed.

Lemma stages_ok_upd : forall p l n g t,
  stages_ok p l -> nth_error l n = Some t ->
  (forall d, nth_error (p_stages p) n = Some d -> stage_ok p n d t -> stage_ok p n d (g t)) ->
  stages_ok p (upd n g l).
Proof.
  intros p l n g t [Hlen Hall] Hn Hg. split.
  - rewrite length_upd. exact Hlen.
  - intros m d t' Hd Ht'.
    destruct (Nat.eq_dec m n) as [-> | Hne].
    + rewrite nth_error_upd_same, Hn in Ht'. cbn [option_map] in Ht'.
      injection Ht' as <-. apply Hg; [exact Hd|]. apply Hall; assumption.
    + rewrite nth_error_upd_other in Ht' by exact Hne. apply Hall; assumption.
Qed.

Lemma stage_ok_change : forall p n d t t' ws' x y,
  stage_ok p n d t -> pool_change (s_ws t) ws' x y -> s_ws t' = ws' ->
  (forall i k, y = WCrit i k -> is_last p n /\ d_lock d = true /\ k <= d_lines d i) ->
  stage_ok p n d t'.
Proof.
  intros p n d t t' ws' x y [Hl Hc] Hpc Hws Hy. split.
  - rewrite Hws, (pool_change_length _ _ _ _ Hpc). exact Hl.
  - intros i k Hin. rewrite Hws in Hin.
    destruct (pool_change_in_new _ _ _ _ _ Hpc Hin) as [He | Hold].
    + apply Hy. symmetry. exact He.
    + apply Hc. exact Hold.
Qed.

Lemma stage_ok_same_ws : forall p n d t t',
  stage_ok p n d t -> s_ws t' = s_ws t -> stage_ok p n d t'.
Proof.
  intros p n d t t' [Hl Hc] Hws. split.
  - rewrite Hws. exact Hl.
  - intros i k Hin. rewrite Hws in Hin. apply Hc. exact Hin.
Qed.

(* the common case: one worker of stage n changes *)
Lemma stages_ok_change : forall p l n t g ws' x y,
  stages_ok p l -> nth_error l n = Some t ->
  pool_change (s_ws t) ws' x y -> s_ws (g t) = ws' ->
  (forall d i k, nth_error (p_stages p) n = Some d -> y = WCrit i k ->
     is_last p n /\ d_lock d = true /\ k <= d_lines d i) ->
  stages_ok p (upd n g l).
Proof.
  intros p l n t g ws' x y Hok Hn Hpc Hws Hy.
  apply (stages_ok_upd p l n g t Hok Hn).
  intros d Hd Hst.
  apply (stage_ok_change p n d t (g t) ws' x y Hst Hpc Hws).
  intros i k He. apply (Hy d i k Hd He).
Qed.

Lemma repeat_not_in : forall (x y : wst) n, x <> y -> ~ In x (repeat y n).
Proof.
  intros x y n Hne Hin. apply repeat_spec in Hin. contradiction.
Qed.

Theorem wf_init : forall p, wf p (init p).
Proof.
  intros p. split.
  - split.
    + cbn [init st_stages]. apply map_length.
    + intros n d t Hd Ht. cbn [init st_stages] in Ht.
      rewrite nth_error_map, Hd in Ht. cbn [option_map] in Ht. injection Ht as <-.
      split.
      * cbn [init_stage s_ws]. apply repeat_length.
      * intros i k Hin. cbn [init_stage s_ws] in Hin.
        exfalso. revert Hin. apply repeat_not_in. discriminate.
  - cbn [init st_readers]. apply repeat_length.
Qed.

Ltac not_crit :=
  let d := fresh "d" in let i := fresh "i" in let k := fresh "k" in
  let Hd := fresh "Hd" in let He := fresh "He" in
  intros d i k Hd He; discriminate He.

Theorem wf_step : forall p s s', wf p s -> step p s s' -> wf p s'.
Proof.
  intros p s s' Hwf Hstep.
  destruct Hwf as [Hst Hrd].
  inversion Hstep; subst; clear Hstep; unfold wf, with_stages; cbn [st_stages st_readers].
  - (* src_emit *)
    split; [|exact Hrd].
    eapply stages_ok_change; eauto. not_crit.
  - (* src_abort *) split; assumption.
  - (* src_close *) split; assumption.
  - (* src_err *)
    split; [exact Hst|].
    match goal with H : st_readers s = _ |- _ => rewrite H in Hrd end.
    exact Hrd.
  - (* work_ok *)
    split; [|exact Hrd].
    eapply stages_ok_change; eauto.
    intros d0 i0 k0 _ He. destruct (S n =? length (p_stages p)); discriminate He.
  - (* work_fail *)
    split; [|exact Hrd].
    eapply stages_ok_change; eauto. not_crit.
  - (* err_send *)
    split; [|exact Hrd].
    eapply stages_ok_change; eauto.
    intros d0 i0 k0 _ He. unfold after_err in He. destruct (d_exits_on_err d); discriminate He.
  - (* err_drop *)
    split; [|exact Hrd].
    eapply stages_ok_change; eauto.
    intros d0 i0 k0 _ He. unfold after_err in He. destruct (d_exits_on_err d); discriminate He.
  - (* handoff *)
    split; [|exact Hrd].
    eapply stages_ok_change with (t := t2) (x := WIdle) (y := WHold i).
    + eapply stages_ok_change with (t := t); eauto. not_crit.
    + rewrite nth_error_upd_other by lia. eassumption.
    + eassumption.
    + reflexivity.
    + not_crit.
  - (* handoff_abort *)
    split; [|exact Hrd].
    eapply stages_ok_change; eauto. not_crit.
  - (* exit_closed *)
    split; [|exact Hrd].
    eapply stages_ok_change; eauto. not_crit.
  - (* exit_ctx *)
    split; [|exact Hrd].
    eapply stages_ok_change; eauto. not_crit.
  - (* lock *)
    split; [|exact Hrd].
    eapply stages_ok_change; eauto.
    intros d0 i0 k0 Hd0 He. injection He as <- <-.
    assert (d0 = d) by congruence. subst d0.
    split; [assumption|]. split; [assumption|]. lia.
  - (* write *)
    split; [|exact Hrd].
    eapply stages_ok_change; eauto.
    intros d0 i0 k0 Hd0 He. injection He as <- <-.
    assert (d0 = d) by congruence. subst d0.
    destruct Hst as [_ Hall].
    match goal with
    | Hd : nth_error (p_stages p) n = Some d, Ht : nth_error (st_stages s) n = Some t,
      Hpc : pool_change (s_ws t) _ _ _ |- _ =>
        destruct (Hall n d t Hd Ht) as [_ Hc];
        destruct (Hc i k (pool_change_in_old _ _ _ _ Hpc)) as (Hl1 & Hl2 & _)
    end.
    split; [assumption|]. split; [assumption|]. lia.
  - (* unlock *)
    split; [|exact Hrd].
    eapply stages_ok_change; eauto. not_crit.
  - (* closer *)
    split; [|exact Hrd].
    eapply stages_ok_upd; eauto.
  - (* reader_take *)
    split.
    + eapply stages_ok_upd; eauto.
    + rewrite length_upd. exact Hrd.
  - (* reader_closed *)
    split; [exact Hst|]. rewrite length_upd. exact Hrd.
  - (* reader0_closed *)
    split; [exact Hst|].
    match goal with H : st_readers s = _ |- _ => rewrite H in Hrd end.
    exact Hrd.
  - (* reader_ctx *)
    split; [exact Hst|]. rewrite length_upd. exact Hrd.
  - (* main_return *) split; assumption.
  - (* user_cancel *) split; assumption.
Qed.

Theorem reach_wf : forall p s, reach p s -> wf p s.
Proof.
  intros p s H. induction H as [|s s' _ IH Hstep].
  - apply wf_init.
  - exact (wf_step p s s' IH Hstep).
Qed.

(* ------------------------------------------------------------------ *)
(* (2) the measure                                                      *)
(* ------------------------------------------------------------------ *)

(* ranks of a worker that holds (resp. is handing on) an item of weight w, r stages before
   the sink *)
Definition hold_rank (r w : nat) : nat := (2 * r + 2) * w.
Definition out_rank (r w : nat) : nat := (2 * r + 1) * w.

Lemma hold_rank_out : forall r w, hold_rank r w = out_rank r w + w.
Proof. intros r w. unfold hold_rank, out_rank. lia. Qed.

Lemma out_rank_S : forall r w, out_rank (S r) w = hold_rank r w + w.
Proof. intros r w. unfold hold_rank, out_rank. lia. Qed.

Lemma hold_rank_S : forall r w, hold_rank (S r) w = hold_rank r w + 2 * w.
Proof. intros r w. unfold hold_rank. lia. Qed.

Lemma hold_rank_0 : forall w, hold_rank 0 w = 2 * w.
Proof. intros w. unfold hold_rank. lia. Qed.

Lemma out_rank_ge : forall r w, w <= out_rank r w.
Proof. intros r w. unfold out_rank. nia. Qed.

Lemma hold_rank_ge : forall r w, 2 * w <= hold_rank r w.
Proof. intros r w. unfold hold_rank. nia. Qed.

(* number of stages after stage idx *)
Definition after (p : params) (idx : nat) : nat := length (p_stages p) - S idx.

(* number of lines of item i according to stage idx *)
Definition dlines (p : params) (idx : nat) (i : item) : nat :=
  match nth_error (p_stages p) idx with
  | Some d => d_lines d i
  | None => 0
  end.

(* weight of an item: 4 + the number of lines the sink writes for it *)
Definition wt (p : params) (i : item) : nat :=
  4 + dlines p (pred (length (p_stages p))) i.

Definition rank (p : params) (idx : nat) (x : wst) : nat :=
  match x with
  | WDone => 0
  | WIdle => 1
  | WErr _ => 2
  | WOut i => out_rank (after p idx) (wt p i)
  | WHold i => hold_rank (after p idx) (wt p i)
  | WCrit i k => 3 + (dlines p idx i - k)
  end.

Definition stage_m (p : params) (idx : nat) (t : sst) : nat :=
  sumf (rank p idx) (s_ws t) + (if s_closed t then 0 else 1).

Definition pending_w (p : params) (i : item) : nat :=
  hold_rank (length (p_stages p)) (wt p i).

Definition rwait (r : rst) : nat :=
  match r with RWait => 1 | RDone _ => 0 end.

Definition measure (p : params) (s : state) : nat :=
  sumf (pending_w p) (st_pending s)
  + isum (stage_m p) 0 (st_stages s)
  + sumf rwait (st_readers s)
  + (match st_main s with None => 1 | Some _ => 0 end)
  + (match st_src s with SRun => 1 | SDone => 0 end)
  + (if st_src_err_pending s then 1 else 0)
  + (if p_user_may_cancel p then if st_ucancel s then 0 else 1 else 0).

Lemma wt_ge : forall p i, 4 <= wt p i.
Proof. intros p i. unfold wt. lia. Qed.

Lemma wt_last : forall p n d i,
  is_last p n -> nth_error (p_stages p) n = Some d -> wt p i = 4 + d_lines d i.
Proof.
  intros p n d i Hl Hd. unfold wt, dlines, is_last in *.
  rewrite <- Hl. cbn [pred]. rewrite Hd. reflexivity.
Qed.

Lemma dlines_nth : forall p n d i,
  nth_error (p_stages p) n = Some d -> dlines p n i = d_lines d i.
Proof. intros p n d i Hd. unfold dlines. rewrite Hd. reflexivity. Qed.

(* one worker of stage idx changes, the closed flag stays *)
Lemma stage_m_change : forall p idx t t' ws' x y,
  pool_change (s_ws t) ws' x y -> s_ws t' = ws' -> s_closed t' = s_closed t ->
  stage_m p idx t' + rank p idx x = stage_m p idx t + rank p idx y.
Proof.
  intros p idx t t' ws' x y Hpc Hws Hcl. unfold stage_m.
  rewrite Hws, Hcl.
  pose proof (pool_change_sum (rank p idx) _ _ _ _ Hpc) as H. lia.
Qed.

(* the effect on the stage sum of a change of one worker of stage n *)
Lemma stages_change : forall p l n t g ws' x y,
  nth_error l n = Some t ->
  pool_change (s_ws t) ws' x y -> s_ws (g t) = ws' -> s_closed (g t) = s_closed t ->
  isum (stage_m p) 0 (upd n g l) + rank p n x = isum (stage_m p) 0 l + rank p n y.
Proof.
  intros p l n t g ws' x y Hn Hpc Hws Hcl.
  pose proof (isum_upd (stage_m p) g l n 0 t Hn) as H1. cbn [Nat.add] in H1.
  pose proof (stage_m_change p n t (g t) ws' x y Hpc Hws Hcl) as H2.
  lia.
Qed.

Lemma reader_done : forall (l : list rst) n r,
  nth_error l n = Some RWait ->
  sumf rwait (upd n (fun _ => RDone r) l) + 1 = sumf rwait l.
Proof.
  intros l n r Hn.
  pose proof (sumf_upd rwait (fun _ => RDone r) l n RWait Hn) as H.
  cbn [rwait] in H. lia.
Qed.

(* pose the effect of the (single) pool change of the step on the stage sum *)
Ltac stage_fact p :=
  match goal with
  | Hn : nth_error (st_stages ?s) ?n = Some ?t,
    Hpc : pool_change (s_ws ?t) ?ws' ?x ?y |- context [upd ?n ?g (st_stages ?s)] =>
      let HS := fresh "HS" in
      pose proof (stages_change p (st_stages s) n t g ws' x y Hn Hpc eq_refl eq_refl) as HS;
      cbn [rank] in HS
  end.

Ltac open_measure :=
  unfold measure, with_stages;
  cbn [st_pending st_src st_src_err_pending st_stages st_readers st_main st_ucancel].

Theorem step_decreases : forall p s s',
  wf p s -> step p s s' -> measure p s' < measure p s.
Proof.
  intros p s s' Hwf Hstep.
  pose proof (wf_stages_length p s Hwf) as Hlen.
  inversion Hstep; subst; clear Hstep; open_measure.
  - (* src_emit *)
    stage_fact p.
    match goal with H : st_pending s = _ |- _ => rewrite H end.
    match goal with H : st_src s = _ |- _ => rewrite H end.
    cbn [sumf]. unfold pending_w.
    match goal with H : nth_error (st_stages s) 0 = Some _ |- _ =>
      pose proof (nth_error_Some_lt _ _ _ H) as Hlt end.
    assert (HN : length (p_stages p) = S (after p 0)) by (unfold after; lia).
    rewrite HN at 1. rewrite hold_rank_S.
    pose proof (wt_ge p i). lia.
  - (* src_abort *)
    match goal with H : st_src s = _ |- _ => rewrite H end.
    destruct (st_src_err_pending s); lia.
  - (* src_close *)
    match goal with H : st_src s = _ |- _ => rewrite H end.
    match goal with H : st_pending s = _ |- _ => rewrite H end.
    match goal with H : st_src_err_pending s = _ |- _ => rewrite H end.
    lia.
  - (* src_err *)
    match goal with H : st_src s = _ |- _ => rewrite H end.
    match goal with H : st_pending s = _ |- _ => rewrite H end.
    match goal with H : st_src_err_pending s = _ |- _ => rewrite H end.
    match goal with H : st_readers s = _ |- _ => rewrite H end.
    cbn [sumf rwait]. lia.
  - (* work_ok *)
    pose proof (hold_rank_ge (after p n) (wt p i)).
    pose proof (hold_rank_out (after p n) (wt p i)).
    pose proof (wt_ge p i).
    destruct (S n =? length (p_stages p)); stage_fact p; lia.
  - (* work_fail *)
    pose proof (hold_rank_ge (after p n) (wt p i)).
    pose proof (wt_ge p i).
    stage_fact p. lia.
  - (* err_send *)
    stage_fact p. unfold after_err in HS. destruct (d_exits_on_err d); cbn [rank] in HS; lia.
  - (* err_drop *)
    stage_fact p. unfold after_err in HS. destruct (d_exits_on_err d); cbn [rank] in HS; lia.
  - (* handoff *)
    match goal with
    | Hn : nth_error (st_stages s) n = Some t, Hn2 : nth_error (st_stages s) (S n) = Some t2,
      Hpc : pool_change (s_ws t) ws' _ _, Hpc2 : pool_change (s_ws t2) ws2' _ _ |- _ =>
        pose proof (stages_change p (st_stages s) n t (set_ws ws') ws' _ _ Hn Hpc eq_refl eq_refl) as HS1;
        assert (Hn2' : nth_error (upd n (set_ws ws') (st_stages s)) (S n) = Some t2)
          by (rewrite nth_error_upd_other by lia; exact Hn2);
        pose proof (stages_change p _ (S n) t2 (set_ws ws2') ws2' _ _ Hn2' Hpc2 eq_refl eq_refl) as HS2;
        pose proof (nth_error_Some_lt _ _ _ Hn2) as Hlt
    end.
    cbn [rank] in HS1, HS2.
    assert (HA : after p n = S (after p (S n))) by (unfold after; lia).
    rewrite HA, out_rank_S in HS1.
    pose proof (wt_ge p i). lia.
  - (* handoff_abort *)
    pose proof (out_rank_ge (after p n) (wt p i)).
    pose proof (wt_ge p i).
    stage_fact p. lia.
  - (* exit_closed *)
    stage_fact p. lia.
  - (* exit_ctx *)
    stage_fact p. lia.
  - (* lock *)
    stage_fact p.
    match goal with
    | Hl : is_last p n, Hd : nth_error (p_stages p) n = Some d |- _ =>
        rewrite (wt_last p n d i Hl Hd), (dlines_nth p n d i Hd) in HS;
        assert (HA : after p n = 0) by (unfold after, is_last in *; lia)
    end.
    rewrite HA, hold_rank_0 in HS. lia.
  - (* write *)
    stage_fact p.
    match goal with Hd : nth_error (p_stages p) n = Some d |- _ =>
      rewrite (dlines_nth p n d i Hd) in HS end.
    lia.
  - (* unlock *)
    stage_fact p.
    match goal with Hd : nth_error (p_stages p) n = Some d |- _ =>
      rewrite (dlines_nth p n d i Hd) in HS end.
    lia.
  - (* closer *)
    match goal with Hn : nth_error (st_stages s) n = Some t |- _ =>
      pose proof (isum_upd (stage_m p) set_closed (st_stages s) n 0 t Hn) as HS end.
    cbn [Nat.add] in HS.
    assert (HM : stage_m p n t = S (stage_m p n (set_closed t))).
    { unfold stage_m. cbn [set_closed s_ws s_closed].
      match goal with H : s_closed t = false |- _ => rewrite H end. lia. }
    lia.
  - (* reader_take *)
    match goal with Hn : nth_error (st_stages s) n = Some t |- _ =>
      pose proof (isum_upd (stage_m p) (set_ebuf None) (st_stages s) n 0 t Hn) as HS end.
    cbn [Nat.add] in HS.
    assert (HM : stage_m p n (set_ebuf None t) = stage_m p n t) by reflexivity.
    match goal with Hr : nth_error (st_readers s) _ = Some RWait |- _ =>
      pose proof (reader_done _ _ (Some (EStage n i)) Hr) as HR end.
    lia.
  - (* reader_closed *)
    match goal with Hr : nth_error (st_readers s) _ = Some RWait |- _ =>
      pose proof (reader_done _ _ None Hr) as HR end.
    lia.
  - (* reader0_closed *)
    match goal with H : st_readers s = _ |- _ => rewrite H end.
    cbn [sumf rwait]. lia.
  - (* reader_ctx *)
    match goal with Hr : nth_error (st_readers s) _ = Some RWait |- _ =>
      pose proof (reader_done _ _ (Some ECtx) Hr) as HR end.
    lia.
  - (* main_return *)
    match goal with H : st_main s = _ |- _ => rewrite H end.
    lia.
  - (* user_cancel *)
    match goal with H : p_user_may_cancel p = _ |- _ => rewrite H end.
    match goal with H : st_ucancel s = _ |- _ => rewrite H end.
    lia.
Qed.

(* ------------------------------------------------------------------ *)
(* (3) runs are finite                                                  *)
(* ------------------------------------------------------------------ *)

(* l is the list of the successive states of a step chain starting from s (s excluded) *)
Inductive path (p : params) : state -> list state -> Prop :=
| path_nil : forall s, path p s []
| path_cons : forall s s' l, step p s s' -> path p s' l -> path p s (s' :: l).

Lemma path_bounded : forall p s l,
  wf p s -> path p s l -> length l <= measure p s.
Proof.
  intros p s l Hwf Hpath. induction Hpath as [s | s s' l Hstep Hpath IH].
  - cbn [length]. lia.
  - pose proof (step_decreases p s s' Hwf Hstep) as Hdec.
    specialize (IH (wf_step p s s' Hwf Hstep)).
    cbn [length]. lia.
Qed.

Theorem runs_are_finite : forall p s,
  reach p s -> forall l, path p s l -> length l <= measure p s.
Proof.
  intros p s Hreach l Hpath.
  exact (path_bounded p s l (reach_wf p s Hreach) Hpath).
Qed.

Lemma run_path : forall p (f : nat -> state),
  (forall k, step p (f k) (f (S k))) ->
  forall m k, path p (f k) (map f (seq (S k) m)).
Proof.
  intros p f Hf m. induction m as [|m IH]; intros k.
  - cbn [seq map]. apply path_nil.
  - cbn [seq map]. apply path_cons.
    + apply Hf.
    + apply IH.
Qed.

Corollary no_infinite_run : forall p,
  ~ exists f : nat -> state, f 0 = init p /\ forall k, step p (f k) (f (S k)).
Proof.
  intros p (f & H0 & Hf).
  pose proof (run_path p f Hf (S (measure p (init p))) 0) as Hpath.
  rewrite H0 in Hpath.
  pose proof (runs_are_finite p (init p) (reach_init p) _ Hpath) as Hle.
  rewrite map_length, seq_length in Hle. lia.
Qed.

Print Assumptions wf_init.
Print Assumptions wf_step.
Print Assumptions reach_wf.
Print Assumptions step_decreases.
Print Assumptions runs_are_finite.
Print Assumptions no_infinite_run.
