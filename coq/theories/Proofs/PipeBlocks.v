(* Proofs/PipeBlocks.v — the text written by the locking sink of Conc/Pipeline.v is, in every
   reachable state and whatever the schedule, a sequence of complete contiguous per-item blocks
   (each item at most once) followed by the prefix of the block currently written under the lock.

   Main results (all for `reach p s`):
     at_most_one_crit, crit_only_in_locking_sink   mutual exclusion, where WCrit may occur
     items_multiset                                pending ++ held ++ done is a sub-multiset of p_items
     items_unique                                  ... hence NoDup / incl when p_items is NoDup
     log_is_blocks, log_nil_without_locking_sink   shape of the log
     quiescent_log_blocks                          finished runs: complete blocks only *)
From Coq Require Import List Arith Bool Lia.
From GT Require Import Conc.Pipeline.
Import ListNotations.

(* ------------------------------------------------------------------ *)
(* definitions                                                          *)
(* ------------------------------------------------------------------ *)

(* the complete block of item i for the sink descriptor d *)
Definition block (d : sdesc) (i : item) : list (item * nat) :=
  map (fun k => (i, k)) (seq 0 (d_lines d i)).
(* the first k lines of item i *)
Definition partial (i : item) (k : nat) : list (item * nat) :=
  map (fun k' => (i, k')) (seq 0 k).

(* the item a worker holds *)
Definition witem (w : wst) : list item :=
  match w with
  | WHold i => [i] | WErr i => [i] | WOut i => [i] | WCrit i _ => [i]
  | WIdle => [] | WDone => []
  end.
(* the critical section a worker is in *)
Definition critw (w : wst) : list (item * nat) :=
  match w with WCrit i k => [(i, k)] | _ => [] end.

Definition items (ws : list wst) : list item := flat_map witem ws.
Definition crits (ws : list wst) : list (item * nat) := flat_map critw ws.
Definition heldl (l : list sst) : list item := flat_map (fun t => items (s_ws t)) l.
(* the items held by the workers of all stages *)
Definition held (s : state) : list item := heldl (st_stages s).

Definition cnt (x : item) (l : list item) : nat := count_occ Nat.eq_dec l x.

(* the descriptor of the last stage, if any *)
Definition sinkd (p : params) : option sdesc :=
  nth_error (p_stages p) (pred (List.length (p_stages p))).
(* the worker pool of the last stage ([] if there is none) *)
Definition sink_pool (p : params) (s : state) : list wst :=
  match nth_error (st_stages s) (pred (List.length (p_stages p))) with
  | Some t => s_ws t
  | None => []
  end.

(* stage n is the locking sink *)
Definition locking (p : params) (n : nat) : Prop :=
  exists d, nth_error (p_stages p) n = Some d /\ is_last p n /\ d_lock d = true.

(* ------------------------------------------------------------------ *)
(* lists                                                                *)
(* ------------------------------------------------------------------ *)

Lemma cnt_nil : forall x, cnt x [] = 0.
Proof. reflexivity. Qed.

Lemma cnt_app : forall x l1 l2, cnt x (l1 ++ l2) = cnt x l1 + cnt x l2.
Proof. intros x l1 l2. unfold cnt. apply count_occ_app. Qed.

Lemma cnt_cons : forall x i l, cnt x (i :: l) = cnt x [i] + cnt x l.
Proof. intros x i l. change (i :: l) with ([i] ++ l). apply cnt_app. Qed.

Lemma upd_split : forall (A : Type) n (l : list A) t,
  nth_error l n = Some t ->
  exists a b, l = a ++ t :: b /\ List.length a = n /\ forall f, upd n f l = a ++ f t :: b.
Proof.
  intros A n. induction n as [|n IH]; intros l t H; destruct l as [|x r]; cbn in H; try discriminate.
  - inversion H; subst. exists [], r. repeat split.
  - destruct (IH r t H) as (a & b & E1 & E2 & E3).
    exists (x :: a), b. subst r. cbn [app List.length]. repeat split.
    + now rewrite E2.
    + intros f. cbn [upd]. now rewrite E3.
Qed.

Lemma nth_error_upd_eq : forall (A : Type) n (f : A -> A) l,
  nth_error (upd n f l) n = option_map f (nth_error l n).
Proof.
  intros A n f. induction n as [|n IH]; intros l; destruct l as [|x r]; cbn; auto.
Qed.

Lemma nth_error_upd_neq : forall (A : Type) n m (f : A -> A) l,
  m <> n -> nth_error (upd n f l) m = nth_error l m.
Proof.
  intros A n. induction n as [|n IH]; intros m f l Hm; destruct l as [|x r]; cbn; auto.
  - destruct m as [|m]; [congruence|reflexivity].
  - destruct m as [|m]; [reflexivity|]. cbn. apply IH. congruence.
Qed.

Lemma length_upd : forall (A : Type) n (f : A -> A) l, List.length (upd n f l) = List.length l.
Proof.
  intros A n f. induction n as [|n IH]; intros l; destruct l as [|x r]; cbn; auto.
Qed.

Lemma app_single : forall (A : Type) (c1 c2 : list A) x y,
  c1 ++ x :: c2 = [y] -> c1 = [] /\ c2 = [] /\ x = y.
Proof.
  intros A c1 c2 x y H. destruct c1 as [|z c1]; cbn in H.
  - inversion H; subst. auto.
  - inversion H as [[H1 H2]]. exfalso. exact (app_cons_not_nil _ _ _ (eq_sym H2)).
Qed.

(* ------------------------------------------------------------------ *)
(* pools                                                                *)
(* ------------------------------------------------------------------ *)

Lemma crits_app : forall l1 l2, crits (l1 ++ l2) = crits l1 ++ crits l2.
Proof. intros. apply flat_map_app. Qed.

Lemma items_app : forall l1 l2, items (l1 ++ l2) = items l1 ++ items l2.
Proof. intros. apply flat_map_app. Qed.

Lemma heldl_app : forall l1 l2, heldl (l1 ++ l2) = heldl l1 ++ heldl l2.
Proof. intros. apply flat_map_app. Qed.

Lemma in_crits : forall ws i k, In (i, k) (crits ws) <-> In (WCrit i k) ws.
Proof.
  intros ws i k. unfold crits. rewrite in_flat_map. split.
  - intros (w & Hw & Hin). destruct w; cbn in Hin; try contradiction.
    destruct Hin as [E|[]]. inversion E; subst. exact Hw.
  - intros H. exists (WCrit i k). split; [exact H|]. cbn. auto.
Qed.

Lemma crits_nil_iff : forall ws, crits ws = [] <-> no_crit ws.
Proof.
  intros ws. split.
  - intros H i k Hin. apply in_crits in Hin. rewrite H in Hin. contradiction.
  - intros H. destruct (crits ws) as [|[i k] r] eqn:E; [reflexivity|].
    exfalso. apply (H i k). apply in_crits. rewrite E. left. reflexivity.
Qed.

Lemma crits_split : forall l1 l2 i k,
  crits (l1 ++ WCrit i k :: l2) = crits l1 ++ (i, k) :: crits l2.
Proof. intros. rewrite crits_app. reflexivity. Qed.

Lemma crits_single_split : forall ws i k,
  crits ws = [(i, k)] ->
  exists l1 l2, ws = l1 ++ WCrit i k :: l2 /\ no_crit l1 /\ no_crit l2.
Proof.
  intros ws i k H.
  assert (Hin : In (WCrit i k) ws) by (apply in_crits; rewrite H; left; reflexivity).
  destruct (in_split _ _ Hin) as (l1 & l2 & E). subst ws.
  rewrite crits_split in H. apply app_single in H. destruct H as (H1 & H2 & _).
  exists l1, l2. split; [reflexivity|]. split; apply crits_nil_iff; assumption.
Qed.

Lemma crits_pool_change : forall ws ws' a b,
  pool_change ws ws' a b ->
  exists c1 c2, crits ws = c1 ++ critw a ++ c2 /\ crits ws' = c1 ++ critw b ++ c2.
Proof.
  intros ws ws' a b (l1 & l2 & E1 & E2). subst.
  exists (crits l1), (crits l2). rewrite !crits_app. cbn [crits flat_map]. auto.
Qed.

Lemma crits_pool_same : forall ws ws' a b,
  pool_change ws ws' a b -> critw a = [] -> critw b = [] -> crits ws' = crits ws.
Proof.
  intros ws ws' a b H Ha Hb. destruct (crits_pool_change _ _ _ _ H) as (c1 & c2 & E1 & E2).
  rewrite E1, E2, Ha, Hb. reflexivity.
Qed.

Lemma items_pool_cnt : forall ws ws' a b x,
  pool_change ws ws' a b ->
  cnt x (items ws') + cnt x (witem a) = cnt x (items ws) + cnt x (witem b).
Proof.
  intros ws ws' a b x (l1 & l2 & E1 & E2). subst.
  rewrite !items_app. cbn [items flat_map]. rewrite !cnt_app. fold (items l2). lia.
Qed.

Lemma heldl_upd_cnt : forall l n t f x,
  nth_error l n = Some t ->
  cnt x (heldl (upd n f l)) + cnt x (items (s_ws t)) = cnt x (heldl l) + cnt x (items (s_ws (f t))).
Proof.
  intros l n t f x H. destruct (upd_split _ _ _ _ H) as (a & b & E1 & _ & E3).
  rewrite E3. rewrite E1 at 1. rewrite !heldl_app. cbn [heldl flat_map]. rewrite !cnt_app.
  fold (heldl b). lia.
Qed.

(* one worker of stage n changes from a to b: the effect on the multiset of held items *)
Lemma cnt_pool_upd : forall l n t f ws' a b x,
  nth_error l n = Some t -> pool_change (s_ws t) ws' a b -> s_ws (f t) = ws' ->
  cnt x (heldl (upd n f l)) + cnt x (witem a) = cnt x (heldl l) + cnt x (witem b).
Proof.
  intros l n t f ws' a b x Ht Hpc Hf.
  pose proof (heldl_upd_cnt l n t f x Ht) as E1.
  pose proof (items_pool_cnt _ _ _ _ x Hpc) as E2. rewrite Hf in E1. lia.
Qed.

Lemma locking_dec : forall p n, locking p n \/ ~ locking p n.
Proof.
  intros p n. unfold locking, is_last.
  destruct (nth_error (p_stages p) n) as [d|] eqn:E.
  - destruct (Nat.eq_dec (S n) (List.length (p_stages p))) as [L|L].
    + destruct (d_lock d) eqn:K.
      * left. exists d. auto.
      * right. intros (d' & H1 & _ & H3). inversion H1; subst. congruence.
    + right. intros (d' & _ & H2 & _). contradiction.
  - right. intros (d' & H1 & _). discriminate.
Qed.

Lemma sinkd_last : forall p n d,
  nth_error (p_stages p) n = Some d -> is_last p n -> sinkd p = Some d.
Proof.
  intros p n d H L. unfold sinkd, is_last in *. rewrite <- L. cbn [pred]. exact H.
Qed.

Lemma sinkd_inv : forall p d,
  sinkd p = Some d ->
  nth_error (p_stages p) (pred (List.length (p_stages p))) = Some d /\
  is_last p (pred (List.length (p_stages p))).
Proof.
  intros p d H. split; [exact H|]. unfold sinkd in H. unfold is_last.
  assert (Hlt : pred (List.length (p_stages p)) < List.length (p_stages p)).
  { apply nth_error_Some. rewrite H. discriminate. }
  lia.
Qed.

Lemma is_last_pred : forall p n, is_last p n -> n = pred (List.length (p_stages p)).
Proof. intros p n H. unfold is_last in H. lia. Qed.

Lemma partial_S : forall i k, partial i (S k) = partial i k ++ [(i, k)].
Proof. intros i k. unfold partial. rewrite seq_S, map_app. reflexivity. Qed.

Lemma partial_full : forall d i, partial i (d_lines d i) = block d i.
Proof. reflexivity. Qed.

(* ------------------------------------------------------------------ *)
(* the invariant                                                        *)
(* ------------------------------------------------------------------ *)

(* `done` = the items whose block is complete in the log, in write order *)
Record shape (p : params) (s : state) (done : list item) : Prop := {
  sh_len : List.length (st_stages s) = List.length (p_stages p);
  sh_nocrit : forall n t, nth_error (st_stages s) n = Some t -> ~ locking p n -> crits (s_ws t) = [];
  sh_log : forall n d t,
      nth_error (p_stages p) n = Some d -> is_last p n -> d_lock d = true ->
      nth_error (st_stages s) n = Some t ->
      (crits (s_ws t) = [] /\ st_log s = flat_map (block d) done) \/
      (exists i k, crits (s_ws t) = [(i, k)] /\ k <= d_lines d i /\
                   st_log s = flat_map (block d) done ++ partial i k);
  sh_nolog : (forall n, ~ locking p n) -> st_log s = [] /\ done = []
}.

(* items are only moved or dropped, never duplicated *)
Definition cinv (p : params) (s : state) (done : list item) : Prop :=
  forall x, cnt x (st_pending s) + cnt x (held s) + cnt x done <= cnt x (p_items p).

Lemma shape_same : forall p s s' done,
  st_stages s' = st_stages s -> st_log s' = st_log s -> shape p s done -> shape p s' done.
Proof.
  intros p s s' done E1 E2 [H1 H2 H3 H4]. constructor; rewrite ?E1, ?E2; assumption.
Qed.

Lemma cinv_same : forall p s s' done,
  st_stages s' = st_stages s -> st_pending s' = st_pending s -> cinv p s done -> cinv p s' done.
Proof.
  intros p s s' done E1 E2 H x. unfold held. rewrite E1, E2. apply H.
Qed.

(* stage n changes without touching its critical sections *)
Lemma shape_upd : forall p s s' done n t f,
  shape p s done -> nth_error (st_stages s) n = Some t ->
  crits (s_ws (f t)) = crits (s_ws t) ->
  st_stages s' = upd n f (st_stages s) -> st_log s' = st_log s ->
  shape p s' done.
Proof.
  intros p s s' done n t f [H1 H2 H3 H4] Ht Hc Hst Hlog. constructor.
  - rewrite Hst, length_upd. exact H1.
  - intros m t' Hm Hnl. rewrite Hst in Hm. destruct (Nat.eq_dec m n) as [E|E].
    + subst m. rewrite nth_error_upd_eq, Ht in Hm. cbn in Hm. inversion Hm; subst t'.
      rewrite Hc. exact (H2 n t Ht Hnl).
    + rewrite nth_error_upd_neq in Hm by exact E. exact (H2 m t' Hm Hnl).
  - intros m d t' Hd Hl Hk Hm. rewrite Hlog. rewrite Hst in Hm.
    destruct (Nat.eq_dec m n) as [E|E].
    + subst m. rewrite nth_error_upd_eq, Ht in Hm. cbn in Hm. inversion Hm; subst t'.
      rewrite Hc. exact (H3 n d t Hd Hl Hk Ht).
    + rewrite nth_error_upd_neq in Hm by exact E. exact (H3 m d t' Hd Hl Hk Hm).
  - rewrite Hlog. exact H4.
Qed.

(* the locking sink (stage n) changes *)
Lemma shape_sink : forall p s s' done done' n d t f,
  shape p s done ->
  nth_error (p_stages p) n = Some d -> is_last p n -> d_lock d = true ->
  nth_error (st_stages s) n = Some t ->
  st_stages s' = upd n f (st_stages s) ->
  ((crits (s_ws (f t)) = [] /\ st_log s' = flat_map (block d) done') \/
   (exists i k, crits (s_ws (f t)) = [(i, k)] /\ k <= d_lines d i /\
                st_log s' = flat_map (block d) done' ++ partial i k)) ->
  shape p s' done'.
Proof.
  intros p s s' done done' n d t f [H1 H2 H3 H4] Hd Hl Hk Ht Hst Hnew.
  assert (L : locking p n) by (exists d; auto).
  constructor.
  - rewrite Hst, length_upd. exact H1.
  - intros m t' Hm Hnl. rewrite Hst in Hm. destruct (Nat.eq_dec m n) as [E|E].
    + subst m. contradiction.
    + rewrite nth_error_upd_neq in Hm by exact E. exact (H2 m t' Hm Hnl).
  - intros m d' t' Hd' Hl' Hk' Hm.
    assert (E : m = n) by (unfold is_last in *; lia). subst m.
    rewrite Hd in Hd'. inversion Hd'; subst d'.
    rewrite Hst, nth_error_upd_eq, Ht in Hm. cbn in Hm. inversion Hm; subst t'. exact Hnew.
  - intros Hno. exfalso. exact (Hno n L).
Qed.

(* a pool step outside critical sections that does not create items *)
Lemma pool_step_inv : forall p s s' done n t a b ws' f,
  shape p s done -> cinv p s done ->
  nth_error (st_stages s) n = Some t -> pool_change (s_ws t) ws' a b -> s_ws (f t) = ws' ->
  critw a = [] -> critw b = [] -> (forall x, cnt x (witem b) <= cnt x (witem a)) ->
  st_stages s' = upd n f (st_stages s) -> st_log s' = st_log s -> st_pending s' = st_pending s ->
  shape p s' done /\ cinv p s' done.
Proof.
  intros p s s' done n t a b ws' f Hsh Hc Ht Hpc Hf Ha Hb Hle Hst Hlog Hpend. split.
  - apply (shape_upd p s s' done n t f Hsh Ht); try assumption.
    rewrite Hf. exact (crits_pool_same _ _ _ _ Hpc Ha Hb).
  - intros x. specialize (Hc x). specialize (Hle x). unfold held in *. rewrite Hst, Hpend.
    pose proof (cnt_pool_upd _ _ _ f _ _ _ x Ht Hpc Hf) as E. lia.
Qed.

(* ------------------------------------------------------------------ *)
(* the initial state                                                    *)
(* ------------------------------------------------------------------ *)

Lemma crits_repeat_idle : forall n, crits (repeat WIdle n) = [].
Proof. induction n as [|n IH]; cbn; auto. Qed.

Lemma items_repeat_idle : forall n, items (repeat WIdle n) = [].
Proof. induction n as [|n IH]; cbn; auto. Qed.

Lemma heldl_init : forall l, heldl (map init_stage l) = [].
Proof.
  induction l as [|d l IH]; [reflexivity|].
  cbn [map heldl flat_map]. fold (heldl (map init_stage l)). rewrite IH.
  cbn [init_stage s_ws]. rewrite items_repeat_idle. reflexivity.
Qed.

Lemma shape_init : forall p, shape p (init p) [].
Proof.
  intros p. constructor; cbn [init st_stages st_log].
  - apply map_length.
  - intros n t Hn _. rewrite nth_error_map in Hn.
    destruct (nth_error (p_stages p) n) as [d|]; cbn in Hn; inversion Hn; subst t.
    cbn [init_stage s_ws]. apply crits_repeat_idle.
  - intros n d t Hd _ _ Hn. left. rewrite nth_error_map, Hd in Hn. cbn in Hn. inversion Hn; subst t.
    cbn [init_stage s_ws flat_map]. split; [apply crits_repeat_idle|reflexivity].
  - intros _. auto.
Qed.

Lemma cinv_init : forall p, cinv p (init p) [].
Proof.
  intros p x. unfold held. cbn [init st_stages st_pending]. rewrite heldl_init, !cnt_nil. lia.
Qed.

(* ------------------------------------------------------------------ *)
(* preservation                                                         *)
(* ------------------------------------------------------------------ *)

(* a WCrit worker in stage n: n is the locking sink and the invariant says which one it is *)
Lemma crit_here : forall p s done n d t i k c1 c2,
  shape p s done ->
  nth_error (p_stages p) n = Some d -> nth_error (st_stages s) n = Some t ->
  crits (s_ws t) = c1 ++ [(i, k)] ++ c2 ->
  is_last p n /\ d_lock d = true /\ c1 = [] /\ c2 = [] /\ k <= d_lines d i /\
  st_log s = flat_map (block d) done ++ partial i k.
Proof.
  intros p s done n d t i k c1 c2 Hsh Hd Ht Hc.
  destruct (locking_dec p n) as [L|NL].
  - destruct L as (d' & Hd' & Hl & Hk). rewrite Hd in Hd'. inversion Hd'; subst d'.
    destruct (sh_log _ _ _ Hsh n d t Hd Hl Hk Ht) as [[E _]|(i' & k' & E & Hle & Hlog)].
    + rewrite E in Hc. exfalso. exact (app_cons_not_nil _ _ _ Hc).
    + rewrite E in Hc. symmetry in Hc. cbn [app] in Hc. apply app_single in Hc.
      destruct Hc as (E1 & E2 & E3). inversion E3; subst i' k'. auto 10.
  - pose proof (sh_nocrit _ _ _ Hsh n t Ht NL) as E. rewrite E in Hc.
    exfalso. exact (app_cons_not_nil _ _ _ Hc).
Qed.

Lemma witem_after_err : forall d, witem (after_err d) = [].
Proof. intros d. unfold after_err. destruct (d_exits_on_err d); reflexivity. Qed.

Lemma critw_after_err : forall d, critw (after_err d) = [].
Proof. intros d. unfold after_err. destruct (d_exits_on_err d); reflexivity. Qed.

Lemma step_inv : forall p s s' done,
  step p s s' -> shape p s done -> cinv p s done ->
  exists done', shape p s' done' /\ cinv p s' done'.
Proof.
  intros p s s' done Hstep Hsh Hc.
  destruct Hstep as
    [ s i rest t ws' Hsrc Hpend Ht Hpc
    | s Hsrc Hctx Hg1 Hg2
    | s Hsrc Hpend Herr
    | s rs Hsrc Hpend Herr Hrd
    | s n d t i ws' next Hd Ht Hf Hl Hnext Hpc
    | s n d t i ws' Hd Ht Hf Hpc
    | s n d t i ws' Hd Ht He Hpc
    | s n d t i ws' Hd Ht Hm Hctx Hpc
    | s n t t2 i ws' ws2' Ht Ht2 Hpc Hpc2
    | s n d t i ws' Hd Ht Hg Hctx Hpc
    | s n t ws' Ht Hic Hpc
    | s n d t ws' Hd Ht Hg Hctx Hpc
    | s n d t i ws' Hd Ht Hlast Hlock Hf Hnc Hpc
    | s n d t i k ws' Hd Ht Hk Hpc
    | s n d t i ws' Hd Ht Hpc
    | s n t Ht Hcl Had
    | s n t i Ht He Hr
    | s n t Ht Hcl He Hr
    | s rs Hsrc Hr
    | s n Hr Hctx
    | s Hm Hr
    | s Hu Hcc ].
  - (* src_emit *)
    exists done. split.
    + apply (shape_upd p s _ done 0 t (set_ws ws') Hsh Ht); try reflexivity.
      cbn [set_ws s_ws]. apply (crits_pool_same _ _ _ _ Hpc); reflexivity.
    + intros x. specialize (Hc x). unfold held in *. cbn [st_pending st_stages].
      pose proof (cnt_pool_upd _ _ _ (set_ws ws') _ _ _ x Ht Hpc eq_refl) as E.
      rewrite Hpend, cnt_cons in Hc. cbn [witem] in E. rewrite cnt_nil in E. lia.
  - (* src_abort *)
    exists done. split; [apply (shape_same p s)|apply (cinv_same p s)]; auto.
  - (* src_close *)
    exists done. split; [apply (shape_same p s)|apply (cinv_same p s)]; auto.
  - (* src_err *)
    exists done. split; [apply (shape_same p s)|apply (cinv_same p s)]; auto.
  - (* work_ok *)
    exists done.
    apply (pool_step_inv p s _ done n t (WHold i) next ws' (set_ws ws')); auto.
    + subst next. destruct (S n =? List.length (p_stages p)); reflexivity.
    + intros x. subst next. destruct (S n =? List.length (p_stages p)); cbn [witem]; rewrite ?cnt_nil; lia.
  - (* work_fail *)
    exists done.
    apply (pool_step_inv p s _ done n t (WHold i) (WErr i) ws' (set_ws ws')); auto.
  - (* err_send *)
    exists done.
    apply (pool_step_inv p s _ done n t (WErr i) (after_err d) ws'
             (fun t => set_ebuf (Some i) (set_ws ws' t))); auto.
    + apply critw_after_err.
    + intros x. rewrite witem_after_err, cnt_nil. lia.
  - (* err_drop *)
    exists done.
    apply (pool_step_inv p s _ done n t (WErr i) (after_err d) ws' (set_ws ws')); auto.
    + apply critw_after_err.
    + intros x. rewrite witem_after_err, cnt_nil. lia.
  - (* handoff *)
    exists done.
    assert (Ht2' : nth_error (upd n (set_ws ws') (st_stages s)) (S n) = Some t2).
    { rewrite nth_error_upd_neq by lia. exact Ht2. }
    split.
    + apply (shape_upd p (with_stages s (upd n (set_ws ws') (st_stages s))) _ done (S n) t2 (set_ws ws2')); try reflexivity.
      * apply (shape_upd p s _ done n t (set_ws ws') Hsh Ht); try reflexivity.
        cbn [set_ws s_ws]. apply (crits_pool_same _ _ _ _ Hpc); reflexivity.
      * exact Ht2'.
      * cbn [set_ws s_ws]. apply (crits_pool_same _ _ _ _ Hpc2); reflexivity.
    + intros x. specialize (Hc x). unfold held in *. cbn [with_stages st_pending st_stages].
      pose proof (cnt_pool_upd _ _ _ (set_ws ws') _ _ _ x Ht Hpc eq_refl) as E1.
      pose proof (cnt_pool_upd _ _ _ (set_ws ws2') _ _ _ x Ht2' Hpc2 eq_refl) as E2.
      cbn [witem] in E1, E2. rewrite cnt_nil in E1, E2. lia.
  - (* handoff_abort *)
    exists done.
    apply (pool_step_inv p s _ done n t (WOut i) WDone ws' (set_ws ws')); auto.
    intros x. cbn [witem]. rewrite cnt_nil. lia.
  - (* exit_closed *)
    exists done.
    apply (pool_step_inv p s _ done n t WIdle WDone ws' (set_ws ws')); auto.
  - (* exit_ctx *)
    exists done.
    apply (pool_step_inv p s _ done n t WIdle WDone ws' (set_ws ws')); auto.
  - (* lock *)
    exists done.
    destruct (crits_pool_change _ _ _ _ Hpc) as (c1 & c2 & E1 & E2).
    apply crits_nil_iff in Hnc. rewrite Hnc in E1. cbn [critw app] in E1, E2.
    symmetry in E1. apply app_eq_nil in E1. destruct E1 as [-> ->]. cbn [app] in E2.
    split.
    + eapply (shape_sink p s _ done done n d t (set_ws ws') Hsh Hd Hlast Hlock Ht); [reflexivity|].
      destruct (sh_log _ _ _ Hsh n d t Hd Hlast Hlock Ht) as [[_ Hlog]|(i' & k' & E & _)].
      * right. exists i, 0. cbn [set_ws s_ws with_stages st_log]. rewrite E2, Hlog.
        split; [reflexivity|]. split; [lia|]. cbn [partial seq map]. now rewrite app_nil_r.
      * rewrite Hnc in E. discriminate.
    + intros x. specialize (Hc x). unfold held in *. cbn [with_stages st_pending st_stages].
      pose proof (cnt_pool_upd _ _ _ (set_ws ws') _ _ _ x Ht Hpc eq_refl) as E.
      cbn [witem] in E. lia.
  - (* write *)
    exists done.
    destruct (crits_pool_change _ _ _ _ Hpc) as (c1 & c2 & E1 & E2). cbn [critw] in E1, E2.
    destruct (crit_here p s done n d t i k c1 c2 Hsh Hd Ht E1) as (Hlast & Hlock & -> & -> & Hle & Hlog).
    cbn [app] in E2.
    split.
    + eapply (shape_sink p s _ done done n d t (set_ws ws') Hsh Hd Hlast Hlock Ht); [reflexivity|].
      right. exists i, (S k). cbn [set_ws s_ws st_log]. rewrite E2, Hlog.
      split; [reflexivity|]. split; [lia|]. rewrite partial_S, app_assoc. reflexivity.
    + intros x. specialize (Hc x). unfold held in *. cbn [st_pending st_stages].
      pose proof (cnt_pool_upd _ _ _ (set_ws ws') _ _ _ x Ht Hpc eq_refl) as E.
      cbn [witem] in E. lia.
  - (* unlock *)
    exists (done ++ [i]).
    destruct (crits_pool_change _ _ _ _ Hpc) as (c1 & c2 & E1 & E2). cbn [critw] in E1, E2.
    destruct (crit_here p s done n d t i _ c1 c2 Hsh Hd Ht E1) as (Hlast & Hlock & -> & -> & Hle & Hlog).
    cbn [app] in E2.
    split.
    + eapply (shape_sink p s _ done (done ++ [i]) n d t (set_ws ws') Hsh Hd Hlast Hlock Ht); [reflexivity|].
      left. cbn [set_ws s_ws with_stages st_log]. rewrite E2, Hlog.
      split; [reflexivity|]. rewrite flat_map_app. cbn [flat_map]. rewrite app_nil_r.
      rewrite partial_full. reflexivity.
    + intros x. specialize (Hc x). unfold held in *. cbn [with_stages st_pending st_stages].
      pose proof (cnt_pool_upd _ _ _ (set_ws ws') _ _ _ x Ht Hpc eq_refl) as E.
      cbn [witem] in E. rewrite cnt_nil in E. rewrite cnt_app. lia.
  - (* closer *)
    exists done. split.
    + apply (shape_upd p s _ done n t set_closed Hsh Ht); reflexivity.
    + intros x. specialize (Hc x). unfold held in *. cbn [with_stages st_pending st_stages].
      pose proof (heldl_upd_cnt _ _ _ set_closed x Ht) as E. cbn [set_closed s_ws] in E. lia.
  - (* reader_take *)
    exists done. split.
    + apply (shape_upd p s _ done n t (set_ebuf None) Hsh Ht); reflexivity.
    + intros x. specialize (Hc x). unfold held in *. cbn [st_pending st_stages].
      pose proof (heldl_upd_cnt _ _ _ (set_ebuf None) x Ht) as E. cbn [set_ebuf s_ws] in E. lia.
  - exists done. split; [apply (shape_same p s)|apply (cinv_same p s)]; auto.
  - exists done. split; [apply (shape_same p s)|apply (cinv_same p s)]; auto.
  - exists done. split; [apply (shape_same p s)|apply (cinv_same p s)]; auto.
  - exists done. split; [apply (shape_same p s)|apply (cinv_same p s)]; auto.
  - exists done. split; [apply (shape_same p s)|apply (cinv_same p s)]; auto.
Qed.

Theorem reach_inv : forall p s, reach p s -> exists done, shape p s done /\ cinv p s done.
Proof.
  intros p s H. induction H as [|s s' _ IH Hstep].
  - exists []. split; [apply shape_init|apply cinv_init].
  - destruct IH as (done & Hsh & Hc). exact (step_inv p s s' done Hstep Hsh Hc).
Qed.

(* ------------------------------------------------------------------ *)
(* (1) mutual exclusion                                                 *)
(* ------------------------------------------------------------------ *)

Lemma stage_desc : forall p s done n t,
  shape p s done -> nth_error (st_stages s) n = Some t -> exists d, nth_error (p_stages p) n = Some d.
Proof.
  intros p s done n t Hsh Ht.
  assert (Hlt : n < List.length (st_stages s)) by (apply nth_error_Some; rewrite Ht; discriminate).
  rewrite (sh_len _ _ _ Hsh) in Hlt.
  destruct (nth_error (p_stages p) n) as [d|] eqn:E; [eauto|].
  apply nth_error_None in E. lia.
Qed.

(* a WCrit worker exists only in the last stage, only if that stage locks, and it has written
   at most d_lines d i lines *)
Theorem crit_only_in_locking_sink : forall p s, reach p s ->
  forall n t i k, nth_error (st_stages s) n = Some t -> In (WCrit i k) (s_ws t) ->
  exists d, nth_error (p_stages p) n = Some d /\ is_last p n /\ d_lock d = true /\ k <= d_lines d i.
Proof.
  intros p s Hr n t i k Ht Hin.
  destruct (reach_inv p s Hr) as (done & Hsh & _).
  destruct (stage_desc p s done n t Hsh Ht) as (d & Hd).
  destruct (in_split _ _ Hin) as (l1 & l2 & E).
  assert (Ec : crits (s_ws t) = crits l1 ++ [(i, k)] ++ crits l2) by (rewrite E; apply crits_split).
  destruct (crit_here p s done n d t i k _ _ Hsh Hd Ht Ec) as (H1 & H2 & _ & _ & H5 & _).
  exists d. auto.
Qed.

(* every other pool has no WCrit worker at all *)
Theorem no_crit_elsewhere : forall p s, reach p s ->
  forall n t, nth_error (st_stages s) n = Some t -> ~ locking p n -> no_crit (s_ws t).
Proof.
  intros p s Hr n t Ht Hnl. destruct (reach_inv p s Hr) as (done & Hsh & _).
  apply crits_nil_iff. exact (sh_nocrit _ _ _ Hsh n t Ht Hnl).
Qed.

(* at most one worker is inside the critical section *)
Theorem at_most_one_crit : forall p s, reach p s ->
  forall n t, nth_error (st_stages s) n = Some t ->
  forall l1 i k l2, s_ws t = l1 ++ WCrit i k :: l2 -> no_crit l1 /\ no_crit l2.
Proof.
  intros p s Hr n t Ht l1 i k l2 E.
  destruct (reach_inv p s Hr) as (done & Hsh & _).
  destruct (stage_desc p s done n t Hsh Ht) as (d & Hd).
  assert (Ec : crits (s_ws t) = crits l1 ++ [(i, k)] ++ crits l2) by (rewrite E; apply crits_split).
  destruct (crit_here p s done n d t i k _ _ Hsh Hd Ht Ec) as (_ & _ & H3 & H4 & _).
  split; apply crits_nil_iff; assumption.
Qed.

(* ------------------------------------------------------------------ *)
(* (2) item uniqueness                                                  *)
(* ------------------------------------------------------------------ *)

Lemma cinv_nodup : forall p s done,
  NoDup (p_items p) -> cinv p s done ->
  NoDup (st_pending s ++ held s ++ done) /\ incl (st_pending s ++ held s ++ done) (p_items p).
Proof.
  intros p s done Hnd Hc. split.
  - apply (NoDup_count_occ Nat.eq_dec). intros x. rewrite !count_occ_app.
    pose proof (proj1 (NoDup_count_occ Nat.eq_dec (p_items p)) Hnd x) as H1.
    specialize (Hc x). unfold cnt in Hc. unfold item in *. lia.
  - intros x Hin. apply (count_occ_In Nat.eq_dec). apply (count_occ_In Nat.eq_dec) in Hin.
    rewrite !count_occ_app in Hin. specialize (Hc x). unfold cnt in Hc. unfold item in *. lia.
Qed.

Lemma held_in : forall s n t w i,
  nth_error (st_stages s) n = Some t -> In w (s_ws t) -> In i (witem w) -> In i (held s).
Proof.
  intros s n t w i Ht Hw Hi. unfold held, heldl. apply in_flat_map.
  exists t. split; [exact (nth_error_In _ _ Ht)|].
  unfold items. apply in_flat_map. exists w. auto.
Qed.

Lemma cinv_not_done : forall p s done i,
  NoDup (p_items p) -> cinv p s done -> In i (held s) -> ~ In i done.
Proof.
  intros p s done i Hnd Hc Hh Hd.
  apply (count_occ_In Nat.eq_dec) in Hh. apply (count_occ_In Nat.eq_dec) in Hd.
  pose proof (proj1 (NoDup_count_occ Nat.eq_dec (p_items p)) Hnd i) as H1.
  specialize (Hc i). unfold cnt in Hc. unfold item in *. lia.
Qed.

(* ------------------------------------------------------------------ *)
(* (3) the shape of the log                                             *)
(* ------------------------------------------------------------------ *)

Lemma sink_shape : forall p s done d,
  shape p s done -> sinkd p = Some d ->
  (crits (sink_pool p s) = [] /\ st_log s = flat_map (block d) done) \/
  (exists i k, crits (sink_pool p s) = [(i, k)] /\ k <= d_lines d i /\
               st_log s = flat_map (block d) done ++ partial i k).
Proof.
  intros p s done d Hsh Hs. destruct (sinkd_inv p d Hs) as (Hd & Hl).
  set (N := pred (List.length (p_stages p))) in *.
  assert (Hlt : N < List.length (p_stages p)) by (apply nth_error_Some; rewrite Hd; discriminate).
  unfold sink_pool. fold N.
  destruct (nth_error (st_stages s) N) as [t|] eqn:Et.
  2:{ apply nth_error_None in Et. rewrite (sh_len _ _ _ Hsh) in Et. lia. }
  destruct (d_lock d) eqn:K.
  - exact (sh_log _ _ _ Hsh N d t Hd Hl K Et).
  - assert (Hno : forall n, ~ locking p n).
    { intros n (d' & H1 & H2 & H3). apply is_last_pred in H2. fold N in H2. subst n.
      rewrite Hd in H1. inversion H1; subst d'. congruence. }
    destruct (sh_nolog _ _ _ Hsh Hno) as (E1 & E2). left. split.
    + exact (sh_nocrit _ _ _ Hsh N t Et (Hno N)).
    + rewrite E1, E2. reflexivity.
Qed.

(* everything at once, with the same `done`, without assuming the items distinct:
   pending ++ held ++ done is a sub-multiset of p_items, and the log is the blocks of `done`
   followed by the prefix being written by the unique WCrit worker of the sink *)
Theorem blocks_master : forall p s, reach p s ->
  exists done,
    (forall x, cnt x (st_pending s ++ held s ++ done) <= cnt x (p_items p)) /\
    forall d, sinkd p = Some d ->
      (no_crit (sink_pool p s) /\ st_log s = flat_map (block d) done) \/
      (exists i k l1 l2, sink_pool p s = l1 ++ WCrit i k :: l2 /\ no_crit l1 /\ no_crit l2 /\
                         k <= d_lines d i /\ st_log s = flat_map (block d) done ++ partial i k).
Proof.
  intros p s Hr. destruct (reach_inv p s Hr) as (done & Hsh & Hc). exists done. split.
  - intros x. rewrite !cnt_app. specialize (Hc x). lia.
  - intros d Hd. destruct (sink_shape p s done d Hsh Hd) as [[E H]|(i & k & E & Hle & H)].
    + left. split; [apply crits_nil_iff; exact E|exact H].
    + right. destruct (crits_single_split _ _ _ E) as (l1 & l2 & E' & N1 & N2).
      exists i, k, l1, l2. auto.
Qed.

(* items are only moved or dropped, never duplicated *)
Theorem items_multiset : forall p s, reach p s ->
  exists done, forall x, cnt x (st_pending s ++ held s ++ done) <= cnt x (p_items p).
Proof.
  intros p s Hr. destruct (blocks_master p s Hr) as (done & H & _). eauto.
Qed.

Lemma sink_pool_held : forall p s i k, In (WCrit i k) (sink_pool p s) -> In i (held s).
Proof.
  intros p s i k Hin. unfold sink_pool in Hin.
  destruct (nth_error (st_stages s) (pred (List.length (p_stages p)))) as [t|] eqn:E; [|contradiction].
  apply (held_in s _ t (WCrit i k) i E Hin). cbn. auto.
Qed.

(* (2)+(3) with the same `done` *)
Theorem log_is_blocks_strong : forall p s d,
  reach p s -> NoDup (p_items p) -> sinkd p = Some d ->
  exists done cur,
    st_log s = flat_map (block d) done ++ cur /\
    NoDup (st_pending s ++ held s ++ done) /\
    incl (st_pending s ++ held s ++ done) (p_items p) /\
    ((cur = [] /\ no_crit (sink_pool p s)) \/
     (exists i k, In (WCrit i k) (sink_pool p s) /\ k <= d_lines d i /\ cur = partial i k /\ ~ In i done)).
Proof.
  intros p s d Hr Hnd Hd. destruct (reach_inv p s Hr) as (done & Hsh & Hc).
  destruct (cinv_nodup p s done Hnd Hc) as (N1 & N2).
  destruct (sink_shape p s done d Hsh Hd) as [[E H]|(i & k & E & Hle & H)].
  - exists done, []. rewrite app_nil_r. repeat split; auto.
    left. split; [reflexivity|apply crits_nil_iff; exact E].
  - exists done, (partial i k). repeat split; auto.
    right. exists i, k.
    assert (Hin : In (WCrit i k) (sink_pool p s)) by (apply in_crits; rewrite E; left; reflexivity).
    repeat split; auto.
    apply (cinv_not_done p s done i Hnd Hc). exact (sink_pool_held p s i k Hin).
Qed.

Lemma nodup_app_r : forall (A : Type) (a b : list A), NoDup (a ++ b) -> NoDup b.
Proof.
  intros A a b. induction a as [|x a IH]; cbn; intros H; [exact H|].
  inversion H; subst. auto.
Qed.

Theorem items_unique : forall p s, reach p s -> NoDup (p_items p) ->
  exists done,
    NoDup (st_pending s ++ held s ++ done) /\ incl (st_pending s ++ held s ++ done) (p_items p).
Proof.
  intros p s Hr Hnd. destruct (reach_inv p s Hr) as (done & _ & Hc).
  exists done. exact (cinv_nodup p s done Hnd Hc).
Qed.

Theorem log_is_blocks : forall p s d,
  reach p s -> NoDup (p_items p) -> sinkd p = Some d ->
  exists done cur,
    st_log s = flat_map (block d) done ++ cur /\ NoDup done /\ incl done (p_items p) /\
    ((cur = [] /\ no_crit (sink_pool p s)) \/
     (exists i k, In (WCrit i k) (sink_pool p s) /\ cur = partial i k /\ ~ In i done)).
Proof.
  intros p s d Hr Hnd Hd.
  destruct (log_is_blocks_strong p s d Hr Hnd Hd) as (done & cur & H1 & H2 & H3 & H4).
  exists done, cur. split; [exact H1|]. split; [|split].
  - apply nodup_app_r in H2. apply nodup_app_r in H2. exact H2.
  - intros x Hx. apply H3. apply in_or_app. right. apply in_or_app. right. exact Hx.
  - destruct H4 as [H4|(i & k & A & _ & B & C)]; [left; exact H4|right; exists i, k; auto].
Qed.

(* no last stage, or a last stage that does not lock: nothing is ever written *)
Theorem log_nil_without_locking_sink : forall p s, reach p s ->
  (sinkd p = None \/ exists d, sinkd p = Some d /\ d_lock d = false) -> st_log s = [].
Proof.
  intros p s Hr Hno. destruct (reach_inv p s Hr) as (done & Hsh & _).
  apply (sh_nolog _ _ _ Hsh). intros n (d & H1 & H2 & H3).
  pose proof (sinkd_last p n d H1 H2) as E.
  destruct Hno as [Hno|(d' & Hno & K)]; rewrite E in Hno; [discriminate|].
  inversion Hno; subst d'. congruence.
Qed.

(* ------------------------------------------------------------------ *)
(* (4) finished runs                                                    *)
(* ------------------------------------------------------------------ *)

Lemma quiescent_no_crit : forall p s, quiescent s -> no_crit (sink_pool p s).
Proof.
  intros p s (_ & Hq & _) i k Hin. unfold sink_pool in Hin.
  destruct (nth_error (st_stages s) (pred (List.length (p_stages p)))) as [t|] eqn:E; [|contradiction].
  apply nth_error_In in E. destruct (Hq t E) as (Had & _). specialize (Had _ Hin). discriminate.
Qed.

Theorem quiescent_log_blocks : forall p s d,
  reach p s -> quiescent s -> NoDup (p_items p) -> sinkd p = Some d ->
  exists done, st_log s = flat_map (block d) done /\ NoDup done /\ incl done (p_items p).
Proof.
  intros p s d Hr Hq Hnd Hd.
  destruct (log_is_blocks p s d Hr Hnd Hd) as (done & cur & H1 & H2 & H3 & H4).
  exists done. split; [|auto].
  destruct H4 as [[E _]|(i & k & Hin & _)].
  - rewrite H1, E, app_nil_r. reflexivity.
  - exfalso. exact (quiescent_no_crit p s Hq i k Hin).
Qed.

Print Assumptions at_most_one_crit.
Print Assumptions crit_only_in_locking_sink.
Print Assumptions no_crit_elsewhere.
Print Assumptions blocks_master.
Print Assumptions items_unique.
Print Assumptions log_is_blocks_strong.
Print Assumptions log_is_blocks.
Print Assumptions log_nil_without_locking_sink.
Print Assumptions quiescent_log_blocks.
