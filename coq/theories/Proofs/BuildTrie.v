(* Proofs/BuildTrie.v — link (iii) of C01: attaching nodes through the stack of open
   nodes (position paths, merge by findChildByText) builds exactly the trie of the
   document's name paths.  No distinct-sibling-names assumption is made: positions
   are related to names through "first child of that name", which is what
   findChildByText returns. *)
From Coq Require Import List Ascii Arith Bool Lia.
From GT Require Import Base.GoStr Tree.Tree Tree.Gen Spec.Spec Proofs.TreeInd.
Import ListNotations.

(* ---------- str_eqb ---------- *)
Lemma str_eqb_refl s : str_eqb s s = true.
Proof. induction s as [|c s IH]; cbn; [reflexivity|]. rewrite Ascii.eqb_refl, IH. reflexivity. Qed.

Lemma str_eqb_eq s t : str_eqb s t = true <-> s = t.
Proof.
  revert t. induction s as [|c s IH]; intros [|d t]; cbn; split; intros H; try reflexivity; try discriminate.
  - apply andb_true_iff in H as [H1 H2]. apply Ascii.eqb_eq in H1. apply IH in H2. congruence.
  - inversion H; subst. rewrite Ascii.eqb_refl. cbn. apply IH. reflexivity.
Qed.

(* ---------- named inner loop of ins ---------- *)
Fixpoint ins_kids (n : str) (p' : list str) (ks : list tree) : list tree :=
  match ks with
  | [] => [ins p' (T n [])]
  | k :: r => if str_eqb n (tname k) then ins p' k :: r else k :: ins_kids n p' r
  end.

Lemma ins_cons n p' t : ins (n :: p') t = T (tname t) (ins_kids n p' (tkids t)).
Proof.
  cbn [ins]. f_equal. induction (tkids t) as [|k r IH]; cbn; [reflexivity|].
  destruct (str_eqb n (tname k)); [reflexivity|]. f_equal. exact IH.
Qed.

Lemma ins_nil t : ins [] t = t.
Proof. reflexivity. Qed.

Lemma tname_ins p t : tname (ins p t) = tname t.
Proof. destruct p; [reflexivity|]. rewrite ins_cons. reflexivity. Qed.

Lemma t_eta t : T (tname t) (tkids t) = t.
Proof. destruct t; reflexivity. Qed.

(* ---------- find_idx ---------- *)
Lemma find_idx_some nm ks i :
  find_idx nm ks = Some i -> exists k, nth_error ks i = Some k /\ tname k = nm.
Proof.
  revert i. induction ks as [|k r IH]; intros i H; cbn in H; [discriminate|].
  destruct (str_eqb nm (tname k)) eqn:E.
  - inversion H; subst. exists k. split; [reflexivity|]. apply str_eqb_eq in E. auto.
  - destruct (find_idx nm r) as [j|] eqn:F; [|discriminate]. inversion H; subst.
    destruct (IH j eq_refl) as [k' [H1 H2]]. exists k'. auto.
Qed.

Lemma ins_kids_found nm p' ks i :
  find_idx nm ks = Some i -> ins_kids nm p' ks = upd_nth i (ins p') ks.
Proof.
  revert i. induction ks as [|k r IH]; intros i H; cbn in H; [discriminate|].
  cbn [ins_kids]. destruct (str_eqb nm (tname k)) eqn:E.
  - inversion H; subst. reflexivity.
  - destruct (find_idx nm r) as [j|] eqn:F; [|discriminate]. inversion H; subst.
    cbn [upd_nth]. f_equal. apply IH. reflexivity.
Qed.

Lemma ins_kids_missing nm p' ks :
  find_idx nm ks = None -> ins_kids nm p' ks = ks ++ [ins p' (T nm [])].
Proof.
  induction ks as [|k r IH]; intros H; cbn in H; [reflexivity|].
  cbn [ins_kids]. destruct (str_eqb nm (tname k)) eqn:E; [discriminate|].
  destruct (find_idx nm r) eqn:F; [discriminate|]. cbn. f_equal. apply IH. reflexivity.
Qed.

Lemma find_idx_upd nm ks i f :
  (forall k, tname (f k) = tname k) ->
  find_idx nm (upd_nth i f ks) = find_idx nm ks.
Proof.
  intros Hf. revert i. induction ks as [|k r IH]; intros i; [destruct i; reflexivity|].
  destruct i as [|j]; cbn [upd_nth find_idx].
  - rewrite Hf. reflexivity.
  - rewrite IH. reflexivity.
Qed.

Lemma find_idx_app_new nm ks x :
  find_idx nm ks = None -> tname x = nm -> find_idx nm (ks ++ [x]) = Some (List.length ks).
Proof.
  intros H Hx. induction ks as [|k r IH]; cbn in *.
  - rewrite Hx, str_eqb_refl. reflexivity.
  - destruct (str_eqb nm (tname k)); [discriminate|].
    destruct (find_idx nm r); [discriminate|]. rewrite IH; reflexivity.
Qed.

Lemma nth_error_upd_nth {A} (l : list A) i f x :
  nth_error l i = Some x -> nth_error (upd_nth i f l) i = Some (f x).
Proof.
  revert i. induction l as [|y r IH]; intros [|j] H; cbn in *; try discriminate.
  - inversion H; reflexivity.
  - apply IH. exact H.
Qed.

Lemma upd_nth_ext {A} (l : list A) i f g x :
  nth_error l i = Some x -> f x = g x -> upd_nth i f l = upd_nth i g l.
Proof.
  revert i. induction l as [|y r IH]; intros [|j] H E; cbn in *; try discriminate; try reflexivity.
  - inversion H; subst. rewrite E. reflexivity.
  - f_equal. eapply IH; eauto.
Qed.

(* ---------- positions of name paths: follow the first child of each name ---------- *)
Fixpoint pos_of_path (p : list str) (t : tree) : option (list nat) :=
  match p with
  | [] => Some []
  | n :: p' =>
      match find_idx n (tkids t) with
      | None => None
      | Some i =>
          match nth_error (tkids t) i with
          | None => None
          | Some k => match pos_of_path p' k with Some c => Some (i :: c) | None => None end
          end
      end
  end.

Lemma pos_firstn : forall p t c k,
  pos_of_path p t = Some c -> pos_of_path (firstn k p) t = Some (firstn k c).
Proof.
  induction p as [|n p IH]; intros t c k H; cbn in H.
  - inversion H; subst. destruct k; reflexivity.
  - destruct (find_idx n (tkids t)) as [i|] eqn:F; [|discriminate].
    destruct (nth_error (tkids t) i) as [kk|] eqn:N; [|discriminate].
    destruct (pos_of_path p kk) as [c'|] eqn:P; [|discriminate].
    inversion H; subst. destruct k as [|k]; [reflexivity|].
    cbn [firstn pos_of_path]. rewrite F, N, (IH _ _ k P). reflexivity.
Qed.

Lemma pos_length : forall p t c, pos_of_path p t = Some c -> List.length c = List.length p.
Proof.
  induction p as [|n p IH]; intros t c H; cbn in H.
  - inversion H; reflexivity.
  - destruct (find_idx n (tkids t)) as [i|]; [|discriminate].
    destruct (nth_error (tkids t) i) as [kk|]; [|discriminate].
    destruct (pos_of_path p kk) as [c'|] eqn:P; [|discriminate].
    inversion H; subst. cbn. f_equal. eapply IH; eauto.
Qed.

(* ---------- the step lemma: attach at a position = ins of the name path ---------- *)
Lemma attach_is_ins : forall q t cq nm,
  pos_of_path q t = Some cq ->
  exists c', attach cq nm t = Some (ins (q ++ [nm]) t, c') /\
             pos_of_path (q ++ [nm]) (ins (q ++ [nm]) t) = Some c'.
Proof.
  induction q as [|n q IH]; intros t cq nm H; cbn in H.
  - inversion H; subst. unfold attach. cbn [get_at app].
    rewrite ins_cons. destruct (find_idx nm (tkids t)) as [i|] eqn:F.
    + exists [i]. rewrite (ins_kids_found _ _ _ _ F).
      destruct (find_idx_some _ _ _ F) as [k [N Hk]].
      assert (E : upd_nth i (ins []) (tkids t) = tkids t).
      { clear F. revert i N. induction (tkids t) as [|y r IHr]; intros [|j] N; cbn in *; try discriminate; try reflexivity.
        f_equal. eapply IHr; eauto. }
      rewrite E, t_eta. split; [reflexivity|].
      cbn [pos_of_path]. rewrite F, N. reflexivity.
    + exists [List.length (tkids t)]. rewrite (ins_kids_missing _ _ _ F). cbn [ins].
      split.
      * cbn [upd_at]. unfold add_child. reflexivity.
      * cbn [pos_of_path tkids]. rewrite (find_idx_app_new _ _ (T nm []) F eq_refl).
        rewrite nth_error_app2 by lia. rewrite Nat.sub_diag. reflexivity.
  - destruct (find_idx n (tkids t)) as [i|] eqn:F; [|discriminate].
    destruct (nth_error (tkids t) i) as [k|] eqn:N; [|discriminate].
    destruct (pos_of_path q k) as [c0|] eqn:P; [|discriminate].
    inversion H; subst. clear H.
    destruct (IH k c0 nm P) as [c' [A B]].
    unfold attach in A |- *. cbn [get_at]. rewrite N.
    destruct (get_at c0 k) as [par|] eqn:G; [|discriminate].
    change ((n :: q) ++ [nm]) with (n :: (q ++ [nm])). rewrite ins_cons.
    rewrite (ins_kids_found _ _ _ _ F).
    destruct (find_idx nm (tkids par)) as [j|] eqn:F2.
    + inversion A as [[A1 A2]]. exists (i :: c'). split.
      * rewrite <- A2. cbn [app]. f_equal. f_equal.
        rewrite (upd_nth_ext _ _ _ (fun x => x) _ N (eq_sym A1)).
        clear. rewrite <- (t_eta t) at 1. f_equal.
        revert i. induction (tkids t) as [|y r IHr]; intros [|j]; cbn; try reflexivity. f_equal. apply IHr.
      * cbn [pos_of_path tkids]. rewrite find_idx_upd by (intros; apply tname_ins).
        rewrite F, (nth_error_upd_nth _ _ _ _ N), B. reflexivity.
    + inversion A as [[A1 A2]]. exists (i :: c'). split.
      * rewrite <- A2. cbn [app upd_at]. f_equal. f_equal. f_equal.
        apply (upd_nth_ext _ _ _ _ _ N). exact A1.
      * cbn [pos_of_path tkids]. rewrite find_idx_upd by (intros; apply tname_ins).
        rewrite F, (nth_error_upd_nth _ _ _ _ N), B. reflexivity.
Qed.

(* ---------- running the stack machine over the pre-order items of a subtree ---------- *)

(* stack.dfs for an item of hierarchy h: the parent is found iff h-1 <= stack size *)
Definition item_step (st : tree * list nat) (it : nat * str) : option (tree * list nat) :=
  let '(t, c) := st in
  if fst it - 2 <=? List.length c then attach (firstn (fst it - 2) c) (snd it) t else None.

Fixpoint run_items (st : tree * list nat) (its : list (nat * str)) : option (tree * list nat) :=
  match its with
  | [] => Some st
  | it :: r => match item_step st it with Some st' => run_items st' r | None => None end
  end.

Lemma run_items_app st a b :
  run_items st (a ++ b) = match run_items st a with Some st' => run_items st' b | None => None end.
Proof.
  revert st. induction a as [|x a IH]; intros st; cbn; [reflexivity|].
  destruct (item_step st x); [apply IH|reflexivity].
Qed.

(* name paths of a subtree, the subtree's own node included, relative to its parent *)
Definition PS (k : tree) : list (list str) := [tname k] :: map (cons (tname k)) (paths k).

Lemma PS_eq n ks : PS (T n ks) = [n] :: map (cons n) (flat_map PS ks).
Proof.
  unfold PS. cbn [tname paths]. reflexivity.
Qed.

Definition ins_all (q : list str) (ps : list (list str)) (t : tree) : tree :=
  fold_left (fun acc p => ins (q ++ p) acc) ps t.

Lemma ins_all_app q a b t : ins_all q (a ++ b) t = ins_all q b (ins_all q a t).
Proof. unfold ins_all. apply fold_left_app. Qed.

Lemma ins_all_map_cons q n ps t : ins_all q (map (cons n) ps) t = ins_all (q ++ [n]) ps t.
Proof.
  unfold ins_all. revert t. induction ps as [|p ps IH]; intros t; [reflexivity|].
  cbn [map fold_left]. rewrite IH. rewrite <- app_assoc. reflexivity.
Qed.

Lemma prefix_shrink {A} (q : list A) x p :
  firstn (List.length q + 1) p = q ++ [x] -> firstn (List.length q) p = q.
Proof.
  intros H.
  assert (E : firstn (List.length q) (firstn (List.length q + 1) p) = firstn (List.length q) (q ++ [x])) by (rewrite H; reflexivity).
  rewrite firstn_firstn in E. replace (Nat.min (List.length q) (List.length q + 1)) with (List.length q) in E by lia.
  rewrite E. rewrite firstn_app, Nat.sub_diag, firstn_all. cbn. apply app_nil_r.
Qed.

Lemma firstn_len_le {A} (q p : list A) : firstn (List.length q) p = q -> List.length q <= List.length p.
Proof.
  intros H. assert (E : List.length (firstn (List.length q) p) = List.length q) by (rewrite H; reflexivity).
  rewrite firstn_length in E. lia.
Qed.

Lemma run_subtree : forall k q t c pcur,
  pos_of_path pcur t = Some c ->
  firstn (List.length q) pcur = q ->
  exists c' pcur',
    run_items (t, c) (preorder_d (List.length q + 2) k) = Some (ins_all q (PS k) t, c') /\
    pos_of_path pcur' (ins_all q (PS k) t) = Some c' /\
    firstn (List.length q + 1) pcur' = q ++ [tname k].
Proof.
  induction k as [n ks IH] using tree_ind'; intros q t c pcur Hpos Hpre.
  cbn [preorder_d]. rewrite PS_eq.
  (* the node itself *)
  assert (Hle : List.length q <= List.length c).
  { rewrite (pos_length _ _ _ Hpos). apply firstn_len_le. exact Hpre. }
  pose proof (pos_firstn _ _ _ (List.length q) Hpos) as Hq. rewrite Hpre in Hq.
  destruct (attach_is_ins q t _ n Hq) as [c1 [A B]].
  cbn [run_items item_step fst snd].
  replace (List.length q + 2 - 2) with (List.length q) by lia.
  destruct (Nat.leb_spec (List.length q) (List.length c)) as [_|Hbad]; [|lia].
  rewrite A. cbn [ins_all fold_left]. fold (ins_all q (map (cons n) (flat_map PS ks)) (ins (q ++ [n]) t)).
  rewrite ins_all_map_cons.
  (* the children, left to right *)
  set (q' := q ++ [n]).
  assert (Hq' : List.length q' = List.length q + 1) by (unfold q'; rewrite app_length; cbn; lia).
  cbn [tname].
  assert (Hloop : forall l, Forall (fun k => forall q t c pcur,
        pos_of_path pcur t = Some c -> firstn (List.length q) pcur = q ->
        exists c' pcur',
          run_items (t, c) (preorder_d (List.length q + 2) k) = Some (ins_all q (PS k) t, c') /\
          pos_of_path pcur' (ins_all q (PS k) t) = Some c' /\
          firstn (List.length q + 1) pcur' = q ++ [tname k]) l ->
      forall t0 c0 p0, pos_of_path p0 t0 = Some c0 -> firstn (List.length q') p0 = q' ->
      exists c' pcur',
        run_items (t0, c0) (flat_map (preorder_d (S (List.length q + 2))) l) = Some (ins_all q' (flat_map PS l) t0, c') /\
        pos_of_path pcur' (ins_all q' (flat_map PS l) t0) = Some c' /\
        firstn (List.length q') pcur' = q').
  { induction l as [|k r IHr]; intros HF t0 c0 p0 H0 H1.
    - exists c0, p0. cbn. auto.
    - inversion HF as [|? ? Hk Hr]; subst.
      cbn [flat_map]. rewrite run_items_app, ins_all_app.
      destruct (Hk q' t0 c0 p0 H0 H1) as [c2 [p2 [R2 [P2 F2]]]].
      replace (S (List.length q + 2)) with (List.length q' + 2) by lia.
      rewrite R2.
      assert (F2' : firstn (List.length q') p2 = q') by (eapply prefix_shrink; exact F2).
      destruct (IHr Hr _ _ _ P2 F2') as [c3 [p3 [R3 [P3 F3]]]].
      replace (S (List.length q + 2)) with (List.length q' + 2) in R3 by lia.
      exists c3, p3. auto. }
  assert (H1 : firstn (List.length q') (q ++ [n]) = q') by (unfold q'; apply firstn_all).
  destruct (Hloop ks IH _ _ _ B H1) as [c' [p' [R [P F']]]].
  exists c', p'. split; [exact R|]. split; [exact P|].
  rewrite <- Hq'. exact F'.
Qed.

(* all the items below a root *)
Theorem build_is_trie t0 :
  exists c, run_items (T (tname t0) [], []) (flat_map (preorder_d 2) (tkids t0)) = Some (trie_of t0, c).
Proof.
  destruct t0 as [r ks]. cbn [tname tkids]. unfold trie_of. cbn [tname paths].
  assert (Hloop : forall l t0 c0 p0, pos_of_path p0 t0 = Some c0 ->
      exists c' p', run_items (t0, c0) (flat_map (preorder_d 2) l) = Some (ins_all [] (flat_map PS l) t0, c') /\
                    pos_of_path p' (ins_all [] (flat_map PS l) t0) = Some c').
  { induction l as [|k l IH]; intros t0 c0 p0 H0.
    - exists c0, p0. cbn. auto.
    - cbn [flat_map]. rewrite run_items_app, ins_all_app.
      destruct (run_subtree k [] t0 c0 p0 H0 eq_refl) as [c2 [p2 [R2 [P2 _]]]].
      cbn [List.length Nat.add] in R2. rewrite R2.
      destruct (IH _ _ _ P2) as [c3 [p3 [R3 P3]]]. exists c3, p3. auto. }
  destruct (Hloop ks (T r []) [] [] eq_refl) as [c' [p' [R _]]].
  exists c'. rewrite R. unfold ins_all. cbn [app]. 
  replace (flat_map (fun k => [tname k] :: map (cons (tname k)) (paths k)) ks) with (flat_map PS ks) by reflexivity.
  reflexivity.
Qed.
