(* Proofs/MkdirConfined.v — CONFINEMENT of mkdir, for all inputs and all outcomes
   (success, name rejection, path-exists error, dry run, OS refusal part-way):
   nothing that existed is removed or retyped, and every new key lies strictly below the
   target directory (spelled by valid path elements) or is a missing prefix of the target
   itself (a directory).  No success hypothesis (no [acc], no [NoDup], no [stat = StNone]). *)
From Coq Require Import List Ascii Arith Bool Lia.
From GT Require Import Base.GoStr Tree.Tree Tree.Gen Tree.Grower Out.Spreader Api.Simple Fs.FsModel Fs.Mkdir Fs.Verify
  Api.Programmable
  Proofs.TreeInd Proofs.GrowRender Proofs.BuildTrie Proofs.Paths Proofs.Walk Proofs.NoPanic
  Proofs.FsBasic Proofs.MkdirExact.
Import ListNotations.

(* ================= Stage 0: what validation guarantees ================= *)

(* a grown node below the ancestors pre: a valid element name and the joined path; nothing
   about the OS accepting the name, nothing about distinct siblings *)
Inductive wfw : list str -> gtree -> Prop :=
| wfw_G pre n b p ks :
    elem_ok n = true -> p = join (pre ++ [n]) ->
    Forall (wfw (pre ++ [n])) ks -> wfw pre (G n b p ks).

Lemma wfw_name pre g : wfw pre g -> elem_ok (gname g) = true.
Proof. intros H. inversion H; subst. assumption. Qed.

Lemma grow_wfw bf : forall t anc il,
  eok (tnames t) -> eok (map fst anc) ->
  wfw (rev (map fst anc)) (grow_node bf anc il t).
Proof.
  induction t as [n ks IH] using tree_ind'. intros anc il Hn Ha.
  rewrite tnames_eq in Hn. inversion Hn as [|? ? Hn1 Hks]; subst.
  rewrite grow_node_eq. constructor.
  - exact Hn1.
  - unfold node_bp. destruct anc as [|a anc']; [reflexivity|].
    rewrite (path_join_single n Hn1). change n with (join [n]) at 1.
    apply climb_path; [discriminate|exact Ha|discriminate|apply eok1; exact Hn1].
  - assert (Ha' : eok (map fst ((n, il) :: anc))) by (constructor; assumption).
    change (rev (map fst anc) ++ [n]) with (rev (map fst ((n, il) :: anc))).
    clear Hn. induction ks as [|k r IHr]; [constructor|].
    inversion IH as [|? ? Hk Hr]; subst. cbn [flat_map] in Hks. apply Forall_app in Hks as [Hk1 Hk2].
    cbn [grow_kids]. constructor.
    + apply Hk; assumption.
    + apply IHr; assumption.
Qed.

Lemma grow_root_wfw bf t : eok (tnames t) -> wfw [] (grow_root bf t).
Proof. intros H. apply (grow_wfw bf t [] false); [exact H|constructor]. Qed.

(* a tree that passes validation has only valid element names *)
Lemma validate_g_names g : validate_g g = None -> eok (gnames g).
Proof.
  intros V. apply Forall_forall. intros n Hn. destruct (elem_ok n) eqn:E; [reflexivity|].
  destruct (validate_g_bad g (ex_intro _ n (conj Hn E))) as [e He]. congruence.
Qed.

(* names are validated for the whole forest before anything else happens: when growing
   succeeds the forest is the grown forest and every name of every tree is a valid element *)
Lemma grow_all_validated c : forall ts gs,
  grow_all (no_enc c) true ts = Ok gs ->
  gs = map (grow_root (c_bf c)) ts /\ Forall (fun t => eok (tnames t)) ts.
Proof.
  induction ts as [|t r IH]; intros gs H; cbn [grow_all] in H.
  - inversion H; subst. split; [reflexivity|constructor].
  - unfold grow_one at 1 in H. cbn [no_enc c_enc is_default c_bf] in H. rewrite orb_true_r in H.
    destruct (validate_g (grow_root (c_bf c) t)) as [e|] eqn:V; [discriminate|].
    destruct (grow_all (no_enc c) true r) as [gs'|e|] eqn:G; try discriminate.
    inversion H; subst. destruct (IH gs' eq_refl) as [E HF]. subst gs'. split; [reflexivity|].
    constructor; [|exact HF]. apply validate_g_names in V. unfold grow_root in V. rewrite gnames_grow in V. exact V.
Qed.

Lemma grown_forest_wfw bf ts :
  Forall (fun t => eok (tnames t)) ts -> Forall (wfw []) (map (grow_root bf) ts).
Proof.
  induction 1 as [|t r Ht _ IH]; cbn [map]; constructor; [apply grow_root_wfw; exact Ht|exact IH].
Qed.

(* ================= Stage 1: what one primitive call can change ================= *)

Lemma set_kind_same p k f : lookup p (set_kind p k f) = Some k.
Proof.
  induction f as [|[q k'] r IH]; cbn [set_kind lookup].
  - rewrite str_eqb_refl. reflexivity.
  - destruct (str_eqb p q) eqn:E; cbn [lookup]; rewrite E; [reflexivity|exact IH].
Qed.

(* os.MkdirAll, whatever its outcome: a key whose lookup changes was absent, is now a
   directory, and is a non-empty prefix of the requested path *)
Lemma mkdir_all_from_chg : forall cs f pre f' ok,
  eok (pre ++ cs) -> mkdir_all_from f (pth pre) cs = (f', ok) ->
  forall p, lookup p f' = lookup p f \/
    (lookup p f = None /\ lookup p f' = Some KDir /\
     exists a, pfx a cs /\ a <> [] /\ p = pth (pre ++ a)).
Proof.
  induction cs as [|c rest IH]; intros f pre f' ok He H p.
  - cbn in H. inversion H; subst. left. reflexivity.
  - assert (Hp : eok pre) by (apply eok_app in He; tauto).
    assert (He' : eok ((pre ++ [c]) ++ rest)) by (rewrite <- app_assoc; exact He).
    cbn [mkdir_all_from] in H. rewrite join2_pth in H by exact Hp.
    destruct (os_refuses c); [inversion H; subst; left; reflexivity|].
    destruct (lookup (pth (pre ++ [c])) f) as [[|e]|] eqn:L.
    + destruct (IH _ _ _ _ He' H p) as [E|[L1 [L2 [a [Ha [Hne Ep]]]]]]; [left; exact E|right].
      split; [exact L1|]. split; [exact L2|]. exists (c :: a).
      split; [apply pfx_cons; exact Ha|]. split; [discriminate|]. rewrite Ep, <- app_assoc. reflexivity.
    + inversion H; subst. left. reflexivity.
    + destruct (IH _ _ _ _ He' H p) as [E|[L1 [L2 [a [Ha [Hne Ep]]]]]].
      * rewrite E, lookup_app. destruct (lookup p f) as [k|] eqn:Lp; [left; reflexivity|].
        cbn [lookup]. destruct (str_eqb p (pth (pre ++ [c]))) eqn:Eq; [|left; reflexivity].
        apply str_eqb_eq in Eq. right. split; [reflexivity|]. split; [reflexivity|].
        exists [c]. split; [apply pfx_one|]. split; [discriminate|exact Eq].
      * right. rewrite lookup_app in L1. destruct (lookup p f) as [k|] eqn:Lp; [discriminate|].
        split; [reflexivity|]. split; [exact L2|]. exists (c :: a).
        split; [apply pfx_cons; exact Ha|]. split; [discriminate|]. rewrite Ep, <- app_assoc. reflexivity.
Qed.

(* os.Create, whatever its outcome: only the created path can change; it becomes an empty
   file and it was not a directory *)
Lemma create_chg f p0 f' ok :
  create f p0 = (f', ok) ->
  forall p, lookup p f' = lookup p f \/
    (p = p0 /\ lookup p f' = Some (KFile true) /\ lookup p f <> Some KDir).
Proof.
  unfold create. intros H p.
  destruct (stat f (dirname p0)); try (inversion H; subst; left; reflexivity).
  destruct (os_refuses (basename p0)); [inversion H; subst; left; reflexivity|].
  assert (G : (set_kind p0 (KFile true) f, true) = (f', ok) -> lookup p0 f <> Some KDir ->
              lookup p f' = lookup p f \/ (p = p0 /\ lookup p f' = Some (KFile true) /\ lookup p f <> Some KDir)).
  { intros X N. inversion X; subst. destruct (str_eqb p p0) eqn:E.
    - apply str_eqb_eq in E. subst p0. right. split; [reflexivity|]. split; [apply set_kind_same|exact N].
    - left. apply set_kind_other. exact E. }
  destruct (lookup p0 f) as [[|e]|] eqn:L.
  - inversion H; subst. left. reflexivity.
  - apply G; [exact H|discriminate].
  - apply G; [exact H|discriminate].
Qed.

Lemma pfx_app_cases : forall (tc a x : list str),
  pfx a (tc ++ x) -> pfx a tc \/ exists a', a' <> [] /\ a = tc ++ a' /\ pfx a' x.
Proof.
  induction tc as [|t tc IH]; intros a x Ha.
  - destruct a as [|h a1]; [left; exists []; reflexivity|]. right. exists (h :: a1).
    split; [discriminate|]. split; [reflexivity|exact Ha].
  - destruct a as [|h a1]; [left; exists (t :: tc); reflexivity|].
    destruct Ha as [b E]. cbn [app] in E. inversion E; subst h.
    destruct (IH a1 x (ex_intro _ b H1)) as [[b' E']|[a' [Hne [E1 Hp]]]].
    + left. exists b'. subst tc. reflexivity.
    + right. exists a'. split; [exact Hne|]. split; [subst a1; reflexivity|exact Hp].
Qed.

(* ================= Stage 2: makeDirectoriesAndFiles preserves whatever its primitive calls preserve ================= *)

Section Generic.
Variable exts : list str.
Variable tc : list str.
Hypothesis Htc : eok tc.
Variable P : fsmap -> Prop.            (* a property of the file system *)
Variable R : list str -> Prop.         (* the component lists (below the target) of created files *)
Hypothesis P_mkdir_all : forall f f' ok x,
  eok (tc ++ x) -> P f -> mkdir_all f (pth (tc ++ x)) = (f', ok) -> P f'.
Hypothesis P_create : forall f f' ok x,
  x <> [] -> eok x -> R x -> P f -> create f (pth (tc ++ x)) = (f', ok) -> P f'.

Definition node_keeps (g : gtree) : Prop :=
  forall f f' ok, P f -> make_node exts (pth tc) f g = (f', ok) -> P f'.

Lemma make_roots_pres l : Forall node_keeps l ->
  forall f f' ok, P f -> make_roots exts (pth tc) f l = (f', ok) -> P f'.
Proof.
  induction 1 as [|g r Hg _ IH]; intros f f' ok Hi H; cbn [make_roots] in H.
  - inversion H; subst. exact Hi.
  - destruct (make_node exts (pth tc) f g) as [f1 ok1] eqn:M. pose proof (Hg _ _ _ Hi M) as Hi1.
    destruct ok1; [eapply IH; eassumption|inversion H; subst; exact Hi1].
Qed.

(* one node, whatever the outcome: only MkdirAll of paths at or below the target and Create
   of paths strictly below it are ever called *)
Lemma make_node_pres : forall g pre, wfw pre g -> eok pre ->
  (forall m, eok m -> R (pre ++ [gname g] ++ m)) -> node_keeps g.
Proof.
  induction g as [n b p ks IH] using gtree_ind'. intros pre Hw Hp Hq f f' ok Hi H.
  inversion Hw as [? ? ? ? ? Hn Hpath Hks]; subst. cbn [gname] in Hq.
  rewrite make_node_eq in H. rewrite tjoin_node in H by assumption.
  destruct (is_file exts (G n b (join (pre ++ [n])) ks)) eqn:F.
  - rewrite tjoin_parent in H by assumption.
    destruct (mkdir_all f (pth (tc ++ pre))) as [f1 ok1] eqn:M.
    assert (Hi1 : P f1) by (eapply (P_mkdir_all f f1 ok1 pre); [eo|exact Hi|exact M]).
    destruct ok1; [|inversion H; subst; exact Hi1].
    apply (P_create f1 f' ok (pre ++ [n])); [destruct pre; discriminate|eo| |exact Hi1|exact H].
    specialize (Hq [] ltac:(constructor)). rewrite app_nil_r in Hq. exact Hq.
  - destruct ks as [|k0 ks'].
    + apply (P_mkdir_all f f' ok (pre ++ [n])); [eo|exact Hi|exact H].
    + refine (make_roots_pres (k0 :: ks') _ f f' ok Hi H).
      rewrite Forall_forall in IH, Hks. apply Forall_forall. intros x Hx.
      apply (IH x Hx (pre ++ [n])); [apply Hks; exact Hx|eo|].
      intros m Hm. pose proof (wfw_name _ _ (Hks x Hx)) as Hxn.
      specialize (Hq (gname x :: m) ltac:(constructor; assumption)).
      rewrite <- app_assoc. exact Hq.
Qed.

Lemma make_forest_pres gs f f' ok :
  Forall (wfw []) gs -> (forall g m, In g gs -> eok m -> R ([gname g] ++ m)) ->
  P f -> make_roots exts (pth tc) f gs = (f', ok) -> P f'.
Proof.
  intros Hw Hq Hi H. refine (make_roots_pres gs _ f f' ok Hi H).
  rewrite Forall_forall in Hw. apply Forall_forall. intros g Hg.
  apply (make_node_pres g []); [apply Hw; exact Hg|constructor|].
  intros m Hm. cbn [app]. apply (Hq g m Hg Hm).
Qed.

End Generic.

(* ================= Stage 3: the invariant of a run ================= *)

(* where mkdir may put a new entry: strictly below the target, spelled by valid elements,
   or (as a directory) at a non-empty prefix of the target itself *)
Definition confined_key (tc : list str) (p : str) (k : kind) : Prop :=
  (exists comps, comps <> [] /\ eok comps /\ p = pth (tc ++ comps)) \/
  (exists a, pfx a tc /\ a <> [] /\ p = pth a /\ k = KDir).

Section Run.
Variable exts : list str.
Variable tc : list str.
Hypothesis Htc : eok tc.
Variable f0 : fsmap.            (* the file system before the call *)
Variable Q : str -> Prop.       (* the keys at or below a node of the forest *)

(* every key reads as before the call, or is a confined key that was absent, or is a node
   path that was a file and has been truncated to an empty file *)
Definition inv (f : fsmap) : Prop :=
  forall p, lookup p f = lookup p f0 \/
    exists k, lookup p f = Some k /\ confined_key tc p k /\
      (lookup p f0 = None \/ (Q p /\ k = KFile true /\ exists e, lookup p f0 = Some (KFile e))).

Lemma inv_start : inv f0.
Proof. intros p. left. reflexivity. Qed.

Lemma inv_mkdir_all f f' ok x :
  eok (tc ++ x) -> inv f -> mkdir_all f (pth (tc ++ x)) = (f', ok) -> inv f'.
Proof.
  intros He Hi H p. unfold mkdir_all in H. rewrite comps_pth in H by exact He.
  change [c_dot] with (pth []) in H.
  destruct (mkdir_all_from_chg _ _ [] _ _ He H p) as [E|[L1 [L2 [a [Ha [Hne Ep]]]]]].
  - rewrite E. apply Hi.
  - cbn [app] in Ep. right. exists KDir. split; [exact L2|]. split.
    + destruct (pfx_app_cases tc a x Ha) as [Hp|[a' [Hne' [Ea Hp]]]].
      * right. exists a. auto.
      * left. exists a'. split; [exact Hne'|]. split; [|rewrite Ep, Ea; reflexivity].
        apply eok_app in He as [_ Hx]. apply (pfx_eok [] x a' Hx Hp).
    + left. destruct (Hi p) as [E|[k [Lk _]]]; [rewrite <- E; exact L1|congruence].
Qed.

Lemma inv_create f f' ok x :
  x <> [] -> eok x -> Q (pth (tc ++ x)) -> inv f -> create f (pth (tc ++ x)) = (f', ok) -> inv f'.
Proof.
  intros Hne Hx Hq Hi H p.
  destruct (create_chg _ _ _ _ H p) as [E|[Ep [L1 L2]]]; [rewrite E; apply Hi|].
  right. exists (KFile true). split; [exact L1|]. split; [left; exists x; auto|].
  destruct (Hi p) as [E|[k [Lk [_ [N|[_ [_ [e Le]]]]]]]].
  - rewrite E in L2. destruct (lookup p f0) as [[|e]|] eqn:L0; [congruence| |left; reflexivity].
    right. subst p. split; [exact Hq|]. split; [reflexivity|]. exists e. reflexivity.
  - left. exact N.
  - right. subst p. split; [exact Hq|]. split; [reflexivity|]. exists e. exact Le.
Qed.

Lemma make_forest_inv gs f' ok :
  Forall (wfw []) gs -> (forall g m, In g gs -> eok m -> Q (pth (tc ++ [gname g] ++ m))) ->
  make_roots exts (pth tc) f0 gs = (f', ok) -> inv f'.
Proof.
  intros Hw Hq H.
  apply (make_forest_pres exts tc Htc inv (fun x => Q (pth (tc ++ x))) inv_mkdir_all inv_create gs f0 f' ok);
    [exact Hw|exact Hq|apply inv_start|exact H].
Qed.

End Run.

(* ================= Stage 4: file systems whose entries have their parent directories ================= *)

(* the parent of every entry is "." or an existing directory (the second half of [fs_closed];
   implied by [fs_ok]) *)
Definition fs_parents (f : fsmap) : Prop :=
  forall p k, lookup p f = Some k -> dirname p = [c_dot] \/ lookup (dirname p) f = Some KDir.

Lemma fs_closed_parents f : fs_closed f -> fs_parents f.
Proof. intros H p k L. exact (proj2 (H p k L)). Qed.

Lemma fs_ok_parents f : fs_ok f -> fs_parents f.
Proof. intros [_ H]. apply fs_closed_parents. exact H. Qed.

Lemma fs_parents_below f x : fs_parents f -> x <> [] -> lookup (pth x) f = None ->
  forall m, eok (x ++ m) -> lookup (pth (x ++ m)) f = None.
Proof.
  intros Hc Hx L m. induction m as [|c m' IH] using rev_ind; intros He.
  - rewrite app_nil_r. exact L.
  - rewrite app_assoc in *. destruct (lookup (pth ((x ++ m') ++ [c])) f) as [k|] eqn:E; [|reflexivity]. exfalso.
    assert (He' : eok (x ++ m')) by (apply eok_app in He; tauto).
    destruct (Hc _ _ E) as [D|D]; rewrite dirname_pth in D by exact He.
    + pose proof (join_not_dot (x ++ m') He' ltac:(destruct x; [congruence|discriminate])) as N.
      rewrite <- pth_join in N by (destruct x; [congruence|discriminate]). rewrite D in N. discriminate.
    + rewrite IH in D by exact He'. discriminate.
Qed.

(* os.Stat says "does not exist": nothing exists at or below the path *)
Lemma stat_none_below f x :
  fs_parents f -> eok x -> stat f (pth x) = StNone -> below f x.
Proof.
  intros Hc He Hs. apply stat_inv in Hs; [|discriminate]. rewrite comps_pth in Hs by exact He.
  change [c_dot] with (pth []) in Hs.
  destruct (stat_none_inv x f [] He Hs) as [a [c [[b1 E] [_ L]]]]. cbn [app] in L.
  intros m Hm. rewrite E, <- app_assoc.
  apply fs_parents_below; [exact Hc|destruct a; discriminate|exact L|].
  rewrite app_assoc, <- E. apply eok_app. split; assumption.
Qed.

Lemma wfw_root_tjoin tc g : eok tc -> wfw [] g -> tjoin (pth tc) (gpath g) = pth (tc ++ [gname g]).
Proof.
  intros Htc H. inversion H; subst. cbn [gpath gname]. apply (tjoin_node tc [] n); [assumption|constructor|assumption].
Qed.

Lemma no_root_exists_below f tc gs :
  fs_parents f -> eok tc -> Forall (wfw []) gs -> exists_root f (pth tc) gs = false ->
  forall g, In g gs -> below f (tc ++ [gname g]).
Proof.
  intros Hc Htc Hw He g Hg. rewrite Forall_forall in Hw. pose proof (wfw_name _ _ (Hw g Hg)) as Hn.
  apply stat_none_below; [exact Hc|eo|]. rewrite <- wfw_root_tjoin by auto.
  destruct (stat f (tjoin (pth tc) (gpath g))) eqn:S; [reflexivity| | |];
    exfalso; unfold exists_root in He;
    (assert (X : existsb (fun g0 => match stat f (tjoin (pth tc) (gpath g0)) with StNone => false | _ => true end) gs = true)
       by (apply existsb_exists; exists g; split; [exact Hg|rewrite S; reflexivity])); congruence.
Qed.

(* ---------- that property is preserved, whatever the outcome ---------- *)
Lemma mkdir_all_from_parents : forall cs f pre f' ok,
  eok (pre ++ cs) -> (pre = [] \/ lookup (pth pre) f = Some KDir) -> fs_parents f ->
  mkdir_all_from f (pth pre) cs = (f', ok) -> fs_parents f'.
Proof.
  induction cs as [|c rest IH]; intros f pre f' ok He Hpre Hc H.
  - cbn in H. inversion H; subst. exact Hc.
  - assert (Hp : eok pre) by (apply eok_app in He; tauto).
    assert (He' : eok ((pre ++ [c]) ++ rest)) by (rewrite <- app_assoc; exact He).
    assert (Hpc : eok (pre ++ [c])) by (apply eok_app in He'; tauto).
    cbn [mkdir_all_from] in H. rewrite join2_pth in H by exact Hp.
    destruct (os_refuses c); [inversion H; subst; exact Hc|].
    destruct (lookup (pth (pre ++ [c])) f) as [[|e]|] eqn:L.
    + apply (IH _ _ _ _ He' (or_intror L) Hc H).
    + inversion H; subst. exact Hc.
    + refine (IH _ _ _ _ He' (or_intror _) _ H).
      * rewrite lookup_app, L. cbn [lookup]. rewrite str_eqb_refl. reflexivity.
      * intros q k Lq. rewrite lookup_app in Lq. destruct (lookup q f) as [kq|] eqn:Lf.
        -- destruct (Hc q kq Lf) as [D|D]; [left; exact D|right; apply lookup_app_some; exact D].
        -- cbn [lookup] in Lq. destruct (str_eqb q (pth (pre ++ [c]))) eqn:Eq; [|discriminate].
           apply str_eqb_eq in Eq. subst q. rewrite dirname_pth by exact Hpc.
           destruct Hpre as [->|Hd]; [left; reflexivity|right; apply lookup_app_some; exact Hd].
Qed.

Lemma mkdir_all_parents f f' ok x :
  eok x -> fs_parents f -> mkdir_all f (pth x) = (f', ok) -> fs_parents f'.
Proof.
  intros He Hc H. unfold mkdir_all in H. rewrite comps_pth in H by exact He. change [c_dot] with (pth []) in H.
  apply (mkdir_all_from_parents x f [] f' ok He (or_introl eq_refl) Hc H).
Qed.

Lemma create_parents f f' ok x :
  x <> [] -> eok x -> fs_parents f -> create f (pth x) = (f', ok) -> fs_parents f'.
Proof.
  intros Hne He Hc H. destruct (last_split x Hne) as [anc [n ->]].
  assert (Ha : eok anc) by (apply eok_app in He; tauto).
  unfold create in H. rewrite dirname_pth in H by exact He.
  destruct (stat f (pth anc)) eqn:S; try (inversion H; subst; exact Hc).
  destruct (os_refuses (basename (pth (anc ++ [n])))); [inversion H; subst; exact Hc|].
  assert (G : (set_kind (pth (anc ++ [n])) (KFile true) f, true) = (f', ok) ->
              lookup (pth (anc ++ [n])) f <> Some KDir -> fs_parents f').
  { intros X N. inversion X; subst. intros q k Lq. destruct (str_eqb q (pth (anc ++ [n]))) eqn:Eq.
    - apply str_eqb_eq in Eq. subst q. rewrite dirname_pth by exact He.
      destruct anc as [|a0 anc']; [left; reflexivity|right].
      apply set_kind_dir_kept; [|exact N].
      apply stat_inv in S; [|discriminate]. rewrite comps_pth in S by exact Ha. change [c_dot] with (pth []) in S.
      apply (stat_dir_inv (a0 :: anc') f [] Ha S (a0 :: anc')); [exists []; rewrite app_nil_r; reflexivity|discriminate].
    - rewrite set_kind_other in Lq by exact Eq.
      destruct (Hc q k Lq) as [D|D]; [left; exact D|right; apply set_kind_dir_kept; assumption]. }
  destruct (lookup (pth (anc ++ [n])) f) as [[|e]|] eqn:L.
  - inversion H; subst. exact Hc.
  - apply G; [exact H|discriminate].
  - apply G; [exact H|discriminate].
Qed.

Lemma make_forest_parents exts tc gs f f' ok :
  eok tc -> Forall (wfw []) gs -> fs_parents f ->
  make_roots exts (pth tc) f gs = (f', ok) -> fs_parents f'.
Proof.
  intros Htc Hw Hc H.
  apply (make_forest_pres exts tc Htc fs_parents (fun _ => True)) with (gs := gs) (f := f) (ok := ok); auto.
  - intros f1 f2 ok1 x He. apply mkdir_all_parents. exact He.
  - intros f1 f2 ok1 x Hne Hx _. apply create_parents; [destruct tc; [exact Hne|discriminate]|eo].
Qed.

(* ================= Stage 5: defaultMkdirerSimple.mkdir ================= *)

(* no hypothesis on the file system: existing directories are kept; an existing file is kept
   or, when it lies strictly below the target, truncated; new keys are confined *)
Theorem mkdirer_confined_any exts tc f gs f' r :
  eok tc -> Forall (wfw []) gs ->
  mkdirer exts (dir_of tc) f gs = (f', r) ->
  (forall p k, lookup p f = Some k ->
     lookup p f' = Some k \/
     (exists e comps, k = KFile e /\ lookup p f' = Some (KFile true) /\
        comps <> [] /\ eok comps /\ p = pth (tc ++ comps))) /\
  (forall p k, lookup p f = None -> lookup p f' = Some k -> confined_key tc p k).
Proof.
  intros Htc Hw H.
  assert (I : inv tc f (fun _ => True) f').
  { destruct (mkdirer_result _ _ _ _ _ _ H) as [[_ [_ M]]|[[_ E]|[_ [_ M]]]].
    - rewrite target_dir_of in M by exact Htc. eapply make_forest_inv; eauto.
    - subst f'. apply inv_start.
    - rewrite target_dir_of in M by exact Htc. eapply make_forest_inv; eauto. }
  split.
  - intros p k L. destruct (I p) as [E|[k' [L' [Ck [N|[_ [Ek [e Le]]]]]]]].
    + left. rewrite E. exact L.
    + congruence.
    + right. subst k'. rewrite L in Le. inversion Le; subst k.
      destruct Ck as [[comps [C1 [C2 C3]]]|[a [_ [_ [_ X]]]]]; [|discriminate].
      exists e, comps. auto.
  - intros p k L L'. destruct (I p) as [E|[k' [Lk [Ck _]]]]; [congruence|].
    rewrite L' in Lk. inversion Lk; subst k'. exact Ck.
Qed.

Theorem mkdirer_confined exts tc f gs f' r :
  eok tc -> fs_parents f -> Forall (wfw []) gs ->
  mkdirer exts (dir_of tc) f gs = (f', r) ->
  (forall p k, lookup p f = Some k -> lookup p f' = Some k) /\
  (forall p k, lookup p f = None -> lookup p f' = Some k -> confined_key tc p k).
Proof.
  intros Htc Hc Hw H.
  split; [|exact (proj2 (mkdirer_confined_any exts tc f gs f' r Htc Hw H))].
  assert (I : inv tc f (fun p => lookup p f = None) f').
  { destruct (mkdirer_result _ _ _ _ _ _ H) as [[_ [X M]]|[[_ E]|[_ [X M]]]].
    - rewrite target_dir_of in M, X by exact Htc. eapply make_forest_inv; eauto.
      intros g m Hg Hm. rewrite app_assoc. apply (no_root_exists_below f tc gs Hc Htc Hw X g Hg m Hm).
    - subst f'. apply inv_start.
    - rewrite target_dir_of in M, X by exact Htc. eapply make_forest_inv; eauto.
      intros g m Hg Hm. rewrite app_assoc. apply (no_root_exists_below f tc gs Hc Htc Hw X g Hg m Hm). }
  intros p k L. destruct (I p) as [E|[k' [L' [_ [N|[N [_ _]]]]]]]; [rewrite E; exact L|congruence|congruence].
Qed.

(* ================= Stage 6: treeSimple.mkdir / mkdirProgrammably ================= *)

(* when is the file system touched at all: never on a dry run, never when a name or a path is
   rejected, never when a root already exists — only on success and on an OS failure *)
Theorem mkdir_untouched c dir f ts f' cs r :
  mkdir_trees c dir f ts = (f', cs, r) ->
  c_dry c = true \/ (r <> Ok tt /\ r <> Err EOs) -> f' = f.
Proof.
  unfold mkdir_trees. cbn zeta. intros H Hc.
  destruct (grow_all (no_enc c) true ts) as [gs|e|] eqn:G; try (inversion H; reflexivity).
  cbn [no_enc c_dry c_exts] in H. destruct (c_dry c) eqn:D.
  - destruct (spread_all (no_enc c) gs); inversion H; reflexivity.
  - destruct (mkdirer (c_exts c) dir f gs) as [f1 r1] eqn:M. inversion H; subst.
    destruct Hc as [Hc|[N1 N2]]; [discriminate|].
    destruct (mkdirer_result _ _ _ _ _ _ M) as [[E _]|[[_ E]|[E _]]]; [congruence|exact E|congruence].
Qed.

Corollary mkdir_dry_untouched c dir f ts f' cs r :
  c_dry c = true -> mkdir_trees c dir f ts = (f', cs, r) -> f' = f.
Proof. intros Hd H. apply (mkdir_untouched _ _ _ _ _ _ _ H). left. exact Hd. Qed.

Corollary mkdir_error_untouched c dir f ts f' cs r :
  mkdir_trees c dir f ts = (f', cs, r) ->
  (exists n, r = Err (EInvalidName n)) \/ (exists q, r = Err (EInvalidPath q)) \/ r = Err EExistPath ->
  f' = f.
Proof.
  intros H Hr. apply (mkdir_untouched _ _ _ _ _ _ _ H). right.
  destruct Hr as [[n ->]|[[q ->]| ->]]; split; discriminate.
Qed.

(* the only possible results *)
Theorem mkdir_outcomes c dir f ts f' cs r :
  mkdir_trees c dir f ts = (f', cs, r) ->
  r = Ok tt \/ r = Err EOs \/ r = Err EExistPath \/
  (exists n, r = Err (EInvalidName n)) \/ (exists q, r = Err (EInvalidPath q)).
Proof.
  unfold mkdir_trees. cbn zeta. intros H.
  destruct (grow_all (no_enc c) true ts) as [gs|e|] eqn:G.
  - cbn [no_enc c_dry c_exts] in H. destruct (c_dry c) eqn:D.
    + destruct (spread_all_ok (no_enc c) gs) as [cs' Hc]. rewrite Hc in H. inversion H. left. reflexivity.
    + destruct (mkdirer (c_exts c) dir f gs) as [f1 r1] eqn:M. inversion H; subst.
      destruct (mkdirer_result _ _ _ _ _ _ M) as [[E _]|[[E _]|[E _]]]; auto.
  - inversion H; subst. pose proof (grow_all_name_error _ _ _ _ G) as N.
    destruct e; try discriminate; right; right; right; [left|right]; eexists; reflexivity.
  - exfalso. exact (grow_all_no_panic _ _ _ G).
Qed.

(* CONFINEMENT, no hypothesis on the file system *)
Theorem mkdir_confined_any : forall c tc f ts f' cs r,
  eok tc ->
  mkdir_trees c (dir_of tc) f ts = (f', cs, r) ->
  (forall p k, lookup p f = Some k ->
     lookup p f' = Some k \/
     (exists e comps, k = KFile e /\ lookup p f' = Some (KFile true) /\
        comps <> [] /\ eok comps /\ p = pth (tc ++ comps))) /\
  (forall p k, lookup p f = None -> lookup p f' = Some k ->
     (exists comps, comps <> [] /\ eok comps /\ p = pth (tc ++ comps))
     \/ (exists a, pfx a tc /\ a <> [] /\ p = pth a /\ k = KDir)).
Proof.
  intros c tc f ts f' cs r Htc H.
  match goal with |- ?Goal => assert (Same : f' = f -> Goal) end.
  { intros ->. split; [intros p k L; left; exact L|intros p k L L'; congruence]. }
  unfold mkdir_trees in H. cbn zeta in H.
  destruct (grow_all (no_enc c) true ts) as [gs|e|] eqn:G; try (inversion H; subst; apply Same; reflexivity).
  cbn [no_enc c_dry c_exts] in H. destruct (c_dry c) eqn:D.
  - destruct (spread_all (no_enc c) gs); inversion H; subst; apply Same; reflexivity.
  - destruct (mkdirer (c_exts c) (dir_of tc) f gs) as [f1 r1] eqn:M. inversion H; subst. clear Same.
    destruct (grow_all_validated c ts gs G) as [-> Hn].
    apply (mkdirer_confined_any (c_exts c) tc f _ f' r Htc (grown_forest_wfw _ _ Hn) M).
Qed.

(* CONFINEMENT: every entry of the file system has its parent directory *)
Theorem mkdir_confined : forall c tc f ts f' cs r,
  eok tc ->
  fs_parents f ->
  mkdir_trees c (dir_of tc) f ts = (f', cs, r) ->
  (forall p k, lookup p f = Some k -> lookup p f' = Some k) /\
  (forall p k, lookup p f = None -> lookup p f' = Some k ->
     (exists comps, comps <> [] /\ eok comps /\ p = pth (tc ++ comps))
     \/ (exists a, pfx a tc /\ a <> [] /\ p = pth a /\ k = KDir)).
Proof.
  intros c tc f ts f' cs r Htc Hc H.
  split; [|exact (proj2 (mkdir_confined_any c tc f ts f' cs r Htc H))].
  unfold mkdir_trees in H. cbn zeta in H.
  destruct (grow_all (no_enc c) true ts) as [gs|e|] eqn:G; try (inversion H; subst; auto; fail).
  cbn [no_enc c_dry c_exts] in H. destruct (c_dry c) eqn:D.
  - destruct (spread_all (no_enc c) gs); inversion H; subst; auto.
  - destruct (mkdirer (c_exts c) (dir_of tc) f gs) as [f1 r1] eqn:M. inversion H; subst.
    destruct (grow_all_validated c ts gs G) as [-> Hn].
    exact (proj1 (mkdirer_confined (c_exts c) tc f _ f' r Htc Hc (grown_forest_wfw _ _ Hn) M)).
Qed.

Corollary mkdir_confined_fs_ok c tc f ts f' cs r :
  eok tc -> fs_ok f ->
  mkdir_trees c (dir_of tc) f ts = (f', cs, r) ->
  (forall p k, lookup p f = Some k -> lookup p f' = Some k) /\
  (forall p k, lookup p f = None -> lookup p f' = Some k ->
     (exists comps, comps <> [] /\ eok comps /\ p = pth (tc ++ comps))
     \/ (exists a, pfx a tc /\ a <> [] /\ p = pth a /\ k = KDir)).
Proof. intros Htc Hok. apply mkdir_confined; [exact Htc|apply fs_ok_parents; exact Hok]. Qed.

(* the side condition is an invariant: it holds again after the call, whatever the outcome *)
Theorem mkdir_keeps_parents c tc f ts f' cs r :
  eok tc -> fs_parents f ->
  mkdir_trees c (dir_of tc) f ts = (f', cs, r) -> fs_parents f'.
Proof.
  intros Htc Hc H. unfold mkdir_trees in H. cbn zeta in H.
  destruct (grow_all (no_enc c) true ts) as [gs|e|] eqn:G; try (inversion H; subst; exact Hc).
  cbn [no_enc c_dry c_exts] in H. destruct (c_dry c) eqn:D.
  - destruct (spread_all (no_enc c) gs); inversion H; subst; exact Hc.
  - destruct (mkdirer (c_exts c) (dir_of tc) f gs) as [f1 r1] eqn:M. inversion H; subst.
    destruct (grow_all_validated c ts gs G) as [-> Hn].
    destruct (mkdirer_result _ _ _ _ _ _ M) as [[_ [_ X]]|[[_ E]|[_ [_ X]]]].
    + rewrite target_dir_of in X by exact Htc.
      apply (make_forest_parents _ _ _ _ _ _ Htc (grown_forest_wfw _ _ Hn) Hc X).
    + subst f'. exact Hc.
    + rewrite target_dir_of in X by exact Htc.
      apply (make_forest_parents _ _ _ _ _ _ Htc (grown_forest_wfw _ _ Hn) Hc X).
Qed.

(* ================= Stage 7: nothing escapes ================= *)

(* component-wise prefix on cleaned relative paths ("." has no components) *)
Definition cpfx (a b : str) : Prop := pfx (comps_of a) (comps_of b).

(* every new key is spelled by valid elements only (no "", ".", "..", no '/' inside an
   element) and is comparable with the target: strictly below it, or one of its own
   prefixes (then a directory).  No hypothesis on the file system. *)
Corollary mkdir_never_outside c tc f ts f' cs r :
  eok tc ->
  mkdir_trees c (dir_of tc) f ts = (f', cs, r) ->
  forall p k, lookup p f = None -> lookup p f' = Some k ->
    eok (comps_of p) /\ comps_of p <> [] /\
    ((cpfx (pth tc) p /\ p <> pth tc) \/ (cpfx p (pth tc) /\ k = KDir)).
Proof.
  intros Htc H p k L L'.
  destruct (proj2 (mkdir_confined_any c tc f ts f' cs r Htc H) p k L L')
    as [[comps [C1 [C2 ->]]]|[a [Ha [Hne [-> ->]]]]].
  - assert (He : eok (tc ++ comps)) by eo.
    unfold cpfx. rewrite !comps_pth by assumption.
    split; [exact He|]. split; [destruct tc; [exact C1|discriminate]|].
    left. split; [exists comps; reflexivity|]. intros X. apply pth_inj in X; [|assumption|assumption].
    rewrite <- (app_nil_r tc) in X at 2. apply app_inv_head in X. contradiction.
  - assert (He : eok a) by (apply (pfx_eok [] tc a Htc Ha)).
    unfold cpfx. rewrite !comps_pth by assumption.
    split; [exact He|]. split; [exact Hne|]. right. split; [exact Ha|reflexivity].
Qed.

(* the string form: a new key strictly below a target other than "." starts with "target/" *)
Corollary mkdir_new_key_string c tc f ts f' cs r :
  eok tc ->
  mkdir_trees c (dir_of tc) f ts = (f', cs, r) ->
  forall p k, lookup p f = None -> lookup p f' = Some k ->
    under (pth tc) p = true \/ (exists a, pfx a tc /\ a <> [] /\ p = pth a /\ k = KDir).
Proof.
  intros Htc H p k L L'.
  destruct (proj2 (mkdir_confined_any c tc f ts f' cs r Htc H) p k L L')
    as [[comps [C1 [C2 ->]]]|X]; [left|right; exact X].
  destruct tc as [|t tc'].
  - unfold under. cbn. apply orb_true_r.
  - apply under_ext; [eo|discriminate].
Qed.

(* ================= Stage 8: the From-Root and From-Markdown steps ================= *)

Definition confined (tc : list str) (f f' : fsmap) : Prop :=
  (forall p k, lookup p f = Some k -> lookup p f' = Some k) /\
  (forall p k, lookup p f = None -> lookup p f' = Some k ->
     (exists comps, comps <> [] /\ eok comps /\ p = pth (tc ++ comps))
     \/ (exists a, pfx a tc /\ a <> [] /\ p = pth a /\ k = KDir)).

Lemma confined_refl tc f : confined tc f f.
Proof. split; [auto|intros p k L L'; congruence]. Qed.

Corollary pmkdir_confined w h c tc :
  eok tc -> fs_parents (w_fs w) ->
  confined tc (w_fs w) (w_fs (fst (pstep w (PMkdir h c (dir_of tc))))).
Proof.
  intros Htc Hc. cbn [pstep]. destruct (root_of w h) as [t|e|]; try apply confined_refl.
  destruct (mkdir_trees c (dir_of tc) (w_fs w) [t]) as [[f' cs] r] eqn:M. cbn [fst w_fs].
  exact (mkdir_confined c tc (w_fs w) [t] f' cs r Htc Hc M).
Qed.

Corollary pmdmkdir_confined w c tc doc :
  eok tc -> fs_parents (w_fs w) ->
  confined tc (w_fs w) (w_fs (fst (pstep w (PMdMkdir c (dir_of tc) doc)))).
Proof.
  intros Htc Hc. cbn [pstep]. destruct (gen_all doc) as [ts|e|]; try apply confined_refl.
  destruct (mkdir_trees c (dir_of tc) (w_fs w) ts) as [[f' cs] r] eqn:M. cbn [fst w_fs].
  exact (mkdir_confined c tc (w_fs w) ts f' cs r Htc Hc M).
Qed.

Corollary pmkdir_keeps_parents w h c tc :
  eok tc -> fs_parents (w_fs w) -> fs_parents (w_fs (fst (pstep w (PMkdir h c (dir_of tc))))).
Proof.
  intros Htc Hc. cbn [pstep]. destruct (root_of w h) as [t|e|]; try exact Hc.
  destruct (mkdir_trees c (dir_of tc) (w_fs w) [t]) as [[f' cs] r] eqn:M. cbn [fst w_fs].
  exact (mkdir_keeps_parents c tc (w_fs w) [t] f' cs r Htc Hc M).
Qed.

Corollary pmdmkdir_keeps_parents w c tc doc :
  eok tc -> fs_parents (w_fs w) -> fs_parents (w_fs (fst (pstep w (PMdMkdir c (dir_of tc) doc)))).
Proof.
  intros Htc Hc. cbn [pstep]. destruct (gen_all doc) as [ts|e|]; try exact Hc.
  destruct (mkdir_trees c (dir_of tc) (w_fs w) ts) as [[f' cs] r] eqn:M. cbn [fst w_fs].
  exact (mkdir_keeps_parents c tc (w_fs w) ts f' cs r Htc Hc M).
Qed.

(* the steps touch nothing but the file system; the reported file system is the new one *)
Corollary pmkdir_reports w h c dir :
  let '(w', o) := pstep w (PMkdir h c dir) in
  w_trees w' = w_trees w /\ w_handles w' = w_handles w /\ exists cs r, o = OFs cs r (w_fs w').
Proof.
  cbn [pstep]. destruct (root_of w h) as [t|e|]; try (repeat split; eexists; eexists; reflexivity).
  destruct (mkdir_trees c dir (w_fs w) [t]) as [[f' cs] r]. repeat split. eexists; eexists; reflexivity.
Qed.

Corollary pmdmkdir_reports w c dir doc :
  let '(w', o) := pstep w (PMdMkdir c dir doc) in
  w_trees w' = w_trees w /\ w_handles w' = w_handles w /\ exists cs r, o = OFs cs r (w_fs w').
Proof.
  cbn [pstep]. destruct (gen_all doc) as [ts|e|]; try (repeat split; eexists; eexists; reflexivity).
  destruct (mkdir_trees c dir (w_fs w) ts) as [[f' cs] r]. repeat split. eexists; eexists; reflexivity.
Qed.

(* ================= Examples ================= *)

Definition cx_cfg : cfg :=
  {| c_bf := default_bfmt; c_enc := EncDefault; c_dry := false; c_exts := [sx [46;103;111]]; c_noiter := false |}.

(* (1) the hypotheses are satisfiable and the conclusion is not trivial: a mkdir that fails
   part-way.  tgt / a { b, <256 times 'x'>, c } into the empty file system: the names pass
   validation, "tgt", "tgt/a", "tgt/a/b" are made, then the OS refuses the 256-byte name:
   the call returns the OS error and leaves a partial, confined result ("tgt/a/c" is never
   made). *)
Definition cx_long : str := List.repeat (ch 120) 256.
Definition cx_tc : list str := [sx [116;103;116]].
Definition cx_ts : list tree := [T (sx [97]) [T (sx [98]) []; T cx_long []; T (sx [99]) []]].

Example partial_failure_instance :
  eok cx_tc /\ fs_parents [] /\ elem_ok cx_long = true /\ os_refuses cx_long = true /\
  mkdir_trees cx_cfg (dir_of cx_tc) [] cx_ts =
  ([(sx [116;103;116], KDir);
    (sx [116;103;116;47;97], KDir);
    (sx [116;103;116;47;97;47;98], KDir)], [], Err EOs).
Proof.
  split; [repeat constructor|]. split; [intros p k L; discriminate|].
  split; [vm_compute; reflexivity|]. split; vm_compute; reflexivity.
Qed.

(* the theorem applied to it: the three new keys are the missing prefix "tgt" of the target
   and two keys strictly below it *)
Example partial_failure_confined :
  forall p k, lookup p (fst (fst (mkdir_trees cx_cfg (dir_of cx_tc) [] cx_ts))) = Some k ->
    (exists comps, comps <> [] /\ eok comps /\ p = pth (cx_tc ++ comps))
    \/ (exists a, pfx a cx_tc /\ a <> [] /\ p = pth a /\ k = KDir).
Proof.
  intros p k L.
  destruct (mkdir_trees cx_cfg (dir_of cx_tc) [] cx_ts) as [[f' cs] r] eqn:M.
  apply (proj2 (mkdir_confined cx_cfg cx_tc [] cx_ts f' cs r
                  (proj1 partial_failure_instance) (proj1 (proj2 partial_failure_instance)) M) p k);
    [reflexivity|exact L].
Qed.

(* (2) [fs_parents] cannot be dropped from [mkdir_confined]: an orphan entry "a/m.go" (a
   non-empty file whose parent "a" does not exist, so os.Stat("a") says "does not exist")
   is truncated by a mkdir of a { m.go }: the first conjunct fails.  [mkdir_confined_any]
   describes exactly this. *)
Definition cx_orphan : fsmap := [(sx [97;47;109;46;103;111], KFile false)].
Definition cx_ts2 : list tree := [T (sx [97]) [T (sx [109;46;103;111]) []]].

Example fs_parents_needed :
  eok [] /\ ~ fs_parents cx_orphan /\
  lookup (sx [97;47;109;46;103;111]) cx_orphan = Some (KFile false) /\
  mkdir_trees cx_cfg (dir_of []) cx_orphan cx_ts2 =
    ([(sx [97;47;109;46;103;111], KFile true); (sx [97], KDir)], [], Ok tt) /\
  lookup (sx [97;47;109;46;103;111]) (fst (fst (mkdir_trees cx_cfg (dir_of []) cx_orphan cx_ts2)))
    = Some (KFile true).
Proof.
  split; [constructor|]. split.
  - intros H. destruct (H (sx [97;47;109;46;103;111]) (KFile false) eq_refl) as [D|D]; vm_compute in D; discriminate.
  - split; [reflexivity|]. split; vm_compute; reflexivity.
Qed.

(* (3) the other outcomes on concrete inputs: a rejected name, an existing root, a dry run *)
Example rejected_name_instance :
  mkdir_trees cx_cfg (dir_of cx_tc) [] [T (sx [97]) [T (sx [46;46]) []]] = ([], [], Err (EInvalidName (sx [46;46]))).
Proof. vm_compute. reflexivity. Qed.

Example exist_path_instance :
  mkdir_trees cx_cfg (dir_of []) [(sx [97], KDir)] cx_ts2 = ([(sx [97], KDir)], [], Err EExistPath).
Proof. vm_compute. reflexivity. Qed.

(* (4) a NUL byte.  os.Stat rejects a path containing NUL before any system call, whatever
   exists: a root (or a target) with a NUL passes name validation, makes the existence check
   answer "exists", and the call returns the path-exists error with the file system untouched;
   a NUL deeper in the tree is met by os.MkdirAll only: OS error after the directories above
   were made — a partial, confined result. *)
Example nul_root_instance :
  elem_ok (sx [97;0]) = true /\
  stat [] (sx [97;0]) = StErr /\
  mkdir_trees cx_cfg (dir_of []) [] [T (sx [97;0]) [T (sx [98]) []]] = ([], [], Err EExistPath) /\
  mkdir_trees cx_cfg (dir_of [sx [116;0]]) [] cx_ts2 = ([], [], Err EExistPath).
Proof. repeat split; vm_compute; reflexivity. Qed.

Example nul_below_instance :
  mkdir_trees cx_cfg (dir_of []) [] [T (sx [97]) [T (sx [98;0]) []]] = ([(sx [97], KDir)], [], Err EOs).
Proof. vm_compute. reflexivity. Qed.

Print Assumptions mkdir_confined.
Print Assumptions mkdir_confined_any.
Print Assumptions mkdir_confined_fs_ok.
Print Assumptions mkdir_keeps_parents.
Print Assumptions mkdir_never_outside.
Print Assumptions mkdir_new_key_string.
Print Assumptions mkdir_untouched.
Print Assumptions mkdir_error_untouched.
Print Assumptions mkdir_outcomes.
Print Assumptions pmkdir_confined.
Print Assumptions pmdmkdir_confined.
Print Assumptions pmkdir_keeps_parents.
Print Assumptions pmdmkdir_keeps_parents.
Print Assumptions partial_failure_confined.
Print Assumptions fs_parents_needed.
